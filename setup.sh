#!/bin/sh
# Offline setup: verify the tools, parse every specification, byte-compile the harness.
here="$(cd "$(dirname "$0")" && pwd)"
cd "$here" || exit 2
set -e
command -v java >/dev/null
test -f /opt/veriftools/tla/tla2tools.jar
/venv/bin/python -c "import torch, sys; sys.path.insert(0, '${VERIF_REPO:-/repo}'); import plinio"
fail=0
for f in specs/*.tla; do
  m=$(basename "$f" .tla)
  if ! (cd specs && java -cp /opt/veriftools/tla/tla2tools.jar:/opt/veriftools/tla/CommunityModules-deps.jar tla2sany.SANY "$m.tla" > /tmp/sany.$$ 2>&1) || grep -q -E "\*\*\* Errors|Parse Error|Semantic errors|Fatal errors" /tmp/sany.$$; then
    echo "SANY FAILED: $m"; tail -20 /tmp/sany.$$; fail=1
  fi
done
rm -f /tmp/sany.$$
PYTHONDONTWRITEBYTECODE=1 /venv/bin/python - <<'PY'
import pathlib, sys
for p in pathlib.Path('harness').rglob('*.py'):
    compile(p.read_text(), str(p), 'exec')
print("harness compiles")
PY
mkdir -p evidence replays
[ $fail = 0 ] && echo "setup ok"
exit $fail
