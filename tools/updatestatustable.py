#!/venv/bin/python
"""Replace the status table in DESIGN.md (section 9.9) by the current output of tools/statustable.py."""
import os, re, subprocess
root = os.path.dirname(os.path.dirname(os.path.abspath(__file__)))
tab = subprocess.run([f"{root}/tools/statustable.py"], capture_output=True, text=True).stdout
tab = tab[tab.index("| id | level"):].rstrip("\n")
p = f"{root}/DESIGN.md"
s = open(p).read()
m = re.search(r"\| id \| level \|[^\n]*\n(\|[^\n]*\n)+", s)
s = s[:m.start()] + tab + "\n" + s[m.end():]
open(p, "w").write(s)
