#!/venv/bin/python
"""Confirm one seeded change and run the owning check against it.

usage: tools/seedtest.py <src dir with patch.diff demo.py meta.json> <seed id e.g. C16-m1> <PROPERTY> [--tests path ...]
                         [--checks C16,C04] [--tier quick]

Everything happens in a scratch copy of /repo under /tmp that is removed afterwards; /repo is never touched.
Writes /verif/seeded/<seed id>/{patch.diff, demo.py, meta.json} when the change is confirmed
(demo passes without / fails with the change, relevant unit tests keep passing).
"""
import argparse
import json
import os
import re
import shutil
import subprocess
import sys
import time

ap = argparse.ArgumentParser()
ap.add_argument("src")
ap.add_argument("sid")
ap.add_argument("prop")
ap.add_argument("--tests", nargs="*", default=[])
ap.add_argument("--checks", default=None)
ap.add_argument("--tier", default="quick")
ap.add_argument("--keep-unconfirmed", action="store_true")
a = ap.parse_args()

root = os.path.dirname(os.path.dirname(os.path.abspath(__file__)))
scratch = f"/tmp/sd-{a.sid}"
shutil.rmtree(scratch, ignore_errors=True)
shutil.copytree("/repo", scratch, ignore=shutil.ignore_patterns("__pycache__", ".pytest_cache"))
env = dict(os.environ, PYTHONPATH=scratch, OMP_NUM_THREADS="2", PYTHONDONTWRITEBYTECODE="1")
base = json.load(open("/root/.vp/BASELINE.json"))
res = {"seed": a.sid, "property": a.prop}


def sh(cmd, **kw):
    return subprocess.run(cmd, shell=True, cwd=scratch, env=env, capture_output=True, text=True, **kw)


try:
    os.makedirs(f"{scratch}/_seeded/x", exist_ok=True)
    shutil.copy(f"{a.src}/demo.py", f"{scratch}/_seeded/x/demo.py")
    r = sh("/venv/bin/python _seeded/x/demo.py", timeout=1800)
    res["demo_pristine_rc"] = r.returncode
    ap_ = sh(f"git apply --whitespace=nowarn {a.src}/patch.diff")
    if ap_.returncode != 0:
        ap_ = sh(f"patch -p1 -f < {a.src}/patch.diff")
    res["patch_applies"] = ap_.returncode == 0
    if not res["patch_applies"]:
        res["patch_err"] = (ap_.stdout + ap_.stderr)[-500:]
    r = sh("/venv/bin/python _seeded/x/demo.py", timeout=1800)
    res["demo_patched_rc"] = r.returncode
    res["demo_patched_tail"] = (r.stdout + r.stderr)[-300:]
    if a.tests:
        t0 = time.time()
        r = sh("/venv/bin/python -m pytest -q -p no:cacheprovider --timeout=1800 --continue-on-collection-errors -rf "
               + " ".join(a.tests), timeout=7200)
        out = r.stdout + r.stderr
        m = re.search(r"(\d+) passed", out)
        res["tests_passed"] = int(m.group(1)) if m else 0
        failed = re.findall(r"(?m)^FAILED (\S+)", out)
        allowed = set(base["always_fail"])

        def norm(f):
            parts = f.split("::")
            mod = parts[0].replace("/", ".")
            mod = mod[:-3] if mod.endswith(".py") else mod
            return mod + "." + "::".join(parts[1:]) if len(parts) > 1 else "::" + mod
        bad = [f for f in failed if norm(f) not in allowed]
        res["tests_unexpected_failures"] = bad
        res["tests_cmd"] = "pytest " + " ".join(a.tests)
        res["tests_wall_s"] = round(time.time() - t0)
        # expected number of passing tests in those files according to the baseline
        want = 0
        for t in base["stable_pass"]:
            for p in a.tests:
                pm = p.rstrip("/").replace("/", ".").replace(".py", "")
                if t.startswith(pm + ".") or t.startswith(pm + "::"):
                    want += 1
                    break
        res["tests_expected_pass"] = want
    confirmed = (res["demo_pristine_rc"] == 0 and res["patch_applies"] and res["demo_patched_rc"] != 0
                 and (not a.tests or (not res["tests_unexpected_failures"] and res["tests_passed"] >= res["tests_expected_pass"])))
    res["confirmed"] = confirmed
    checks = (a.checks or a.prop).split(",")
    res["checks"] = {}
    for c in checks:
        t0 = time.time()
        e2 = dict(os.environ, VERIF_REPO=scratch, VERIF_OUT_DIR=f"/tmp/sd-out-{a.sid}")
        r = subprocess.run(f"./check {c} --tier {a.tier}", shell=True, cwd=root, env=e2, capture_output=True, text=True)
        lines = [l for l in r.stdout.splitlines() if l.startswith("VIOLATION") or l.startswith("[") or l.startswith("KNOWN") or "MACHINERY" in l]
        lines += [l for l in r.stderr.splitlines() if "MACHINERY" in l]
        res["checks"][c] = {"rc": r.returncode, "wall_s": round(time.time() - t0), "lines": [l[:300] for l in lines[:6]]}
    res["detected"] = any(v["rc"] == 1 for v in res["checks"].values())
finally:
    shutil.rmtree(scratch, ignore_errors=True)
    shutil.rmtree(f"/tmp/sd-out-{a.sid}", ignore_errors=True)
    # restore evidence files of the real tree is the caller's job (checks rewrite evidence)

print(json.dumps(res, indent=1))
if res.get("confirmed") or a.keep_unconfirmed:
    dst = f"{root}/seeded/{a.sid}"
    os.makedirs(dst, exist_ok=True)
    if os.path.realpath(a.src) != os.path.realpath(dst):
        shutil.copy(f"{a.src}/patch.diff", f"{dst}/patch.diff")
        shutil.copy(f"{a.src}/demo.py", f"{dst}/demo.py")
    meta = {}
    try:
        meta = json.load(open(f"{a.src}/meta.json"))
    except Exception:
        pass
    meta.update({"property": a.prop, "seed_id": a.sid,
                 "confirmed_by_framework_author": {k: res.get(k) for k in ("demo_pristine_rc", "demo_patched_rc", "patch_applies",
                                                                            "tests_cmd", "tests_passed", "tests_expected_pass",
                                                                            "tests_unexpected_failures")},
                 "checks_run": res["checks"], "detected": res["detected"]})
    json.dump(meta, open(f"{dst}/meta.json", "w"), indent=1)
sys.exit(0)
