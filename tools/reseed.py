#!/venv/bin/python
"""Re-run every kept seeded change (seeded/<id>/) against the CURRENT checks and refresh its meta.json.

usage: tools/reseed.py [--jobs 3] [--only C01,C08] [--ids C08-r2m3,...]

For each seed: tools/seedtest.py seeded/<id> <id> <property> --checks <owning check + checks run before> --tests <tests of
the first confirmation>.  Logs go to /tmp/seedlogs/final-<id>.json.  Nothing is ever applied to /repo.
"""
import argparse
import concurrent.futures as cf
import json
import os
import subprocess

ROOT = os.path.dirname(os.path.dirname(os.path.abspath(__file__)))
ap = argparse.ArgumentParser()
ap.add_argument("--jobs", type=int, default=3)
ap.add_argument("--only", default="")
ap.add_argument("--ids", default="")
a = ap.parse_args()
only = set(filter(None, a.only.split(",")))
ids = set(filter(None, a.ids.split(",")))
os.makedirs("/tmp/seedlogs", exist_ok=True)


def job(sid):
    d = f"{ROOT}/seeded/{sid}"
    meta = json.load(open(f"{d}/meta.json"))
    prop = sid[:3]
    checks = [prop] + [c for c in meta.get("checks_run", {}) if c != prop and meta["checks_run"][c].get("rc") == 1]
    tests = meta.get("confirmed_by_framework_author", {}).get("tests_cmd", "")
    tests = tests.replace("pytest", "").split()
    cmd = [f"{ROOT}/tools/seedtest.py", d, sid, prop, "--checks", ",".join(checks)]
    if tests:
        cmd += ["--tests"] + tests
    with open(f"/tmp/seedlogs/final-{sid}.json", "w") as f:
        r = subprocess.run(cmd, stdout=f, stderr=subprocess.STDOUT, cwd=ROOT)
    return sid, r.returncode


sids = sorted(s for s in os.listdir(f"{ROOT}/seeded") if os.path.isdir(f"{ROOT}/seeded/{s}"))
sids = [s for s in sids if (not only or s[:3] in only) and (not ids or s in ids)]
with cf.ThreadPoolExecutor(a.jobs) as ex:
    for sid, rc in ex.map(job, sids):
        print(sid, rc, flush=True)
