#!/venv/bin/python
"""Print a markdown status table from tools/registry.json, evidence/*.json and seeded/*/meta.json."""
import json, glob, os
root = os.path.dirname(os.path.dirname(os.path.abspath(__file__)))
reg = json.load(open(f"{root}/tools/registry.json"))["checks"]
kf = json.load(open(f"{root}/known_findings.json"))
seeds = {}
for m in glob.glob(f"{root}/seeded/*/meta.json"):
    d = json.load(open(m))
    pid = d.get("property", "")
    det = any(v.get("rc") == 1 for v in d.get("checks_run", {}).values())
    seeds.setdefault(pid, [0, 0])
    seeds[pid][1] += 1
    seeds[pid][0] += 1 if det else 0
print("| id | level | TLC states (quick) | traces validated | distinct non-trivial | wall (s) | open known findings | seeded changes detected |")
print("|---|---|---|---|---|---|---|---|")
for pid in sorted(reg):
    r = reg[pid]
    try:
        e = json.load(open(f"{root}/evidence/{pid}.json"))
        c = e["coverage"]
        nums = (c.get("states"), c.get("traces_validated_against_impl"), c.get("distinct_nontrivial"), round(e.get("wall_s", 0)))
    except Exception:
        nums = ("-", "-", "-", "-")
    open_f = [f["id"] for f in kf["findings"] if pid in f.get("properties", [])]
    s = seeds.get(pid, [0, 0])
    print(f"| {pid} | {r['level']} | {nums[0]} | {nums[1]} | {nums[2]} | {nums[3]} | {' '.join(open_f) or '-'} | {s[0]}/{s[1]} |")
