#!/bin/bash
# Run every claimed check (quick by default) against /repo and rewrite /verif/evidence; prints one line per check.
tier=${1:-quick}
cd "$(dirname "$0")/.."
for c in $(/venv/bin/python -c "import json; print(' '.join(x['property_id'] for x in json.load(open('MANIFEST.json'))['checks']))"); do
  s=$(date +%s)
  out=$(./check $c --tier $tier 2>/dev/null | grep -E "^\[$c\]|^VIOLATION|MACHINERY" | head -3)
  rc=$?
  echo "$c $(( $(date +%s) - s ))s :: $out"
done
