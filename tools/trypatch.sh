#!/bin/bash
# tools/trypatch.sh <patch.diff> <check id>[,<check id>...] [tier]  - run checks against a scratch copy of /repo with the patch applied
# (nothing is applied to /repo; the scratch copy and its output are removed afterwards)
p=$(realpath "$1"); checks=$2; tier=${3:-quick}
tag=$(basename "$(dirname "$p")")-$$
sc=/tmp/tp-$tag
rm -rf "$sc" "$sc-out"; cp -r /repo "$sc" || exit 2
( cd "$sc" && git apply --whitespace=nowarn "$p" ) || { echo "PATCH DOES NOT APPLY"; rm -rf "$sc"; exit 3; }
cd "$(dirname "$0")/.."
for c in ${checks//,/ }; do
  s=$(date +%s)
  VERIF_REPO=$sc VERIF_OUT_DIR=$sc-out ./check $c --tier $tier > "$sc.log" 2>&1; rc=$?
  echo "== $tag $c rc=$rc $(( $(date +%s) - s ))s"
  grep -E "^VIOLATION|^KNOWN|^\[C|MACHINERY" "$sc.log" | cut -c1-330 | head -${TP_LINES:-5}
  [ $rc = 2 ] && grep -B2 -A12 "Traceback" "$sc.log" | tail -40
done
rm -rf "$sc" "$sc-out" "$sc.log"
