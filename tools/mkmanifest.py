#!/venv/bin/python
"""Regenerate /verif/MANIFEST.json from tools/registry.json (single source) and validate it."""
import json, pathlib, subprocess, sys
root = pathlib.Path(__file__).resolve().parent.parent
reg = json.loads((root / "tools" / "registry.json").read_text())
props = [json.loads(l)["id"] for l in (root / "properties.jsonl").read_text().splitlines() if l.strip()]
checks, na = [], []
for pid in props:
    r = reg["checks"].get(pid)
    if r is None or not r.get("claimed", False):
        na.append({"property_id": pid, "reason": (r or {}).get("reason", reg["default_reason"])})
        continue
    checks.append({
        "property_id": pid,
        "quick_cmd": f"./check {pid} --tier quick",
        "thorough_cmd": f"./check {pid} --tier thorough",
        "evidence_file": f"/verif/evidence/{pid}.json",
        "replay_cmd_template": f"./check {pid} --replay {{path}}",
        "engine": "tlc",
        "level_claimed": {"category": r["level"], "text": r["text"], "design_ref": r.get("design_ref", f"DESIGN.md section 5, {pid}")},
        "level_note": r["note"],
        "technique": r["technique"],
    })
for e in reg["engines"]:
    e["serves_properties"] = [c["property_id"] for c in checks]
man = {
    "version": 1,
    "setup_cmd": "./setup.sh",
    "hooks": reg["hooks"],
    "engines": reg["engines"],
    "checks": checks,
    "notes": reg["notes"],
    "not_applicable": na,
}
(root / "MANIFEST.json").write_text(json.dumps(man, indent=1) + "\n")
pr = subprocess.run(["python3-vt", "-c", "import json,jsonschema,sys; jsonschema.validate(json.load(open(sys.argv[1])), json.load(open('/root/.vp/MANIFEST.schema.json'))); print('MANIFEST valid:', sys.argv[2], 'claimed,', sys.argv[3], 'not claimed')",
                     str(root / "MANIFEST.json"), str(len(checks)), str(len(na))])
sys.exit(pr.returncode)
