#!/venv/bin/python
"""Summarise /verif/seeded/*/meta.json into /verif/seeded/RESULTS.md (which check caught which seeded change)."""
import glob, json, os
root = os.path.dirname(os.path.dirname(os.path.abspath(__file__)))
rows = []
for m in sorted(glob.glob(f"{root}/seeded/*/meta.json")):
    d = json.load(open(m))
    sid = d.get("seed_id", os.path.basename(os.path.dirname(m)))
    checks = d.get("checks_run", {})
    det = [c for c, v in checks.items() if v.get("rc") == 1]
    first = ""
    for c in det:
        for l in checks[c].get("lines", []):
            if l.startswith("VIOLATION"):
                first = l.split("#", 1)[-1].strip()[:140]
                break
        if first:
            break
    rows.append((sid, d.get("property", ""), (d.get("summary") or "")[:160].replace("|", "/").replace("\n", " "),
                 (d.get("needs") or "")[:140].replace("|", "/").replace("\n", " "),
                 ", ".join(det) if det else "MISSED" if checks else "not run", first.replace("|", "/")))
out = ["# Seeded changes (independently written, confirmed in a scratch copy) and what detected them", "",
       "| id | property | change | needs | detected by | first clause reported |", "|---|---|---|---|---|---|"]
for r in rows:
    out.append("| " + " | ".join(r) + " |")
n = len(rows)
k = sum(1 for r in rows if r[4] not in ("MISSED", "not run"))
out += ["", f"{k} of {n} confirmed seeded changes are detected by the owning check (quick tier)."]
open(f"{root}/seeded/RESULTS.md", "w").write("\n".join(out) + "\n")
print(f"{k}/{n}")
