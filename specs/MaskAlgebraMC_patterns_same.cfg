SPECIFICATION Spec
CONSTANTS
  Anchor = "last"
  Mode = "patterns"
  KMaxV = 5
  KMaxP = 12
INVARIANT ExportEquivalentSame
