----------------------------- MODULE MaskAlgebra -----------------------------
(***************************************************************************)
(* PIT mask algebra (properties C01, C08, C04, C12).                        *)
(*                                                                         *)
(* Magnitudes |alpha|, |beta|, |gamma| are integers in units of 0.1; the   *)
(* binarisation threshold 0.5 is Thr = 5 (strict >, as PITBinarizer).      *)
(* BIG stands for "huge" (1e30).  Taps of a Conv1d kernel are 0..K-1; tap  *)
(* K-1 reads the current sample when the layer is causally (left-)padded.  *)
(*                                                                         *)
(*  * channel mask : theta_a[c] = |alpha_c|, keep-alive on the LAST channel *)
(*  * rf mask      : theta_b[j] = sum_{i<=j} kab_i, keep-alive on the LAST  *)
(*                   beta (tap K-1)              => a SUFFIX of the taps   *)
(*  * dilation mask: theta_g[j] = sum_{i : 2^i | x(j)} kag_i, keep-alive on *)
(*                   the LAST gamma              => a power-of-two COMB    *)
(*    anchor = "last": x(j) = K-1-j (comb anchored at tap K-1, the         *)
(*                     repaired code), "tap0": x(j) = j (pinned code: the  *)
(*                     flip of c_gamma is commented out - finding F01).    *)
(* Variable-free operator library.                                         *)
(***************************************************************************)
EXTENDS Naturals, Integers, Sequences, FiniteSets

Thr == 5
One == 10
BIG == 100000000

RECURSIVE CeilLog2(_)
CeilLog2(n) == IF n <= 1 THEN 0 ELSE 1 + CeilLog2((n + 1) \div 2)
GLen(K) == IF CeilLog2(K) < 1 THEN 1 ELSE CeilLog2(K)     \* len(gamma) = max(ceil(log2 K), 1)

RECURSIVE SumF(_, _)
SumF(f, S) == IF S = {} THEN 0 ELSE LET x == CHOOSE x \in S : TRUE IN f[x] + SumF(f, S \ {x})

(* --- channel masks ------------------------------------------------------ *)
\* a: function 1..W -> magnitude; the keep-alive channel is the last one
ThetaAlpha(W, a) == [c \in 1..W |-> IF c = W THEN One ELSE a[c]]
AliveCh(W, a)    == {c \in 1..W : ThetaAlpha(W, a)[c] > Thr}

(* --- receptive-field mask ----------------------------------------------- *)
KaBeta(K, b)    == [i \in 0..K-1 |-> IF i = K - 1 THEN One ELSE b[i]]
ThetaBeta(K, b) == [j \in 0..K-1 |-> SumF(KaBeta(K, b), 0..j)]
BinBeta(K, b)   == {j \in 0..K-1 : ThetaBeta(K, b)[j] > Thr}

(* --- dilation mask ------------------------------------------------------ *)
KaGamma(K, g) == [i \in 0..GLen(K)-1 |-> IF i = GLen(K) - 1 THEN One ELSE g[i]]
X(anchor, K, j) == IF anchor = "tap0" THEN j ELSE K - 1 - j
ThetaGamma(anchor, K, g) ==
    [j \in 0..K-1 |-> SumF(KaGamma(K, g), {i \in 0..GLen(K)-1 : X(anchor, K, j) % (2^i) = 0})]
BinGamma(anchor, K, g) == {j \in 0..K-1 : ThetaGamma(anchor, K, g)[j] > Thr}

(* --- product mask and exported geometry --------------------------------- *)
Kept(anchor, K, b, g) == BinBeta(K, b) \cap BinGamma(anchor, K, g)
KOpt(anchor, K, b, g) == Cardinality(Kept(anchor, K, b, g))

\* longest run of consecutive taps NOT in S
RECURSIVE LongestRun(_, _, _, _, _)
LongestRun(S, K, j, cur, best) ==
    IF j = K THEN (IF cur > best THEN cur ELSE best)
    ELSE IF j \in S THEN LongestRun(S, K, j + 1, 0, IF cur > best THEN cur ELSE best)
         ELSE LongestRun(S, K, j + 1, cur + 1, best)
DilOpt(anchor, K, g, d0) == (LongestRun(BinGamma(anchor, K, g), K, 0, 0, 0) + 1) * d0

\* i-th (0-based) smallest element of a finite set of naturals
RECURSIVE Nth(_, _)
Min(S) == CHOOSE x \in S : \A y \in S : x <= y
Nth(S, i) == IF i = 0 THEN Min(S) ELSE Nth(S \ {Min(S)}, i - 1)
SortedSeq(S) == [i \in 1..Cardinality(S) |-> Nth(S, i - 1)]

(***************************************************************************)
(* Export equivalence on the time axis.  The masked layer, left-padded by  *)
(* (K-1)*d0, reads for kept tap j the sample  t - (K-1-j)*d0.  The exported *)
(* layer with k taps, dilation d and left padding (k-1)*d reads for its    *)
(* tap i the sample  t - (k-1-i)*d.  With the weights as uninterpreted     *)
(* symbols the two are the same function iff the offsets agree tap by tap. *)
(* taps = ascending sequence of the original tap of each exported tap.     *)
(***************************************************************************)
TermsEqualObs(K, d0, taps, k, d, pad) ==
    /\ Len(taps) = k
    /\ pad = (k - 1) * d
    /\ \A i \in 1..k : (k - i) * d = (K - 1 - taps[i]) * d0

(* padding='same' (the other layout plinio's README recommends for a searched Conv1d): torch pads          *)
(* total = d*(k-1) samples, total \div 2 on the left.  Tap j (0-based) of the masked kernel reads            *)
(* x[t + j*d0 - SameLeft(K, d0)]; tap i (1-based) of the exported one reads x[t + (i-1)*d - SameLeft(k, d)]. *)
SameLeft(k, d) == (d * (k - 1)) \div 2
TermsEqualSameObs(K, d0, taps, k, d) ==
    /\ Len(taps) = k
    /\ \A i \in 1..k : (i - 1) * d - SameLeft(k, d) = taps[i] * d0 - SameLeft(K, d0)
\* explicit padding in front of an un-padded layer, L0 / L1 samples on the left before / after export
TermsEqualPadObs(K, d0, L0, taps, k, d, L1) ==
    /\ Len(taps) = k
    /\ \A i \in 1..k : (i - 1) * d - L1 = taps[i] * d0 - L0
TermsEqualSame(anchor, K, b, g, d0) ==
    LET T == Kept(anchor, K, b, g)
        k == Cardinality(T)
        d == DilOpt(anchor, K, g, d0)
    IN  k >= 1 /\ TermsEqualSameObs(K, d0, SortedSeq(T), k, d)

TermsEqual(anchor, K, b, g, d0) ==
    LET T == Kept(anchor, K, b, g)
        k == Cardinality(T)
        d == DilOpt(anchor, K, g, d0)
    IN  k >= 1 /\ TermsEqualObs(K, d0, SortedSeq(T), k, d, (k - 1) * d)

\* the reachable binarised patterns are exactly  suffix x power-of-two comb anchored at tap K-1
IsSuffixComb(K, T) ==
    \E c \in 0..K-1, m \in 0..GLen(K)-1 : T = {j \in c..K-1 : (K - 1 - j) % (2^m) = 0}

\* abstract value domain for magnitudes: 0, 0.3, 0.6, 1, huge
V == {0, 3, 6, 10, BIG}

\* "pattern" parameterisation: beta open from tap `cut`, gamma open from level `lev`
BetaOfCut(K, cut)  == [i \in 0..K-1 |-> IF i >= cut THEN One ELSE 0]
GammaOfLev(K, lev) == [i \in 0..GLen(K)-1 |-> IF i >= lev THEN One ELSE 0]
=============================================================================
