SPECIFICATION Spec
CONSTANTS
  Impl = "asis"
  ExcludeKF = TRUE
  KindSet = {"layer", "ubm"}
  NBrSet = {2}
  MaxBlocks = 1
  UseSet = {1}
  PoolSet = {FALSE}
  GumbelSet = {FALSE}
  HardSet = {TRUE}
  BigN = 0
  Acts = {"SetAlpha"}
  D = 4
  NameFamily = "collide"
  NameImpl = "sn"
  SampleImpl = "ref"
  ForkImpl = "ref"
INVARIANT C06_FullCostAllFixed
