SPECIFICATION Spec
CONSTANTS
  Dim = 2
  MaxNodes = 2
  MinNodes = 2
  Widths = {3}
  LinWidths = {2}
  Ks = {3}
  BNs = {FALSE}
  C0 = 3
  Sp0 = 4
  AllowRelu = FALSE
  AllowPool = FALSE
  AllowAdd = FALSE
  AllowDw = FALSE
  AllowReuse = FALSE
  PMs = {"zeros"}
  Ds = {1}
  Ss = {1}
  Biases = {TRUE}
  Batches = {1, 4}
  Alphabet = "export"
  FwdImpl = "plain"
  ForkImpl = "own"
  ExpImpl = "memo"
  TupMode = "one"
  WType = "pl"
  SelMode = "rot"
  MaxHist = 3
  Walk = "fixed"
  Lin = "fixed"
  GuardF40 = FALSE
  GuardF05 = TRUE
  GuardReuse = TRUE
INVARIANT InvExportCurrent
