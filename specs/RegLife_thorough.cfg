SPECIFICATION Spec
CONSTANTS
  Impl = "live"
  MaxHist = 4
INVARIANT ApplyIsCurrent
INVARIANT HistOk
INVARIANT BaseLinear
INVARIANT ExactAttr
