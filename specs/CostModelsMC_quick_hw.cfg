SPECIFICATION Spec
CONSTANTS
  Models = {"gap8_latency", "ne16_latency", "diana_latency"}
  CinLo = 4
  CinHi = 4
  CinStep = 1
  CinExtra = {5, 64, 65, 68, 512, 516}
  CoutLo = 4
  CoutHi = 4
  CoutStep = 1
  CoutExtra = {7, 16, 17, 128, 129, 132, 520}
  KSet = {1, 3, 7}
  OSet = {1, 3, 4, 17}
  WSet = {0, 2, 4, 8}
  ASet = {2, 4, 8}
INVARIANT AllDefined
INVARIANT NonNegative
INVARIANT PositiveNonEmpty
INVARIANT DwIsGenericPerGroup
INVARIANT HelpersExact
INVARIANT RejectsUnsupported
INVARIANT BigSound
PROPERTY Monotone
PROPERTY HelpersMonotone
