SPECIFICATION Spec
CONSTANTS
  Kind = "mps"
  Smp = "asis"
  SumSamples = FALSE
  ExpSamples = FALSE
  OptImpl = "pinned"
  Ctor = "bare"
  N = 2
  Chans = 1
  Temps = {"lo", "mid", "hi"}
  Acts = {"temp", "hard", "gumbel", "disable", "mode", "fwd", "alpha", "load", "summary", "export"}
  Writes = {"copy", "data", "optim"}
  Ckpts = {"soft", "onehot"}
  Moves = "all"
  InitAlpha = "ctor"
  CtorOpts = "all"
  AllowKF = FALSE
  Grads = {TRUE, FALSE}
  SelHows = {}
INVARIANT TypeOK
INVARIANT SampledIsProb
INVARIANT OneHotAtArgmax
INVARIANT GumbelTraining
INVARIANT SoftKeepsWinner
INVARIANT ReportIsArgmax
INVARIANT ExportIsArgmax
INVARIANT ReportIsExport
INVARIANT ForwardSamples
PROPERTY DisabledKeeps
PROPERTY ThetaOnlyBySampling
PROPERTY AlphaOnlyByWrites
