SPECIFICATION Spec
CONSTANTS
  Impl = "pinned"
  Kind = "mps"
  Temps = {500, 1000}
  Hetero = FALSE
  Part = "all"
  Dims = {"features", "rf", "dilation", "dc"}
  HOpts = {"temp", "hard", "gumbel", "disable"}
  Forking = FALSE
PROPERTY OthersKept
