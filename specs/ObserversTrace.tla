--------------------------- MODULE ObserversTrace ---------------------------
(***************************************************************************)
(* Trace validation for C18.  One trace = one call sequence executed on a  *)
(* real PIT / MPS / SuperNet object, together with the SAME sequence with  *)
(* every observer call erased executed on a second object built by the     *)
(* same factory:                                                           *)
(*   [kind, variant, hard, fc, hasbn,                                        *)
(*    init  |-> OBS            after construction + the usual forward pass *)
(*    twins |-> << [cs, cost, costv] >>  the same model CONSTRUCTED with   *)
(*                              each other cost specification (same core)  *)
(*    ev    |-> << [act, obs, ret, err, rngadv, ref |-> [has, obs]] >> ]   *)
(* act = call record of specs/Observers.tla (all fields present)           *)
(* OBS = observer-neutral fingerprint (harness/ckobs.py: read-only facts   *)
(*       from the live object, everything executed on faithful copies);    *)
(*       every observed value is an integer id, equal ids = equal values:  *)
(*   pnet, pnas   bytes of the network / architectural parameters          *)
(*   bbn, bth, bother  bytes of the BatchNorm statistics / stored sampled  *)
(*                coefficients / all other buffers;  keys = state_dict keys*)
(*   nbt          num_batches_tracked;  hasbn                              *)
(*   wt, st, bnst, rt, uni, flags   .training of the wrapper; of the layers  *)
(*                of the inner model that compute (leaf modules other than *)
(*                BatchNorm), of its BatchNorm layers, of the inner model  *)
(*                object itself, of all its modules ("T"|"F"|"mixed"|"-"); *)
(*                flags = id of the complete per-module vector             *)
(*   rg           requires_grad vector (id)                                *)
(*   theta        "-" | "soft" | "hard"  class of the stored coefficients  *)
(*   thv          id of the bytes of all stored theta_alpha tensors        *)
(*   out, oute    output on a fixed batch in the current modes / in eval   *)
(*                mode (id of the round-off cluster; outx, outex exact)    *)
(*   cost, costv  every cost value under the current specification         *)
(*   costfin      all of them finite and >= 0;  sum = summary();  cs       *)
(*   fperr        "" or the exception cost / summary / forward raised      *)
(*   opt          options as stored in the model, aggregated over its      *)
(*                quantisers / combiners ("T"|"F"|"mixed"|"-"; temp x 1000)*)
(*                and samp = the sampler in force, classified by behaviour *)
(*                ("sm"|"gs"|"none"); PIT: the four getters                *)
(*   optv         id of the complete per-module option / sampler vector    *)
(*   glink        id of the autograd link of the stored coefficients: per   *)
(*                quantiser / combiner, requires_grad of theta_alpha and   *)
(*                the gradient of a fixed functional of it w.r.t. alpha;   *)
(*                glrg = aggregate "T"|"F"|"mixed"|"-"                     *)
(*   copy_ok      the model can be deep-copied (strict copy.deepcopy that   *)
(*                only detaches non-leaf tensors)                          *)
(*   dkeys        id of {module name -> PUBLIC keys of vars(module)}       *)
(* dk  = [new, del |-> << [m |-> module type, k |-> key, nas |-> the module *)
(*       is a searchable layer / quantiser / combiner] >>, nnew, ndel]     *)
(*       what the call did to the public attribute key sets                *)
(* ret = what the call returned: [k |-> "cost", a |-> value id, b |-> index*)
(*       in costv] | [k |-> "sum", a] | [k |-> "export", a |-> structure,  *)
(*       b |-> weights, c |-> eval output] | [k |-> "none"]                *)
(* ref = fingerprint of the erased run after the same non-observer call    *)
(*                                                                         *)
(* Property clauses (VIOLATION):                                           *)
(*   raises       a call of the alphabet raised                            *)
(*   neutral      an observer call changed a fingerprint component         *)
(*   options      an observer call changed an option (as stored in any     *)
(*                quantiser / combiner / PIT layer) or the sampler in force*)
(*   gradlink     an observer call changed the autograd link of the stored *)
(*                coefficients; or a cost read (requires_grad, gradient    *)
(*                w.r.t. every parameter) differs from the same read on    *)
(*                the gradient twin  tw = [has, a, rg, g]  (an object that  *)
(*                made the non-observer calls and the cost reads only)     *)
(*   usable       after an observer call the model can no longer be        *)
(*                deep-copied, or vars() of a module has another public    *)
(*                key set than before the call                             *)
(*   setter       cost_specification := c changed anything but the costs   *)
(*   erasure      after a non-observer call the run with observers and the *)
(*                run without differ                                       *)
(*   cost-fn      equal core and equal specification but different costs   *)
(*                (covers "switching the specification and switching it    *)
(*                back", and the twins constructed with the other spec)    *)
(*   export-fn    two export() calls on equal parameters/buffers returned  *)
(*                different networks                                       *)
(* Known-finding signatures (evaluated here):                              *)
(*   F16  export() flipped the seed from train to eval mode, the wrapper   *)
(*        kept its mode, and nothing changed that this does not explain    *)
(*   F35  MPS export() overwrote the stored theta_alpha (soft -> one-hot)  *)
(*        and nothing changed that this does not explain                   *)
(*   F36  MPS cost / get_cost: MPSAdd.get_cost updates its own vars(self)  *)
(*        inside a vmap'ed function: new keys in_precision, in_format,     *)
(*        in_channels, out_channels, output_shape on MPSAdd modules and a  *)
(*        dead BatchedTensor that makes deep copies / pickling fail        *)
(*   F37  cost / get_cost update vars(layer) of layers that are not        *)
(*        searchable (fixed layers under full_cost, SuperNet branch        *)
(*        layers): new key output_shape on the user's layers               *)
(*   F38  SuperNet export(): the stored theta_alpha of the combiners is     *)
(*        overwritten by the conversion's eval-mode forward (visible when  *)
(*        it was a Gumbel sample or predates an option change)             *)
(*   F39  export() restores one flag for the whole inner model: modules     *)
(*        whose flag differed from seed.training are flipped               *)
(* Prediction clauses (drift): mode / coefficient class / BN counter after *)
(* forward, train(), eval() as RefNext computes them from the previous     *)
(* observation; returned value = fingerprint value.                        *)
(***************************************************************************)
EXTENDS Observers, Json, IOUtils, TLC

Traces == JsonDeserialize(IOEnv.TRACE_FILE)

VARIABLES tid, verdict

Idx(s) == DOMAIN s

OK == <<0, "ok">>
Lvl(v) == v[1]
Worse(a, b) == IF Lvl(b) > Lvl(a) THEN b ELSE a        \* keeps the FIRST verdict of the highest level
Viol(msg)  == <<3, msg>>
Known(msg) == <<2, msg>>
Drift(msg) == <<1, msg>>

\* fingerprint components
ParamF == {"pnet", "pnas"}
BufF   == {"bbn", "bth", "bother", "keys", "nbt"}
ModeF  == {"wt", "st", "bnst", "rt", "uni", "flags"}
OutF   == {"out", "oute"}
CostF  == {"cost", "costfin"}
UseF   == {"copy_ok", "dkeys"}
OptF   == {"optv"}
GradF  == {"glink"}
AllF   == ParamF \cup BufF \cup ModeF \cup OutF \cup CostF \cup UseF \cup OptF \cup GradF \cup {"rg", "theta", "thv", "sum"}

Changed(p, o) == {f \in AllF : p[f] # o[f]}

\* what each known finding explains
F16Fields == {"st", "flags", "out"}
F35Fields == {"bth", "theta", "thv", "cost"}
\* ... and their consequences at later calls (the seed stays in eval mode: no BatchNorm update, hard coefficients)
F16Later  == {"st", "flags", "out", "oute", "bbn", "nbt", "bth", "theta", "thv", "cost"}
F35Later  == {"bth", "theta", "thv", "cost"}

F36Fields == {"copy_ok", "dkeys"}
F37Fields == {"dkeys"}
F36Keys   == {"in_precision", "in_format", "in_channels", "out_channels", "output_shape"}

Range(q) == {q[i] : i \in DOMAIN q}
IsF36Key(x) == x.m = "MPSAdd" /\ x.k \in F36Keys
IsF37Key(x) == ~x.nas /\ x.k = "output_shape"
\* signatures: a cost call whose only effect on the attribute key sets is the named one
F36Sig(kind, e) == /\ kind = "mps" /\ e.act.a \in {"cost", "getcost"} /\ e.dk.ndel = 0 /\ e.dk.nnew > 0
                   /\ \E x \in Range(e.dk.new) : IsF36Key(x)
                   /\ \A x \in Range(e.dk.new) : IsF36Key(x) \/ IsF37Key(x)
F37Sig(e) == /\ e.act.a \in {"cost", "getcost"} /\ e.dk.ndel = 0 /\ e.dk.nnew > 0
             /\ \A x \in Range(e.dk.new) : IsF37Key(x)

\* F38: SuperNet.export() runs the shape propagation on the live seed: every combiner re-samples its theta_alpha (a
\* plain attribute, used by cost) in eval mode with the options in force NOW
F38Fields == {"theta", "thv", "cost"}
F38Sig(kind, a, p, o) == kind = "sn" /\ a.a = "export" /\ p.thv # o.thv

\* F39: export() restores the mode of the inner model from ONE flag (seed.training): when the flags of its modules were
\* not all equal before the call (SuperNet right after construction: fx container modules True, layers False; BatchNorm
\* layers frozen individually with .eval()), afterwards they all carry the flag the inner model object had
F39Fields == {"st", "bnst", "uni", "flags", "out", "oute"}
F39Later  == {"st", "bnst", "uni", "flags", "out", "oute", "bbn", "nbt"}
F39Sig(a, p, o) == /\ a.a = "export" /\ p.uni = "mixed" /\ o.rt = p.rt /\ o.wt = p.wt
                   /\ o.uni = (IF p.rt THEN "T" ELSE "F")

F16Sig(a, p, o) == a.a = "export" /\ p.st = "T" /\ o.st = "F" /\ o.wt = p.wt
F35Sig(kind, a, p, o) == kind = "mps" /\ a.a = "export" /\ p.theta = "soft" /\ o.theta = "hard" /\ p.bth # o.bth

ActStr(a) == IF a.a = "export" THEN (IF a.nobn THEN "export(add_bn=False)" ELSE "export()")
             ELSE IF a.a = "getcost" THEN "get_cost(" \o a.n \o ")"
             ELSE IF a.a = "setcs" THEN "cost_specification:=" \o a.c \o (IF a.how = "f" THEN "(fresh object)" ELSE IF a.how = "i" THEN "(own object, in place)" ELSE "")
             ELSE IF a.a = "mode" THEN (IF a.v THEN "train()" ELSE "eval()")
             ELSE IF a.a = "seedmode" THEN (IF a.v THEN "seed.train()" ELSE "seed.eval()")
             ELSE IF a.a = "upd" THEN "option " \o a.o \o ":=" \o ToString(a.v)
             ELSE a.a

(***************************************************************************)
(* one observer call                                                       *)
(***************************************************************************)
ObserverVerdict(kind, e, p, where) ==
    LET a   == e.act
        o   == e.obs
        ch  == Changed(p, o)
        s16 == F16Sig(a, p, o)
        s35 == F35Sig(kind, a, p, o)
        s36 == F36Sig(kind, e)
        s37 == F37Sig(e)
        s38 == F38Sig(kind, a, p, o)
        s39 == F39Sig(a, p, o)
        expl == (IF s39 THEN F39Fields ELSE {}) \cup (IF s16 THEN F16Fields ELSE {}) \cup (IF s35 THEN F35Fields ELSE {}) \cup (IF s38 THEN F38Fields ELSE {})
                \cup (IF s36 THEN F36Fields ELSE {}) \cup (IF s37 THEN F37Fields ELSE {})
        bad  == ch \ expl
    IN  IF ch = {} THEN OK
        ELSE IF bad = {} /\ s16
        THEN Known("known:F16:C18.neutral: export() leaves the inner model in eval mode while the wrapper stays in "
                   \o "training mode (" \o where \o ": changed " \o ToString(ch) \o ")")
        ELSE IF bad = {} /\ s35
        THEN Known("known:F35:C18.neutral: MPS.export() overwrites the stored theta_alpha with the eval-mode one-hot "
                   \o "sample; cost / state_dict differ until the next forward (" \o where \o ": changed "
                   \o ToString(ch) \o ")")
        ELSE IF bad = {} /\ s39
        THEN Known("known:F39:C18.neutral: export() restores the mode of the inner model from one flag: modules whose flag "
                   \o "differed from seed.training (fx containers of a fresh SuperNet, individually frozen BatchNorm layers) "
                   \o "are flipped (" \o where \o ": layers " \o p.st \o "->" \o o.st \o ", BatchNorm " \o p.bnst \o "->" \o o.bnst
                   \o ", changed " \o ToString(ch) \o ")")
        ELSE IF bad = {} /\ s38
        THEN Known("known:F38:C18.neutral: SuperNet.export() re-samples the stored theta_alpha of every combiner (eval-mode "
                   \o "sample with the options in force now); cost / get_cost differ after export() until the next forward ("
                   \o where \o ": changed " \o ToString(ch) \o ")")
        ELSE IF bad = {} /\ s36
        THEN Known("known:F36:C18.usable: MPSAdd.get_cost writes into its own vars(self) inside a vmap'ed function: "
                   \o (IF ~o.copy_ok THEN "the model can no longer be deep-copied / pickled and " ELSE "")
                   \o ToString(e.dk.nnew) \o " attribute(s) appear on modules (" \o where \o ": " \o ToString(e.dk.new) \o ")")
        ELSE IF bad = {} /\ s37
        THEN Known("known:F37:C18.usable: the cost computation updates vars(layer) of layers that are not searchable: "
                   \o ToString(e.dk.nnew) \o " new attribute(s) 'output_shape' on the user's layers (" \o where \o ": "
                   \o ToString(e.dk.new) \o ")")
        ELSE IF bad \subseteq UseF
        THEN Viol("C18.usable at " \o where \o ": after the observer call "
                  \o (IF "copy_ok" \in bad THEN "the model can no longer be deep-copied; " ELSE "")
                  \o (IF "dkeys" \in bad THEN "vars() of modules changed: new " \o ToString(e.dk.new) \o " removed " \o ToString(e.dk.del)
                      ELSE ""))
        ELSE IF bad = {"glink"}
        THEN Viol("C18.gradlink at " \o where \o ": after the observer call the coefficients stored in the model have the same "
                  \o "values but another autograd link to the architectural parameters (stored theta requires grad: "
                  \o p.glrg \o " -> " \o o.glrg \o "): cost.backward() no longer reaches them the same way")
        ELSE IF "optv" \in bad
        THEN Viol("C18.options at " \o where \o ": observer call changed the options / the sampler in force: before "
                  \o ToString(p.opt) \o " after " \o ToString(o.opt)
                  \o (IF bad \ {"optv"} # {} THEN " (and " \o ToString(bad \ {"optv"}) \o ")" ELSE ""))
        ELSE Viol("C18.neutral at " \o where \o ": observer call changed " \o ToString(bad \ UseF)
                  \o (IF ch \ (bad \ UseF) # {} THEN " (besides " \o ToString(ch \ (bad \ UseF)) \o ")" ELSE ""))

(***************************************************************************)
(* one non-observer call: frame of the setter, erasure                     *)
(***************************************************************************)
SetterVerdict(a, p, o, where) ==
    IF a.a # "setcs" THEN OK
    ELSE LET ch == Changed(p, o) \ {"cost"}
         IN IF ch # {} THEN Viol("C18.setter at " \o where \o ": changed " \o ToString(ch))
            ELSE IF o.cs # a.c THEN Viol("C18.setter at " \o where \o ": specification in force is " \o o.cs)
            ELSE OK

TaintExplains(taint) == (IF "F16" \in taint THEN F16Later ELSE {}) \cup (IF "F35" \in taint THEN F35Later ELSE {})
                        \cup (IF "F36" \in taint THEN F36Fields ELSE {}) \cup (IF "F37" \in taint THEN F37Fields ELSE {})
                        \cup (IF "F38" \in taint THEN F38Fields ELSE {}) \cup (IF "F39" \in taint THEN F39Later ELSE {})

\* the finding an erasure mismatch is attributed to: the first (in this order) that explains one of the differing fields
TaintId(taint, ch) ==
    IF "F16" \in taint /\ ch \cap F16Later # {} THEN "F16"
    ELSE IF "F35" \in taint /\ ch \cap F35Later # {} THEN "F35"
    ELSE IF "F39" \in taint /\ ch \cap F39Later # {} THEN "F39"
    ELSE IF "F38" \in taint /\ ch \cap F38Fields # {} THEN "F38"
    ELSE IF "F36" \in taint /\ ch \cap F36Fields # {} THEN "F36"
    ELSE "F37"

\* a cost read on the live model: requires_grad and gradient w.r.t. every parameter, against the same read on the
\* gradient twin (an object that made the same non-observer calls and cost reads, but no other observer call)
GradTwinVerdict(e, taint, where) ==
    IF ~e.tw.has \/ e.ret.k # "cost" THEN OK
    ELSE IF e.ret.rg = e.tw.rg /\ e.ret.g = e.tw.g /\ e.ret.a = e.tw.a THEN OK
    ELSE IF taint # {} THEN OK          \* (an open known finding upstream is reported where it happens)
    ELSE IF e.ret.rg # e.tw.rg
    THEN Viol("C18.gradlink at " \o where \o ": the cost read after the observer calls has requires_grad = " \o ToString(e.ret.rg)
              \o ", the same read on a twin that made no other observer call has " \o ToString(e.tw.rg))
    ELSE IF e.ret.g # e.tw.g
    THEN Viol("C18.gradlink at " \o where \o ": the gradient of the cost w.r.t. the parameters differs from the one on a twin that "
              \o "made no other observer call")
    ELSE Viol("C18.cost-fn at " \o where \o ": the cost value read differs from the one read on a twin that made no other observer "
              \o "call and uses the built-in specification objects")

ErasureVerdict(e, taint, where) ==
    IF ~e.ref.has THEN OK
    ELSE LET ch == Changed(e.ref.obs, e.obs) \cup (IF e.ref.obs.cs # e.obs.cs THEN {"cs"} ELSE {})
         IN IF ch = {} THEN OK
            ELSE IF e.act.a = "setcs" /\ e.act.how # "s" /\ ch = {"cost"}
            THEN Viol("C18.setter at " \o where \o ": the costs after cost_specification := "
                      \o (IF e.act.how = "f" THEN "a freshly constructed specification object" ELSE "the user's specification object completed in place")
                      \o " differ from the costs with the built-in object of the same contents (" \o e.act.c \o ")")
            ELSE IF taint # {} /\ ch \subseteq TaintExplains(taint)
            THEN Known("known:" \o TaintId(taint, ch) \o ":C18.erasure: after an earlier observer call "
                       \o "the run differs from the run without observer calls (" \o where \o ": " \o ToString(ch) \o ")")
            ELSE Viol("C18.erasure at " \o where \o ": the run with observer calls and the run without differ in "
                      \o ToString(ch \ TaintExplains(taint)))

(***************************************************************************)
(* predictions (never an alarm)                                            *)
(***************************************************************************)
PredVerdict(kind, hasbn, e, p, where) ==
    LET a == e.act
        o == e.obs
        r == e.ret
    IN  IF r.k = "cost" /\ (r.b \notin Idx(p.costv) \/ p.costv[r.b] # r.a)
        THEN Drift("drift:returned cost differs from the cost of the copied model at " \o where)
        ELSE IF r.k = "sum" /\ r.a # p.sum
        THEN Drift("drift:returned summary differs from the summary of the copied model at " \o where)
        ELSE IF a.a = "upd"
        THEN LET val  == IF a.o = "temp" THEN o.opt.temp = a.v ELSE o.opt[a.o] = (IF a.v = 1 THEN "T" ELSE "F")
                 kept == \A f \in DOMAIN p.opt \ {a.o, "samp"} : o.opt[f] = p.opt[f]
                 msamp == IF kind = "mps"
                          THEN SamplerOf(kind, [gumbel |-> o.opt.gumbel = "T", disable |-> o.opt.disable = "T"])
                          ELSE p.opt.samp
             IN IF ~val THEN Drift("drift:option " \o a.o \o " does not read back the value set at " \o where \o ": " \o ToString(o.opt))
                ELSE IF ~kept THEN Drift("drift:an option call changed another option at " \o where \o ": before "
                                          \o ToString(p.opt) \o " after " \o ToString(o.opt))
                ELSE IF o.opt.samp # msamp THEN Drift("drift:sampler in force " \o o.opt.samp \o ", options select " \o msamp \o " at " \o where)
                ELSE IF o.wt # p.wt \/ o.st # p.st \/ o.theta # p.theta \/ o.nbt # p.nbt
                THEN Drift("drift:an option call changed modes / stored coefficients / BatchNorm counter at " \o where)
                ELSE OK
        ELSE IF a.a \in {"forward", "mode", "seedmode", "freezebn"} /\ p.st \notin {"mixed", "-"} /\ p.bnst # "mixed" /\ p.opt.hard # "mixed" /\ p.opt.samp \notin {"mixed", "?"}
        THEN LET c  == [wt |-> p.wt, st |-> p.st = "T", frz |-> (p.st = "T" /\ p.bnst = "F"), theta |-> p.theta, bn |-> p.nbt,
                        opt |-> [hard |-> p.opt.hard = "T"], samp |-> p.opt.samp]
                 P  == [hasbn |-> hasbn, maxbn |-> p.nbt + 1]
                 n  == RefNext(kind, P, c, a)
             IN IF o.wt # n.wt \/ o.st # (IF n.st THEN "T" ELSE "F") \/ o.theta # n.theta \/ o.nbt # n.bn
                   \/ (o.bnst # "-" /\ o.bnst # (IF n.st /\ ~n.frz THEN "T" ELSE "F"))
                THEN Drift("drift:core after " \o ActStr(a) \o " at " \o where \o ": observed "
                           \o ToString(<<o.wt, o.st, o.bnst, o.theta, o.nbt>>) \o " model " \o ToString(n))
                ELSE IF a.a = "forward" /\ Changed(p, o) \cap (ParamF \cup {"keys", "wt", "st", "flags", "rg"}) # {}
                THEN Drift("drift:forward changed " \o ToString(Changed(p, o)) \o " at " \o where)
                ELSE OK
        ELSE OK

(***************************************************************************)
(* the walk                                                                *)
(***************************************************************************)
StepVerdict(kind, hasbn, e, p, taint, where) ==
    LET a == e.act
        o == e.obs
    IN  IF e.err # "" THEN Viol("C18.raises at " \o where \o ": " \o e.err)
        ELSE IF o.fperr # "" THEN Viol("C18.raises after " \o where \o ": on the model as it is now, " \o o.fperr)
        ELSE IF ~o.costfin THEN Viol("C18.cost at " \o where \o ": a cost value is not finite / negative")
        ELSE IF IsObserver(a)
        THEN LET v0 == ObserverVerdict(kind, e, p, where) IN IF Lvl(v0) = 3 THEN v0
             ELSE LET vg == GradTwinVerdict(e, taint, where) IN IF Lvl(vg) = 3 THEN vg
             ELSE Worse(v0, PredVerdict(kind, hasbn, e, p, where))
        ELSE LET v1 == SetterVerdict(a, p, o, where) IN IF Lvl(v1) = 3 THEN v1
        ELSE LET v2 == ErasureVerdict(e, taint, where) IN IF Lvl(v2) = 3 THEN v2
        ELSE Worse(v2, PredVerdict(kind, hasbn, e, p, where))

NewTaint(kind, e, p, taint) ==
    IF ~IsObserver(e.act) THEN taint
    ELSE taint \cup (IF F16Sig(e.act, p, e.obs) THEN {"F16"} ELSE {})
               \cup (IF F35Sig(kind, e.act, p, e.obs) THEN {"F35"} ELSE {})
               \cup (IF F36Sig(kind, e) THEN {"F36", "F37"} ELSE {})      \* (an F36 call may also write output_shape on fixed layers)
               \cup (IF F37Sig(e) THEN {"F37"} ELSE {})
               \cup (IF F38Sig(kind, e.act, p, e.obs) THEN {"F38"} ELSE {})
               \cup (IF F39Sig(e.act, p, e.obs) THEN {"F39"} ELSE {})

RECURSIVE Walk(_, _, _, _, _, _)
Walk(t, i, p, taint, acc, dummy) ==
    IF i > Len(t.ev) THEN acc
    ELSE LET e == t.ev[i]
             v == StepVerdict(t.kind, t.hasbn, e, p, taint, "call " \o ToString(i) \o " " \o ActStr(e.act))
         IN  IF Lvl(v) = 3 THEN v
             ELSE Walk(t, i + 1, e.obs, NewTaint(t.kind, e, p, taint), Worse(acc, v), dummy)

(***************************************************************************)
(* whole-trace clauses: cost and export are FUNCTIONS of (core, spec)      *)
(***************************************************************************)
Pts(t) == <<t.init>> \o [i \in Idx(t.ev) |-> t.ev[i].obs]
        \o [k \in Idx(t.twins) |-> [t.init EXCEPT !.cs = t.twins[k].cs, !.cost = t.twins[k].cost]]

CostKey(o) == <<o.cs, o.pnet, o.pnas, o.bbn, o.bth, o.bother, o.theta, o.thv, o.optv, o.wt, o.st>>

CostFnVerdict(t) ==
    LET P == Pts(t)
        Bad == {<<i, j>> \in Idx(P) \X Idx(P) : i < j /\ CostKey(P[i]) = CostKey(P[j]) /\ P[i].cost # P[j].cost}
    IN  IF Bad = {} THEN OK
        ELSE LET b == CHOOSE x \in Bad : \A y \in Bad : x[2] < y[2] \/ (x[2] = y[2] /\ x[1] <= y[1])
             IN Viol("C18.cost-fn: same parameters, buffers, modes and cost specification " \o P[b[1]].cs
                     \o " but different cost values at points " \o ToString(b[1] - 1) \o " and " \o ToString(b[2] - 1)
                     \o " (0 = initial state; points beyond the calls are the models constructed with the other specifications)")

ExportKey(t, i) == LET p == IF i = 1 THEN t.init ELSE t.ev[i - 1].obs
                   IN <<t.ev[i].act.nobn, p.pnet, p.pnas, p.bbn, p.bother>>

ExportFnVerdict(t) ==
    LET X == {i \in Idx(t.ev) : t.ev[i].act.a = "export" /\ t.ev[i].ret.k = "export"}
        Bad == {<<i, j>> \in X \X X : i < j /\ ExportKey(t, i) = ExportKey(t, j) /\ t.ev[i].ret # t.ev[j].ret}
    IN  IF Bad = {} THEN OK
        ELSE LET b == CHOOSE x \in Bad : TRUE
             IN Viol("C18.export-fn: export() at calls " \o ToString(b[1]) \o " and " \o ToString(b[2])
                     \o " on equal parameters and buffers returned different networks: " \o ToString(t.ev[b[1]].ret)
                     \o " vs " \o ToString(t.ev[b[2]].ret))

Check(t) ==
    LET v0 == IF t.init.fperr # "" THEN Viol("C18.raises: on the initial model, " \o t.init.fperr)
              ELSE IF ~t.init.costfin THEN Viol("C18.cost: a cost value of the initial model is not finite / negative") ELSE OK
        v1 == IF Lvl(v0) = 3 THEN v0 ELSE Walk(t, 1, t.init, {}, OK, 0)
        v2 == IF Lvl(v1) = 3 THEN v1 ELSE Worse(v1, CostFnVerdict(t))
        v3 == IF Lvl(v2) = 3 THEN v2 ELSE Worse(v2, ExportFnVerdict(t))
    IN  v3[2]

Init == tid \in 1..Len(Traces) /\ verdict = Check(Traces[tid])
Next == UNCHANGED <<tid, verdict>>
Spec == Init /\ [][Next]_<<tid, verdict>>
VerdictOk == verdict = "ok"
=============================================================================
