SPECIFICATION Spec
CONSTANTS
  Mode = "lattice"
  Vals = {0, 3, 6, 10, 15}
  Fams = {2, 3, 4, 5, 6, 7, 8}
  AllowDeps = FALSE
  D = 1
  Ste = "identity"
  TVals = {0}
  KFull = 1
  KMax = 1
INVARIANT InvWellFormed
INVARIANT InvNonNeg
PROPERTY StepMonotone
PROPERTY StepStrict
PROPERTY StepDiscCrossing
INVARIANT InvKeepAliveIrrelevant
INVARIANT InvOpenIsOriginal
INVARIANT InvDiscOpen
INVARIANT InvDiscIntegral
INVARIANT InvDiscBounded
INVARIANT InvDiscSteSupport
INVARIANT InvDiscSteKaZero
INVARIANT InvSizeChangeRaisesCost
INVARIANT InvDiscRelevant
