----------------------------- MODULE ReassignMC -----------------------------
(***************************************************************************)
(* Exhaustive design checks for C20.                                       *)
(*                                                                         *)
(* Mode = "reassign": every tie-free score matrix with NP rows and NCh     *)
(* columns (built cell by cell: the k-th Place step gives rank k to a free *)
(* cell, so the final states are exactly the (NP*NCh)! bijections          *)
(* cell -> rank) x every composition of NCh into NP target counts (Pick).  *)
(* `res` is the assignment computed by Assign(Impl, ...) at the Pick step; *)
(* the invariants are the clauses of the property.                         *)
(*                                                                         *)
(* Mode = "layer": every layer geometry in Geoms x every channel count in  *)
(* CMin..CMax x every composition of the channels into Len(Bits) counts:   *)
(* the count vector chosen by the two move-one-channel-up searches with    *)
(* the NE16 latency must be a composition that only promotes channels and  *)
(* does not cost more.  Extra = 1 is the pinned loop with a positive       *)
(* float residue (one move too many).                                      *)
(***************************************************************************)
EXTENDS Reassign, TLC

CONSTANTS Mode,        \* "reassign" | "layer"
          Impl,        \* "asis" | "ref"        (reassign mode)
          NP, NCh,     \* rows / columns        (reassign mode)
          BitsSel,     \* names the bit-width of each row (a cfg file cannot hold a tuple)
          CMin, CMax,  \* channel counts        (layer mode)
          Extra        \* 0 | 1                 (layer mode)

VARIABLES cells,       \* sequence of cells (1..NP*NCh) in ascending rank order
          best,        \* <<>> until picked
          res,         \* assignment computed at Pick
          lay          \* layer-mode scenario

vars == <<cells, best, res, lay>>

Bits == CASE BitsSel = "2-8"     -> <<2, 8>>
          [] BitsSel = "8-2"     -> <<8, 2>>
          [] BitsSel = "2-4-8"   -> <<2, 4, 8>>
          [] BitsSel = "8-2-4"   -> <<8, 2, 4>>
          [] BitsSel = "0-4-8"   -> <<0, 4, 8>>
          [] BitsSel = "0-2-4-8" -> <<0, 2, 4, 8>>
          [] BitsSel = "2-4-8-16" -> <<2, 4, 8, 16>>

\* the spatial size only scales the latency (n_spatial factor): one size per kind is enough
Geoms == {[kind |-> "3x3", h |-> 4, w |-> 4, cin |-> ci] : ci \in {3, 40}} \cup
         {[kind |-> "1x1", h |-> 1, w |-> 1, cin |-> ci] : ci \in {3, 40}}

Compositions(C, P) == {b \in [1..P -> 0..C] : SumSeq(b) = C}

NoLay == [none |-> TRUE]

Init ==
    IF Mode = "reassign"
    THEN cells = <<>> /\ best = <<>> /\ res = <<>> /\ lay = NoLay
    ELSE /\ cells = <<>> /\ best = <<>> /\ res = <<>>
         /\ \E g \in Geoms, C \in CMin..CMax : lay = [g |-> g, c |-> C, n0 |-> <<>>]

\* score matrix defined by a complete placement
ScoresOf(cs) ==
    [p \in 1..NP |-> [c \in 1..NCh |->
        (CHOOSE k \in DOMAIN cs : cs[k] = (p - 1) * NCh + c) - 1]]

Place(cell) ==
    /\ Mode = "reassign" /\ best = <<>>
    /\ Len(cells) < NP * NCh
    /\ cell \notin RangeOf(cells)
    /\ cells' = Append(cells, cell)
    /\ UNCHANGED <<best, res, lay>>

Pick(b) ==
    /\ Mode = "reassign" /\ best = <<>>
    /\ Len(cells) = NP * NCh
    /\ best' = b
    /\ res' = Assign(Impl, b, ScoresOf(cells), OrderOf(Bits))
    /\ UNCHANGED <<cells, lay>>

\* layer mode: the count vector is built one precision at a time (the last count is determined)
Grow(k) ==
    /\ Mode = "layer" /\ Len(lay.n0) < Len(Bits)
    /\ k \in 0..(lay.c - SumSeq(lay.n0))
    /\ (Len(lay.n0) = Len(Bits) - 1 => k = lay.c - SumSeq(lay.n0))
    /\ lay' = [lay EXCEPT !.n0 = Append(@, k)]
    /\ res' = IF Len(lay.n0) = Len(Bits) - 1
              THEN Chosen(lay.g, Append(lay.n0, k), Bits, Extra)     \* <<count vector, cost>>
              ELSE res
    /\ UNCHANGED <<cells, best>>

Next == \/ \E cell \in 1..(NP * NCh) : Place(cell)
        \/ \E b \in Compositions(NCh, NP) : Pick(b)
        \/ \E k \in 0..CMax : Grow(k)

Spec == Init /\ [][Next]_vars

Final == best # <<>>

\* ---------------------------------------------------------------- reassign mode
\* "assigns each channel exactly one precision"
InvAllAssigned == Final => (DOMAIN res = 1..NCh /\ \A c \in 1..NCh : res[c] \in 1..NP)
\* "and meets every count"
InvCountsMet   == Final => CountsMet(res, best)
\* if the targets can be reached by promotions only, no channel is lowered
InvNoLowered   ==
    Final => LET cur == Cur(ScoresOf(cells)) IN
             Dominates(best, Counts(cur, NP), OrderOf(Bits)) => NoLowered(cur, res, Bits)
\* targets equal to the current counts leave the assignment alone
InvIdentity    ==
    Final => LET cur == Cur(ScoresOf(cells)) IN
             (\A p \in 1..NP : best[p] = CountOf(cur, p)) => res = cur
\* the weaker fact that also holds for the pinned algorithm (must-hold in the as-is config):
\* with targets that sum to the number of channels no channel is left unassigned
InvAsIsAllAssigned   == Final => \A c \in 1..NCh : res[c] \in 1..NP

\* ---------------------------------------------------------------- layer mode
IsLay == Mode = "layer" /\ Len(lay.n0) = Len(Bits)
LayC  == lay.c
LayChosen == res

InvLayerComposition == IsLay => IsComposition(LayChosen[1], LayC)
InvLayerPromotes    == IsLay => Dominates(LayChosen[1], lay.n0, OrderOf(Bits))
InvLayerCost        == IsLay => /\ LayChosen[2] = LayerCost(lay.g, LayChosen[1], Bits)
                                /\ LayChosen[2] <= LayerCost(lay.g, lay.n0, Bits)
\* channels at 0 bit are never moved by the search
InvLayerZeroKept    == IsLay => \A p \in DOMAIN Bits : Bits[p] = 0 => LayChosen[1][p] = lay.n0[p]
\* non-vacuity: for some scenario the search really changes the counts (checked via expected-to-fail cfg)
InvLayerNeverMoves  == IsLay => LayChosen[1] = lay.n0
=============================================================================
