SPECIFICATION Spec
CONSTANTS
  NMax = 4
  NSmall = 4
  MaxMet = 2
  Impl = "pinned"
INVARIANT RampStart
INVARIANT RampMonotone
INVARIANT RampReaches
INVARIANT RampNotBefore
INVARIANT RampNeverAbove
INVARIANT ValueFinite
INVARIANT ZeroIffWithin
INVARIANT ZeroIfWithin
INVARIANT GrowsWithExcess
INVARIANT DerivedPositive
INVARIANT ReducedOk
