SPECIFICATION Spec
CONSTANTS
  Mode = "time"
  Vals = {0}
  Fams = {1}
  AllowDeps = FALSE
  D = 1
  Ste = "zeroabove"
  TVals = {0, 6, 15}
  KFull = 3
  KMax = 4
INVARIANT InvTimeSteSupport
