SPECIFICATION Spec
CONSTANTS
  Impl = "fixed"
  Kind = "sn"
  Temps = {500, 1000, 2000}
INVARIANT TypeOK
INVARIANT FrozenNeverTrainable
INVARIANT FrozenNeverGrad
INVARIANT SamplerConsistent
INVARIANT Partition
INVARIANT NoDedupIsNotPartition
PROPERTY TrainExact
PROPERTY SetterExact
PROPERTY OthersKept
PROPERTY ObserverNeutral
