SPECIFICATION Spec
CONSTANTS
  Impl = "ref"
  Bits = {0, 2, 3, 4, 8}
  DMuls = {1, 2}
  DOffs = {0, 1, 5}
  Deltas = {1, 2, 8, 9, 30}
  BScales = {0, 1, 2, 3, 4, 7, 8, 64}
  BSpan = 300
  ZT = 2
INVARIANT WRange
INVARIANT WMono
INVARIANT WErr
INVARIANT WZero
INVARIANT WEnds
INVARIANT WTies
INVARIANT ARange
INVARIANT AZero
INVARIANT ATopCommon
INVARIANT ATopIsMax
INVARIANT AMono
INVARIANT ATrunc
INVARIANT ATruncRep
INVARIANT AErr
INVARIANT AScale
INVARIANT BFin
INVARIANT BZero
INVARIANT BMono
INVARIANT BErr
INVARIANT DIdent
