SPECIFICATION Spec
CONSTANTS
  Impl = "cache_nodeq"
  NPrec = 2
INVARIANT HistoryIndependent
INVARIANT LastIsPrevCall
