SPECIFICATION Spec
CONSTANTS
  Impl = "setdefault"
  MaxLen = 3
  Layers = {"conv2d"}
  NInit = 1
INVARIANT EvalIsFunctionOfDescription
INVARIANT FrameUnchanged
