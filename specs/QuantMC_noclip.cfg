SPECIFICATION Spec
CONSTANTS
  Impl = "noclip"
  Bits = {0, 2, 4}
  DMuls = {1}
  DOffs = {0}
  Deltas = {1}
  BScales = {1}
  BSpan = 4
  ZT = 2
INVARIANT WRange
