--------------------------- MODULE SelectionTrace ---------------------------
(***************************************************************************)
(* Trace validation for C10.  One trace = the life of one real object      *)
(* (MPSPerLayerQtz, MPSPerChannelQtz, SuperNetCombiner) or of one whole    *)
(* MPS / SuperNet model, recorded by harness/checks/c10.py:                *)
(*                                                                         *)
(*  [open |-> <<ids of the known findings that are listed as open>>,       *)
(*   dp   |-> << [k |-> "mps"|"sn", ctor |-> "bare"|"model"], ... >>,      *)
(*   ev   |-> << event, ... >>]                                            *)
(*  event = [a   |-> "init"|"temp"|"hard"|"gumbel"|"disable"|"train"|      *)
(*                   "eval"|"fwd"|"alpha"|"load"|"freeze"|"summary"|       *)
(*                   "export",                                             *)
(*           v   |-> argument (init: [hd, gum, dis, t4, smp, sel]; freeze: *)
(*                   the call, see Selection!DoSetSel; temp: T x           *)
(*                   10^4; hard/gumbel/disable: BOOLEAN; fwd: grad mode    *)
(*                   (TRUE enabled, FALSE under torch.no_grad());          *)
(*                   alpha: [wk |-> "copy"|"data"|"optim", al |-> the      *)
(*                   coefficients written, per decision point];            *)
(*                   load: the checkpoint [al, th, t4 per decision point]; *)
(*                   otherwise 0),                                         *)
(*           o   |-> << per decision point, read off the real object       *)
(*                   AFTER the call:                                       *)
(*                   [tr, hd |-> BOOLEAN, sp |-> "sm"|"gs"|"none",         *)
(*                    t4 |-> T x 10^4,                                     *)
(*                    al |-> alpha x 10^4 (one vector per channel),        *)
(*                    th |-> theta_alpha x 10^6 (one vector per channel),  *)
(*                    nn |-> no entry of theta_alpha is negative,          *)
(*                    sl |-> alpha.requires_grad] >>,                      *)
(*           rep |-> << [dp, slot, idx] >>  what summary() reports (MPS)   *)
(*                   or export() materialises for a slot of the model:     *)
(*                   candidate index per channel (SuperNet export: the     *)
(*                   surviving branches),                                  *)
(*           rv  |-> << per decision point: coefficients reported by the   *)
(*                   SuperNet summary() x 10^6, else << >> >>,             *)
(*           err |-> "" or the exception the library raised in this call   *)
(*                   (or while its state was read); the trace ends there]  *)
(* The verdict is TOTAL: an exception of the library, a theta_alpha that   *)
(* does not have the shape of alpha, coefficients / temperature that are   *)
(* not the ones written are PROPERTY clauses (C10.raises, C10.shape,       *)
(* C10.domain), never an error of the validation.                          *)
(* The sampler options in force are those GIVEN TO THE PUBLIC CONSTRUCTOR  *)
(* (all of them are given there) until the first option update; from then  *)
(* on they are read off the object (which options an update selects is     *)
(* property C11).                                                          *)
(*                                                                         *)
(* PROPERTY clauses are evaluated on the observed values only (flags,      *)
(* alpha, theta of the real object).  PREDICTION clauses compare the       *)
(* observation with the Selection model stepped over each call (as         *)
(* implemented / reference x pinned / repaired option handling; any may    *)
(* agree); they only ever yield "drift:".                                  *)
(***************************************************************************)
EXTENDS Selection, Json, IOUtils, TLC

Traces == JsonDeserialize(IOEnv.TRACE_FILE)

VARIABLES tid, verdict

ActionNames == {"init", "temp", "hard", "gumbel", "disable", "train", "eval", "fwd", "alpha", "load", "freeze", "summary",
                "export"}

\* property domain: T in [0.05, 20], pairwise gaps >= 0.05 (x 10^4, one unit of rounding slack)
TMin == 500
TMax == 200000
GapMin == 499

----------------------------------------------------------------------------
(* form guards: nothing below may raise an evaluation error *)
ObsOK(o) ==
    /\ o.tr \in BOOLEAN /\ o.hd \in BOOLEAN /\ o.nn \in BOOLEAN /\ o.sl \in BOOLEAN
    /\ o.sp \in {"sm", "gs", "none", "?"}       \* "?": sample_alpha is none of the three samplers
    /\ Len(o.al) >= 1
    /\ \A c \in DOMAIN o.al : Len(o.al[c]) >= 1

\* theta_alpha has the shape of alpha (one vector per channel, one entry per candidate)
ShapeOK(o) == Len(o.th) = Len(o.al) /\ \A c \in DOMAIN o.al : Len(o.th[c]) = Len(o.al[c])

\* the coefficients / the temperature are in the property's domain (the harness only writes such values)
AlphaOK(o) == \A c \in DOMAIN o.al : GapsAtLeast(o.al[c], GapMin)
DomainOK(t, i) ==
    LET e == t.ev[i] IN
    \A d \in DOMAIN e.o :
        /\ e.o[d].t4 \in TMin..TMax
        /\ (e.a \in {"init", "alpha", "load"} \/ e.o[d].al # t.ev[i - 1].o[d].al) => AlphaOK(e.o[d])

EventOK(t, i) ==
    LET e == t.ev[i] IN
    /\ e.a \in ActionNames
    /\ (i = 1) = (e.a = "init")
    /\ Len(e.o) = Len(t.dp)
    /\ Len(e.rv) = Len(t.dp)
    /\ \A d \in DOMAIN e.o : ObsOK(e.o[d])
    /\ (i > 1 => \A d \in DOMAIN e.o : Len(e.o[d].al) = Len(t.ev[i - 1].o[d].al))
    /\ \A k \in DOMAIN e.rep : e.rep[k].dp \in DOMAIN t.dp
    /\ (e.a = "fwd" => e.v \in BOOLEAN)
    /\ (e.a = "freeze" => e.v \in SelHowsAll)
    /\ (e.a = "alpha" => e.v.wk \in WriteKinds /\ Len(e.v.al) = Len(t.dp))
    /\ (e.a = "load" => Len(e.v.al) = Len(t.dp) /\ Len(e.v.th) = Len(t.dp) /\ Len(e.v.t4) = Len(t.dp))

----------------------------------------------------------------------------
(***************************************************************************)
(* PREDICTION clauses: the Selection model, stepped over ONE event.        *)
(* The model state before the event is rebuilt from the previous           *)
(* observation plus a small history h per decision point                   *)
(*   h = [gum, dis : last explicitly given gumbel / disable_sampling,      *)
(*        smp      : theta_alpha has been produced by a sampling step]     *)
(* with every theta class set to "keep"; the step operators of Selection   *)
(* (the ones SelectionMC explores) give the state after the event, and the *)
(* observation must agree with it: same flags, same coefficients, and per  *)
(* channel theta_alpha literally unchanged where the class is still "keep" *)
(* or a member of the class the step produced.  The tree under test may    *)
(* have the pinned or the repaired variant of each mechanism               *)
(* independently, so any variant may agree.                                *)
(***************************************************************************)
\* (sampler: as implemented / reference) x (summary() re-samples) x (export() leaves its sample) x
\* (update_softmax_options: repaired / pinned); the current tree comes first
Variants == [j \in 1..16 |->
                LET b == j - 1 IN
                [im  |-> Impl(IF (b \div 8) % 2 = 0 THEN "asis" ELSE "ref", (b \div 4) % 2 = 1, (b \div 2) % 2 = 1),
                 opt |-> IF b % 2 = 0 THEN "fixed" ELSE "pinned"]]

Keep   == [c |-> "keep",   at |-> 0, oh |-> FALSE]     \* literally the previous vector
Loaded == [c |-> "loaded", at |-> 0, oh |-> FALSE]     \* literally the vector stored in the checkpoint

\* model state rebuilt from an observation p and the history h
Abstract(p, h) ==
    [rank |-> p.al, hard |-> p.hd, gum |-> h.gum, dis |-> h.dis,
     sampler |-> IF p.sp = "?" THEN FromFlags(h.gum, h.dis) ELSE p.sp, training |-> p.tr, temp |-> p.t4,
     \* a combiner that has never sampled keeps theta_alpha aliased to alpha: nothing is predicted for it
     theta |-> [c \in DOMAIN p.al |-> IF h.smp THEN Keep ELSE Unsampled],
     fresh |-> FALSE, sampled |-> h.smp, lastinf |-> FALSE, skip |-> FALSE, sel |-> p.sl]

StepOne(k, ctor, var, s, e, o, d) ==
    CASE e.a = "init"    -> InitState(k, var.im, var.opt, ctor, o.al, e.v.hd, e.v.gum, e.v.dis, e.v.t4, e.v.sel)
      [] e.a = "temp"    -> DoOption(k, var.im, var.opt, s, "temp", e.v)
      [] e.a = "hard"    -> DoOption(k, var.im, var.opt, s, "hard", e.v)
      [] e.a = "gumbel"  -> DoOption(k, var.im, var.opt, s, "gumbel", e.v)
      [] e.a = "disable" -> DoOption(k, var.im, var.opt, s, "disable", e.v)
      [] e.a = "train"   -> DoMode(s, TRUE)
      [] e.a = "eval"    -> DoMode(s, FALSE)
      [] e.a = "fwd"     -> DoForward(k, var.im, s, e.v)
      [] e.a = "alpha"   -> DoSetAlpha(var.im, s, e.v.al[d], e.v.wk)
      [] e.a = "load"    -> DoLoad(k, var.im, s, e.v.al[d], [c \in DOMAIN e.v.al[d] |-> Loaded], e.v.t4[d])
      [] e.a = "freeze"  -> DoSetSel(s, e.v)
      [] e.a = "summary" -> DoSummary(k, var.im, s)
      [] e.a = "export"  -> DoExport(k, var.im, ctor, s)
      [] OTHER           -> s

\* does the observation o (previous observation p, checkpoint vectors ck) agree with the model state s after the event
Agrees(o, p, ck, s) ==
    /\ o.tr = s.training /\ o.hd = s.hard /\ (o.sp = "?" \/ o.sp = s.sampler) /\ o.t4 = s.temp /\ o.sl = s.sel
    /\ o.al = s.rank
    /\ \A c \in DOMAIN o.th :
          CASE s.theta[c] = Keep   -> o.th[c] = p.th[c]
            [] s.theta[c] = Loaded -> c \in DOMAIN ck /\ o.th[c] = ck[c]
            [] OTHER               -> Satisfies(o.th[c], s.theta[c])

Predicted(t, i, d, hs, var) ==
    LET e == t.ev[i]
        o == e.o[d]
        p == IF i = 1 THEN o ELSE t.ev[i - 1].o[d]
    IN  StepOne(t.dp[d].k, t.dp[d].ctor, var, IF i = 1 THEN <<>> ELSE Abstract(p, hs[d]), e, o, d)

DriftOf(t, i, hs) ==
    LET e   == t.ev[i]
        bad == {d \in DOMAIN e.o :
                   \A j \in DOMAIN Variants :
                       ~Agrees(e.o[d], IF i = 1 THEN e.o[d] ELSE t.ev[i - 1].o[d],
                               IF e.a = "load" THEN e.v.th[d] ELSE <<>>, Predicted(t, i, d, hs, Variants[j]))}
    IN  IF bad # {}
        THEN LET d == CHOOSE x \in bad : \A y \in bad : x <= y
                 m == Predicted(t, i, d, hs, Variants[1])
             IN  "drift:event " \o ToString(i) \o " (" \o e.a \o ") decision point " \o ToString(d)
                    \o ": observed " \o ToString([tr |-> e.o[d].tr, hd |-> e.o[d].hd, sp |-> e.o[d].sp, t4 |-> e.o[d].t4,
                                                  sl |-> e.o[d].sl, th |-> e.o[d].th])
                    \o " model " \o ToString([tr |-> m.training, hd |-> m.hard, sp |-> m.sampler, t4 |-> m.temp,
                                              sl |-> m.sel, theta |-> m.theta])
        ELSE IF \E d \in DOMAIN e.o : e.o[d].sp = "?"
        THEN "drift:event " \o ToString(i) \o ": the sampler in force cannot be read off the object (sample_alpha is none of "
                \o "sample_alpha_sm / _gs / _none); the options requested so far are used instead"
        ELSE ""

\* history after the event.  ctor: no option has been updated since construction; rq: the options given to the constructor
HistAfter(t, i, hs) ==
    LET e == t.ev[i] IN
    [d \in DOMAIN t.dp |->
        LET o == e.o[d]
            k == t.dp[d].k
        IN  IF i = 1
            THEN [gum |-> e.v.gum, dis |-> IF k = "sn" THEN FALSE ELSE e.v.dis,
                  ctor |-> TRUE,
                  rq  |-> [hd |-> e.v.hd, sp |-> FromFlags(e.v.gum, IF k = "sn" THEN FALSE ELSE e.v.dis)],
                  smp |-> t.dp[d].ctor = "model" \/ (k = "mps" /\ o.sp # "none")]
            ELSE [gum |-> IF e.a = "gumbel" /\ k = "mps" THEN e.v ELSE hs[d].gum,
                  dis |-> IF e.a = "disable" /\ k = "mps" THEN e.v ELSE hs[d].dis,
                  ctor |-> hs[d].ctor /\ e.a \notin {"temp", "hard", "gumbel", "disable"},
                  rq  |-> hs[d].rq,
                  smp |-> \/ hs[d].smp
                          \/ e.a = "fwd" /\ o.sp # "none"
                          \/ e.a = "load" /\ k = "mps"
                          \/ e.a \in {"summary", "export"} /\ o.th # t.ev[i - 1].o[d].th]]

----------------------------------------------------------------------------
(* PROPERTY clauses.  Result: [lvl |-> "ok" | "known" | "viol", id, msg] *)
Ok            == [lvl |-> "ok", id |-> "", msg |-> ""]
Viol(m)       == [lvl |-> "viol", id |-> "", msg |-> m]
Known(id, m)  == [lvl |-> "known", id |-> id, msg |-> m]

Where(i, e, d, c) == "event " \o ToString(i) \o " (" \o e.a \o ") decision point " \o ToString(d)
                        \o " channel " \o ToString(c) \o ": "
\* the sampler options in force for the claims of event i
Eff(t, i, d, hs) ==
    LET e == t.ev[i]
        o == e.o[d]
        k == t.dp[d].k
    IN  IF i = 1
        THEN [hd |-> e.v.hd, sp |-> FromFlags(e.v.gum, IF k = "sn" THEN FALSE ELSE e.v.dis), by |-> "constructor arguments"]
        ELSE IF hs[d].ctor
        THEN [hd |-> hs[d].rq.hd, sp |-> hs[d].rq.sp, by |-> "constructor arguments"]
        ELSE [hd |-> o.hd, sp |-> IF o.sp = "?" THEN FromFlags(hs[d].gum, hs[d].dis) ELSE o.sp, by |-> "object"]

Flags(o, ef) == ToString([training |-> o.tr, hard |-> ef.hd, sampler |-> ef.sp, options_from |-> ef.by, T4 |-> o.t4,
                          trainable |-> o.sl, object_says |-> <<o.hd, o.sp>>])

\* one channel of one decision point after a sampling step (forward pass / constructor of a quantiser)
SampledClause(t, i, e, d, c, hs) ==
    LET o  == e.o[d]
        al == o.al[c]
        th == o.th[c]
        am == ArgMax(al)
        k  == t.dp[d].k
        ef == Eff(t, i, d, hs)
    IN  IF ef.sp # "none" /\ ~(o.nn /\ IsProb(th))
        THEN Viol("C10.prob " \o Where(i, e, d, c) \o "theta_alpha " \o ToString(th)
                    \o " is not a probability vector (x10^6, nonneg=" \o ToString(o.nn) \o ") under " \o Flags(o, ef))
        ELSE IF Deterministic(ef.sp, ef.hd, o.tr) /\ ~IsOneHotAt(th, am)
        THEN IF KF_SNEvalSoft(k, o.tr, ef.hd) /\ IsProb(th) /\ ArgMaxSet(th) = {am}
             THEN Known("F41", "SuperNetCombiner in eval mode with hard_softmax=False samples the soft-max, not the one-hot at argmax(alpha): "
                                 \o Where(i, e, d, c) \o "theta_alpha " \o ToString(th))
             ELSE Viol("C10.onehot " \o Where(i, e, d, c) \o "theta_alpha " \o ToString(th)
                         \o " is not the one-hot at argmax(alpha)=" \o ToString(am) \o " alpha " \o ToString(al)
                         \o " under " \o Flags(o, ef))
        ELSE IF ef.sp = "gs" /\ o.tr /\ ef.hd /\ ~IsOneHot(th)
        THEN Viol("C10.gumbelhard " \o Where(i, e, d, c) \o "theta_alpha " \o ToString(th)
                    \o " is not one-hot under hard Gumbel sampling, " \o Flags(o, ef))
        ELSE Ok

\* what summary() of a SuperNet combiner designates: the largest reported coefficient
ReportedSNClause(t, i, e, d) ==
    LET o  == e.o[d]
        rv == e.rv[d]
        am == ArgMax(o.al[1])
    IN  IF Len(rv) # Len(o.al[1])
        THEN Viol("C10.summary " \o Where(i, e, d, 1) \o "summary() reports " \o ToString(Len(rv)) \o " branches")
        ELSE IF ArgMaxSet(rv) = {am} THEN Ok
        ELSE IF KF_SNSummaryResamples(t.dp[d].k, o.tr, o.sp) /\ IsProb(rv) /\ (o.hd => IsOneHot(rv))
        THEN Known("F42", "SuperNetCombiner.summary() re-samples with Gumbel noise in training mode; the largest reported coefficient is not the branch export() keeps: "
                            \o Where(i, e, d, 1) \o "reported " \o ToString(rv) \o " argmax(alpha)=" \o ToString(am))
        ELSE Viol("C10.summary " \o Where(i, e, d, 1) \o "summary() reports " \o ToString(rv)
                    \o " whose largest entry is not argmax(alpha)=" \o ToString(am) \o " alpha " \o ToString(o.al[1]))

\* a slot of summary() (MPS) / export(): the designated candidate per channel is argmax(alpha)
SlotClause(t, i, e, k) ==
    LET r    == e.rep[k]
        o    == e.o[r.dp]
        want == [c \in DOMAIN o.al |-> ArgMax(o.al[c])]
    IN  IF r.idx = want THEN Ok
        ELSE Viol("C10." \o e.a \o " event " \o ToString(i) \o " slot " \o r.slot \o " (decision point " \o ToString(r.dp)
                    \o "): " \o e.a \o "() gives candidate(s) " \o ToString(r.idx) \o " but argmax(alpha) is " \o ToString(want)
                    \o " alpha " \o ToString(o.al))

\* all results of one event, as a set
Results(t, i, hs) ==
    LET e == t.ev[i] IN
    (IF e.a = "fwd" \/ (e.a = "init" /\ e.v.smp)
     THEN UNION {{SampledClause(t, i, e, d, c, hs) : c \in DOMAIN e.o[d].al} : d \in DOMAIN e.o}
     ELSE {})
    \cup
    (IF e.a = "summary"
     THEN {ReportedSNClause(t, i, e, d) : d \in {d \in DOMAIN e.o : t.dp[d].k = "sn"}}
     ELSE {})
    \cup
    (IF e.a \in {"summary", "export"}
     THEN {SlotClause(t, i, e, k) : k \in DOMAIN e.rep}
     ELSE {})

Pick(S) == CHOOSE x \in S : TRUE

----------------------------------------------------------------------------
\* kn: sequence of Known records with distinct ids; dr: first drift message or ""
RECURSIVE JoinKnown(_, _)
JoinKnown(kn, j) ==
    IF j > Len(kn) THEN ""
    ELSE (IF j = 1 THEN "known:" ELSE " || known:") \o kn[j].id \o ":" \o kn[j].msg \o JoinKnown(kn, j + 1)

\* append to kn one Known record of kns for every id in ids
RECURSIVE AddKnown(_, _, _)
AddKnown(kn, kns, ids) ==
    IF ids = {} THEN kn
    ELSE LET x == CHOOSE y \in ids : TRUE
         IN  AddKnown(Append(kn, Pick({r \in kns : r.id = x})), kns, ids \ {x})

(***************************************************************************)
(* One event: the PROPERTY clauses on the observation, then the model step *)
(* and the PREDICTION clauses.                                             *)
(*   ms  : the histories h before the event (per decision point)           *)
(*   kn  : Known records met so far (distinct ids);  dr : first drift      *)
(* Result: [v |-> "ok" or the failing PROPERTY clause, ms, kn, dr].        *)
(***************************************************************************)
StepRes(t, j, ms, kn, dr) ==
    LET bad(m) == [v |-> m, ms |-> ms, kn |-> kn, dr |-> dr] IN
    IF t.ev[j].err # ""
    THEN bad("C10.raises event " \o ToString(j) \o " (" \o t.ev[j].a \o "): " \o t.ev[j].err)
    ELSE IF ~EventOK(t, j) THEN bad("trace: malformed event " \o ToString(j))
    ELSE IF \E d \in DOMAIN t.ev[j].o : ~ShapeOK(t.ev[j].o[d])
    THEN LET d == CHOOSE x \in DOMAIN t.ev[j].o : ~ShapeOK(t.ev[j].o[x]) IN
         bad("C10.shape event " \o ToString(j) \o " (" \o t.ev[j].a \o ") decision point " \o ToString(d)
                \o ": theta_alpha " \o ToString(t.ev[j].o[d].th) \o " does not have the shape of alpha "
                \o ToString(t.ev[j].o[d].al) \o " (one vector per channel, one entry per candidate)")
    ELSE IF ~DomainOK(t, j)
    THEN bad("C10.domain event " \o ToString(j) \o " (" \o t.ev[j].a \o "): the object holds coefficients with a gap below 0.05 "
                \o "or a temperature outside [0.05, 20] although only values of the property's domain were written: "
                \o ToString([d \in DOMAIN t.ev[j].o |-> [t4 |-> t.ev[j].o[d].t4, al |-> t.ev[j].o[d].al]]))
    ELSE LET e     == t.ev[j]
             res   == Results(t, j, ms)
             viols == {r \in res : r.lvl = "viol"}
             kns   == {r \in res : r.lvl = "known"}
             \* a signature of a finding that is not listed as open is a violation
             stray == {r \in kns : r.id \notin {t.open[x] : x \in DOMAIN t.open}}
             newid == {r.id : r \in kns} \ {kn[x].id : x \in DOMAIN kn}
             ms2   == HistAfter(t, j, ms)
         IN  [v  |-> IF viols # {} THEN Pick(viols).msg
                     ELSE IF stray # {}
                     THEN Pick(stray).msg \o " [signature " \o Pick(stray).id \o " is not an open known finding]"
                     ELSE "ok",
              ms |-> ms2,
              kn |-> AddKnown(kn, kns, newid),
              dr |-> IF dr # "" THEN dr ELSE DriftOf(t, j, ms)]

(***************************************************************************)
(* The validation is a state machine over blocks of events: one TLC step   *)
(* consumes up to Block events (bounded recursion, so traces may be long   *)
(* and TLC's workers share the work).                                      *)
(*   i : events consumed so far; ms, kn, dr as in StepRes.                 *)
(* verdict stays "ok" while the trace is being consumed; it becomes the    *)
(* failing PROPERTY clause in the block that violates it (the walk stops), *)
(* or, after the last event, the known-finding / drift summary.            *)
(***************************************************************************)
Block == 25

VARIABLE run          \* [i, ms, kn, dr, v]; a single variable so that a block is evaluated once per step
vars == <<tid, run, verdict>>

\* consume events j..hi
RECURSIVE WalkBlock(_, _, _, _, _, _)
WalkBlock(t, j, hi, m, k, d) ==
    IF j > hi THEN [i |-> hi, ms |-> m, kn |-> k, dr |-> d, v |-> "ok"]
    ELSE LET r == StepRes(t, j, m, k, d)
         IN  IF r.v # "ok" THEN [i |-> j, ms |-> r.ms, kn |-> r.kn, dr |-> r.dr, v |-> r.v]
             ELSE WalkBlock(t, j + 1, hi, r.ms, r.kn, r.dr)

Init == /\ tid \in 1..Len(Traces)
        /\ run = [i |-> 0, ms |-> <<>>, kn |-> <<>>, dr |-> "",
                  v |-> IF Len(Traces[tid].ev) = 0 THEN "trace: empty" ELSE "ok"]
        /\ verdict = run.v

Next == /\ verdict = "ok"
        /\ UNCHANGED tid
        /\ LET t == Traces[tid] IN
           IF run.i < Len(t.ev)
           THEN run' = WalkBlock(t, run.i + 1, IF run.i + Block < Len(t.ev) THEN run.i + Block ELSE Len(t.ev),
                                 run.ms, run.kn, run.dr)
           ELSE /\ run.i = Len(t.ev)
                /\ run' = [run EXCEPT !.i = run.i + 1,
                                       !.v = IF Len(run.kn) > 0 THEN JoinKnown(run.kn, 1)
                                             ELSE IF run.dr # "" THEN run.dr ELSE "ok"]
        /\ verdict' = run'.v

Spec == Init /\ [][Next]_vars
VerdictOk == verdict = "ok"
=============================================================================
