SPECIFICATION Spec
CONSTANTS
  Kind = "sn"
  Impl = "asis"
  OptImpl = "pinned"
  Ctor = "bare"
  N = 3
  Chans = 1
  Temps = {"lo", "mid", "hi"}
  Acts = {"temp", "hard", "gumbel", "disable", "mode", "fwd", "alpha", "summary", "export"}
  InitAlpha = "ctor"
  AllowKF = TRUE
INVARIANT TypeOK
INVARIANT SampledIsProb
INVARIANT OneHotAtArgmax
INVARIANT GumbelTraining
INVARIANT SoftKeepsWinner
INVARIANT ReportIsArgmax
INVARIANT ExportIsArgmax
INVARIANT ReportIsExport
PROPERTY DisabledKeeps
PROPERTY ThetaOnlyBySampling
PROPERTY AlphaOnlyBySetAlpha
