SPECIFICATION Spec
CONSTANTS
  Impl = "asis"
  ExcludeKF = TRUE
  KindSet = {"layer"}
  NBrSet = {1, 2}
  MaxBlocks = 1
  UseSet = {1}
  PoolSet = {FALSE}
  GumbelSet = {FALSE}
  HardSet = {FALSE, TRUE}
  BigN = 0
  Acts = {"SetAlpha", "Forward"}
  D = 4
  NameFamily = "plain"
  NameImpl = "asis"
  SampleImpl = "nosample1"
  ForkImpl = "ref"
INVARIANT C06_Bounds
INVARIANT C06_StoredHot
