------------------------------ MODULE QuantLife ------------------------------
(***************************************************************************)
(* Life cycle of ONE quantiser OBJECT (property C13, history independence). *)
(*                                                                         *)
(* The clauses of C13 are stated per call ("for every input tensor and     *)
(* every supported precision ...").  A quantiser object however lives      *)
(* through a history: it is switched between train / eval, called with     *)
(* grad enabled or under no_grad, its `dequantize` flag is toggled (the    *)
(* integer back-ends do that), its precision is changed, and it is called  *)
(* again with the very same weight tensor, with that tensor updated in     *)
(* place (optimizer step) or with another tensor.  The result of EVERY     *)
(* call must be the function of the CURRENT configuration and the CURRENT  *)
(* data only.                                                              *)
(*                                                                         *)
(* Abstract state of the object and its environment (a record):            *)
(*   mode  "train" | "eval"        grad  TRUE = grad enabled               *)
(*   deq   the dequantize flag     pi    index into the precision tuple    *)
(*   has   a tensor was passed before (so "same object" is meaningful)     *)
(*   last  configuration of the previous call ([valid |-> FALSE ...] if    *)
(*         none).  It is not needed by the reference semantics; it is      *)
(*         state so that every ordered pair (configuration of the previous *)
(*         call, configuration of this call, tensor relation) is an EDGE   *)
(*         of the graph and therefore replayed on the real objects.        *)
(* Tensor relation of a call:  "same" object unchanged | "inplace" same    *)
(* object, content modified in place (version bump) | "fresh" other object.*)
(*                                                                         *)
(* `impl` = "ref": no hidden state.  The other values transcribe result    *)
(* caches (used in eval mode under no_grad, keyed by tensor object and     *)
(* version) whose key forgets something; they exist to show at design      *)
(* level that the invariant is not vacuous and WHICH histories expose      *)
(* them ("cache_ok" = complete key, must pass).                            *)
(* Variable-free; QuantLifeMC and QuantTrace use it.                       *)
(***************************************************************************)
EXTENDS Integers, Sequences

LModes == {"train", "eval"}
Rels   == {"same", "inplace", "fresh"}

NoLast == [valid |-> FALSE, mode |-> "train", grad |-> TRUE, deq |-> TRUE, pi |-> 1]
CfgOf(s) == [valid |-> TRUE, mode |-> s.mode, grad |-> s.grad, deq |-> s.deq, pi |-> s.pi]

\* a freshly constructed quantiser: nn.Module default train mode, grad enabled, constructor arguments
LifeInit(np) ==
    {[mode |-> "train", grad |-> TRUE, deq |-> d, pi |-> i, has |-> FALSE, last |-> NoLast] :
        d \in BOOLEAN, i \in 1..np}

CanSetMode(s, m) == m \in LModes /\ s.mode # m
DoSetMode(s, m)  == [s EXCEPT !.mode = m]
CanSetGrad(s, g) == g \in BOOLEAN /\ s.grad # g
DoSetGrad(s, g)  == [s EXCEPT !.grad = g]
CanSetDeq(s, d)  == d \in BOOLEAN /\ s.deq # d
DoSetDeq(s, d)   == [s EXCEPT !.deq = d]
CanSetPrec(s, i, np) == i \in 1..np /\ s.pi # i
DoSetPrec(s, i)  == [s EXCEPT !.pi = i]
CanCall(s, rel)  == rel \in Rels /\ (rel # "fresh" => s.has)
DoCall(s, rel)   == [s EXCEPT !.has = TRUE, !.last = CfgOf(s)]

(***************************************************************************)
(* What a call returns, described by the configuration / data generation   *)
(* the returned tensor was computed for.                                   *)
(***************************************************************************)
Want(s) == [pi |-> s.pi, deq |-> s.deq, stale |-> FALSE]

\* hidden state of the cache transcriptions
NoHid == [valid |-> FALSE, pi |-> 1, deq |-> TRUE, obj |-> FALSE, ver |-> FALSE]
Cacheable(s) == s.mode = "eval" /\ ~s.grad

\* the tensor handed to this call, relative to the cached key (object, version)
Touch(h, rel) ==
    IF rel = "same" THEN h
    ELSE IF rel = "inplace" THEN [h EXCEPT !.ver = FALSE]
    ELSE [h EXCEPT !.obj = FALSE, !.ver = FALSE]

Hit(impl, h, s) ==
    /\ impl # "ref" /\ h.valid /\ Cacheable(s) /\ h.obj
    /\ CASE impl = "cache_ok"        -> h.ver /\ h.pi = s.pi /\ h.deq = s.deq
         [] impl = "cache_nodeq"     -> h.ver /\ h.pi = s.pi
         [] impl = "cache_noprec"    -> h.ver /\ h.deq = s.deq
         [] impl = "cache_noversion" -> h.pi = s.pi /\ h.deq = s.deq
         [] OTHER                    -> FALSE

\* h is the hidden state AFTER Touch
Got(impl, h, s) ==
    IF Hit(impl, h, s) THEN [pi |-> h.pi, deq |-> h.deq, stale |-> ~h.ver] ELSE Want(s)

HidAfter(impl, h, s) ==
    IF impl = "ref" \/ ~Cacheable(s) \/ Hit(impl, h, s) THEN h
    ELSE [valid |-> TRUE, pi |-> s.pi, deq |-> s.deq, obj |-> TRUE, ver |-> TRUE]
=============================================================================
