SPECIFICATION Spec
CONSTANTS
  Mode = "time"
  Vals = {0}
  Fams = {1}
  AllowDeps = FALSE
  D = 1
  Ste = "identity"
  TVals = {0, 6, 10, 15}
  KFull = 5
  KMax = 9
INVARIANT InvTimeSteSupport
INVARIANT InvTimeElements
INVARIANT InvTimeRelevantIffNotKA
