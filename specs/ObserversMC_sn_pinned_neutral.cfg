SPECIFICATION Spec
CONSTANTS
    Impl = "pinned"
    Kind = "sn"
    MaxBn = 1
    TrackHist = FALSE
    MaxLen = 0
INVARIANT TypeOK
PROPERTY ObserversNeutral
