---------------------------- MODULE ReassignTrace ----------------------------
(***************************************************************************)
(* Trace validation for C20.  Two kinds of trace, both recorded from the   *)
(* real plinio.methods.mps.utils:                                          *)
(*                                                                         *)
(* [k |-> "fn", scores, best, out]                                         *)
(*     one call  out = _reassign_precisions(best, scores)  (scores: PxC    *)
(*     integers, best: P integers summing to C, out: PxC matrix of 0/1).   *)
(*     Property clauses (on `out`): every column holds exactly one 1 and   *)
(*     every row sum equals its target.                                    *)
(*                                                                         *)
(* [k |-> "model", cb, ca, layers |-> << L1, L2, ... >>]                   *)
(*     one call of optimize_prec_assignment on a per-channel MPS model     *)
(*     with the NE16 cost; cb / ca = get_cost("ne16") before / after in    *)
(*     1/100 cycle; per refined layer                                      *)
(*       bits    bit-width of each row of the weight quantizer             *)
(*       before, after  selected row (1-based) of every channel, read from *)
(*               summary() before / after                                  *)
(*       scores  alpha before the call, as ranks (tie-free)                *)
(*       bestu   the count vector handed to _reassign_precisions, x10^6    *)
(*       besti   the same after Python's int() (the target_count the       *)
(*               function really uses; truncation towards zero)            *)
(*       base    cost of the layer before, 1/100 cycle                     *)
(*       visits  count vectors (x1000) evaluated by the searches, in order *)
(*       vcost   their costs (1/100 cycle)                                 *)
(*     Property clauses: no channel lowered; the channel counts after      *)
(*     equal the chosen counts; the chosen configuration does not cost     *)
(*     more than the original one; model cost after <= before.             *)
(*                                                                         *)
(* Known-finding signatures (decided here):                                *)
(*   F18  the chosen counts are legitimate (an integer composition that    *)
(*        only promotes), the property fails, and the observed result is   *)
(*        EXACTLY what the transcription AsIsAssign of the pinned greedy   *)
(*        algorithm computes (bug-compatibility).                          *)
(*   F27  float artefacts of the searches: the chosen vector holds a       *)
(*        negative count that the logged search really visited (the        *)
(*        `while theta > 0` loop made one move too many), or a count such  *)
(*        as 11.999998 that int() truncates; again only if the observed    *)
(*        result equals AsIsAssign on the truncated counts.                *)
(*        Decided only after F18's form (greedy result on the ROUNDED      *)
(*        counts) did not match.                                           *)
(*   F28  scenario predicate: the precision tuple of the layer is not      *)
(*        ascending (the searches then pair counts with the wrong          *)
(*        bit-widths and map the result back with the sorting permutation  *)
(*        instead of its inverse).                                         *)
(* Everything else that fails is a violation.  Tolerances: counts are      *)
(* compared after rounding to the nearest integer (|x - round x| <= 0.002  *)
(* required); costs are compared in 1/100 cycle with slack 1 + cost/10^5   *)
(* (float32 summation).                                                    *)
(***************************************************************************)
EXTENDS Reassign, Json, IOUtils, TLC

Traces == JsonDeserialize(IOEnv.TRACE_FILE)

VARIABLES tid, verdict

Has(r, f) == f \in DOMAIN r

\* ------------------------------------------------------------------ numbers
RoundM(x)   == IF x >= 0 THEN (x + 500) \div 1000 ELSE 0 - ((500 - x) \div 1000)
RoundU(x)   == IF x >= 0 THEN (x + 500000) \div 1000000 ELSE 0 - ((500000 - x) \div 1000000)
Abs(x)      == IF x >= 0 THEN x ELSE 0 - x
NearInt(x)  == Abs(x - 1000000 * RoundU(x)) <= 2000
Slack(c)    == 1 + Abs(c) \div 100000

\* ------------------------------------------------------------------ "fn" traces
IsMatrix01(out, P, C) ==
    /\ Len(out) = P
    /\ \A p \in 1..P : Len(out[p]) = C /\ \A c \in 1..C : out[p][c] \in {0, 1}

ColOnes(out, c) == Cardinality({p \in DOMAIN out : out[p][c] = 1})
RowSum(out, p)  == Cardinality({c \in DOMAIN out[p] : out[p][c] = 1})

CheckFn(t) ==
    LET P == Len(t.scores)
        C == Len(t.scores[1])
    IN  IF ~IsMatrix01(t.out, P, C) THEN "C20.reassign: result is not a PxC 0/1 matrix"
        ELSE IF Has(t, "outc") /\ t.out # t.outc
        THEN "C20.layout: _reassign_precisions on the same values in memory layout '" \o t.lay \o "' returns "
                 \o ToString(t.out) \o " but " \o ToString(t.outc) \o " for contiguous tensors; best=" \o ToString(t.best)
                 \o " scores=" \o ToString(t.scores)
        ELSE
        LET one   == \A c \in 1..C : ColOnes(t.out, c) = 1
            met   == \A p \in 1..P : RowSum(t.out, p) = t.best[p]
            asis  == MatrixOf(AsIsAssign(t.best, t.scores), P)
            same  == \A p \in 1..P : \A c \in 1..C : t.out[p][c] = asis[p][c]
        IN  IF one /\ met
            THEN (IF same THEN "ok"
                  ELSE "drift:C20.reassign meets the property but differs from the transcription of the pinned algorithm")
            ELSE IF same
                 THEN "known:F18:_reassign_precisions does not meet the requested counts, e.g. best="
                          \o ToString(t.best) \o " scores=" \o ToString(t.scores)
                          \o " row sums=" \o ToString([p \in 1..P |-> RowSum(t.out, p)])
                 ELSE "C20.reassign: " \o (IF one THEN "" ELSE "some channel has no / several precisions; ")
                          \o "best=" \o ToString(t.best) \o " row sums="
                          \o ToString([p \in 1..P |-> RowSum(t.out, p)])

\* ------------------------------------------------------------------ "model" traces
RoundVec(v)  == [p \in DOMAIN v |-> RoundM(v[p])]
RoundVecU(v) == [p \in DOMAIN v |-> RoundU(v[p])]

\* `if cost_tmp < best_cost` along the logged search: index of the earliest cheapest visited
\* configuration, 0 = the original one (no recursion: TLC's Java stack)
ArgBest(vcost, base) ==
    LET cost(k) == IF k = 0 THEN base ELSE vcost[k]
        vals == {cost(k) : k \in 0..Len(vcost)}
        minc == CHOOSE x \in vals : \A y \in vals : x <= y
        I    == {k \in 0..Len(vcost) : cost(k) = minc}
    IN  CHOOSE k \in I : \A j \in I : k <= j

\* verdict of one layer:  <<class, text>>  class in {"ok","drift","F18","F27","F28","viol"}
IsAscending(bits) == \A p \in 1..(Len(bits) - 1) : bits[p] < bits[p + 1]

CheckLayer(L) ==
    LET P      == Len(L.bits)
        C      == Len(L.before)
        order  == OrderOf(L.bits)
        n0     == Counts(L.before, P)
        n1     == Counts(L.after, P)
        chosen == RoundVecU(L.bestu)
        exact  == \A p \in 1..P : NearInt(L.bestu[p])
        \* the searches never move the channels of a 0-bit row: pruned channels stay pruned
        zerokept == \A p \in 1..P : L.bits[p] = 0 => chosen[p] = n0[p]
        legit  == exact /\ IsComposition(chosen, C) /\ Dominates(chosen, n0, order) /\ zerokept
        \* F27 is a float32 residue of n/C - n*(1/C): impossible when 1/C is exact, and it leaves counts that
        \* are integers up to that residue
        pow2   == \E k \in 0..14 : C = 2 ^ k
        f27dom == exact /\ ~pow2
        lowered == {c \in 1..C : L.bits[L.after[c]] < L.bits[L.before[c]]}
        met    == \A p \in 1..P : n1[p] = chosen[p]
        \* the pinned greedy algorithm on the rounded counts / on the int()-truncated counts
        predR  == SelectedAfter(AsIsAssign(chosen, L.scores))
        predT  == SelectedAfter(AsIsAssign(L.besti, L.scores))
        compatR == \A c \in 1..C : L.after[c] = predR[c]
        compatT == \A c \in 1..C : L.after[c] = predT[c]
        negChosen  == \E p \in 1..P : chosen[p] < 0
        negVisited == \E k \in DOMAIN L.visits : \E p \in 1..P : RoundM(L.visits[k][p]) < 0
        truncated  == \E p \in 1..P : L.besti[p] # chosen[p]
        \* the pinned searches hand their count vectors to _compute_cost in ascending-bit-width order
        \* (a repaired version may hand them over in row order: accepted if it then matches the model)
        model   == Visits(n0, order, L.bits, 0)
        rawSeq  == [k \in DOMAIN L.visits |-> RoundVec(L.visits[k])]
        rawOK   == rawSeq = model
        Vis(k)  == IF rawOK THEN rawSeq[k] ELSE [p \in 1..P |-> RoundM(L.visits[k][RankIn(order, p)])]
        visOK   == negVisited \/ [k \in DOMAIN L.visits |-> Vis(k)] = model
        mincost == IF ArgBest(L.vcost, L.base) = 0 THEN L.base ELSE L.vcost[ArgBest(L.vcost, L.base)]
        \* cost the refinement itself computed for the configuration it chose (if it was visited)
        ks     == {k \in DOMAIN L.visits : Vis(k) = chosen}
        ccost  == IF ks # {} THEN L.vcost[CHOOSE k \in ks : \A j \in ks : k <= j] ELSE L.base
        what   == "layer " \o L.name \o " bits=" \o ToString(L.bits) \o ": chosen=" \o ToString(chosen)
                     \o " before=" \o ToString(n0) \o " after=" \o ToString(n1)
                     \o " lowered channels=" \o ToString(lowered)
        raw    == " raw chosen x10^6=" \o ToString(L.bestu)
        f24(v) == IF ~IsAscending(L.bits) /\ v[1] = "viol"
                  THEN <<"F28", what \o " (" \o v[2] \o ")">> ELSE v
    IN  f24(
        IF ccost > L.base + Slack(L.base)
        THEN <<"viol", "C20.cost " \o what \o ": the chosen configuration costs more than the original one">>
        ELSE IF lowered = {} /\ met /\ legit
        THEN (IF ~(compatR \/ compatT)
              THEN <<"drift", "C20 " \o what \o ": result satisfies the property but differs from the transcription">>
              ELSE IF (ks = {} /\ chosen # n0) \/ ccost > mincost + Slack(L.base)
              THEN <<"drift", "C20 " \o what \o ": chosen counts are not a cheapest visited configuration (up to the cost resolution)">>
              ELSE IF ~visOK
              THEN <<"drift", "C20 " \o what \o ": visited configurations differ from the transcription of the searches">>
              ELSE <<"ok", "">>)
        ELSE IF ~legit
        THEN (IF compatT /\ negChosen /\ negVisited /\ f27dom
              THEN <<"F27", what \o raw>>
              ELSE <<"viol", "C20.chosen " \o what \o ": the chosen counts are not non-negative integers summing to the width, reachable by promoting channels, with the pruned (0-bit) count unchanged" \o raw>>)
        ELSE IF compatR THEN <<"F18", what>>
        ELSE IF compatT /\ truncated /\ f27dom THEN <<"F27", what \o raw>>
        ELSE <<"viol", "C20.assign " \o what \o
                  (IF lowered # {} THEN ": channels lowered" ELSE ": chosen counts not met")>>)

\* TRUE iff the verdict of CheckModel is a known-finding or drift verdict (not a violation): recomputed from
\* the layer classes because TLA+ strings have no prefix operator
ModelViolates(t) ==
    LET vs  == [i \in DOMAIN t.layers |-> CheckLayer(t.layers[i])]
        cls == {vs[i][1] : i \in DOMAIN vs}
    IN  "viol" \in cls \/ (t.ca > t.cb + Slack(t.cb) /\ cls \cap {"F18", "F27", "F28"} = {})
IsPrefixedFor(t) == ~ModelViolates(t)

CheckModel(t) ==
    LET vs    == [i \in DOMAIN t.layers |-> CheckLayer(t.layers[i])]
        cls   == {vs[i][1] : i \in DOMAIN vs}
        first(c) == vs[CHOOSE i \in DOMAIN vs : vs[i][1] = c /\ \A j \in 1..(i - 1) : vs[j][1] # c][2]
        costup == t.ca > t.cb + Slack(t.cb)
    IN  IF "viol" \in cls THEN first("viol")
        ELSE IF costup /\ cls \cap {"F18", "F27", "F28"} = {}
        THEN "C20.cost: model cost after " \o ToString(t.ca) \o " > before " \o ToString(t.cb) \o " (1/100 cycle)"
        ELSE IF "F28" \in cls
        THEN "known:F28:optimize_prec_assignment with a precision tuple that is not ascending: " \o first("F28")
        ELSE IF "F27" \in cls
        THEN "known:F27:float32 channel fractions in optimize_prec_assignment: " \o first("F27")
        ELSE IF "F18" \in cls
        THEN "known:F18:greedy _reassign_precisions inside optimize_prec_assignment: " \o first("F18")
        ELSE IF "drift" \in cls THEN "drift:" \o first("drift")
        ELSE "ok"

\* ------------------------------------------------------------------ "mlife" traces
\* [k |-> "mlife", hist, pre, obs, fresh]  (or raised |-> message instead of obs)
\*   hist  : calls made on a real clean per-channel MPS/NE16 model before the refinement (a behaviour of
\*           ReassignLife: Reassign!LifeActions)
\*   pre   : the real model just before optimize_prec_assignment: train, hard, gumbel, disable, temp,
\*           onehot (theta_alpha is one-hot), hotcur (theta_alpha = arg-max of the current alpha)
\*   obs   : "model" record of the refinement of THAT model (cb = arg-max cost of the fresh model)
\*   fresh : "model" record of the refinement of a fresh model with the same alpha
\* Property: obs and fresh agree on the chosen counts, on the assignment after and on the cost after
\* (history independence), and obs satisfies every clause of a "model" trace.
SameOutcome(o, f) ==
    /\ Len(o.layers) = Len(f.layers)
    /\ \A i \in DOMAIN o.layers :
          /\ o.layers[i].name = f.layers[i].name
          /\ o.layers[i].after = f.layers[i].after
          /\ Len(o.layers[i].bestu) = Len(f.layers[i].bestu)
          /\ \A p \in DOMAIN o.layers[i].bestu :
                NearInt(o.layers[i].bestu[p]) /\ RoundU(o.layers[i].bestu[p]) = RoundU(f.layers[i].bestu[p])
    /\ Abs(o.ca - f.ca) <= Slack(f.ca)

CheckMLife(t) ==
    IF \E i \in DOMAIN t.hist : t.hist[i] \notin LifeActions THEN "trace: unknown life action"
    ELSE
    LET pred == LifeRun(LifeInit, t.hist, 1)
        hs   == "after the calls " \o ToString(t.hist)
                   \o (IF Has(t, "lay") THEN " with alpha stored in memory layout '" \o t.lay \o "'" ELSE "")
    IN  IF Has(t, "raised")
        THEN "C20.history: optimize_prec_assignment fails (" \o t.raised \o ") " \o hs
                 \o " although it succeeds on a fresh model with the same alpha"
        ELSE IF ~SameOutcome(t.obs, t.fresh)
        THEN "C20.history: the refinement " \o hs \o " differs from the refinement of a fresh model with the same alpha: chosen x10^6 "
                 \o ToString([i \in DOMAIN t.obs.layers |-> t.obs.layers[i].bestu]) \o " vs "
                 \o ToString([i \in DOMAIN t.fresh.layers |-> t.fresh.layers[i].bestu]) \o ", counts after "
                 \o ToString([i \in DOMAIN t.obs.layers |-> Counts(t.obs.layers[i].after, Len(t.obs.layers[i].bits))]) \o " vs "
                 \o ToString([i \in DOMAIN t.fresh.layers |-> Counts(t.fresh.layers[i].after, Len(t.fresh.layers[i].bits))])
                 \o ", cost after " \o ToString(t.obs.ca) \o " vs " \o ToString(t.fresh.ca)
        ELSE
        LET base  == CheckModel(t.obs)
            flags == /\ t.pre.train = pred.train /\ t.pre.hard = pred.hard /\ t.pre.gumbel = pred.gumbel
                     /\ t.pre.disable = pred.disable /\ t.pre.temp = pred.temp
            theta == /\ (pred.th.kind \in {"soft", "gsoft"} => ~t.pre.onehot)
                     /\ (pred.th.kind \in {"hot", "ghot"} => t.pre.onehot)
                     /\ (SeesArgmax(pred) => t.pre.hotcur)
        IN  IF base # "ok" THEN base
            ELSE IF ~flags \/ ~theta
            THEN "drift:C20 life cycle: the model before the refinement " \o ToString(t.pre)
                     \o " is not in the state the specification predicts " \o ToString(pred) \o " " \o hs
            ELSE "ok"

\* ------------------------------------------------------------------ "multi" traces
\* [k |-> "multi", geo, tab, ownb, owna, obs]  a chain of refinable layers (a state of ReassignMulti) refined by
\* the real function:  geo[l] = [kind, h, w, cin];  tab[l][j+1] = cost (1/100 cycle) the real per-layer cost
\* function gives layer l with j channels at the lower precision;  ownb / owna = cost of every layer before /
\* after as reported by the layer itself;  obs = the "model" record incl. ann = <<announced before, after>>.
\* Property: every clause of a "model" trace (in particular cost after <= before) and the announced costs are
\* the measured ones.  Predictions (drift): the chosen counts are a cheapest candidate of the layer's OWN table,
\* no layer costs more than before, the table is the NE16 latency of the specification.
CheckMulti(t) ==
    LET o     == t.obs
        base  == CheckModel(o)
        NLy   == Len(o.layers)
        bits(l)   == o.layers[l].bits
        C(l)      == Len(o.layers[l].before)
        low(l)    == CHOOSE p \in 1..2 : \A q \in 1..2 : bits(l)[p] <= bits(l)[q]
        chosen(l) == RoundVecU(o.layers[l].bestu)
        n0(l)     == Counts(o.layers[l].before, 2)
        T(l, v)   == t.tab[l][v[low(l)] + 1]                       \* own table, indexed by the low-precision count
        cand(l)   == RangeOf(Visits(n0(l), OrderOf(bits(l)), bits(l), 0)) \cup {n0(l)}
        annbad    == Has(o, "ann") /\ (Abs(o.ann[1] - o.cb) > Slack(o.cb) \/ Abs(o.ann[2] - o.ca) > Slack(o.ca))
        shape     == NLy = Len(t.geo) /\ NLy = Len(t.tab) /\ \A l \in 1..NLy : Len(bits(l)) = 2 /\ Len(t.tab[l]) = C(l) + 1
        sane(l)   == IsComposition(chosen(l), C(l))
        notmin    == {l \in 1..NLy : sane(l) /\ \E v \in cand(l) : T(l, chosen(l)) > T(l, v) + Slack(T(l, v))}
        up        == {l \in 1..NLy : t.owna[l] > t.ownb[l] + Slack(t.ownb[l])}
        incons    == {l \in 1..NLy : sane(l) /\ CountsMet(o.layers[l].after, chosen(l))
                                      /\ Abs(t.owna[l] - T(l, chosen(l))) > Slack(t.owna[l])}
        formula   == {l \in 1..NLy : \E j \in 0..C(l) :
                         t.tab[l][j + 1] # 100 * LayerCost(t.geo[l], [p \in 1..2 |-> IF p = low(l) THEN j ELSE C(l) - j], bits(l))}
        any(S)    == CHOOSE x \in S : TRUE
        lname(l)  == o.layers[l].name
    IN  IF ~shape THEN "trace: multi shape"
        ELSE IF base # "ok" /\ ~IsPrefixedFor(o) THEN base
        ELSE IF annbad
        THEN "C20.announced: the function announces a model cost of " \o ToString(o.ann) \o " (before, after; 1/100 cycle) but the model costs "
                 \o ToString(<<o.cb, o.ca>>) \o "; per layer before " \o ToString(t.ownb) \o " after " \o ToString(t.owna)
                 \o ", chosen " \o ToString([l \in 1..NLy |-> chosen(l)]) \o ", geometry " \o ToString(t.geo)
        ELSE IF base # "ok" THEN base
        ELSE IF notmin # {}
        THEN "drift:C20 multi: layer " \o lname(any(notmin)) \o " chose " \o ToString(chosen(any(notmin)))
                 \o " which is not a cheapest candidate of its own cost table " \o ToString(t.tab[any(notmin)])
        ELSE IF up # {} THEN "drift:C20 multi: layer " \o lname(any(up)) \o " costs more after the refinement"
        ELSE IF incons # {} THEN "drift:C20 multi: cost of layer " \o lname(any(incons)) \o " after differs from its table entry"
        ELSE IF formula # {} THEN "drift:C20 multi: cost table of layer " \o lname(any(formula)) \o " differs from the NE16 latency of the specification: "
                                      \o ToString(t.tab[any(formula)])
        ELSE "ok"

Check(t) ==
    IF ~Has(t, "k") THEN "trace: missing kind"
    ELSE IF t.k = "raised"
    THEN "C20.raises: optimize_prec_assignment raises on a supported per-channel MPS / NE16 model: " \o t.msg
    ELSE IF t.k = "multi" THEN CheckMulti(t)
    ELSE IF t.k = "mlife" THEN CheckMLife(t)
    ELSE IF t.k = "fn" THEN CheckFn(t)
    ELSE IF t.k = "model" THEN CheckModel(t)
    ELSE "trace: unknown kind"

Init == tid \in 1..Len(Traces) /\ verdict = Check(Traces[tid])
Next == UNCHANGED <<tid, verdict>>
Spec == Init /\ [][Next]_<<tid, verdict>>
VerdictOk == verdict = "ok"
=============================================================================
