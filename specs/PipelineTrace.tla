---------------------------- MODULE PipelineTrace ----------------------------
(***************************************************************************)
(* Stepwise trace validation of REAL pipelines (check "PIPE").              *)
(*                                                                         *)
(* One trace = one network taken through the documented pipeline by         *)
(* harness/pipe_gen.py; one EVENT per stage, each carrying what the real    *)
(* objects were observed to be / do:                                        *)
(*   seed  [arch, obs]            scenario architecture / projection of the  *)
(*                                real torch module                          *)
(*   pit   [round, fold, L, cost, open_cost, imp_diff, user_kept, ...]       *)
(*                                PIT(model); masks written; per-layer      *)
(*                                masks / calculators / summary(); costs     *)
(*   pitx  [obs, W, E, diff, scratch, numel, ...]   export(): projection of  *)
(*                                the exported torch modules back into a     *)
(*                                FeatGraph record, observed tensor widths,  *)
(*                                index-decoded weights, float64 output      *)
(*                                difference, metrics from scratch           *)
(*   mps   [cfg, obs, W, qp, L, cost, ...]   MPS(exported network); selection *)
(*                                written; summary(), arg-max, sampled       *)
(*                                coefficients, bit costs                    *)
(*   mpsx  [obs, X, bit_identical, ...]      MPS.export()                    *)
(*   int   [backend, obs, qp, layers, final, ...]  integerize_arch           *)
(*                                                                         *)
(* TLC consumes the events one by one (action Step).  The state carries the *)
(* architecture the NEXT stage is entitled to receive, COMPUTED HERE with    *)
(* the operators of Pipeline (ExportArch, MpsImportArch, IntArch) from the   *)
(* previous architecture and the observed masks / selection; every event is  *)
(* judged against it:                                                       *)
(*   (i)   hand-over: observed architecture = computed one, well formed,     *)
(*         observed tensor widths = derived widths, nothing outside the      *)
(*         grammar                                                           *)
(*   (ii)  function preservation in the tolerance class of the stage         *)
(*   (iii) cost chain: discrete PIT cost = metric recomputed by TLC on the   *)
(*         computed export = metric from scratch on the real export;         *)
(*         bit costs of MPS = exact cost of the reported assignment on the    *)
(*         network PIT exported = bits x plain metric                        *)
(*   (iv)  summary() of stage k describes the model stage k+1 receives       *)
(* The verdict is total and is published once, by the last step (Finish):    *)
(* "ok" | first failing PROPERTY clause "PIPE.<what>..." | "known:Fxx:..."  *)
(* (scenario predicate of a listed finding, evaluated here) | "drift:...".   *)
(***************************************************************************)
EXTENDS Pipeline, Json, IOUtils

Traces == JsonDeserialize(IOEnv.TRACE_FILE)

VARIABLES tid, i, st, acc, verdict

vars == <<tid, i, st, acc, verdict>>

Str(x) == ToString(x)
V(k, m) == [k |-> k, m |-> m]
OK      == V("ok", "ok")
Viol(m) == V("viol", m)
Kn(m)   == V("known", m)
Dr(m)   == V("drift", m)
Rank(v) == CASE v.k = "viol" -> 3 [] v.k = "known" -> 2 [] v.k = "drift" -> 1 [] OTHER -> 0
Worse(a, b) == IF Rank(b) > Rank(a) THEN b ELSE a          \* keeps the FIRST of equal rank
RECURSIVE FirstOf(_, _)
FirstOf(vs, j) == IF j > Len(vs) THEN OK ELSE IF vs[j].k # "ok" THEN vs[j] ELSE FirstOf(vs, j + 1)
First(vs) == FirstOf(vs, 1)                                 \* first clause that does not hold
Least(S) == CHOOSE x \in S : \A y \in S : x <= y
AbsV(x)  == IF x < 0 THEN -x ELSE x
Pat(s)   == [c \in 1..Len(s) |-> s[c] = 1]
Idx1(s)  == {s[j] + 1 : j \in DOMAIN s}
Ascending(s) == \A j \in 1..(Len(s) - 1) : s[j] < s[j + 1]
HasN(L, n) == \E j \in DOMAIN L : L[j].n = n
RecN(L, n) == L[CHOOSE j \in DOMAIN L : L[j].n = n]
NsOf(L)    == {L[j].n : j \in DOMAIN L}
HasM(C, m) == \E j \in DOMAIN C : C[j].m = m
RecM(C, m) == C[CHOOSE j \in DOMAIN C : C[j].m = m]

(* ------------------------------ state ----------------------------------- *)
NoArch == [dim |-> 1, c0 |-> 1, sp |-> 1, nodes |-> <<>>]
St0 == [cur |-> NoArch, m |-> <<>>, T |-> <<>>, fold |-> FALSE, pit |-> <<>>, su |-> <<>>, cfg |-> <<>>, go |-> TRUE]
R(s, v) == [st |-> s, v |-> v]
Stop(s, v) == [st |-> [s EXCEPT !.go = FALSE], v |-> v]

(* ------------------------------ known findings of the PIT stage --------- *)
KnownPit(a) ==
    IF KF_Reuse(a) THEN "known:F09:a searchable layer is invoked at two call sites (one mask / one input calculator per layer object)"
    ELSE IF KF_DwOrphan(a) THEN "known:F19:depthwise conv whose sharing component has no features-defining node (masker is None)"
    ELSE IF KF_FixedAfterSearch(a) \/ KF_FixedInMaskedGroup(a)
         THEN "known:F20:a layer excluded from the search consumes / is added to a tensor that the search can prune"
    ELSE IF KF_CatIntoAdd(a) THEN "known:F21:a channel-concat output reaches a residual add; the masks of its parts are not tied to the other addend"
    ELSE IF KF_NonZeroOp(a) THEN "known:F29:sigmoid maps the exact zeros of a pruned channel to 1/2: the consumer still reads that channel in the masked network, export() removes it"
    ELSE IF KF_CatIntoOutput(a) THEN "known:F25:a channel concat feeds the network output; its prunable parts are not frozen, the exported output width changes"
    ELSE IF KF_MixedWidthGroup(a) THEN "known:F24:producers of different widths meet in one residual add through a flatten and share one masker"
    ELSE ""
FailPit(a, clause) == IF KnownPit(a) # "" THEN Kn(KnownPit(a) \o " [" \o clause \o "]") ELSE Viol(clause)

ArchIndexOk(x) == /\ \A n \in 1..N(x) : InsOk(x, n)
FirstDiffNode(x, y) == IF N(x) # N(y) THEN 0 ELSE
                       IF \E n \in 1..N(x) : x.nodes[n] # y.nodes[n] THEN Least({n \in 1..N(x) : x.nodes[n] # y.nodes[n]}) ELSE 0
ArchDiffMsg(obs, exp) ==
    LET n == FirstDiffNode(obs, exp) IN
    IF N(obs) # N(exp) THEN "node count " \o Str(N(obs)) \o " instead of " \o Str(N(exp))
    ELSE IF n = 0 THEN "input description differs"
    ELSE "node " \o Str(n) \o ": observed " \o Str(obs.nodes[n]) \o " expected " \o Str(exp.nodes[n])
WidthsOk(e, x) == Len(e.W) = N(x) + 1 /\ \A n \in 0..N(x) : e.W[n + 1] = Ch(x, n)
FirstBadWidth(e, x) == Least({n \in 0..N(x) : e.W[n + 1] # Ch(x, n)})

(* ====================================================================== *)
(* seed                                                                    *)
(* ====================================================================== *)
DoSeed(s, e) ==
    IF ~ArchIndexOk(e.arch) THEN Stop(s, Viol("trace: malformed scenario architecture"))
    ELSE LET a0 == NormArch(e.arch) IN
    IF ~WF(a0) THEN Stop(s, Viol("trace: scenario architecture is not well formed at node " \o Str(FirstBadNode(a0))))
    ELSE IF ~e.proj_ok THEN Stop(s, Viol("trace: the seed network cannot be projected: " \o e.proj_err))
    ELSE IF NormArch(e.obs) # a0 THEN Stop(s, Viol("trace: the torch module built for the scenario is not the scenario architecture: " \o ArchDiffMsg(NormArch(e.obs), a0)))
    ELSE IF ~WidthsOk(e, a0) THEN Stop(s, Viol("trace: observed tensor widths of the seed differ from the derived ones"))
    ELSE R([s EXCEPT !.cur = a0], OK)

(* ====================================================================== *)
(* pit : PIT(model) ; masks written ; observed                             *)
(* ====================================================================== *)
MasksObs(a, e) == [n \in SearchLayers(a) |-> Pat(RecN(e.L, n).mask)]
TapsObs(r)     == {j - 1 : j \in {x \in DOMAIN r.tmask : r.tmask[x] = 1}}
TimeObs(a, e)  == [n \in TimeLayers(a) |-> GeomOfTaps(Nd(a, n).k, Nd(a, n).d, TapsObs(RecN(e.L, n)))]
FoldAddsBias(a) == \E n \in SearchLayers(a) : Nd(a, n).bn /\ ~Nd(a, n).bias

PitLayer(a, e, M, n) ==
    LET r == RecN(e.L, n)  reach == ActM(a, M, In1(a, n))  pre == "round " \o Str(e.round) \o " layer " \o Str(n) \o ": " IN
    IF Len(r.mask) # Ch(a, n) THEN Viol("PIPE.C09.mask " \o pre \o "output mask has " \o Str(Len(r.mask)) \o " entries, the layer has " \o Str(Ch(a, n)) \o " channels")
    ELSE IF Count(M[n]) < 1 THEN Viol("PIPE.C08.alive " \o pre \o "no output feature left")
    ELSE IF HasMasker(a, MaskerSite(a, n)) /\ Frozen(a, MaskerSite(a, n)) /\ Count(M[n]) # Ch(a, n)
         THEN Viol("PIPE.C08.frozen " \o pre \o "a width fixed by the network input / output was pruned")
    ELSE IF Pat(r.told) # reach
         THEN Viol("PIPE.C09.told " \o pre \o "the input mask the layer is given differs from the alive pattern of the tensor that reaches it")
    ELSE IF r.told_n # Count(reach) \/ r.sum_in # Count(reach)
         THEN Viol("PIPE.C09.charged " \o pre \o "charged / reported " \o Str(r.told_n) \o " / " \o Str(r.sum_in) \o " input features, " \o Str(Count(reach)) \o " are alive")
    ELSE IF r.sum_out # Count(M[n]) THEN Viol("PIPE.C09.reported-out " \o pre \o "summary() out_features differs from the alive outputs")
    ELSE IF \E c \in DOMAIN reach : ~reach[c] /\ r.nz_in[c] = 1
         THEN Viol("PIPE.C01.zero " \o pre \o "a pruned input channel carries non-zero values in the masked network")
    ELSE IF a.dim = 1 /\ Op(a, n) = "conv" /\ (~r.t \/ Len(r.tmask) # Nd(a, n).k)
         THEN Viol("PIPE.C01.time " \o pre \o "no time mask of the layer's kernel size")
    ELSE IF a.dim = 1 /\ Op(a, n) = "conv" /\ ~TapsExportable(Nd(a, n).k, TapsObs(r))
         THEN Viol("PIPE.C08.kernel " \o pre \o "kept taps " \o Str(TapsObs(r)) \o " of " \o Str(Nd(a, n).k) \o " are not a non-empty evenly spaced set ending at the last tap")
    ELSE IF a.dim = 1 /\ Op(a, n) = "conv" /\ n \notin TimeLayers(a) /\ Cardinality(TapsObs(r)) # Nd(a, n).k
         THEN Viol("PIPE.C08.frozen-time " \o pre \o "the kernel of a strided convolution was pruned")
    ELSE OK

DoPit(s, e) ==
    LET a == s.cur  pre == "round " \o Str(e.round) \o ": " IN
    IF ~e.conv_ok THEN Stop(s, FailPit(a, "PIPE.C07.convert " \o pre \o "PIT(...) raised on the network it was handed: " \o e.conv_err))
    ELSE IF ~e.fwd_ok THEN Stop(s, FailPit(a, "PIPE.C07.forward " \o pre \o "the converted model does not run: " \o e.fwd_err))
    ELSE IF ~e.imp_ok \/ e.imp_diff < 0 \/ e.imp_diff > RoundoffE12
         THEN Stop(s, FailPit(a, "PIPE.ii.C07.import " \o pre \o "the PIT model with all masks open differs from the network it was handed (rel. diff x1e12 = " \o Str(e.imp_diff) \o ")"))
    ELSE IF ~e.user_kept THEN Stop(s, FailPit(a, "PIPE.C07.user " \o pre \o "the model object handed to PIT was altered (parameters or outputs)"))
    ELSE IF ~e.mode_kept THEN Stop(s, FailPit(a, "PIPE.C07.mode " \o pre \o "the wrapper does not keep the training / eval mode it found"))
    ELSE IF NsOf(e.L) # SearchLayers(a) \/ Len(e.L) # Cardinality(SearchLayers(a))
         THEN Stop(s, FailPit(a, "PIPE.C09.layers " \o pre \o "searchable layers " \o Str(NsOf(e.L)) \o " instead of " \o Str(SearchLayers(a))))
    ELSE IF \E n \in SearchLayers(a) : ~RecN(e.L, n).mask_ok \/ ~RecN(e.L, n).told_ok
         THEN Stop(s, FailPit(a, "PIPE.C09.masks " \o pre \o "layer " \o Str(Least({n \in SearchLayers(a) : ~RecN(e.L, n).mask_ok \/ ~RecN(e.L, n).told_ok}))
                                     \o " has no usable output mask / input calculator"))
    ELSE IF \E n \in SearchLayers(a) : Len(RecN(e.L, n).mask) # Ch(a, n)
         THEN Stop(s, FailPit(a, "PIPE.C09.mask " \o pre \o "an output mask has another length than the layer has channels"))
    ELSE
    LET M == MasksObs(a, e)
        lay == [n \in SearchLayers(a) |-> PitLayer(a, e, M, n)]
        badl == {n \in SearchLayers(a) : lay[n].k # "ok"} IN
    IF badl # {} THEN Stop(s, FailPit(a, lay[Least(badl)].m))
    ELSE
    LET T == TimeObs(a, e)
        openbad == {j \in DOMAIN e.open_cost : ~e.open_cost[j].ok \/ e.open_cost[j].disc # e.open_cost[j].cont
                        \/ (~(e.fold /\ FoldAddsBias(a)) /\ e.open_cost[j].disc # ArchCost(e.open_cost[j].m, a))}
        costbad == {j \in DOMAIN e.cost : ~e.cost[j].ok \/ e.cost[j].v # PitCost(e.cost[j].m, a, M, T, e.fold)} IN
    IF openbad # {}
    THEN LET c == e.open_cost[Least(openbad)] IN
         Stop(s, FailPit(a, "PIPE.iii.C04.open " \o pre \o c.m \o " with all masks open: discrete " \o Str(c.disc) \o ", continuous " \o Str(c.cont)
                                \o ", the network handed to PIT costs " \o Str(ArchCost(c.m, a))))
    ELSE IF costbad # {}
    THEN LET c == e.cost[Least(costbad)] IN
         Stop(s, FailPit(a, "PIPE.iii.C04.nas " \o pre \o c.m \o " = " \o Str(c.v) \o " with discrete_cost, the alive inputs x alive outputs x kept taps of the observed masks give "
                                \o Str(PitCost(c.m, a, M, T, e.fold))))
    ELSE R([s EXCEPT !.m = M, !.T = T, !.fold = e.fold,
                    !.pit = [L |-> [n \in SearchLayers(a) |-> LET r == RecN(e.L, n) IN
                                       [sum_in |-> r.sum_in, sum_out |-> r.sum_out, sum_k |-> r.sum_k, sum_dil |-> r.sum_dil, t |-> r.t, tmask |-> r.tmask]],
                             cost |-> e.cost]], OK)

(* ====================================================================== *)
(* pitx : export()                                                         *)
(* ====================================================================== *)
AlignLayer(a, M, e, p, n) ==       \* C01: surviving weights line up (index-decoded export)
    LET x == RecN(e.E, n)  r == p.L[n]  reach == ActM(a, M, In1(a, n))  pre == "round " \o Str(e.round) \o " layer " \o Str(n) \o ": " IN
    IF ~x.rect THEN Viol("PIPE.C01.slice " \o pre \o "exported weight is not a rectangular slice of the original")
    ELSE IF Idx1(x.out_idx) # Positions1(M[n]) \/ ~Ascending(x.out_idx)
         THEN Viol("PIPE.C01.align-out " \o pre \o "exported output channels " \o Str(x.out_idx) \o " are not the alive channels in order")
    ELSE IF x.bias_idx # <<>> /\ x.bias_idx # x.out_idx THEN Viol("PIPE.C01.align-bias " \o pre \o "exported bias does not follow the output channels")
    ELSE IF ~IsDw(a, n) /\ (Idx1(x.in_idx) # Positions1(reach) \/ ~Ascending(x.in_idx))
         THEN Viol("PIPE.C01.align-in " \o pre \o "exported input channels " \o Str(x.in_idx) \o " are not the alive positions of the incoming tensor")
    ELSE IF IsDw(a, n) /\ ~(x.groups = x.in_ch /\ x.in_ch = x.out_ch) THEN Viol("PIPE.C01.dw " \o pre \o "exported depthwise layer has groups / in / out that differ")
    ELSE IF a.dim = 1 /\ Op(a, n) = "conv" /\ Nd(a, n).causal /\
            ~MA!TermsEqualObs(Nd(a, n).k, Nd(a, n).d, x.taps, x.k, x.dil, IF x.pad = <<>> THEN -1 ELSE x.pad[1])
         THEN Viol("PIPE.C01.time " \o pre \o "exported taps " \o Str(x.taps) \o " k=" \o Str(x.k) \o " dil=" \o Str(x.dil) \o " pad=" \o Str(x.pad)
                      \o " do not read the samples of the kept taps (K=" \o Str(Nd(a, n).k) \o ", d0=" \o Str(Nd(a, n).d) \o ")")
    ELSE IF a.dim = 1 /\ Op(a, n) = "conv" /\ Idx1(x.taps) # Positions1(Pat(r.tmask))
         THEN Viol("PIPE.C01.time-kept " \o pre \o "exported taps differ from the taps kept by the forward pass")
    ELSE OK

SummaryLayer(x, p, n, rnd) ==      \* (iv) summary() of the searched model describes the layer the next stage receives
    LET r == p.L[n]  g == LayerGeom(x, n)  pre == "round " \o Str(rnd) \o " layer " \o Str(n) \o ": " IN
    IF r.sum_in # g.i \/ r.sum_out # g.o
    THEN Viol("PIPE.iv.summary " \o pre \o "summary() of the searched model reports (in, out) = (" \o Str(r.sum_in) \o ", " \o Str(r.sum_out)
                  \o "), the layer handed to the next stage has (" \o Str(g.i) \o ", " \o Str(g.o) \o ")")
    ELSE IF r.t /\ (r.sum_k # g.k \/ (g.k > 1 /\ r.sum_dil # Nd(x, n).d))
    THEN Viol("PIPE.iv.summary-time " \o pre \o "summary() reports kernel / dilation " \o Str(r.sum_k) \o " / " \o Str(r.sum_dil)
                  \o ", the layer handed to the next stage has " \o Str(g.k) \o " / " \o Str(Nd(x, n).d))
    ELSE OK

DoPitx(s, e) ==
    LET a == s.cur  M == s.m  p == s.pit  pre == "round " \o Str(e.round) \o ": "
        x == ExportArch(a, M, s.T, s.fold) IN            \* what export() must return, computed from the observed masks
    IF ~e.ok THEN Stop(s, FailPit(a, "PIPE.C01.export " \o pre \o "export() failed: " \o e.err))
    ELSE IF ~e.run_ok THEN Stop(s, FailPit(a, "PIPE.i.runs " \o pre \o "the exported network does not run on an input of the original shape: " \o e.err))
    ELSE IF ~e.shape_ok THEN Stop(s, FailPit(a, "PIPE.i.output-shape " \o pre \o "the exported network returns another output shape"))
    ELSE IF ~e.proj_ok THEN Stop(s, FailPit(a, "PIPE.i.kind " \o pre \o "the exported network contains something the next stage has no rule for: " \o e.proj_err))
    ELSE IF ~ArchIndexOk(e.obs) THEN Stop(s, Viol("trace: malformed projection"))
    ELSE IF ~WF(e.obs) THEN Stop(s, FailPit(a, "PIPE.i.wellformed " \o pre \o "the exported architecture is not well formed at node " \o Str(FirstBadNode(e.obs))))
    ELSE IF NormArch(e.obs) # x THEN Stop(s, FailPit(a, "PIPE.i.arch " \o pre \o "exported architecture is not ExportArch(previous, masks): " \o ArchDiffMsg(NormArch(e.obs), x)))
    ELSE IF e.padbad # <<>> THEN Stop(s, FailPit(a, "PIPE.C01.pad " \o pre \o "padding of exported layer(s) " \o Str(e.padbad) \o " does not match kernel / dilation"))
    ELSE IF ~WidthsOk(e, x) THEN Stop(s, FailPit(a, "PIPE.i.width " \o pre \o "tensor " \o Str(FirstBadWidth(e, x)) \o " of the exported network has "
                                                       \o Str(e.W[FirstBadWidth(e, x) + 1]) \o " channels, the architecture derives " \o Str(Ch(x, FirstBadWidth(e, x)))))
    ELSE IF ~Aligned(a, M, x) THEN Stop(s, FailPit(a, "PIPE.ii.aligned " \o pre \o "derived widths of the export are not the alive counts of the masked network (tensor "
                                                         \o Str(FirstMisaligned(a, M, x)) \o ") or a pruned channel is not an exact zero"))
    ELSE IF NsOf(e.E) # SearchLayers(a) THEN Stop(s, FailPit(a, "PIPE.C01.layers " \o pre \o "exported layers " \o Str(NsOf(e.E)) \o " instead of " \o Str(SearchLayers(a))))
    ELSE
    LET al == [n \in SearchLayers(a) |-> AlignLayer(a, M, e, p, n)]
        su == [n \in SearchLayers(a) |-> SummaryLayer(x, p, n, e.round)]
        badal == {n \in SearchLayers(a) : al[n].k # "ok"}
        badsu == {n \in SearchLayers(a) : su[n].k # "ok"}
        \* (iii) cost chain: NAS cost (pit event) = metric of the computed export = metric from scratch on the real export
        chainbad == {j \in DOMAIN p.cost : p.cost[j].v # ArchCost(p.cost[j].m, x)}
        scrbad == {j \in DOMAIN e.scratch : ~e.scratch[j].ok \/ e.scratch[j].v # ArchCost(e.scratch[j].m, x)} IN
    IF badal # {} THEN Stop(s, FailPit(a, al[Least(badal)].m))
    ELSE IF e.diff < 0 \/ e.diff > RoundoffE12
         THEN Stop(s, FailPit(a, "PIPE.ii.C01.output " \o pre \o "exported network differs from the searched PIT model in eval mode (rel. diff x1e12 = " \o Str(e.diff) \o ", claim: " \o ClaimOf("pitx") \o ")"))
    ELSE IF chainbad # {}
         THEN LET c == p.cost[Least(chainbad)] IN
              Stop(s, FailPit(a, "PIPE.iii.C04.chain " \o pre \o c.m \o ": the searched model charges " \o Str(c.v) \o ", the network it exports costs " \o Str(ArchCost(c.m, x))))
    ELSE IF Len(e.scratch) # Cardinality(PitMetrics) \/ scrbad # {}
         THEN Stop(s, FailPit(a, "PIPE.iii.C04.scratch " \o pre \o "a metric computed from scratch on the real exported network differs from the metric of the exported architecture"
                                   \o (IF scrbad # {} THEN " (" \o e.scratch[Least(scrbad)].m \o ": " \o Str(e.scratch[Least(scrbad)].v) \o " vs " \o Str(ArchCost(e.scratch[Least(scrbad)].m, x)) \o ")" ELSE "")))
    ELSE IF e.numel # NumelOf(x) THEN Stop(s, FailPit(a, "PIPE.iii.C04.numel " \o pre \o "the exported network has " \o Str(e.numel) \o " weights and biases, params = " \o Str(NumelOf(x))))
    ELSE IF badsu # {} THEN Stop(s, FailPit(a, su[Least(badsu)].m))
    \* prediction only: a pipeline replayed from PipelineMC must reach the architecture the model checker computed
    ELSE IF e.has_expect /\ ArchIndexOk(e.expect) /\ NormArch(e.expect) # x
         THEN R([s EXCEPT !.cur = x, !.m = <<>>, !.T = <<>>, !.pit = <<>>],
                Dr("drift:round " \o Str(e.round) \o ": the real pipeline left the path of the model checker (the masks could not be written as planned): " \o ArchDiffMsg(x, NormArch(e.expect))))
    ELSE R([s EXCEPT !.cur = x, !.m = <<>>, !.T = <<>>, !.pit = <<>>], OK)

(* ====================================================================== *)
(* mps : MPS(exported network) ; selection written ; forward (eval)        *)
(* ====================================================================== *)
HIdP(a, q) == IF q = InQ(a) THEN 0 ELSE q
QIdsP(a)   == {HIdP(a, q) : q \in QNodes(a) \cup {InQ(a)}}
KindP(a, n) == IF n = 0 THEN "in" ELSE Op(a, n)
CloseInt(obs, exact)       == AbsV(obs - 100 * exact) <= 1 + AbsV(exact) \div 1000
CloseCenti(obs, centi, nl) == AbsV(obs - centi) <= 1 + nl + AbsV(centi) \div 100000
WObs(a, L)  == [n \in Layers(a) |-> RecN(L, n).th_w]
ExactTotalP(mt, a, L) ==
    LET wb == WObs(a, L) IN PSum([n \in Layers(a) |-> ExactInt(mt, a, n, wb[n], RecN(L, n).th_i, InEffW(a, wb, n))], Layers(a))
PlainTotalP(mt, a, L) ==
    PSum([n \in Layers(a) |-> BitFromPlain(mt, a, n, RecN(L, n).th_w[1], RecN(L, n).th_i)], Layers(a))
AsisTotalCentiP(mt, a, L, pc) ==
    LET wb == WObs(a, L) IN
    PSum([n \in Layers(a) |-> (AsisNum(mt, "fixed", a, n, wb, RecN(L, n).th_i, RecN(L, n).cand_w, pc) * 100) \div AsisDen(wb, n)], Layers(a))
AnyF05P(a, L, pc) == \E n \in Layers(a) : F05Layer(a, n, WObs(a, L), RecN(L, n).cand_w, pc)
SameTriple(r, p) == IF p = "am" THEN r.am_o = r.su_o /\ r.am_i = r.su_i /\ r.am_w = r.su_w
                    ELSE r.th_o = r.su_o /\ r.th_i = r.su_i /\ r.th_w = r.su_w
TripleStr(ii, w, o) == "(in " \o Str(ii) \o ", w " \o Str(w) \o ", out " \o Str(o) \o ")"

MpsCost(a, e, mt) ==
    LET pc == e.cfg.wt = "pc"  ex == ExactTotalP(mt, a, e.L) IN
    IF ~e.cost_ok[mt] THEN Viol("PIPE.C05.cost " \o mt \o ": get_cost raised / is not finite on the network PIT exported")
    ELSE IF CloseInt(e.cost[mt], ex)
         THEN IF ~pc /\ ex # PlainTotalP(mt, a, e.L)
              THEN Viol("PIPE.iii.bits " \o mt \o ": exact bit cost " \o Str(ex) \o " is not bits x plain metric of the exported network " \o Str(PlainTotalP(mt, a, e.L)))
              ELSE OK
    ELSE IF AnyF05P(a, e.L, pc) /\ CloseCenti(e.cost[mt], AsisTotalCentiP(mt, a, e.L, pc), Cardinality(Layers(a)))
         THEN Kn("known:F05:" \o mt \o " = " \o Str(e.cost[mt]) \o "/100 instead of " \o Str(ex)
                   \o ": channels pruned by the 0-bit precision are discounted twice (mean of the coefficients x cost of C-n0 channels)")
    ELSE Viol("PIPE.iii.C05.cost " \o mt \o ": observed " \o Str(e.cost[mt]) \o "/100, exact cost of the reported assignment on the network PIT exported is " \o Str(ex))

SuOf(a, e) == [n \in QIdsP(a) |-> LET r == RecN(e.L, n) IN [su_i |-> r.su_i, su_w |-> r.su_w, su_o |-> r.su_o]]
\* the converted model has the architecture it was handed, except that a BatchNorm may have been folded into its layer
\* (the layer then has a bias); WHICH BatchNorms are folded (Conv2d / Linear today) is a prediction, not a property
FoldEquivNode(o, h) == \/ o = h
                       \/ (h.op \in {"conv", "lin"} /\ h.bn /\ o = [h EXCEPT !.bn = FALSE, !.bias = TRUE])
FoldEquiv(obs, h) == /\ obs.dim = h.dim /\ obs.c0 = h.c0 /\ obs.sp = h.sp /\ N(obs) = N(h)
                     /\ \A n \in 1..N(h) : FoldEquivNode(obs.nodes[n], h.nodes[n])
Folded(a0, a, L) == Nd(a0, L).bn /\ ~Nd(a, L).bn
DoMps(s, e) ==
    LET a0 == s.cur IN
    IF ~MpsDomain(a0) THEN Stop(s, OK)                    \* outside the grammar of the MPS stage (concatenations ...): nothing is claimed
    ELSE IF e.ok /\ e.proj_ok /\ ArchIndexOk(e.obs) /\ ~FoldEquiv(NormArch(e.obs), a0)
    THEN Stop(s, Viol("PIPE.i.arch mps: the converted model is not the exported network (up to BatchNorm folding): " \o ArchDiffMsg(NormArch(e.obs), MpsImportArch(a0))))
    ELSE
    LET a == IF e.ok /\ e.proj_ok /\ ArchIndexOk(e.obs) THEN NormArch(e.obs) ELSE MpsImportArch(a0)
        gs == GS("fixed", a) IN
    \* per-channel (pruning) search: claimed, as in C05, on networks whose searchable layers are not tied to the network
    \* input, whose sharing components have one width, and that end in a layer
    IF e.cfg.wt = "pc" /\ ~(~InputConnected(gs, a) /\ ~MixedWidth(gs, a) /\ IsLayer(a, N(a))) THEN Stop(s, OK)
    ELSE IF e.cast_e9 < 0 \/ e.cast_e9 > 100000 THEN Stop(s, Viol("trace: the float32 copy of the exported network deviates from the float64 one (x1e9: " \o Str(e.cast_e9) \o ")"))
    ELSE IF ~e.ok THEN Stop(s, Viol("PIPE.C02.convert: MPS(...) raised on the network PIT exported: " \o e.err))
    ELSE IF ~e.mode_kept THEN Stop(s, Viol("PIPE.C07.mode: MPS does not keep the training / eval mode it found"))
    ELSE IF ~e.proj_ok THEN Stop(s, Viol("PIPE.i.kind: the MPS model contains something outside the grammar: " \o e.proj_err))
    ELSE IF ~ArchIndexOk(e.obs) THEN Stop(s, Viol("trace: malformed projection"))
    ELSE IF ~WidthsOk(e, a) THEN Stop(s, Viol("PIPE.i.width mps: tensor " \o Str(FirstBadWidth(e, a)) \o " has another width than derived"))
    ELSE IF NsOf(e.L) # QIdsP(a) \/ Len(e.L) # Cardinality(QIdsP(a)) \/ \E n \in QIdsP(a) : RecN(e.L, n).kind # KindP(a, n)
         THEN Stop(s, Viol("PIPE.C02.points: searchable modules at " \o Str(NsOf(e.L)) \o ", quantisation points of the dataflow " \o Str(QIdsP(a))))
    \* (ii) hand-over of the parameters: MPS quantises the float weights it was handed; where it folds the BatchNorm that
    \* PIT re-created (Conv2d / Linear), weight and bias are the analytic fold (float32 round-off: 1e-6 relative)
    \* (a candidate tuple with the 0-bit precision makes MPS rescale the initial weights on purpose: compensate_weights_values)
    ELSE IF ~Has0(e.cfg.pw) /\ \E L \in Layers(a) : IF Folded(a0, a, L) THEN ~(RecN(e.L, L).wfold_e9 \in 0..1000) ELSE ~RecN(e.L, L).wsame
         THEN LET L == Least({y \in Layers(a) : IF Folded(a0, a, y) THEN ~(RecN(e.L, y).wfold_e9 \in 0..1000) ELSE ~RecN(e.L, y).wsame}) IN
              Stop(s, Viol("PIPE.ii.mps-weights layer " \o Str(L) \o ": the float weights / bias of the MPS layer are not the ones of the network PIT exported"
                               \o (IF Folded(a0, a, L) THEN " with its BatchNorm folded in (rel. deviation x1e9 = " \o Str(RecN(e.L, L).wfold_e9) \o ")" ELSE "")))
    ELSE IF e.call_err # "" THEN Stop(s, Viol("PIPE.C02.call: a public call raised: " \o e.call_err))
    ELSE IF \E n \in QIdsP(a) : ~RecN(e.L, n).su_ok \/ (n \in Layers(a) /\ (Len(RecN(e.L, n).su_w) # Ch(a, n) \/ Len(RecN(e.L, n).th_w) # Ch(a, n)))
         THEN Stop(s, Viol("PIPE.C02.summary: summary() has no usable entry for a quantisation point"))
    ELSE IF \E n \in QIdsP(a) : ~SameTriple(RecN(e.L, n), "am")
         THEN LET n == Least({x \in QIdsP(a) : ~SameTriple(RecN(e.L, x), "am")})  r == RecN(e.L, n) IN
              Stop(s, Viol("PIPE.C02.argmax node " \o Str(n) \o ": summary() reports " \o TripleStr(r.su_i, r.su_w, r.su_o)
                               \o " but the largest coefficients select " \o TripleStr(r.am_i, r.am_w, r.am_o)))
    ELSE IF \E n \in QIdsP(a) : ~RecN(e.L, n).th_hot \/ ~SameTriple(RecN(e.L, n), "th")
         THEN LET n == Least({x \in QIdsP(a) : ~RecN(e.L, x).th_hot \/ ~SameTriple(RecN(e.L, x), "th")})  r == RecN(e.L, n) IN
              Stop(s, Viol("PIPE.C05.fresh node " \o Str(n) \o ": after a forward pass in eval mode the sampled coefficients encode "
                               \o TripleStr(r.th_i, r.th_w, r.th_o) \o " but summary() reports " \o TripleStr(r.su_i, r.su_w, r.su_o)))
    ELSE IF \E L \in Layers(a) : RecN(e.L, L).su_i # RecN(e.L, HIdP(a, RefIn(gs, a, L))).su_o
         THEN LET L == Least({x \in Layers(a) : RecN(e.L, x).su_i # RecN(e.L, HIdP(a, RefIn(gs, a, x))).su_o}) IN
              Stop(s, Viol("PIPE.C02.plumb layer " \o Str(L) \o ": input precision " \o Str(RecN(e.L, L).su_i) \o " but the tensor it consumes is produced by node "
                               \o Str(HIdP(a, RefIn(gs, a, L))) \o " with output precision " \o Str(RecN(e.L, HIdP(a, RefIn(gs, a, L))).su_o)))
    ELSE IF RecN(e.L, LastLayer(a)).su_o # Float /\ Op(a, N(a)) \in {"conv", "lin"}
         THEN Stop(s, Viol("PIPE.C02.output: the network output is quantised"))
    ELSE
    LET cv == [mt \in DOMAIN e.cost |-> MpsCost(a, e, mt)]
        bad  == {mt \in DOMAIN e.cost : cv[mt].k = "viol"}
        kn   == {mt \in DOMAIN e.cost : cv[mt].k = "known"}
        drift == IF a # MpsImportArch(a0) THEN Dr("drift:MPS folded other BatchNorms than Conv2d-BN / Linear-BN: " \o ArchDiffMsg(a, MpsImportArch(a0)))
                 ELSE IF e.conflict THEN Dr("drift:the quantiser groups of the specification do not fit the quantiser objects of the model (selection drawn per object)")
                 ELSE IF \E n \in QIdsP(a) : RecN(e.L, n).su_o # RecN(e.L, n).want_o \/ RecN(e.L, n).su_w # RecN(e.L, n).want_w
                 THEN Dr("drift:summary() does not report the precisions written by the harness")
                 ELSE OK IN
    IF bad # {} THEN Stop(s, cv[CHOOSE mt \in bad : TRUE])
    ELSE IF kn # {} THEN R([s EXCEPT !.cur = a, !.su = SuOf(a, e), !.cfg = e.cfg], cv[CHOOSE mt \in kn : TRUE])
    ELSE R([s EXCEPT !.cur = a, !.su = SuOf(a, e), !.cfg = e.cfg], drift)

(* ====================================================================== *)
(* mpsx : MPS.export()                                                     *)
(* ====================================================================== *)
DoMpsx(s, e) ==
    LET a == s.cur  x == MpsExportArch(a) IN
    IF ~e.attempted THEN Stop(s, Viol("trace: export was not attempted"))
    ELSE IF s.cfg.wt = "pc"
         THEN Stop(s, OK)         \* README of MPS: export() of a per-channel search is not available yet; whatever it does is counted by the harness, nothing is claimed
    ELSE IF ~e.ok THEN Stop(s, Viol("PIPE.C02.export: export() failed on the searched MPS model: " \o e.err))
    ELSE IF ~e.proj_ok THEN Stop(s, Viol("PIPE.i.kind: the fake-quantised network contains something outside the grammar: " \o e.proj_err))
    ELSE IF ~ArchIndexOk(e.obs) THEN Stop(s, Viol("trace: malformed projection"))
    ELSE IF NormArch(e.obs) # x THEN Stop(s, Viol("PIPE.i.arch mpsx: the exported fake-quantised network has another architecture: " \o ArchDiffMsg(NormArch(e.obs), x)))
    ELSE IF ~WidthsOk(e, x) THEN Stop(s, Viol("PIPE.i.width mpsx: tensor " \o Str(FirstBadWidth(e, x)) \o " has another width than derived"))
    ELSE IF NsOf(e.X) # QIdsP(a) THEN Stop(s, Viol("PIPE.C02.exported: exported quantisation points " \o Str(NsOf(e.X)) \o " instead of " \o Str(QIdsP(a))))
    ELSE IF \E n \in QIdsP(a) : ~RecN(e.X, n).ex_ok
         THEN LET n == Least({y \in QIdsP(a) : ~RecN(e.X, y).ex_ok}) IN
              Stop(s, Viol("PIPE.C02.exported node " \o Str(n) \o ": no fake-quantised layer of the right kind / geometry (" \o RecN(e.X, n).ex_type \o ")"))
    \* (iv) summary() of the searched model describes the fake-quantised layers the integer stage receives
    ELSE IF \E n \in QIdsP(a) : LET xr == RecN(e.X, n)  r == s.su[n] IN xr.ex_o # r.su_o \/ xr.ex_i # r.su_i \/ xr.ex_w # r.su_w
         THEN LET n == Least({y \in QIdsP(a) : LET xr == RecN(e.X, y)  r == s.su[y] IN xr.ex_o # r.su_o \/ xr.ex_i # r.su_i \/ xr.ex_w # r.su_w})
                  xr == RecN(e.X, n)  r == s.su[n] IN
              Stop(s, Viol("PIPE.iv.C02.summary node " \o Str(n) \o ": exported " \o TripleStr(xr.ex_i, xr.ex_w, xr.ex_o) \o " but summary() reported " \o TripleStr(r.su_i, r.su_w, r.su_o)))
    ELSE IF ~e.bit_identical
         THEN Stop(s, Viol("PIPE.ii.C02.bit-identical: the exported model and the eval-mode MPS model differ (max |diff| x1e6 = " \o Str(e.maxdiff_e6) \o ", claim: " \o ClaimOf("mpsx") \o ")"))
    ELSE R([s EXCEPT !.cur = x], OK)

(* ====================================================================== *)
(* int : integerize_arch(backend)                                          *)
(* ====================================================================== *)
BigLeP(x, y) == IA!BigLe(x, y)
Blur(a) == [a EXCEPT !.nodes = [n \in 1..N(a) |-> IF Nd(a, n).op = "relu" THEN DefNode("id", Nd(a, n).ins) ELSE Nd(a, n)]]
\* does tensor t reach back to its quantisation point through an average pooling (avg = observed average-pooling nodes)
RECURSIVE PassesAvg(_, _, _)
PassesAvg(a, avg, t) == IF t = 0 \/ IsQNode(a, t) THEN FALSE ELSE IF t \in avg THEN TRUE ELSE PassesAvg(a, avg, In1(a, t))
IntLayer(a, be, e, su, sbit, spos, f70, avg, l) ==
    LET mau == be = "maupiti"
        r   == su[l.n]
        pre == "integer layer " \o Str(l.n) \o " (" \o be \o ", in " \o Str(l.ib) \o "b, w " \o Str(l.wb) \o "b, out " \o Str(l.ob) \o "b): "
        inLo == IA!ActLo(be, l.ib)  inHi == IA!ActHi(be, l.ib)
        bound == l.bound1024 \div 1024
        levelOK == l.maxdiff >= 0 /\ l.maxdiff <= IA!Max2(1 + bound, l.gap)
        f14 == mau /\ l.ib # l.ob /\ ~l.last
        \* (iv) the bit-widths the integer layer was built with are the ones summary() of the MPS model reported
        bits == IF l.ib # r.su_i \/ l.wb # r.su_w[1] \/ (~l.last /\ l.ob # r.su_o) \/ (l.last # (r.su_o = Float))
                THEN Viol("PIPE.iv.bits " \o pre \o "summary() of the MPS model reported " \o TripleStr(r.su_i, r.su_w, r.su_o)) ELSE OK
        ranges ==
          IF ~l.shape_ok THEN Viol("PIPE.C14.shape " \o pre \o "output shape differs from the fake-quantised layer")
          ELSE IF ~(l.lo_in = inLo /\ (l.last \/ (l.lo = IA!ActLo(be, l.ob) /\ l.hi = IA!ActHi(be, l.ob)))) THEN Viol("trace: " \o pre \o "logged ranges are not the declared ones")
          ELSE IF ~(l.w_int /\ l.w_min >= IA!WLo(l.wb) /\ l.w_max <= IA!WHi(l.wb)) THEN Viol("PIPE.C14.range " \o pre \o "stored weights " \o Str(l.w_min) \o ".." \o Str(l.w_max) \o " are not integers of a signed " \o Str(l.wb) \o "-bit range")
          ELSE IF ~(l.b_int /\ l.ab_int) THEN Viol("PIPE.C14.range " \o pre \o "stored bias is not integer")
          ELSE IF ~(l.scale_int /\ BigLeP(IA!BigInt(0), l.scale_min) /\ BigLeP(l.scale_max, IA!BigPow2(sbit - 1))) THEN Viol("PIPE.C14.range " \o pre \o "scale outside 0..2^" \o Str(sbit - 1))
          ELSE IF ~(l.shift_int /\ l.shift \in 0..(spos - 1)) THEN Viol("PIPE.C14.range " \o pre \o "shift " \o Str(l.shift) \o " outside 0.." \o Str(spos - 1))
          ELSE IF ~(IA!BigFitsI32(l.bs_min) /\ IA!BigFitsI32(l.bs_max)) THEN Viol("PIPE.C14.range " \o pre \o "bias*scale does not fit 32 bits")
          ELSE IF ~(l.in_int /\ l.in_min >= inLo /\ l.in_max <= inHi)
               THEN IF ~f70 /\ ~l.in_int /\ l.in_min >= inLo /\ l.in_max <= inHi /\ PassesAvg(a, avg, In1(a, l.n))
                    THEN Kn("known:F71:" \o pre \o "is fed fractional levels: the average pooling between its producer and the layer is left as a float average of integer levels (nothing re-quantises after the pooling)")
                    ELSE IF f70 THEN Kn("known:F70:" \o pre \o "is fed " \o Str(l.in_min) \o ".." \o Str(l.in_max) \o (IF l.in_int THEN "" ELSE " (not integers)")
                                      \o " instead of integers in " \o Str(inLo) \o ".." \o Str(inHi) \o ": the fake-quantiser after a residual add is left inside the integer network")
                    ELSE Viol("PIPE.C14.range " \o pre \o "input activations " \o Str(l.in_min) \o ".." \o Str(l.in_max) \o " are not integers in " \o Str(inLo) \o ".." \o Str(inHi))
          ELSE IF ~(l.last \/ (l.out_int /\ l.out_min >= l.lo /\ l.out_max <= l.hi)) THEN Viol("PIPE.C14.range " \o pre \o "output activations " \o Str(l.out_min) \o ".." \o Str(l.out_max) \o " are not integers in " \o Str(l.lo) \o ".." \o Str(l.hi))
          ELSE OK
        level == IF l.last THEN OK
                 ELSE IF levelOK THEN OK
                 ELSE IF f14 THEN Kn("known:F14:MAUPITI layer with in_bits # out_bits removes the input offset with the OUTPUT precision (" \o pre \o "max level difference " \o Str(l.maxdiff) \o ")")
                 ELSE Viol("PIPE.ii.C14.level " \o pre \o "max level difference " \o Str(l.maxdiff) \o " exceeds 1+" \o Str(bound) \o " (claim: " \o ClaimOf("int") \o ")")
    IN First(<<bits, ranges, level>>)

RECURSIVE IntLayersFrom(_, _, _, _, _, _, _, _, _)
IntLayersFrom(a, be, e, su, sbit, spos, f70, avg, j) ==
    IF j > Len(e.layers) THEN OK
    ELSE Worse(IntLayer(a, be, e, su, sbit, spos, f70, avg, e.layers[j]), IntLayersFrom(a, be, e, su, sbit, spos, f70, avg, j + 1))

DoInt(s, e) ==
    LET a == s.cur  be == e.backend  mau == be = "maupiti" IN
    IF ~IntDomain(a) THEN Stop(s, OK)                    \* the backends convert Conv2d / Linear networks only: nothing is claimed
    ELSE IF \E L \in Layers(a) : s.su[L].su_i = Float
    THEN Stop(s, OK)                                     \* a layer consumes a tensor MPS leaves unquantised (producer tied to the network output): no integer image exists
    ELSE IF e.stage = "floatin" THEN Stop(s, Viol("trace: the harness found a layer without input quantiser that summary() reports as quantised"))
    ELSE
    LET x == IntArch(a, be)
        pre == "integerize_arch(" \o be \o "): "
        adds == {n \in 1..N(a) : Op(a, n) = "add"}
        qpExp == IF mau THEN {} ELSE {0}                 \* MATCH keeps the input quantiser (it emits integers); nothing else may quantise in float
        qpObs == {e.qp[j] : j \in DOMAIN e.qp} IN
    IF e.stage \in {"integerize", "forward"}
    THEN IF e.stage = "integerize" /\ e.exc = "UnboundLocalError" /\ KF_NoBias(a)
         THEN Stop(s, Kn("known:F12:integer layer classes crash on a layer without bias (int_bias unbound); " \o pre \o e.msg))
         ELSE Stop(s, Viol("PIPE.C14.crash " \o pre \o e.stage \o " raises on the network MPS exported: " \o e.msg))
    ELSE IF e.stage # "done" THEN Stop(s, Viol("PIPE.C14.layers " \o pre \o e.msg))
    ELSE IF ~e.proj_ok THEN Stop(s, Viol("PIPE.i.kind " \o pre \o "the integer network contains something outside the grammar: " \o e.proj_err))
    ELSE IF ~ArchIndexOk(e.obs) THEN Stop(s, Viol("trace: malformed projection"))
    \* (whether a ReLU is kept or replaced by an identity - the clip of the requantiser implements it - is a prediction)
    ELSE IF Blur(NormArch(e.obs)) # Blur(a) THEN Stop(s, Viol("PIPE.i.arch int: " \o pre \o "the integer network has another architecture: " \o ArchDiffMsg(NormArch(e.obs), x)))
    ELSE IF ~WidthsOk(e, x) THEN Stop(s, Viol("PIPE.i.width int: tensor " \o Str(FirstBadWidth(e, x)) \o " has another width than derived"))
    ELSE IF NsOf(e.layers) # Layers(a) THEN Stop(s, Viol("PIPE.C14.layers " \o pre \o "integer layers " \o Str(NsOf(e.layers)) \o " instead of " \o Str(Layers(a))))
    ELSE
    LET residue == IF qpObs = qpExp THEN OK
                   ELSE IF KF_IntAdd(a) /\ (qpObs \ qpExp) \subseteq adds
                   THEN Kn("known:F70:" \o pre \o "the fake-quantiser(s) after the residual add(s) " \o Str(qpObs \ qpExp) \o " stay in the integer network as float PACT quantisers applied to integer levels")
                   ELSE Viol("PIPE.C14.residue " \o pre \o "float quantisers left at tensors " \o Str(qpObs \ qpExp) \o " of the integer network")
        f70 == residue.k = "known"
        avg == {e.avg[j] : j \in DOMAIN e.avg}
        lay == IntLayersFrom(a, be, e, s.su, e.scale_bit, e.shift_pos, f70, avg, 1)
        f == e.final
        fin == IF ~f.present THEN Viol("PIPE.C14.final " \o pre \o "no final layer observed")
               ELSE IF (mau \/ f.int_out) /\ f.finite /\ f.ratio1000 <= 1000 THEN OK
               ELSE IF f70 THEN residue
               ELSE IF ~(mau \/ f.int_out) /\ f.finite /\ f.ratio1000 <= 2000 /\ PassesAvg(a, avg, In1(a, f.n))
                    THEN Kn("known:F71:" \o pre \o "the MATCH logits are not integers: the final layer is fed the float average of integer levels (average pooling is not re-quantised)")
               ELSE IF ~(mau \/ f.int_out) THEN Viol("PIPE.C14.range " \o pre \o "MATCH logits are not integers")
               ELSE IF mau /\ f.conv THEN Kn("known:F31:MAUPITIConv2d as final layer returns conv(offset input) + integer bias: neither zero-point nor scale applied")
               ELSE Viol("PIPE.ii.C14.final " \o pre \o "final layer " \o Str(f.n) \o " does not reproduce the real-valued logits: got*1e6 = " \o Str(f.got1e6)
                             \o ", logits*1e6 = " \o Str(f.logit1e6) \o ", 1000*error/tolerance = " \o Str(f.ratio1000))
        drift == IF NormArch(e.obs) # x THEN Dr("drift:" \o pre \o "ReLU handling differs from the model (MAUPITI: identities, MATCH: kept): " \o ArchDiffMsg(NormArch(e.obs), x)) ELSE OK
    IN Stop([s EXCEPT !.cur = x], Worse(Worse(Worse(lay, fin), residue), drift))

(* ====================================================================== *)
(* the walk                                                                *)
(* ====================================================================== *)
Apply(s, e) ==
    CASE e.k = "seed" -> DoSeed(s, e)
      [] e.k = "pit"  -> DoPit(s, e)
      [] e.k = "pitx" -> DoPitx(s, e)
      [] e.k = "mps"  -> DoMps(s, e)
      [] e.k = "mpsx" -> DoMpsx(s, e)
      [] e.k = "int"  -> DoInt(s, e)
      [] OTHER -> Stop(s, Viol("trace: unknown event kind"))
\* the order of the stages is part of the specification
OrderOk(prevk, k) ==
    CASE k = "seed" -> prevk = "none"
      [] k = "pit"  -> prevk \in {"seed", "pitx"}
      [] k = "pitx" -> prevk = "pit"
      [] k = "mps"  -> prevk = "pitx"
      [] k = "mpsx" -> prevk = "mps"
      [] k = "int"  -> prevk = "mpsx"
      [] OTHER -> FALSE
PrevKind(t, j) == IF j = 0 THEN "none" ELSE t.ev[j].k

Init == /\ tid \in 1..Len(Traces) /\ i = 0 /\ st = St0 /\ acc = OK /\ verdict = "pending"
Step == /\ verdict = "pending" /\ st.go /\ i < Len(Traces[tid].ev)
        /\ LET e == Traces[tid].ev[i + 1]
               r == IF OrderOk(PrevKind(Traces[tid], i), e.k) THEN Apply(st, e) ELSE Stop(st, Viol("trace: stage " \o e.k \o " out of order"))
           IN  st' = r.st /\ acc' = Worse(acc, r.v)
        /\ i' = i + 1 /\ UNCHANGED <<tid, verdict>>
Finish == /\ verdict = "pending" /\ (~st.go \/ i >= Len(Traces[tid].ev))
          /\ verdict' = acc.m
          /\ UNCHANGED <<tid, i, st, acc>>
Next == Step \/ Finish
Spec == Init /\ [][Next]_vars
VerdictOk == verdict \in {"ok", "pending"}
=============================================================================
