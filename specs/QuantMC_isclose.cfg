SPECIFICATION Spec
CONSTANTS
  Impl = "isclose"
  Bits = {0, 2}
  DMuls = {1}
  DOffs = {0}
  Deltas = {1}
  BScales = {0, 1, 2, 3, 8}
  BSpan = 40
  ZT = 2
INVARIANT BErr
