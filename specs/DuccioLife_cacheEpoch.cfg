SPECIFICATION Spec
CONSTANTS
  Impl = "cacheEpoch"
  MaxCalls = 2
  Alphabet = "small"
INVARIANT HistoryIndependent
INVARIANT InitOnce
INVARIANT DefaultsAreFinal
INVARIANT ExactFamily
