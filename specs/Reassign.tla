------------------------------ MODULE Reassign ------------------------------
(***************************************************************************)
(* Precision refinement of plinio.methods.mps.utils (property C20).        *)
(*                                                                         *)
(*  1. AsIsAssign : literal transcription, statement by statement, of      *)
(*     _reassign_precisions(best, scores) of the pinned tree (two passes,  *)
(*     "-1" marks, Python slice semantics incl. negative bounds).          *)
(*  2. RefAssign  : an intended reassignment (keeps what it can, fills     *)
(*     deficits from the released channels, lowest current precision       *)
(*     first) -- shows that the property is satisfiable and is what the    *)
(*     must-pass design configuration checks.                              *)
(*  3. The two "move one channel up" searches of optimize_prec_assignment  *)
(*     over COUNT VECTORS (Case 1 restarts from the original counts for    *)
(*     every pair (i,j), Case 2 is cumulative), parameterised by a cost    *)
(*     oracle, and the NE16 latency of a layer as integer arithmetic       *)
(*     (Ne16PerfModel.latency for 3x3 / 1x1 generic convolutions, linear = *)
(*     1x1 on a 1x1 map).                                                  *)
(*                                                                         *)
(* Conventions: precisions (rows of the score matrix) are 1..P, channels   *)
(* 1..C, "unassigned" (Python -1) is 0.  scores[p][c] are integers; the    *)
(* generators only produce tie-free matrices (float ties make torch's      *)
(* argsort order unspecified), the operators are nevertheless total:       *)
(* ties are broken towards the smaller index.                              *)
(* Variable-free operator library.                                         *)
(***************************************************************************)
EXTENDS Integers, Sequences, FiniteSets

Min2(a, b) == IF a <= b THEN a ELSE b
Max2(a, b) == IF a >= b THEN a ELSE b
RangeOf(s) == {s[i] : i \in DOMAIN s}

RECURSIVE SumSeq(_)
SumSeq(s) == IF Len(s) = 0 THEN 0 ELSE s[1] + SumSeq(Tail(s))

NRows(scores) == Len(scores)
NCols(scores) == Len(scores[1])

\* Python slices  s[:t]  and  s[t:]  (t may be negative or exceed the length)
PyTake(s, t) == IF t >= 0 THEN SubSeq(s, 1, Min2(t, Len(s)))
                ELSE SubSeq(s, 1, Max2(Len(s) + t, 0))
PyDrop(s, t) == IF t >= 0 THEN SubSeq(s, Min2(t, Len(s)) + 1, Len(s))
                ELSE SubSeq(s, Max2(Len(s) + t, 0) + 1, Len(s))

\* torch.argmax(scores, dim=0)[c]
ArgMaxCol(scores, c) ==
    CHOOSE p \in 1..NRows(scores) :
        /\ \A q \in 1..NRows(scores) : scores[q][c] <= scores[p][c]
        /\ \A q \in 1..(p - 1) : scores[q][c] < scores[p][c]

Cur(scores) == [c \in 1..NCols(scores) |-> ArgMaxCol(scores, c)]

\* the elements of set S as a sequence, by descending key (ties: smaller element first)
RECURSIVE SortDescBy(_, _)
SortDescBy(key, S) ==
    IF S = {} THEN <<>>
    ELSE LET m == CHOOSE c \in S : \A d \in S : key[d] < key[c] \/ (key[d] = key[c] /\ d >= c)
         IN  <<m>> \o SortDescBy(key, S \ {m})

\* torch.argsort(scores, dim=1, descending=True)[p]
SortedRow(scores, p) == SortDescBy(scores[p], 1..NCols(scores))

\* elements of a set of naturals in ascending order  ((x == p).nonzero())
RECURSIVE AscSeq(_)
AscSeq(S) == IF S = {} THEN <<>>
             ELSE LET m == CHOOSE c \in S : \A d \in S : c <= d IN <<m>> \o AscSeq(S \ {m})

CountOf(a, p) == Cardinality({c \in DOMAIN a : a[c] = p})
Counts(a, P)  == [p \in 1..P |-> CountOf(a, p)]

(***************************************************************************)
(* 1. as implemented                                                       *)
(***************************************************************************)
\* first loop of _reassign_precisions ("Enforce the new cardinality"), rows p..P
RECURSIVE Pass1(_, _, _, _, _)
Pass1(p, new, best, scores, cur) ==
    IF p > NRows(scores) THEN new
    ELSE LET t    == best[p]                                     \* target_count
             idx  == AscSeq({c \in DOMAIN cur : cur[c] = p})      \* prec_indices
         IN  IF t = 0
             THEN Pass1(p + 1, [c \in DOMAIN new |-> IF cur[c] = p THEN 0 ELSE new[c]],
                        best, scores, cur)
             ELSE LET top == RangeOf(PyTake(SortedRow(scores, p), t))   \* top_indices
                      exc == RangeOf(PyDrop(idx, t))                    \* excess_channels
                      n1  == [c \in DOMAIN new |-> IF c \in top THEN p ELSE new[c]]
                      n2  == [c \in DOMAIN new |-> IF c \in exc THEN 0 ELSE n1[c]]
                  IN  Pass1(p + 1, n2, best, scores, cur)

\* second loop ("Reassign channels marked as unassigned ...")
RECURSIVE Pass2(_, _, _, _)
Pass2(p, new, best, scores) ==
    IF p > NRows(scores) THEN new
    ELSE LET t   == best[p]
             cnt == CountOf(new, p)
         IN  IF cnt < t
             THEN LET un  == SelectSeq(SortedRow(scores, p), LAMBDA c : new[c] = 0)
                      top == RangeOf(PyTake(un, t - cnt))
                  IN  Pass2(p + 1, [c \in DOMAIN new |-> IF c \in top THEN p ELSE new[c]],
                            best, scores)
             ELSE Pass2(p + 1, new, best, scores)

AsIsAssign(best, scores) ==
    LET cur == Cur(scores) IN Pass2(1, Pass1(1, cur, best, scores, cur), best, scores)

\* the binary matrix returned by the function
MatrixOf(a, P) == [p \in 1..P |-> [c \in DOMAIN a |-> IF a[c] = p THEN 1 ELSE 0]]

\* what the caller makes of it: the matrix replaces alpha, the selected precision of a
\* channel is argmax over its column; an all-zero column (channel left unassigned) selects row 1
SelectedAfter(a) == [c \in DOMAIN a |-> IF a[c] = 0 THEN 1 ELSE a[c]]

(***************************************************************************)
(* 2. intended                                                             *)
(* order = the rows sorted by ascending bit-width (order[1] = lowest).     *)
(* Stage A: every precision keeps min(target, current) of its own channels *)
(* (highest score for that precision), the others are released.  Stage B:  *)
(* deficits are filled in ascending bit-width order from the released      *)
(* channels, lowest current bit-width first (then highest score).          *)
(***************************************************************************)
RankIn(order, p) == CHOOSE k \in DOMAIN order : order[k] = p

KeepSet(best, scores, cur, p) ==
    LET own == {c \in DOMAIN cur : cur[c] = p}
    IN  RangeOf(PyTake(SortDescBy(scores[p], own), Max2(best[p], 0)))

StageA(best, scores, cur) ==
    [c \in DOMAIN cur |-> IF c \in KeepSet(best, scores, cur, cur[c]) THEN cur[c] ELSE 0]

RECURSIVE StageB(_, _, _, _, _, _)
StageB(k, new, best, scores, cur, order) ==
    IF k > Len(order) THEN new
    ELSE LET p    == order[k]
             need == best[p] - CountOf(new, p)
             pool == {c \in DOMAIN new : new[c] = 0}
             \* key: lowest current bit-width first, then highest score for p
             key  == [c \in DOMAIN new |->
                        (Len(order) - RankIn(order, cur[c])) * 1000000 + scores[p][c]]
             top  == RangeOf(PyTake(SortDescBy(key, pool), Max2(need, 0)))
         IN  StageB(k + 1, [c \in DOMAIN new |-> IF c \in top THEN p ELSE new[c]],
                    best, scores, cur, order)

RefAssign(best, scores, order) ==
    LET cur == Cur(scores) IN StageB(1, StageA(best, scores, cur), best, scores, cur, order)

Assign(impl, best, scores, order) ==
    IF impl = "asis" THEN AsIsAssign(best, scores) ELSE RefAssign(best, scores, order)

(***************************************************************************)
(* properties of an assignment a (sequence over 0..P)                      *)
(***************************************************************************)
AllAssigned(a)        == \A c \in DOMAIN a : a[c] # 0
CountsMet(a, best)    == \A p \in DOMAIN best : CountOf(a, p) = best[p]
\* bits[p] = bit-width of row p
NoLowered(before, after, bits) ==
    \A c \in DOMAIN before : after[c] # 0 /\ bits[after[c]] >= bits[before[c]]

IsComposition(best, C) == (\A p \in DOMAIN best : best[p] >= 0) /\ SumSeq(best) = C

\* ascending-bit-width order of the rows
OrderOf(bits) == LET neg == [p \in DOMAIN bits |-> 0 - bits[p]] IN SortDescBy(neg, DOMAIN bits)

\* new counts can be obtained from old counts by moving channels to higher bit-widths only:
\* every suffix (in ascending bit-width order) holds at least as many channels as before
RECURSIVE SuffixSum(_, _, _)
SuffixSum(n, order, k) == IF k > Len(order) THEN 0 ELSE n[order[k]] + SuffixSum(n, order, k + 1)
Dominates(new, old, order) ==
    /\ SuffixSum(new, order, 1) = SuffixSum(old, order, 1)
    /\ \A k \in DOMAIN order : SuffixSum(new, order, k) >= SuffixSum(old, order, k)

(***************************************************************************)
(* 3a. NE16 latency, integers (plinio/cost/ne16_latency.py)                *)
(* kind: "3x3" | "1x1" (generic convolutions; Linear = "1x1", H = W = 1)   *)
(***************************************************************************)
DivCeil(a, b)  == ((a - 1) \div b) + 1                  \* DivAndCeilSTE
NeLoad(kind)   == IF kind = "1x1" THEN 10 + 3 * 3 * DivCeil(16 * 8, 256)
                  ELSE 6 + 5 * 5 * DivCeil(16 * 8, 256)
NeMatVec(kind, k, b) == IF kind = "1x1" THEN 6 + k ELSE 6 + k * b
NeNormQuant(k) == 9 + DivCeil(k * (32 \div 8), 4)
NeStreamOut    == 3 + 3 * 3 * DivCeil(32 * 8, 256) + 1
NeIter(kind, k, b, nin) ==
    nin * (NeLoad(kind) + 6 + NeMatVec(kind, k, b) + 2) + NeNormQuant(k) + NeStreamOut

\* latency of n output channels at b bits; g = [kind, h, w, cin]
Ne16Lat(g, n, b) ==
    IF n = 0 \/ b = 0 THEN 0
    ELSE LET body == n \div 32
             rem  == n % 32
             nin  == DivCeil(g.cin, 16)
             nsp  == DivCeil(g.h, 3) * DivCeil(g.w, 3)
         IN  nsp * (body * NeIter(g.kind, 32, b, nin)
                    + (IF rem # 0 THEN NeIter(g.kind, rem, b, nin) ELSE 0))

RECURSIVE LayerCostFrom(_, _, _, _)
LayerCostFrom(g, n, bits, p) ==
    IF p > Len(n) THEN 0 ELSE Ne16Lat(g, n[p], bits[p]) + LayerCostFrom(g, n, bits, p + 1)
\* intended layer cost of a count vector n (n[p] channels at bits[p])
LayerCost(g, n, bits) == LayerCostFrom(g, n, bits, 1)

(***************************************************************************)
(* 3b. the searches of optimize_prec_assignment over count vectors.        *)
(* A configuration is a count vector indexed like the rows (1..P); the     *)
(* loops run over positions of `order` (ascending bit-width).  extra = 0:  *)
(* `while count[i] > 0` in exact arithmetic; extra = 1 models the pinned   *)
(* code when the float32 residue of  n/C - n*(1/C)  is positive: the loop  *)
(* makes one more move (count[i] = -1).                                    *)
(***************************************************************************)
Move(n, from, to) == [n EXCEPT ![from] = @ - 1, ![to] = @ + 1]

\* configurations visited by  while n[from] > 0: move from -> to   starting from n (not included);
\* written without recursion (TLC's Java stack): the k-th visited configuration has moved k channels
Chain(n, from, to, extra) ==
    LET m == IF n[from] > 0 THEN n[from] + extra ELSE 0
    IN  [k \in 1..m |-> [n EXCEPT ![from] = @ - k, ![to] = @ + k]]
LastOr(s, dflt) == IF Len(s) = 0 THEN dflt ELSE s[Len(s)]

\* Case 1: for i, for j > i: restart from n0
RECURSIVE Case1From(_, _, _, _, _, _)
Case1From(n0, order, bits, i, j, extra) ==
    IF i > Len(order) THEN <<>>
    ELSE IF bits[order[i]] = 0 \/ j > Len(order) THEN Case1From(n0, order, bits, i + 1, i + 2, extra)
    ELSE Chain(n0, order[i], order[j], extra) \o Case1From(n0, order, bits, i, j + 1, extra)
Case1Visits(n0, order, bits, extra) == Case1From(n0, order, bits, 1, 2, extra)

\* Case 2: cumulative
RECURSIVE Case2From(_, _, _, _, _, _)
Case2From(n, order, bits, i, j, extra) ==
    IF i > Len(order) THEN <<>>
    ELSE IF bits[order[i]] = 0 \/ j > Len(order) THEN Case2From(n, order, bits, i + 1, i + 2, extra)
    ELSE LET ch == Chain(n, order[i], order[j], extra)
         IN  ch \o Case2From(LastOr(ch, n), order, bits, i, j + 1, extra)
Case2Visits(n0, order, bits, extra) == Case2From(n0, order, bits, 1, 2, extra)

Visits(n0, order, bits, extra) ==
    Case1Visits(n0, order, bits, extra) \o Case2Visits(n0, order, bits, extra)

\* `if cost_tmp < best_cost: best = tmp` along a sequence of <<config, cost>> pairs, starting from
\* <<bestn, bestc>>: the EARLIEST configuration of minimal cost (index 0 = the starting one)
BestAlong(vc, bestn, bestc) ==
    LET cost(k) == IF k = 0 THEN bestc ELSE vc[k][2]
        vals == {cost(k) : k \in 0..Len(vc)}
        minc == CHOOSE x \in vals : \A y \in vals : x <= y
        I    == {k \in 0..Len(vc) : cost(k) = minc}
        kb   == CHOOSE k \in I : \A j \in I : k <= j
    IN  IF kb = 0 THEN <<bestn, bestc>> ELSE <<vc[kb][1], vc[kb][2]>>

\* the count vector chosen for a layer with intended NE16 cost
Chosen(g, n0, bits, extra) ==
    LET order == OrderOf(bits)
        vs    == Visits(n0, order, bits, extra)
        vc    == [k \in DOMAIN vs |-> <<vs[k], LayerCost(g, vs[k], bits)>>]
    IN  BestAlong(vc, n0, LayerCost(g, n0, bits))

(***************************************************************************)
(* 4. Sampling life cycle of a per-channel MPS model before a refinement.  *)
(* optimize_prec_assignment reads the per-precision channel counts from    *)
(* theta_alpha (the SAMPLED coefficients) and the scores from alpha.  What *)
(* theta_alpha holds depends on the sampling options and on the calls made *)
(* before; the result of the refinement must not (history independence):   *)
(* it must be the result on a fresh model with the same alpha, i.e. the    *)
(* refinement has to see the plain arg-max of the CURRENT alpha.           *)
(* st = [train, hard, gumbel, disable, temp, fwd, th]                      *)
(*   fwd : a forward pass happened since alpha was last written            *)
(*   th  : [kind, cur]  kind of sample held by theta_alpha                 *)
(*         "soft" soft-max, "hot" plain arg-max (one-hot), "gsoft"/"ghot"  *)
(*         soft / hard Gumbel sample (noisy); cur = computed from the      *)
(*         alpha the model holds now                                       *)
(***************************************************************************)
LifeActions == {"train", "eval", "fwd", "hard1", "hard0", "gumbel1", "gumbel0",
                "dis1", "dis0", "temp_low", "temp_one", "write"}

\* a model just built (the constructor samples soft-max coefficients of the default alpha in
\* training mode) whose alpha was then overwritten with searched values
LifeInit == [train |-> TRUE, hard |-> FALSE, gumbel |-> FALSE, disable |-> FALSE, temp |-> "one",
             fwd |-> FALSE, th |-> [kind |-> "soft", cur |-> FALSE]]

\* MPSBaseQtz.sample_alpha as selected by update_softmax_options (sample_alpha_none / _gs / _sm)
Sampled(st) ==
    IF st.disable THEN st.th
    ELSE IF st.gumbel /\ st.train THEN [kind |-> IF st.hard THEN "ghot" ELSE "gsoft", cur |-> TRUE]
    ELSE [kind |-> IF st.hard \/ ~st.train THEN "hot" ELSE "soft", cur |-> TRUE]

LifeStep(st, a) ==
    CASE a = "train"    -> [st EXCEPT !.train = TRUE]
      [] a = "eval"     -> [st EXCEPT !.train = FALSE]
      [] a = "fwd"      -> [st EXCEPT !.th = Sampled(st), !.fwd = TRUE]
      [] a = "hard1"    -> [st EXCEPT !.hard = TRUE]
      [] a = "hard0"    -> [st EXCEPT !.hard = FALSE]
      [] a = "gumbel1"  -> [st EXCEPT !.gumbel = TRUE]
      [] a = "gumbel0"  -> [st EXCEPT !.gumbel = FALSE]
      [] a = "dis1"     -> [st EXCEPT !.disable = TRUE]
      [] a = "dis0"     -> [st EXCEPT !.disable = FALSE]
      [] a = "temp_low" -> [st EXCEPT !.temp = "low"]
      [] a = "temp_one" -> [st EXCEPT !.temp = "one"]
      [] a = "write"    -> [st EXCEPT !.th.cur = FALSE, !.fwd = FALSE]

RECURSIVE LifeRun(_, _, _)
LifeRun(st, hist, i) == IF i > Len(hist) THEN st ELSE LifeRun(LifeStep(st, hist[i]), hist, i + 1)

\* the state in which the refinement reads theta_alpha (after its own preparation + dummy forward)
\*   "explicit": update_softmax_options(hard=True, gumbel=False, disable_sampling=False)  (current tree)
\*   "hardOnly": update_softmax_options(hard=True) with unspecified options kept
\*   "evalMode": model.eval() around the dummy forwards, options untouched
RefinePrepared(impl, st) ==
    LET p == CASE impl = "explicit" -> [st EXCEPT !.hard = TRUE, !.gumbel = FALSE, !.disable = FALSE]
               [] impl = "hardOnly" -> [st EXCEPT !.hard = TRUE]
               [] impl = "evalMode" -> [st EXCEPT !.train = FALSE]
    IN  LifeStep(p, "fwd")
SeesArgmax(st) == st.th = [kind |-> "hot", cur |-> TRUE]
=============================================================================
