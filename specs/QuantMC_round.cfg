SPECIFICATION Spec
CONSTANTS
  Impl = "round"
  Bits = {2, 3}
  DMuls = {1}
  DOffs = {0, 1}
  Deltas = {1, 2}
  BScales = {1}
  BSpan = 4
  ZT = 2
INVARIANT ATrunc
