--------------------------- MODULE IntegerizeTrace ---------------------------
(***************************************************************************)
(* Trace validation for C14.  One trace = what the REAL backend code of    *)
(* plinio did in one scenario, reduced by the harness to integers          *)
(* (big ones as sign / base-2^14 limb records, see IntegerArith Part C)    *)
(* and booleans.  Three kinds:                                             *)
(*                                                                         *)
(* kind "tiny"   one state of IntegerizeMC (mode "layer") executed on a    *)
(*    real MATCHLinear / MATCHConv2d / MAUPITILinear / MAUPITIConv2d       *)
(*    object (constructor + forward; stub quantisers supply the exactly    *)
(*    dyadic scales):                                                      *)
(*      [backend, cls |-> "lin" | "conv" | "convpad", ib, ob, w, x, b,     *)
(*       tm, te, sbit, spos, predict,                                      *)
(*       exc, scale, shift, addend, out, outint]                           *)
(* kind "approx" one state of mode "approx" executed on the real           *)
(*    _integer_approximation of one of the four classes:                   *)
(*      [cls, tms, te, bs, sbit, spos, predict, exc, scales, shift]        *)
(* kind "life"   one history of IntegerizeLife (forward / weight updates / *)
(*    conversions with different option sets) on a flat or nested model;   *)
(*    every conversion is judged like a "net" against the CURRENT weights  *)
(*    and the options of THAT call (clauses "C14.life", "C14.struct").     *)
(* kind "net"    MPS.export() -> integerize_arch(deepcopy, backend) on a   *)
(*    generated network; per integer layer the observations listed at      *)
(*    LayerCheck below.                                                    *)
(*                                                                         *)
(* PROPERTY clauses (a failure is a violation "C14...."), evaluated on     *)
(* OBSERVED values only:                                                   *)
(*   range    stored weights / scaled bias / scale / shift / activations   *)
(*            are integers inside the range the backend declares           *)
(*   level    |integer layer - image of the fake-quantised counterpart|    *)
(*            <= 1 + bound, bound = floor(|acc+b| * |scale/2^shift - T|    *)
(*            + stated tolerances), recomputed by TLC from the logged      *)
(*            operands for tiny layers and for the sampled elements of     *)
(*            network layers; the per-layer maximum against the per-layer  *)
(*            bound (exact Fraction arithmetic of the harness)             *)
(*   final    the last layer reproduces the real-valued logits             *)
(*   crash    integerize_arch / the integer network raise (except: the     *)
(*            real _integer_approximation fails when NO shift satisfies    *)
(*            the 32-bit constraint - ShiftSelect = -1 - which leaves      *)
(*            nothing the property could ask for)                          *)
(* KNOWN signatures (scenario predicate and, where the operands are        *)
(* logged, bug-compatibility with the "asis" operators of IntegerArith):   *)
(*   F12 bias-free layer; F13 MATCH dilation on axis 1; F14 MAUPITI with   *)
(*   non-square padding or in_bits # out_bits; F30 MATCH dilated depthwise *)
(*   conv; F31 MAUPITI network ending in a conv; F32 bias*scale in         *)
(*   2^31..2^31+128 accepted by the float32 overflow test.                 *)
(* PREDICTION clauses (only "drift:", never an alarm): the observed shift, *)
(* scale, scaled bias / zero-point and output equal what ShiftSelect,      *)
(* ScaleFor, ZeroPoint(CodeImpl) and Requant compute.                      *)
(* A violation wins over a known finding, which wins over drift.           *)
(***************************************************************************)
EXTENDS IntegerArith, FiniteSets, Json, IOUtils, TLC

Traces == JsonDeserialize(IOEnv.TRACE_FILE)

VARIABLES tid, verdict

\* Which transcription of IntegerArith describes the code under test in the PREDICTION clauses and in the
\* bug-compatibility part of the F14 signature: "asis" = pinned MAUPITI (zero-point and padding value use the
\* output precision).  To be set to "ref" once a fix: commit repairs F14 (until then a repaired tree only
\* produces SPEC-DRIFT lines, never an alarm).
CodeImpl == "asis"

Has(r, f) == f \in DOMAIN r
V(k, m)  == [k |-> k, m |-> m]
OK       == V("ok", "ok")
Rank(v)  == CASE v.k = "viol" -> 3 [] v.k = "known" -> 2 [] v.k = "drift" -> 1 [] OTHER -> 0
Worse(a, b) == IF Rank(b) > Rank(a) THEN b ELSE a          \* keeps the FIRST of equal rank

RECURSIVE Worst(_, _)
Worst(vs, i) == IF i > Len(vs) THEN OK ELSE Worse(vs[i], Worst(vs, i + 1))


Str(v) == ToString(v)
BigStr(x) == IF Len(x.m) <= 2 THEN Str(BigToIntCap(x)) ELSE Str(x)

\* a float32 tensor stores the sum of terms of total magnitude `mag` to 2^-21 relative (plus one unit)
Near(a, m, mag) == BigLe(BigShl(BigAbs(BigSub(a, m)), 21), BigAdd(mag, BigPow2(21)))

(***************************************************************************)
(* kind "tiny"                                                             *)
(***************************************************************************)
\* operands for which ShiftSelect can be evaluated with TLC's native 32-bit integers (otherwise: ShiftSelectBig)
SmallOpts(t) == t.sbit <= 12 /\ t.spos <= 12 /\ t.te >= 0 /\ t.te <= 10
Small(t)     == SmallOpts(t) /\ t.tm <= 255 /\ Abs(t.b) <= 1000
SmallA(t)    == SmallOpts(t) /\ \A i \in DOMAIN t.tms : t.tms[i] <= 255

TinyCheck(t) ==
    LET mau   == t.backend = "maupiti"
        loIn  == ActLo(t.backend, t.ib)
        lo    == ActLo(t.backend, t.ob)
        hi    == ActHi(t.backend, t.ob)
        acc   == t.w[1] * t.x[1] + t.w[2] * t.x[2]               \* unsigned-level accumulator
        wsum  == t.w[1] + t.w[2]
        \* accumulator as the requantiser of the real layer sees it ("asis" offsets / padding)
        accr(impl) == IF ~mau THEN acc
                      ELSE IF t.cls = "convpad"
                           THEN t.w[1] * (t.x[1] + loIn) + t.w[2] * PadValue(impl, loIn, lo)
                           ELSE t.w[1] * (t.x[1] + loIn) + t.w[2] * (t.x[2] + loIn)
        S     == t.scale
        bS    == BigMul(BigInt(t.b), S)
        lev   == t.out - lo
        fake  == FakeLevelBig(BigInt(acc + t.b), BigInt(t.tm), -t.te, t.ob)        \* unbounded integers (te up to 31)
        bound == ApproxFloorBig(BigInt(acc + t.b), S, t.shift, BigInt(t.tm), -t.te)
        zp(impl) == ZeroPointBig(impl, bS, S, t.shift, loIn, lo, BigInt(wsum))
        model    == IF mau THEN zp(CodeImpl) ELSE bS
        mag      == BigAdd(BigAbs(bS), BigAdd(BigShl(BigInt(Abs(lo)), t.shift), BigAbs(BigMul(BigInt(lo * wsum), S))))
        asisOut  == RequantBig(BigInt(accr(CodeImpl)), S, t.addend, t.shift, lo, hi)
        eSh   == IF Small(t) THEN ShiftSelect(<<t.tm>>, t.te, <<t.b>>, t.sbit, t.spos)
                 ELSE ShiftSelectBig(<<BigInt(t.tm)>>, <<-t.te>>, <<BigInt(t.b)>>, t.sbit, t.spos)
        pre   == "tiny " \o t.backend \o "/" \o t.cls \o " ib=" \o Str(t.ib) \o " ob=" \o Str(t.ob) \o " w=" \o Str(t.w)
                   \o " x=" \o Str(t.x) \o " b=" \o Str(t.b) \o " T=" \o Str(t.tm) \o "/2^" \o Str(t.te) \o ": "
        levelOK == Abs(lev - fake) <= 1 + bound
        f14   == mau /\ t.ib # t.ob /\ Near(t.addend, model, mag)
    IN  IF t.exc # ""
        THEN IF eSh = -1 THEN OK ELSE V("viol", "C14.crash " \o pre \o "raises " \o t.exc)
        ELSE Worse(
          (IF ~(BigOk(S) /\ BigOk(t.addend)) THEN V("viol", "C14.trace malformed big number")
          ELSE IF ~(t.shift \in 0..(t.spos - 1)) THEN V("viol", "C14.range " \o pre \o "shift " \o Str(t.shift) \o " outside 0.." \o Str(t.spos - 1))
          ELSE IF ~(BigLe(S, BigPow2(t.sbit - 1))) THEN V("viol", "C14.range " \o pre \o "scale " \o BigStr(S) \o " above 2^" \o Str(t.sbit - 1))
          ELSE IF ~(BigFitsI32(bS)) THEN V("viol", "C14.range " \o pre \o "bias*scale does not fit 32 bits")
          ELSE IF ~(t.outint /\ t.out >= lo /\ t.out <= hi) THEN V("viol", "C14.range " \o pre \o "output " \o Str(t.out) \o " not an integer in " \o Str(lo) \o ".." \o Str(hi))
          ELSE IF ~(levelOK \/ f14) THEN V("viol", "C14.level " \o pre \o "integer layer gives level " \o Str(lev) \o ", fake-quantised image "
                        \o Str(fake) \o ", bound 1+" \o Str(bound))
          ELSE IF ~(levelOK) THEN V("known", "known:F14:MAUPITI layer with in_bits # out_bits removes the input offset with the OUTPUT precision ("
                        \o pre \o "level " \o Str(lev) \o " vs " \o Str(fake) \o ")")
          ELSE OK),
          (IF ~(~t.predict \/ t.shift = eSh) THEN V("drift", "drift:" \o pre \o "shift " \o Str(t.shift) \o " but ShiftSelect gives " \o Str(eSh))
          ELSE IF ~(S = ScaleForBig(BigInt(t.tm), -t.te, t.shift, t.sbit)) THEN V("drift", "drift:" \o pre \o "scale " \o BigStr(S) \o " is not clip(ceil(T*2^shift))")
          ELSE IF ~(Near(t.addend, model, mag)) THEN V("drift", "drift:" \o pre \o "stored scaled bias / zero-point " \o BigStr(t.addend) \o " differs from the model")
          ELSE IF ~(~t.offb \/ t.out = asisOut) THEN V("drift", "drift:" \o pre \o "output " \o Str(t.out) \o " but Requant gives " \o Str(asisOut))
          ELSE OK))

(***************************************************************************)
(* kind "approx"                                                           *)
(***************************************************************************)
\* signature of F32 (bug-compatibility with `scaled_bias > 2**31-1` evaluated on float32 tensors: the bound is
\* promoted to 2^31 and the product is rounded to 24 bits): the product lies in 2^31 .. 2^31 + 128
F32Sig(p) == BigLe(BigPow2(31), p) /\ BigLe(p, BigAdd(BigPow2(31), BigInt(128)))

ApproxCheck(t) ==
    LET n    == Len(t.tms)
        tmsB == [i \in 1..n |-> BigInt(t.tms[i])]
        tesB == [i \in 1..n |-> -t.te]
        bsB  == [i \in 1..n |-> BigInt(t.bs[i])]
        eSh  == IF SmallA(t) THEN ShiftSelect(t.tms, t.te, t.bs, t.sbit, t.spos)
                ELSE ShiftSelectBig(tmsB, tesB, bsB, t.sbit, t.spos)
        pre  == "approx " \o t.cls \o " T=" \o Str(t.tms) \o "/2^" \o Str(t.te) \o " b=" \o Str(t.bs)
                   \o " scale_bit=" \o Str(t.sbit) \o " shift_pos=" \o Str(t.spos) \o ": "
    IN  IF t.exc # ""
        THEN \* no shift satisfies the 32-bit constraint: nothing the property could ask for (the code fails on
             \* torch.tensor(None)); any other exception is a violation
             IF eSh = -1 THEN OK ELSE V("viol", "C14.crash " \o pre \o "raises " \o t.exc)
        ELSE Worse(
          (IF ~(Len(t.scales) = n /\ \A i \in 1..n : BigOk(t.scales[i])) THEN V("viol", "C14.trace malformed scales")
          ELSE IF ~(t.shift \in 0..(t.spos - 1)) THEN V("viol", "C14.range " \o pre \o "shift " \o Str(t.shift) \o " outside 0.." \o Str(t.spos - 1))
          ELSE IF ~(\A i \in 1..n : BigLe(t.scales[i], BigPow2(t.sbit - 1))) THEN V("viol", "C14.range " \o pre \o "a scale exceeds 2^" \o Str(t.sbit - 1))
          ELSE IF ~(\A i \in 1..n : BigFitsI32(BigMul(bsB[i], t.scales[i])) \/ F32Sig(BigMul(bsB[i], t.scales[i]))) THEN V("viol", "C14.range " \o pre \o "bias*scale does not fit 32 bits (shift " \o Str(t.shift) \o ")")
          ELSE IF ~(\A i \in 1..n : BigFitsI32(BigMul(bsB[i], t.scales[i]))) THEN V("known", "known:F32:the 32-bit test on bias*scale is evaluated in float32 (2^31-1 becomes 2^31): a product in 2^31..2^31+128 is accepted; "
                        \o pre \o "shift " \o Str(t.shift))
          ELSE OK),
          (IF ~(~t.predict \/ t.shift = eSh) THEN V("drift", "drift:" \o pre \o "shift " \o Str(t.shift) \o " but ShiftSelect gives " \o Str(eSh))
          ELSE IF ~(\A i \in 1..n : t.scales[i] = ScaleForBig(tmsB[i], -t.te, t.shift, t.sbit)) THEN V("drift", "drift:" \o pre \o "scales are not clip(ceil(T*2^shift))")
          ELSE OK))

(***************************************************************************)
(* kind "net"                                                              *)
(*  t.spec   requested conv / linear layers: [op, name, hasbias, k, p, d,  *)
(*           s, dws]  (scenario predicates of the known findings)          *)
(*  t.stage  "integerize" / "forward" (with t.exc) when the real code      *)
(*           raised, "done" otherwise                                      *)
(*  t.layers per integer layer, all read from the real objects:            *)
(*    conv, last, ib, ob, wb, lo_in, lo, hi     precisions / ranges        *)
(*    w_int, w_min, w_max; b_int; ab_int; scale_int, scale_min, scale_max; *)
(*    shift, shift_int; bs_min, bs_max (exact b_int*scale);                *)
(*    in_int, in_min, in_max; out_int, out_min, out_max; shape_ok          *)
(*    maxdiff   max |integer level - fake image| over all elements         *)
(*    bound1024 ceil(1024 * max over elements of the exact bound)          *)
(*    gap       top level of the integer range - top level PACT emits      *)
(*    samples   elements with full operands: c, acc (as fed to the         *)
(*              requantiser), accu (unsigned-level accumulator), scale, b, *)
(*              addend (stored scaled bias / zero-point of the channel),   *)
(*              wsum, out, lev, fake, diff, offb (exact value far from a   *)
(*              rounding boundary of the float32 evaluation), tm, te       *)
(*              (float target = tm*2^te), stab1024 / f321024 (stated       *)
(*              tolerances: PACT stabiliser, float32 round-off)            *)
(*  t.final  last layer: finite, ratio1000 = 1000 * max |got - logits| /   *)
(*           tolerance                                                     *)
(***************************************************************************)
SpecLayers(t, P(_)) == {i \in DOMAIN t.spec : P(t.spec[i])}

KF12(t) == SpecLayers(t, LAMBDA l : ~l.hasbias) # {}
KF13(t) == t.backend = "match" /\ SpecLayers(t, LAMBDA l : l.op = "conv" /\ l.d[2] # 1) # {}
KF30(t) == t.backend = "match" /\ SpecLayers(t, LAMBDA l : l.op = "conv" /\ l.dws /\ l.d[1] # 1 /\ l.d[2] = 1) # {}
KF14pad(t) == t.backend = "maupiti" /\ SpecLayers(t, LAMBDA l : l.op = "conv" /\ l.p[1] # l.p[2]) # {}
\* documented restriction of MATCH (ValueError): dilation on both axes, or dilation with a kernel that is not 1 on the other axis
MatchDilUnsupported(t) ==
    t.backend = "match" /\ SpecLayers(t, LAMBDA l : l.op = "conv" /\
        ((l.d[1] # 1 /\ l.d[2] # 1) \/ (l.d[1] # 1 /\ l.k[2] # 1) \/ (l.d[2] # 1 /\ l.k[1] # 1))) # {}

CrashCheck(t) ==
    LET pre == "net " \o t.backend \o ": " \o t.stage \o " raises " \o t.exc \o " (" \o t.msg \o ")"
    IN  IF t.stage = "integerize" /\ t.exc = "UnboundLocalError" /\ KF12(t)
        THEN V("known", "known:F12:integer layer classes crash on a layer without bias (int_bias unbound); " \o pre)
        ELSE IF t.stage = "integerize" /\ t.exc = "ValueError" /\ MatchDilUnsupported(t)
        THEN V("ok", "ok")                                   \* documented restriction, counted by the harness
        ELSE IF t.stage = "integerize" /\ t.exc = "RuntimeError" /\ KF13(t)
        THEN V("known", "known:F13:MATCHConv2d pads a dilated kernel along axis 0 even when the dilated axis is 1; " \o pre)
        ELSE IF t.stage = "integerize" /\ t.exc = "IndexError" /\ KF30(t)
        THEN V("known", "known:F30:MATCHConv2d._pad_dilation_in_weight ignores groups (dilated depthwise conv); " \o pre)
        ELSE IF t.stage = "forward" /\ t.exc = "RuntimeError" /\ KF14pad(t)
        THEN V("known", "known:F14:MAUPITIConv2d pads all four sides with padding[0] (non-square padding); " \o pre)
        ELSE V("viol", "C14.crash " \o pre)

SampleCheck(t, l, i) ==
    LET s     == l.samples[i]
        mau   == t.backend = "maupiti"
        pre   == "net " \o t.backend \o " layer " \o l.name \o " sample " \o Str(i) \o " (channel " \o Str(s.c) \o "): "
        X     == BigAdd(s.accu, s.b)
        apx   == ApproxCeilBig(1024, X, s.scale, l.shift, s.tm, s.te)
        bound == (apx + s.stab1024 + s.f321024) \div 1024
        bS    == BigMul(s.b, s.scale)
        zpA   == ZeroPointBig(CodeImpl, bS, s.scale, l.shift, l.lo_in, l.lo, s.wsum)
        model == IF mau THEN zpA ELSE bS
        mag   == BigAdd(BigAbs(bS), BigAdd(BigShl(BigInt(Abs(l.lo)), l.shift), BigAbs(BigMul(BigInt(l.lo), BigMul(s.scale, s.wsum)))))
        rq    == RequantBig(s.acc, s.scale, s.addend, l.shift, l.lo, l.hi)
        levelOK == s.diff >= 0 /\ s.diff <= Max2(1 + bound, l.gap)
        f14   == mau /\ l.ib # l.ob /\ Near(s.addend, zpA, mag)
    IN  Worse(
          (IF ~(BigOk(s.acc) /\ BigOk(s.accu) /\ BigOk(s.scale) /\ BigOk(s.b) /\ BigOk(s.addend) /\ BigOk(s.wsum) /\ BigOk(s.tm)) THEN V("viol", "C14.trace malformed big number")
          ELSE IF ~(s.lev = s.out - l.lo /\ (s.diff < 0 \/ s.diff = Abs(s.lev - s.fake))) THEN V("viol", "C14.trace " \o pre \o "inconsistent sample")
          ELSE IF ~(levelOK \/ f14) THEN V("viol", "C14.level " \o pre \o "integer layer gives level " \o Str(s.lev) \o ", fake-quantised image "
                        \o Str(s.fake) \o ", allowed 1+" \o Str(bound))
          ELSE IF ~(levelOK) THEN V("known", "known:F14:MAUPITI layer with in_bits # out_bits removes the input offset with the OUTPUT precision ("
                        \o pre \o "level " \o Str(s.lev) \o " vs " \o Str(s.fake) \o ")")
          ELSE OK),
          (IF ~(s.scale = ScaleForBig(s.tm, s.te, l.shift, t.scale_bit)) THEN V("drift", "drift:" \o pre \o "scale " \o BigStr(s.scale) \o " is not clip(ceil(T*2^shift))")
          ELSE IF ~(Near(s.addend, model, mag)) THEN V("drift", "drift:" \o pre \o "stored scaled bias / zero-point differs from the model")
          ELSE IF ~(~s.offb \/ s.out = rq) THEN V("drift", "drift:" \o pre \o "output " \o Str(s.out) \o " but Requant of the logged operands gives " \o Str(rq))
          ELSE OK))

RECURSIVE SamplesFrom(_, _, _)
SamplesFrom(t, l, i) == IF i > Len(l.samples) THEN OK ELSE Worse(SampleCheck(t, l, i), SamplesFrom(t, l, i + 1))

LayerCheck(t, l, wv) ==
    LET mau   == t.backend = "maupiti"
        pre   == "net " \o t.backend \o " layer " \o l.name \o " (in " \o Str(l.ib) \o "b, out " \o Str(l.ob) \o "b, w "
                    \o Str(l.wb) \o "b): "
        inLo  == ActLo(t.backend, l.ib)
        inHi  == ActHi(t.backend, l.ib)
        bound == l.bound1024 \div 1024
        levelOK == l.maxdiff >= 0 /\ l.maxdiff <= Max2(1 + bound, l.gap)
        f14   == mau /\ l.ib # l.ob /\ ~l.last
        ranges == (IF ~(l.sw_ver = wv) THEN V("viol", "C14.life " \o pre \o "the stored weight scale s_w (hence scale, shift and integer bias) "
                        \o (IF l.sw_ver < 0 THEN "is not the scale of any weights version of the history"
                            ELSE "is the scale of weights version " \o Str(l.sw_ver)) \o ", the current weights are version " \o Str(wv))
          ELSE IF ~(l.wint_ver = wv) THEN V("viol", "C14.life " \o pre \o "the integer weights are not the quantised CURRENT weights (version "
                        \o Str(wv) \o "; matching version: " \o Str(l.wint_ver) \o ")")
          ELSE IF ~(l.used_sb = t.scale_bit /\ l.used_sp = t.shift_pos) THEN V("viol", "C14.life " \o pre \o "built with scale_bit/shift_pos "
                        \o Str(<<l.used_sb, l.used_sp>>) \o " but this call has to use " \o Str(<<t.scale_bit, t.shift_pos>>))
          ELSE IF ~(l.shape_ok \/ KF14pad(t)) THEN V("viol", "C14.shape " \o pre \o "output shape differs from the fake-quantised layer")
          ELSE IF ~(l.shape_ok) THEN V("known", "known:F14:MAUPITIConv2d pads all four sides with padding[0] (non-square padding); " \o pre \o "output shape differs")
          ELSE IF ~(l.lo_in = inLo /\ (l.last \/ (l.lo = ActLo(t.backend, l.ob) /\ l.hi = ActHi(t.backend, l.ob)))) THEN V("viol", "C14.trace " \o pre \o "logged ranges are not the declared ones")
          ELSE IF ~(l.w_int /\ l.w_min >= WLo(l.wb) /\ l.w_max <= WHi(l.wb)) THEN V("viol", "C14.range " \o pre \o "stored weights " \o Str(l.w_min) \o ".." \o Str(l.w_max) \o " not integers of a signed "
                        \o Str(l.wb) \o "-bit range")
          ELSE IF ~(l.b_int /\ l.ab_int) THEN V("viol", "C14.range " \o pre \o "stored bias is not integer")
          ELSE IF ~(l.scale_int /\ BigLe(BigInt(0), l.scale_min) /\ BigLe(l.scale_max, BigPow2(t.scale_bit - 1))) THEN V("viol", "C14.range " \o pre \o "scale " \o BigStr(l.scale_min) \o ".." \o BigStr(l.scale_max) \o " not an integer in 0..2^"
                        \o Str(t.scale_bit - 1))
          ELSE IF ~(l.shift_int /\ l.shift \in 0..(t.shift_pos - 1)) THEN V("viol", "C14.range " \o pre \o "shift " \o Str(l.shift) \o " outside 0.." \o Str(t.shift_pos - 1))
          ELSE IF ~(BigFitsI32(l.bs_min) /\ BigFitsI32(l.bs_max) /\ BigLe(l.ab_absmax, BigPow2(31))) THEN V("viol", "C14.range " \o pre \o "bias*scale does not fit 32 bits")
          ELSE IF ~(l.in_int /\ l.in_min >= inLo /\ l.in_max <= inHi) THEN V("viol", "C14.range " \o pre \o "input activations " \o Str(l.in_min) \o ".." \o Str(l.in_max) \o " not integers in "
                        \o Str(inLo) \o ".." \o Str(inHi))
          ELSE IF ~(l.last \/ (l.out_int /\ l.out_min >= l.lo /\ l.out_max <= l.hi)) THEN V("viol", "C14.range " \o pre \o "output activations " \o Str(l.out_min) \o ".." \o Str(l.out_max) \o " not integers in "
                        \o Str(l.lo) \o ".." \o Str(l.hi))
          ELSE OK)
        level == IF l.last \/ ~l.shape_ok THEN OK
                 ELSE (IF ~(levelOK \/ f14) THEN V("viol", "C14.level " \o pre \o "max level difference " \o Str(l.maxdiff) \o " exceeds 1+" \o Str(bound))
          ELSE IF ~(levelOK) THEN V("known", "known:F14:MAUPITI layer with in_bits # out_bits removes the input offset with the OUTPUT precision ("
                                \o pre \o "max level difference " \o Str(l.maxdiff) \o ")")
          ELSE OK)
    IN  IF ranges.k = "viol" THEN ranges
        ELSE IF ~l.shape_ok THEN ranges
        ELSE Worse(Worse(ranges, level), SamplesFrom(t, l, 1))

RECURSIVE LayersFrom(_, _, _)
LayersFrom(t, i, wv) == IF i > Len(t.layers) THEN OK ELSE Worse(LayerCheck(t, t.layers[i], wv), LayersFrom(t, i + 1, wv))

FinalCheck(t) ==
    LET f   == t.final
        pre == "net " \o t.backend \o " final layer " \o f.name \o ": "
        okv == f.finite /\ f.ratio1000 <= 1000
        f31 == t.backend = "maupiti" /\ f.conv
    IN  (IF ~(t.backend = "maupiti" \/ f.int_out) THEN V("viol", "C14.range " \o pre \o "MATCH logits are not integers")
          ELSE IF ~(okv \/ f31) THEN V("viol", "C14.final " \o pre \o "output does not reproduce the real-valued logits: got*1e6 = " \o Str(f.got1e6)
                      \o ", logits*1e6 = " \o Str(f.logit1e6) \o ", 1000*error/tolerance = " \o Str(f.ratio1000))
          ELSE IF ~(okv) THEN V("known", "known:F31:MAUPITIConv2d as final layer returns conv(offset input) + integer bias: neither zero-point nor scale applied; "
                      \o pre \o "1000*error/tolerance = " \o Str(f.ratio1000))
          ELSE OK)

\* structural clause: type census of the graph of the result.  Every Quant layer the input graph calls must have become
\* a backend layer that the result calls; no Quant layer may still be called by, or be left inside, the result.
CensusOK(c) == c.quant_called = 0 /\ c.quant_modules = 0 /\ c.backend_called = c.quant_in

\* wv = version of the weights the conversion has to be made of (0 when the history has no update)
NetCheckAt(t, wv) ==
    IF t.stage \in {"done", "census"} /\ ~CensusOK(t.census)
    THEN V("viol", "C14.struct net " \o t.backend \o ": the input graph calls " \o Str(t.census.quant_in) \o " Quant layers; the result calls "
                   \o Str(t.census.backend_called) \o " backend layers and still calls " \o Str(t.census.quant_called)
                   \o " Quant layers (" \o Str(t.census.quant_modules) \o " left as modules); " \o t.msg)
    ELSE IF t.stage = "census" THEN V("viol", "C14.trace net: census consistent but layers not matched; " \o t.msg)
    ELSE IF t.stage # "done" THEN CrashCheck(t)
    ELSE IF Len(t.layers) # Len(t.spec) THEN V("viol", "C14.trace net: layer count mismatch")
    ELSE IF ~t.kw_same THEN V("viol", "C14.life net " \o t.backend \o ": integerize_arch modified the caller's backend_kwargs")
    ELSE Worse(LayersFrom(t, 1, wv), IF Has(t.final, "name") THEN FinalCheck(t) ELSE OK)

NetCheck(t) == NetCheckAt(t, 0)

(***************************************************************************)
(* kind "life": one history of IntegerizeLife executed on the real         *)
(* library:  [nest, ev |-> << [a |-> "fwd"] | [a |-> "upd", k] |           *)
(*   [a |-> "int", backend, sb, sp, obs |-> <a "net" record>] >>].         *)
(* The walk carries the life state of IntegerArith Part D (intended        *)
(* behaviour, "ref"); at every conversion the observations are judged      *)
(* against the weights version and the options THIS call has to use        *)
(* (declared defaults where an option was not passed).                     *)
(***************************************************************************)
RECURSIVE LifeWalk(_, _, _, _)
LifeWalk(t, i, st, acc) ==
    IF i > Len(t.ev) THEN acc
    ELSE LET e == t.ev[i] IN
         IF e.a = "fwd" THEN LifeWalk(t, i + 1, LifeFwd(st), acc)
         ELSE IF e.a = "upd" THEN LifeWalk(t, i + 1, LifeUpd(st), acc)
         ELSE IF e.a = "int"
         THEN LET r == LifeInt("ref", st, e.backend, Opt(e.sb, e.sp), t.nest)
                  o == [e.obs EXCEPT !.scale_bit = r.res.used.sb, !.shift_pos = r.res.used.sp]
                  v == NetCheckAt(o, r.res.wFrom)
                  w == IF v.k = "ok" THEN v
                       ELSE V(v.k, v.m \o " [history event " \o Str(i) \o " of " \o Str([j \in 1..Len(t.ev) |->
                                IF t.ev[j].a = "int" THEN <<"int", t.ev[j].backend, t.ev[j].sb, t.ev[j].sp>>
                                ELSE IF t.ev[j].a = "upd" THEN <<"upd", t.ev[j].k>> ELSE <<"fwd">>]) \o ", " \o t.nest \o " model]")
              IN  LifeWalk(t, i + 1, r.st, Worse(acc, w))
         ELSE V("viol", "C14.trace life: unknown event")

LifeCheck(t) == LifeWalk(t, 1, LifeInit, OK)

Check(t) ==
    LET v == CASE t.kind = "tiny"   -> TinyCheck(t)
               [] t.kind = "approx" -> ApproxCheck(t)
               [] t.kind = "net"    -> NetCheck(t)
               [] t.kind = "life"   -> LifeCheck(t)
               [] OTHER -> V("viol", "C14.trace unknown kind")
    IN  v.m

\* Init only numbers the traces (TLC generates initial states sequentially); the verdict is computed
\* by the single step of each behaviour, so that the workers share the batch.
Init == tid \in 1..Len(Traces) /\ verdict = "pending"
Next == verdict = "pending" /\ verdict' = Check(Traces[tid]) /\ UNCHANGED tid
Spec == Init /\ [][Next]_<<tid, verdict>>
VerdictOk == verdict \in {"ok", "pending"}
=============================================================================
