------------------------------ MODULE Checkpoint ------------------------------
(***************************************************************************)
(* C17 - a checkpointed search resumes to an observationally identical     *)
(* model.  Operator library (no variables).                                *)
(*                                                                         *)
(* Every state component of a PIT / MPS / SuperNet wrapper is classified   *)
(*   "P" persisted : lives in the state_dict (parameters, buffers)         *)
(*   "D" derived   : recomputed by the next forward pass                   *)
(*   "C" config    : constructor arguments and option / trainability /    *)
(*                   mode calls, re-applied by the user when the fresh     *)
(*                   wrapper is built                                      *)
(*   "N" none of the three (a defect: lost by save / construct / load)     *)
(* The classification (ClassOf) is what is validated against the code:     *)
(* the harness re-applies exactly the "C" calls on the fresh wrapper and   *)
(* nothing else, loads the state_dict, and compares the observations.      *)
(*                                                                         *)
(* Abstract state of a wrapper (record):                                   *)
(*   net, nas  version of the network / architectural parameters (0 =     *)
(*             as constructed; saturating at maxv)                         *)
(*   bn        version of the BatchNorm statistics                         *)
(*   temp      softmax temperature (abstract id, 1 = constructor default)  *)
(*   hard, disable, dc     hard_softmax, disable_sampling, discrete_cost   *)
(*   rg        which parameter group is trainable: "both"|"nas"|"net"      *)
(*   mode      training (TRUE) / eval                                      *)
(*   theta     the stored sampled coefficients, represented by what they   *)
(*             were computed from: <<nas version, temp, hard, mode>>       *)
(*   drv       derived quantities (MinMax weight ranges, bias scales):     *)
(*             the net version they were computed from                     *)
(*   seen      summary() / export() / cost have been called                *)
(*   gumbel    Gumbel sampler (constructor argument of the SuperNet blocks,*)
(*             option of MPS)                                              *)
(*   hid       HIDDEN state: neither in the state_dict, nor derived, nor   *)
(*             configuration (e.g. the position of a private random stream)*)
(*                                                                         *)
(* Calls of a history (records, field a):                                  *)
(*   [a |-> "step", g |-> "net"|"nas"|"all"]  forward+backward+SGD step    *)
(*   [a |-> "opt", o |-> option, v |-> value] option call                  *)
(*   [a |-> "train", g |-> "nas"|"net"|"both"] train_nas_only() ...        *)
(*   [a |-> "mode", v]  [a |-> "forward"]  [a |-> "observe"]               *)
(* Integer-coded values: booleans are 0 / 1 in calls (trace format).       *)
(***************************************************************************)
EXTENDS Naturals, Sequences, FiniteSets

Kinds == {"pit", "mps", "sn"}

Min2(x, y) == IF x < y THEN x ELSE y
B(v) == v = 1

(***************************************************************************)
(* Classification.  impl = "asis" is the classification read off the code; *)
(* the other values are deliberately wrong variants used by the sanity     *)
(* configurations (each makes TLC exhibit a history that does not resume). *)
(***************************************************************************)
ClassOf(impl, kind, c) ==
    IF c = "hid" THEN "N"                      \* hidden state is by definition none of the three
    ELSE IF c \in {"net", "nas", "bn"} THEN "P"
    ELSE IF c = "theta" THEN (IF kind = "mps" THEN (IF impl = "theta_attr" THEN "N" ELSE "P") ELSE "D")
    ELSE IF c = "temp"  THEN (IF kind = "mps" THEN (IF impl = "temp_float" THEN "N" ELSE "P") ELSE "C")
    ELSE IF c \in {"hard", "disable", "dc", "rg", "mode", "gumbel", "train_features", "train_rf", "train_dilation"} THEN "C"
    ELSE "D"                                   \* drv

\* option calls that exist for a kind
OptsOf(kind) == IF kind = "pit" THEN {"dc"} ELSE IF kind = "mps" THEN {"temp", "hard", "disable"} ELSE {"temp", "hard"}
CompOfOpt(o) == o

\* a call is a CONFIGURATION call iff it only writes "C" components (re-applied on the fresh wrapper)
IsConfigCall(impl, kind, a) ==
    \/ a.a \in {"train", "mode"}
    \/ a.a = "opt" /\ ClassOf(impl, kind, CompOfOpt(a.o)) = "C"

(***************************************************************************)
(* Construction and the effect of the calls                                *)
(***************************************************************************)
\* I = [train, hard, gumbel, disable, dc] constructor arguments
Fresh(kind, I) ==
    [net |-> 0, nas |-> 0, bn |-> 0, temp |-> 1, hard |-> I.hard, gumbel |-> I.gumbel, disable |-> I.disable, dc |-> I.dc,
     rg |-> "both", mode |-> I.train, theta |-> <<0, 1, I.hard, TRUE>>, drv |-> 0, seen |-> FALSE, hid |-> 0]

\* a forward pass in this state draws random numbers (Gumbel noise): only in training mode, only when sampling is on
Stochastic(kind, s, mode) == kind # "pit" /\ s.gumbel /\ ~s.disable /\ mode
MaxHid == 3

\* the usual forward pass in the mode the model is in (P = [hasbn, maxv, priv])
\*   hid: HIDDEN state, i.e. state that is neither in the state_dict, nor recomputed from it by a forward pass, nor
\*   configuration.  The code as read has none (hid stays 0).  P.priv models a sampler that draws its noise from a private
\*   random stream created by the constructor: its position advances with every stochastic forward pass.
Fwd(kind, P, s) ==
    [s EXCEPT !.theta = IF kind = "pit" \/ s.disable THEN s.theta ELSE <<s.nas, s.temp, s.hard, s.mode>>,
              !.drv   = s.net,
              !.bn    = IF s.mode /\ P.hasbn THEN Min2(s.bn + 1, P.maxv) ELSE s.bn,
              !.hid   = IF P.priv /\ Stochastic(kind, s, s.mode) THEN Min2(s.hid + 1, MaxHid) ELSE s.hid]

Touches(rg, g, grp) == (g = "all" \/ g = grp) /\ (rg = "both" \/ rg = grp)

Next(kind, P, s, a) ==
    IF a.a = "step" THEN
        LET f == Fwd(kind, P, s)
        IN  [f EXCEPT !.net = IF Touches(s.rg, a.g, "net") THEN Min2(s.net + 1, P.maxv) ELSE s.net,
                      \* (SuperNet with hard_softmax: the one-hot selection has no straight-through gradient,
                      \*  an optimizer step leaves the coefficients where they are)
                      !.nas = IF Touches(s.rg, a.g, "nas") /\ ~(kind = "sn" /\ s.hard)
                              THEN Min2(s.nas + 1, P.maxv) ELSE s.nas]
    ELSE IF a.a = "forward" THEN Fwd(kind, P, s)
    ELSE IF a.a = "opt" THEN
        (IF a.o = "temp" THEN [s EXCEPT !.temp = a.v]
         ELSE IF a.o = "hard" THEN [s EXCEPT !.hard = B(a.v)]
         ELSE IF a.o = "disable" THEN [s EXCEPT !.disable = B(a.v)]
         ELSE IF a.o = "gumbel" THEN [s EXCEPT !.gumbel = B(a.v)]
         ELSE IF a.o = "dc" THEN [s EXCEPT !.dc = B(a.v)]
         ELSE s)                              \* options without effect on the observations (train_features ...)
    ELSE IF a.a = "train" THEN [s EXCEPT !.rg = a.g]
    ELSE IF a.a = "mode" THEN [s EXCEPT !.mode = B(a.v)]
    ELSE IF a.a = "observe" THEN [s EXCEPT !.seen = TRUE]
    ELSE s

(***************************************************************************)
(* Save / FreshConstruct / re-apply configuration / Load                   *)
(***************************************************************************)
Pick(impl, kind, c, saved, fresh) == IF ClassOf(impl, kind, c) \in {"P", "C"} THEN saved ELSE fresh

Restore(impl, kind, I, s) ==
    LET f == Fresh(kind, I)
    IN  [net     |-> Pick(impl, kind, "net", s.net, f.net),
         nas     |-> Pick(impl, kind, "nas", s.nas, f.nas),
         bn      |-> Pick(impl, kind, "bn", s.bn, f.bn),
         temp    |-> Pick(impl, kind, "temp", s.temp, f.temp),
         hard    |-> Pick(impl, kind, "hard", s.hard, f.hard),
         gumbel  |-> Pick(impl, kind, "gumbel", s.gumbel, f.gumbel),
         disable |-> Pick(impl, kind, "disable", s.disable, f.disable),
         dc      |-> Pick(impl, kind, "dc", s.dc, f.dc),
         rg      |-> Pick(impl, kind, "rg", s.rg, f.rg),
         mode    |-> Pick(impl, kind, "mode", s.mode, f.mode),
         theta   |-> Pick(impl, kind, "theta", s.theta, f.theta),
         drv     |-> Pick(impl, kind, "drv", s.drv, f.drv),
         seen    |-> FALSE,
         hid     |-> Pick(impl, kind, "hid", s.hid, f.hid)]

(***************************************************************************)
(* Observations after the usual forward pass in a given mode: what each of *)
(* them reads.  (PIT reads no theta; its cost reads dc.)                   *)
(***************************************************************************)
\* The global random stream is seeded with the same value immediately before the observing forward pass of the original
\* and of the restored model, so it is NOT state; a private stream is: the noise the forward draws is its position.
ObsIn(kind, P, s, mode) ==
    LET t == Fwd(kind, P, [s EXCEPT !.mode = mode])
        noise == IF Stochastic(kind, s, mode) THEN s.hid ELSE 0
    IN  [out     |-> <<t.net, t.nas, t.bn, t.theta, t.drv, t.hard, mode, noise>>,
         cost    |-> <<t.nas, t.theta, t.dc, noise>>,
         summary |-> <<t.nas, t.theta, t.drv>>,
         export  |-> <<t.net, t.nas, t.bn, t.drv>>]

ResumeOk(impl, kind, P, I, s) ==
    \A mode \in BOOLEAN : ObsIn(kind, P, Restore(impl, kind, I, s), mode) = ObsIn(kind, P, s, mode)

\* state_dict keys.  They may depend on the architecture and the constructor arguments only.
\*  - a buffer registered lazily by the first observer call (impl = "lazy_buffer") makes the key sets of a used and of a
\*    fresh wrapper differ;
\*  - CONSTRUCTION INDEX: how many wrappers / calculators were constructed in the process before this one.  The wrapper
\*    the checkpoint is resumed into is built later in the same process (index larger), after other wrappers, or first in
\*    a fresh process (index 0): keys numbered by a process-global counter (impl = "global_counter") depend on it.
MaxIdx == 2
KeysOf(impl, s, idx) == {<<"params", 0>>, <<"buffers", 0>>}
                        \cup (IF impl = "lazy_buffer" /\ s.seen THEN {<<"lazy", 0>>} ELSE {})
                        \cup (IF impl = "global_counter" THEN {<<"cat", idx>>} ELSE {<<"cat", 0>>})
KeysOk(impl, kind, I, s) ==
    \A i, j \in 0..MaxIdx : KeysOf(impl, s, i) = KeysOf(impl, Fresh(kind, I), j)
=============================================================================
