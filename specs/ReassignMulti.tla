---------------------------- MODULE ReassignMulti ----------------------------
(***************************************************************************)
(* C20, models with SEVERAL refinable layers.  optimize_prec_assignment    *)
(* refines the layers one after the other; the cost of a candidate         *)
(* configuration of layer l is Cost[l][counts] - the NE16 latency of THAT  *)
(* layer (its kernel, resolution, input tiles, width) - and nothing        *)
(* computed for another layer may be re-used.                              *)
(*                                                                         *)
(* A model is a chain of layers [kind, h, w, cin, c, n0] (kind "3x3" |     *)
(* "1x1" | "lin"; cin of a layer = width of the previous one; an optional  *)
(* 2x2 pooling halves the resolution; a linear layer works on the pooled   *)
(* 1x1 map and is last), precisions (4, 8), n0 = <<k, c - k>>.  TLC        *)
(* enumerates every chain up to NL layers over the alphabet selected by    *)
(* Scale, including EQUAL widths with different geometry.                  *)
(*                                                                         *)
(* Impl = "own"    : every layer evaluates its own cost function.          *)
(* Impl = "shared" : the costs of visited configurations are memoised in   *)
(*                   one table keyed by the count vector only, shared by   *)
(*                   all layers - must VIOLATE the invariants.             *)
(***************************************************************************)
EXTENDS Reassign, TLC

CONSTANTS Impl, NL, Scale

VARIABLES ml, out

MBits == <<4, 8>>
Res0  == 6
Cin0s == IF Scale = "quick" THEN {3} ELSE {3, 40}
Pools == IF Scale = "quick" THEN {FALSE} ELSE {FALSE, TRUE}
Kinds == IF Scale = "quick" THEN {"3x3", "1x1"} ELSE {"3x3", "1x1", "lin"}
Widths == {8, 16}
Lows(c) == {2, c \div 2}                  \* channels at the lower precision

Geo(L) == [kind |-> IF L.kind = "lin" THEN "1x1" ELSE L.kind, h |-> L.h, w |-> L.w, cin |-> L.cin]
CostOf(L, v) == LayerCost(Geo(L), v, MBits)
VisitsOf(L)  == Visits(L.n0, OrderOf(MBits), MBits, 0)

\* refinement of the layers l..Len(ml) with the memo table handed on ("shared" only)
RECURSIVE RefineFrom(_, _, _)
RefineFrom(layers, l, memo) ==
    IF l > Len(layers) THEN <<>>
    ELSE LET L    == layers[l]
             vs   == VisitsOf(L)
             seen(v) == Impl = "shared" /\ v \in DOMAIN memo
             vc   == [k \in DOMAIN vs |-> <<vs[k], IF seen(vs[k]) THEN memo[vs[k]] ELSE CostOf(L, vs[k])>>]
             best == BestAlong(vc, L.n0, CostOf(L, L.n0))
             memo2 == [v \in DOMAIN memo \cup RangeOf(vs) |-> IF v \in DOMAIN memo THEN memo[v] ELSE CostOf(L, v)]
         IN  <<[chosen |-> best[1], believed |-> best[2]]>> \o RefineFrom(layers, l + 1, memo2)

EmptyMemo == [v \in {} |-> 0]
Refine(layers) == RefineFrom(layers, 1, EmptyMemo)

Init == ml = <<>> /\ out = <<>>

AddLayer(kind, c, pool, k) ==
    /\ Len(ml) < NL
    /\ (Len(ml) > 0 => ml[Len(ml)].kind # "lin")
    /\ (Len(ml) = 0 => kind # "lin" /\ ~pool)
    /\ (kind = "lin" => ~pool)
    /\ \E ci \in (IF Len(ml) = 0 THEN Cin0s ELSE {ml[Len(ml)].c}) :
          LET r0 == IF Len(ml) = 0 THEN Res0 ELSE ml[Len(ml)].h
              r  == IF kind = "lin" THEN 1 ELSE IF pool THEN r0 \div 2 ELSE r0
              L  == [kind |-> kind, h |-> r, w |-> r, cin |-> ci, c |-> c, pool |-> pool, n0 |-> <<k, c - k>>]
          IN  /\ ml' = Append(ml, L)
              /\ out' = Refine(Append(ml, L))

Next == \E kind \in Kinds, c \in Widths, pool \in Pools : \E k \in Lows(c) : AddLayer(kind, c, pool, k)
Spec == Init /\ [][Next]_<<ml, out>>

RECURSIVE SumOver(_, _, _)
SumOver(F(_), n, l) == IF l > n THEN 0 ELSE F(l) + SumOver(F, n, l + 1)

Before    == LET f(l) == CostOf(ml[l], ml[l].n0) IN SumOver(f, Len(ml), 1)
TrueAfter == LET f(l) == CostOf(ml[l], out[l].chosen) IN SumOver(f, Len(ml), 1)
Announced == LET f(l) == out[l].believed IN SumOver(f, Len(ml), 1)

\* the configuration chosen for a layer is a cheapest one among ITS OWN candidates
OwnArgmin ==
    \A l \in DOMAIN ml : \A v \in RangeOf(VisitsOf(ml[l])) \cup {ml[l].n0} :
        CostOf(ml[l], out[l].chosen) <= CostOf(ml[l], v)
TotalNotHigher  == TrueAfter <= Before
AnnouncedIsReal == Announced = TrueAfter
OnlyPromotes    == \A l \in DOMAIN ml : /\ IsComposition(out[l].chosen, ml[l].c)
                                         /\ Dominates(out[l].chosen, ml[l].n0, OrderOf(MBits))
\* non-vacuity: two layers of equal width exist whose cost differs for the same counts
NoCollisionPossible ==
    \A a, b \in DOMAIN ml : ml[a].c = ml[b].c => \A v \in RangeOf(VisitsOf(ml[a])) : CostOf(ml[a], v) = CostOf(ml[b], v)
=============================================================================
