SPECIFICATION Spec
INVARIANT VerdictOk
