SPECIFICATION Spec
CONSTANTS
  Impl = "position"
INVARIANT PairedByPosition
INVARIANT ExactPair
