SPECIFICATION Spec
CONSTANTS
  Method = "mps"
  Impl = "asis"
  MaxLen = 3
INVARIANT KeyOk
INVARIANT Coherent
PROPERTY ObserversNeutral
