SPECIFICATION Spec
CONSTANTS
  MaxLen = 2
INVARIANT ObsDependsOnMasksOnly
PROPERTY MasksOnlyBySetMasks
