SPECIFICATION Spec
CONSTANTS
    Impl = "pinned"
    Kind = "pit"
    MaxBn = 1
    TrackHist = TRUE
    MaxLen = 3
INVARIANT TypeOK
INVARIANT Erasure
