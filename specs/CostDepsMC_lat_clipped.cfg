SPECIFICATION Spec
CONSTANTS
  Mode = "lattice"
  Vals = {0, 6, 10}
  Fams = {7, 2}
  AllowDeps = FALSE
  D = 1
  Ste = "clipped"
  TVals = {0}
  KFull = 1
  KMax = 1
INVARIANT InvDiscSteSupport
