----------------------------- MODULE PipelineMC -----------------------------
(***************************************************************************)
(* Design-level exploration of ALL small pipelines.  TLC GROWS every        *)
(* architecture of a small grammar, seals it with a classifier head and     *)
(* then walks the pipeline:                                                 *)
(*                                                                         *)
(*   PitSearch(f, tm)   an alive set for every free masker, a (cut, level)  *)
(*                      time-mask pattern for every searched Conv1d         *)
(*   PitExport          cur' = ExportArch(cur, masks)                       *)
(*   [PitSearch ; PitExport]   second round on the exported network         *)
(*   MpsSearch(cfg, sel)  candidate tuples, winner per quantiser group      *)
(*   MpsExport                                                             *)
(*   Integerize(backend)                                                    *)
(*   Finish             nothing else can follow: the pipeline is complete   *)
(*                                                                         *)
(* The invariants compose the stage properties:                             *)
(*  (i)   InvHandOverWF / InvDomainClosed  the architecture handed to stage *)
(*        k+1 is well formed and inside the domain of that stage            *)
(*  (ii)  InvAligned      abstract function preservation of every PIT       *)
(*        export (derived widths = alive counts, zeros preserved),          *)
(*        InvOpenIsIdentity, InvGeomKept (MPS / integer stages keep it)     *)
(*  (iii) InvCostChainPit (discrete PIT cost = metric of the exported net), *)
(*        InvCostMonotone, InvCostChainMps (bit cost of the selection =     *)
(*        bits x plain metric of the network PIT exported; all-8-bit =      *)
(*        8 x params_no_bias), InvCostExactMps (= MPSLife!ExactInt)          *)
(*  (iv)  InvSummaryPit   as-implemented summary() of the searched model    *)
(*        = geometry of the layer in the network the next stage receives;   *)
(*        InvPlumb        as-implemented input quantiser = quantiser of the  *)
(*        tensor consumed (so summary() of MPS describes the exported net)   *)
(* `plan` records the choices so that every completed pipeline (phase       *)
(* "done") can be executed for real by harness/pipe_gen.py.                 *)
(***************************************************************************)
EXTENDS Pipeline

CONSTANTS Dim, C0, Sp0,      \* 1 | 2, input channels, input length / side
          MaxBody,           \* operator nodes grown before the head
          Widths,            \* output widths of the grown convolutions
          Ks,                \* kernel sizes
          BNs, Biases,       \* subsets of BOOLEAN
          AllowDw, AllowAdd, AllowPool, AllowCat, AllowSig,
          HeadW,             \* width of the classifier head (flatten + linear)
          Folds,             \* subset of BOOLEAN: fold_bn of the first PIT round
          MaxRounds,         \* 1 | 2 PIT rounds
          TimeChoices,       \* "open" | "all": time-mask patterns per searched Conv1d
          TupMode,           \* "one" | "few" | "pc"
          SelMode,           \* "rot" | "all" | "one"
          Backends,          \* subset of {"match", "maupiti"}
          LastStage,         \* "pit" | "mps" | "int": where the explored pipelines stop
          AllowFindings      \* FALSE: only architectures inside PitDomain are sealed

VARIABLES phase, prev, cur, rnd, f, tm, fold, gs, cfg, sel, be, plan

vars == <<phase, prev, cur, rnd, f, tm, fold, gs, cfg, sel, be, plan>>

Node(op, ins, out, k, dw, bn, bias) ==
    [op |-> op, ins |-> ins, out |-> out, k |-> k, d |-> 1, s |-> 1, bias |-> bias, bn |-> bn,
     dw |-> dw, excl |-> FALSE, causal |-> (Dim = 1 /\ op = "conv"), reuse |-> 0]
Plain(op, ins) == DefNode(op, ins)

NoGS   == [rep |-> <<>>, rep0 |-> <<>>, flt |-> {}, qp |-> <<>>, asis |-> <<>>]
NoCfg  == [pin |-> <<>>, pa |-> <<>>, pw |-> <<>>, wt |-> "pl"]
NoSel  == [a |-> <<>>, w |-> <<>>]
NoPlan == [a0 |-> <<>>, fold |-> FALSE, r |-> <<>>, x |-> <<>>, mps |-> FALSE, int |-> FALSE]
Empty  == [dim |-> Dim, c0 |-> C0, sp |-> Sp0, nodes |-> <<>>]

Init == /\ phase = "grow" /\ cur = Empty /\ prev = Empty /\ rnd = 0
        /\ f = <<>> /\ tm = <<>> /\ fold = FALSE
        /\ gs = NoGS /\ cfg = NoCfg /\ sel = NoSel /\ be = "none" /\ plan = NoPlan

(* ------------------------------ grammar --------------------------------- *)
TT(a) == 0..N(a)
NFl(a) == {t \in TT(a) : ~IsFlat(a, t)}
Compat(a, p, q) == Ch(a, p) = Ch(a, q) /\ SameGrid(a, p, q)
AddPairs(a) == {pq \in TT(a) \X TT(a) : pq[1] # pq[2] /\ Compat(a, pq[1], pq[2])
                                        /\ ~\E n \in 1..N(a) : Op(a, n) = "add" /\ SeqSet(Ins(a, n)) = {pq[1], pq[2]}}
CatPairs(a) == {pq \in NFl(a) \X NFl(a) : pq[1] < pq[2] /\ SameGrid(a, pq[1], pq[2])}
Candidates(a) ==
    {Node("conv", <<p>>, w, k, FALSE, bn, b) : p \in NFl(a), w \in Widths, k \in Ks, bn \in BNs, b \in Biases}
    \cup (IF AllowDw THEN {Node("conv", <<p>>, 0, 3, TRUE, FALSE, b) : p \in NFl(a) \ {0}, b \in Biases} ELSE {})
    \cup {Plain("relu", <<p>>) : p \in {t \in TT(a) \ {0} : Op(a, t) \in {"conv", "add", "cat"}}}
    \cup (IF AllowSig THEN {Plain("sig", <<p>>) : p \in {t \in TT(a) \ {0} : Op(a, t) = "conv"}} ELSE {})
    \cup (IF AllowPool THEN {Plain("pool", <<p>>) : p \in {t \in NFl(a) \ {0} : Sp(a, t) >= 2 /\ Op(a, t) # "pool"}} ELSE {})
    \cup (IF AllowAdd THEN {Plain("add", <<pq[1], pq[2]>>) : pq \in AddPairs(a)} ELSE {})
    \cup (IF AllowCat THEN {Plain("cat", <<pq[1], pq[2]>>) : pq \in CatPairs(a)} ELSE {})

Grow == /\ phase = "grow" /\ N(cur) < MaxBody
        /\ \E nd \in Candidates(cur) : cur' = [cur EXCEPT !.nodes = Append(@, nd)]
        /\ UNCHANGED <<phase, prev, rnd, f, tm, fold, gs, cfg, sel, be, plan>>

\* head: flatten + linear on the last tensor; every other tensor must have been consumed
WithHead(a) == [a EXCEPT !.nodes = @ \o <<Plain("flat", <<N(a)>>), Node("lin", <<N(a) + 1>>, HeadW, 1, FALSE, FALSE, TRUE)>>]
Sealable(a) == /\ N(a) >= 1 /\ ~IsFlat(a, N(a))
               /\ \A t \in 0..(N(a) - 1) : UsedT(a, t)
               /\ \E n \in 1..N(a) : Op(a, n) = "conv"
Seal == /\ phase = "grow" /\ Sealable(cur)
        /\ LET a == NormArch(WithHead(cur)) IN
             /\ WF(a)
             /\ (AllowFindings \/ PitDomain(a))
             /\ cur' = a /\ prev' = a
             /\ \E fo \in Folds : fold' = fo /\ plan' = [NoPlan EXCEPT !.a0 = a, !.fold = fo]
        /\ phase' = "seed"
        /\ UNCHANGED <<rnd, f, tm, gs, cfg, sel, be>>

(* ------------------------------ PIT ------------------------------------- *)
MaxWd == CHOOSE w \in Widths \cup {C0, HeadW} : \A x \in Widths \cup {C0, HeadW} : x <= w
AliveSets(w) == {S \in SUBSET (1..w) : w \in S}
TimeSet(K) == IF TimeChoices = "open" THEN {[cut |-> 0, lev |-> 0]}
              ELSE {[cut |-> c, lev |-> l] : c \in 0..(K - 1), l \in 0..(MA!GLen(K) - 1)}
MaxK == CHOOSE k \in Ks \cup {3} : \A x \in Ks \cup {3} : x <= k
AllTimeChoices == UNION {TimeSet(K) : K \in 1..MaxK}

PitSearch ==
    /\ phase \in {"seed", "x"} /\ rnd < MaxRounds
    /\ (AllowFindings \/ PitDomain(cur))
    /\ f' \in [FreeReps(cur) -> SUBSET (1..MaxWd)]
    /\ \A r \in FreeReps(cur) : f'[r] \in AliveSets(WidthOfRep(cur, r))
    /\ tm' \in [TimeLayers(cur) -> AllTimeChoices]
    /\ \A n \in TimeLayers(cur) : tm'[n] \in TimeSet(Nd(cur, n).k)
    /\ rnd' = rnd + 1
    /\ fold' = (IF rnd = 0 THEN plan.fold ELSE FALSE)
    /\ plan' = [plan EXCEPT !.r = Append(@, [f |-> f', tm |-> tm'])]
    /\ phase' = "pit"
    /\ UNCHANGED <<prev, cur, gs, cfg, sel, be>>

MasksOf(a, ff) == MOf(a, ff)
PitExport ==
    /\ phase = "pit"
    /\ prev' = cur
    /\ cur' = ExportArch(cur, MasksOf(cur, f), TOfChoice(cur, tm), fold)
    /\ plan' = [plan EXCEPT !.x = Append(@, cur')]          \* the replayer reports (drift) if the real pipeline leaves this path
    /\ phase' = "x"
    /\ UNCHANGED <<rnd, f, tm, fold, gs, cfg, sel, be>>

(* ------------------------------ MPS ------------------------------------- *)
T248 == <<2, 4, 8>>
TupleChoices ==
    CASE TupMode = "one" -> {<<<<8>>, <<4, 8>>, T248, "pl">>}
      [] TupMode = "few" -> {<<<<8>>, <<4, 8>>, T248, "pl">>, <<<<8, 4>>, <<8>>, <<8>>, "pl">>, <<<<4>>, <<2, 8>>, <<8, 2>>, "pl">>}
      [] TupMode = "pc"  -> {<<<<8>>, <<4, 8>>, <<0, 4, 8>>, "pc">>}
Configs == {[pin |-> t[1], pa |-> t[2], pw |-> t[3], wt |-> t[4]] : t \in TupleChoices}
RankIn(S, g) == Cardinality({x \in S : x < g})
RotA(g, a, c, k) == [x \in AGroups(g, a) |-> ((RankIn(AGroups(g, a), x) + k) % Len(ATuple(a, c, x))) + 1]
RotW(g, a, c, k) == [x \in WGroups(g, a) |-> ((RankIn(WGroups(g, a), x) + 2 * k + 1) % Len(WTuple(g, c, x))) + 1]
RotWpc(g, a, c, k) == [x \in WGroups(g, a) |->
                          [ch \in 1..GroupWidth(g, a, x) |-> ((ch + k + RankIn(WGroups(g, a), x)) % Len(WTuple(g, c, x))) + 1]]
TopA(g, a, c) == [x \in AGroups(g, a) |-> CHOOSE i \in DOMAIN ATuple(a, c, x) : \A j \in DOMAIN ATuple(a, c, x) : ATuple(a, c, x)[j] <= ATuple(a, c, x)[i]]
TopW(g, a, c) == [x \in WGroups(g, a) |-> CHOOSE i \in DOMAIN WTuple(g, c, x) : \A j \in DOMAIN WTuple(g, c, x) : WTuple(g, c, x)[j] <= WTuple(g, c, x)[i]]
AllA(g, a, c)   == {h \in [AGroups(g, a) -> 1..3] : \A x \in AGroups(g, a) : h[x] <= Len(ATuple(a, c, x))}
AllWpl(g, a, c) == {h \in [WGroups(g, a) -> 1..3] : \A x \in WGroups(g, a) : h[x] <= Len(WTuple(g, c, x))}
Sels(g, a, c) ==
    IF c.wt = "pc" THEN {[a |-> RotA(g, a, c, k), w |-> RotWpc(g, a, c, k)] : k \in 0..1}
    ELSE IF SelMode = "all" THEN {[a |-> fa, w |-> fw] : fa \in AllA(g, a, c), fw \in AllWpl(g, a, c)}
    ELSE IF SelMode = "one" THEN {[a |-> RotA(g, a, c, 0), w |-> RotW(g, a, c, 0)]}
    ELSE {[a |-> RotA(g, a, c, k), w |-> RotW(g, a, c, k)] : k \in 0..1} \cup {[a |-> TopA(g, a, c), w |-> TopW(g, a, c)]}
PcOk(g, a) == ~InputConnected(g, a) /\ ~MixedWidth(g, a) /\ IsLayer(a, N(a))

MpsSearch ==
    /\ phase = "x" /\ LastStage \in {"mps", "int"} /\ MpsDomain(cur)
    /\ LET a == MpsImportArch(cur)  g == GS("fixed", a) IN
         /\ prev' = cur /\ cur' = a /\ gs' = g
         /\ \E c \in Configs : (c.wt = "pc" => PcOk(g, a)) /\ \E s \in Sels(g, a, c) : cfg' = c /\ sel' = s
    /\ plan' = [plan EXCEPT !.mps = TRUE]
    /\ phase' = "mps"
    /\ UNCHANGED <<rnd, f, tm, fold, be>>

\* the README states that export() of a per-channel search is not available yet: such pipelines end after the search
MpsExport ==
    /\ phase = "mps" /\ cfg.wt = "pl"
    /\ prev' = cur /\ cur' = MpsExportArch(cur)
    /\ phase' = "mpsx"
    /\ UNCHANGED <<rnd, f, tm, fold, gs, cfg, sel, be, plan>>

Integerize ==
    /\ phase = "mpsx" /\ LastStage = "int" /\ IntDomain(cur)
    /\ \E b \in Backends : be' = b /\ cur' = IntArch(cur, b)
    /\ prev' = cur
    /\ plan' = [plan EXCEPT !.int = TRUE]
    /\ phase' = "int"
    /\ UNCHANGED <<rnd, f, tm, fold, gs, cfg, sel>>

\* a pipeline is complete when no further stage applies
CanPit == rnd < MaxRounds /\ (AllowFindings \/ PitDomain(cur))
CanMps == LastStage \in {"mps", "int"} /\ MpsDomain(cur)
Finish ==
    /\ \/ (phase = "x" /\ ~CanMps)                         \* (a second round stays optional: both continuations exist)
       \/ (phase = "x" /\ rnd >= 1 /\ LastStage = "pit")
       \/ (phase = "mps" /\ cfg.wt = "pc")
       \/ (phase = "mpsx" /\ ~(LastStage = "int" /\ IntDomain(cur)))
       \/ phase = "int"
    /\ phase' = "done"
    /\ UNCHANGED <<prev, cur, rnd, f, tm, fold, gs, cfg, sel, be, plan>>

Next == Grow \/ Seal \/ PitSearch \/ PitExport \/ MpsSearch \/ MpsExport \/ Integerize \/ Finish
Spec == Init /\ [][Next]_vars

(* ------------------------------ invariants ------------------------------ *)
AfterPitExport == phase = "x"
Handed == phase \in {"seed", "x", "mps", "mpsx", "int"}
M0 == MasksOf(prev, f)
T0 == TOfChoice(prev, tm)

\* (i)
InvHandOverWF   == Handed => WF(cur)
InvDomainClosed == AfterPitExport /\ ~AllowFindings =>
                       /\ PitDomain(cur)                                  \* a second round may follow
                       /\ (MpsDomain(prev) => MpsDomain(cur))             \* pruning never leaves the MPS grammar
                       /\ (IntDomain(prev) => IntDomain(MpsImportArch(cur)))
InvNormalForm   == Handed => NormArch(cur) = cur
\* (ii)
InvAligned        == AfterPitExport => Aligned(prev, M0, cur)
InvTimeExportable == phase = "pit" => \A n \in DOMAIN tm : TapsExportable(Nd(cur, n).k, KeptOf(Nd(cur, n).k, tm[n]))
AllOpen == (\A r \in DOMAIN f : f[r] = 1..WidthOfRep(prev, r)) /\ (\A n \in DOMAIN tm : tm[n] = [cut |-> 0, lev |-> 0])
InvOpenIsIdentity == AfterPitExport /\ AllOpen /\ ~fold => cur = prev
InvOutputKept     == AfterPitExport => Ch(cur, N(cur)) = Ch(prev, N(prev))
InvGeomKept       == phase \in {"mps", "mpsx", "int"} =>
                        /\ N(cur) = N(prev)
                        /\ \A n \in 0..N(cur) : Ch(cur, n) = Ch(prev, n) /\ Sp(cur, n) = Sp(prev, n)
                        /\ \A L \in Layers(cur) : LayerGeom(cur, L) = LayerGeom(prev, L) /\ IsDw(cur, L) = IsDw(prev, L)
\* (iii)
InvCostChainPit == AfterPitExport => \A mt \in PitMetrics : PitCost(mt, prev, M0, T0, fold) = ArchCost(mt, cur)
InvCostMonotone == AfterPitExport /\ ~fold => \A mt \in PitMetrics : ArchCost(mt, cur) <= ArchCost(mt, prev)
MpsWBits   == [L \in Layers(cur) |-> WBits(gs, cur, cfg, sel, L)]
MpsInBits(L) == InBits("ref", gs, cur, cfg, sel, L)
MpsExact(mt) == PSum([L \in Layers(cur) |-> ExactInt(mt, cur, L, MpsWBits[L], MpsInBits(L), InEffW(cur, MpsWBits, L))], Layers(cur))
InvCostChainMps == phase = "mps" /\ cfg.wt = "pl" =>
                      \A mt \in {"params_bit", "ops_bit"} :
                          MpsExact(mt) = PSum([L \in Layers(cur) |-> BitFromPlain(mt, cur, L, MpsWBits[L][1], MpsInBits(L))], Layers(cur))
AllEight == (\A L \in Layers(cur) : \A c \in DOMAIN MpsWBits[L] : MpsWBits[L][c] = 8) /\ (\A L \in Layers(cur) : MpsInBits(L) = 8)
InvCostAllEight == phase = "mps" /\ AllEight =>
                      /\ MpsExact("params_bit") = 8 * ArchCost("params_no_bias", cur)
                      /\ MpsExact("ops_bit") = 64 * ArchCost("ops_no_bias", cur)
\* pruning by the 0-bit precision never raises the exact cost above the unpruned 8-bit network
InvCostBounded  == phase = "mps" => MpsExact("params_bit") <= 8 * ArchCost("params_no_bias", cur)
\* (iv)
InvSummaryPit == AfterPitExport => \A L \in SearchLayers(prev) : PitSummary(prev, M0, T0, L) = LayerGeom(cur, L)
InvPlumb      == phase \in {"mps", "mpsx"} => \A L \in Layers(cur) : InPt("asis", gs, cur, L) = InPt("ref", gs, cur, L)
InvOutputFloat == phase \in {"mps", "mpsx"} => OutBits(gs, cur, cfg, sel, LastLayer(cur)) = Float
\* every quantised layer of an integer network knows the range of its input: the producing point is quantised
InvIntInputsQuantised == phase = "int" => \A L \in Layers(cur) : MpsInBits(L) # Float
Done == phase = "done"
=============================================================================
