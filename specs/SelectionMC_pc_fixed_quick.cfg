SPECIFICATION Spec
CONSTANTS
  Kind = "mps"
  Impl = "asis"
  OptImpl = "fixed"
  Ctor = "bare"
  N = 3
  Chans = 2
  Temps = {"any"}
  Acts = {"mode", "fwd"}
  InitAlpha = "any"
  AllowKF = FALSE
INVARIANT TypeOK
INVARIANT SampledIsProb
INVARIANT OneHotAtArgmax
INVARIANT GumbelTraining
INVARIANT SoftKeepsWinner
INVARIANT ReportIsArgmax
INVARIANT ExportIsArgmax
INVARIANT ReportIsExport
PROPERTY DisabledKeeps
PROPERTY ThetaOnlyBySampling
PROPERTY AlphaOnlyBySetAlpha
