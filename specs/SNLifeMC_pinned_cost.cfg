SPECIFICATION Spec
CONSTANTS
  Impl = "asis"
  ExcludeKF = FALSE
  KindSet = {"layer", "ubr"}
  NBrSet = {2}
  MaxBlocks = 1
  UseSet = {1, 2}
  PoolSet = {FALSE, TRUE}
  GumbelSet = {FALSE}
  HardSet = {TRUE}
  BigN = 0
  Acts = {"SetAlpha"}
  D = 4
  NameFamily = "plain"
  NameImpl = "asis"
  SampleImpl = "ref"
  ForkImpl = "ref"
INVARIANT C06_AsisIsRef
INVARIANT C06_HardIsExport
INVARIANT C06_Bounds
