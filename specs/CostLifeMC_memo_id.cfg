SPECIFICATION Spec
CONSTANTS
  Impl = "memo_id"
  MaxLen = 3
  Layers = {"linear"}
  NInit = 1
INVARIANT EvalIsFunctionOfDescription
INVARIANT FrameUnchanged
