SPECIFICATION Spec
INVARIANT VerdictOk
