SPECIFICATION Spec
CONSTANTS
  Impl = "pinned"
  Kind = "mps"
  Temps = {500, 1000}
INVARIANT SamplerConsistent
