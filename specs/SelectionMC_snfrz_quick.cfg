SPECIFICATION Spec
CONSTANTS
  Kind = "sn"
  Smp = "asis"
  SumSamples = FALSE
  ExpSamples = FALSE
  OptImpl = "fixed"
  Ctor = "bare"
  N = 2
  Chans = 1
  Temps = {"any"}
  Acts = {"temp", "hard", "mode", "fwd", "alpha", "load", "freeze"}
  Writes = {"copy"}
  Ckpts = {"soft"}
  Moves = "gen"
  InitAlpha = "ctor"
  CtorOpts = "all"
  AllowKF = TRUE
  Grads = {TRUE}
  SelHows = {"freeze_attr", "unfreeze_attr"}
INVARIANT TypeOK
INVARIANT SampledIsProb
INVARIANT OneHotAtArgmax
INVARIANT GumbelTraining
INVARIANT SoftKeepsWinner
INVARIANT ReportIsArgmax
INVARIANT ExportIsArgmax
INVARIANT ReportIsExport
INVARIANT ForwardSamples
PROPERTY DisabledKeeps
PROPERTY ThetaOnlyBySampling
PROPERTY AlphaOnlyByWrites
