SPECIFICATION Spec
CONSTANTS
  Impl = "asis"
  MaxNodes = 3
  Widths = {2}
  Dims = {2}
  C0 = 2
  Sp0 = 2
  Methods = {"PIT"}
  Twos = {"no"}
  AllowPl = FALSE
  AllowExcl = FALSE
  AllowReuse = TRUE
  AllowFindings = TRUE
INVARIANT InvFnPreserved
INVARIANT InvUserParams
INVARIANT InvUserFn
INVARIANT InvModeKept
INVARIANT InvExportIso
INVARIANT InvExportLiteral
INVARIANT InvBnAccount
INVARIANT InvWellFormed
