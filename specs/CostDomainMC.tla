---------------------------- MODULE CostDomainMC ----------------------------
(***************************************************************************)
(* C16 on the BOUNDARY and OUTSIDE of the domain of the cost functions:    *)
(* one-step enumeration of (registered function, layer description) over a *)
(* grid that contains                                                      *)
(*   - precisions that are not integers, negative or huge (wf / af: tenths)*)
(*   - a weight fraction w_theta_alpha of exactly 0 (td = 0) and exactly 1 *)
(*   - effective channel counts 0, 1/4 and 1                               *)
(* Invariants:  the function is defined  <=>  the description is in the    *)
(* supported domain (CostSupported: exact table entries only), and on the  *)
(* whole supported domain INCLUDING its boundary the value is finite and   *)
(* non-negative.  Impl selects the as-implemented behaviour; the variants  *)
(* "trunc" (int() coercion before the table look-up) and "div0" (NE16      *)
(* without the theta = 0 guard: latency(0 channels) / 0) are expected to   *)
(* FAIL (sanity).  Every state is replayed on the real functions.          *)
(***************************************************************************)
EXTENDS CostFormulas

CONSTANTS Impl,          \* "asis" | "trunc" | "div0"
          Models         \* cost specifications to enumerate

S == 4

VARIABLES fn, p
vars == <<fn, p>>

\* <<floor, tenths>> : 4.7 = <<4, 7>>, -0.5 = <<-1, 5>>
WPoints == {<<0, 0>>, <<2, 0>>, <<4, 0>>, <<8, 0>>, <<3, 0>>, <<16, 0>>, <<4, 7>>, <<0, 9>>, <<-1, 5>>,
            <<2, 5>>, <<7, 9>>, <<8, 1>>, <<-2, 0>>, <<1000000, 0>>}
APoints == {<<2, 0>>, <<4, 0>>, <<8, 0>>, <<0, 0>>, <<3, 0>>, <<2, 5>>, <<7, 9>>, <<8, 5>>, <<-1, 5>>,
            <<1000000, 0>>}
\* NE16 declares no weight restriction: only the widths it is used with (w = 0 short-cuts before any check)
Ne16W == {<<2, 0>>, <<4, 0>>, <<8, 0>>}

Restricted(f) == f.m \in RestrictedModels
IsConv(f) == f.l # "linear"
Is2d(f)   == f.l = "conv2d"

Base(f, cin, cout, g, w, a, td) ==
    [cin |-> cin, cout |-> cout,
     kx |-> IF IsConv(f) THEN 3 ELSE 1, ky |-> IF Is2d(f) THEN 3 ELSE 1,
     ox |-> IF IsConv(f) THEN 4 ELSE 1, oy |-> IF Is2d(f) THEN 4 ELSE 1,
     w |-> w[1], wf |-> w[2], a |-> a[1], af |-> a[2], b |-> 1, g |-> g, td |-> td]

Thetas(f) == IF f.m = "ne16_latency" THEN {0, 1, 2, 4} ELSE {1}
Groups(f) == IF f.pat = "dw" THEN {0} ELSE IF f.m = "diana_latency" /\ Is2d(f) THEN {0, 1} ELSE {1}

\* (1) precision grid at two sizes
BitPoints(f) ==
    IF ~Restricted(f) THEN {}
    ELSE {Base(f, IF g = 0 THEN c[2] ELSE c[1], c[2], g, w, a, td) :
            c \in {<<12, 20>>, <<68, 132>>}, g \in Groups(f),
            w \in (IF f.m = "ne16_latency" THEN Ne16W ELSE WPoints), a \in APoints, td \in Thetas(f)}
         \cup (IF f.m = "ne16_latency"        \* pruned precision: exact 0 with the supported activation width
               THEN {Base(f, IF g = 0 THEN 20 ELSE 12, 20, g, <<0, 0>>, <<8, 0>>, td) : g \in Groups(f), td \in Thetas(f)}
               ELSE {})

\* (2) channel boundary: 0, 1/4, 1 channel(s) and a regular size, on each side (depthwise: groups >= 1)
ChanPoints(f) ==
    {Base(f, IF g = 0 THEN co ELSE ci, co, g, w, <<8, 0>>, td) :
        ci \in {0, 1, 4, 68}, co \in (IF f.pat = "dw" THEN {4, 68} ELSE {0, 1, 4, 132}), g \in Groups(f),
        w \in (IF f.m = "diana_latency" THEN {<<2, 0>>, <<8, 0>>} ELSE {<<0, 0>>, <<8, 0>>}), td \in Thetas(f)}

\* depthwise-shaped descriptions have groups = channels >= 1; for the generic DIANA function a depthwise
\* description with ONE channel is the same as groups = 1, so it starts at two channels
Points(f) == {q \in BitPoints(f) \cup ChanPoints(f) :
                q.g = 1 \/ (q.cin = q.cout /\ q.cin >= S /\ (f.m = "diana_latency" => q.cin > S))}

Init == /\ fn \in {f \in Registered : f.m \in Models}
        /\ p \in Points(fn)
Next == UNCHANGED vars
Spec == Init /\ [][Next]_vars

----------------------------------------------------------------------------
Integral(q) == q.wf = 0 /\ q.af = 0

\* as implemented: <<"raise">> | <<"nan">> | <<"v", core, mult>>
Value(f, q) == LET c == CostCore(f, q, S) IN IF c = Reject THEN <<"raise">> ELSE <<"v", c, CostMult(f, q)>>

Result(f, q) ==
    IF f.m \in MpicModels
    THEN IF Impl = "trunc"
         THEN \* a_bit, w_bit = int(a_bit), int(w_bit)  BEFORE the assertion
              Value(f, [q EXCEPT !.w = TruncToZero(q.w, q.wf), !.a = TruncToZero(q.a, q.af), !.wf = 0, !.af = 0])
         ELSE IF Integral(q) THEN Value(f, q) ELSE <<"raise">>         \* x in [2, 4, 8] is an exact comparison
    ELSE IF f.m = "diana_latency"
    THEN IF Integral(q) THEN Value(f, q) ELSE <<"raise">>              \* w == 2 / w == 8 / a == 8 are exact
    ELSE IF f.m = "ne16_latency"
    THEN IF q.w = 0 /\ q.wf = 0 THEN <<"v", 0, 1>>                      \* pruned precision
         ELSE IF q.td = 0
         THEN IF Impl = "div0"
              THEN (IF q.af # 0 \/ q.a # 8 THEN <<"raise">> ELSE <<"nan">>)   \* latency(theta*cout = 0) / 0
              ELSE <<"v", 0, 1>>                                        \* "or w_theta_alpha == 0: return 0."
         ELSE IF q.af # 0 THEN <<"raise">> ELSE Value(f, q)
    ELSE Value(f, q)

Claimed(f, q) == CostClaimed(f, q)

DefinedIffSupported ==
    Claimed(fn, p) => ((Result(fn, p)[1] # "raise") <=> CostSupported(fn, p))

FiniteNonNegOnSupported ==
    CostSupported(fn, p) /\ Claimed(fn, p) =>
        LET r == Result(fn, p) IN r[1] = "v" /\ r[2] >= 0 /\ r[3] >= 0
=============================================================================
