------------------------------- MODULE MPSLife -------------------------------
(***************************************************************************)
(* Mixed-precision search (plinio.methods.mps) on grammar architectures:   *)
(* which quantiser every tensor goes through, what export() / summary()    *)
(* report for a given selection, and what the selection costs              *)
(* (properties C02 and C05).                                               *)
(*                                                                         *)
(* Architectures are the node sequences of FeatGraph (1-D or 2-D, no        *)
(* concat): conv (incl. depthwise, optional BatchNorm that MPS folds in    *)
(* 2-D), lin (optional BatchNorm), relu, pool, flat, add; a conv / lin     *)
(* node may INVOKE AGAIN the layer object of an earlier node (reuse = m:   *)
(* weight sharing, one MPS module, several call sites).                    *)
(*                                                                         *)
(* QUANTISATION POINTS.  After conversion the network re-quantises its     *)
(* activations at: the network input (node id InQ), every conv / lin       *)
(* output, and every add output (the MPSAdd inserted after it).  relu,     *)
(* pool and flatten leave the grid alone.  QPoint(a, t) is the point whose *)
(* output grid tensor t is on: pure dataflow, nothing of plinio in it.     *)
(*                                                                         *)
(* QUANTISER GROUPS.  Tensors that must live on one grid share one         *)
(* quantiser: the operands and the result of an add, and a depthwise conv  *)
(* with its producer (features-propagating).  The groups are the connected *)
(* components of that relation (FeatGraph!Comp, whose edges are exactly    *)
(* "dataflow edge into a node that does not define its own features").     *)
(* The component that reaches the network output is not quantised          *)
(* ("float", reported as -1).  The input quantiser is a group of its own.  *)
(* Weight quantisers are shared inside the same components.                *)
(*                                                                         *)
(* A configuration  c = [pin, pa, pw, wt]  gives the candidate precision   *)
(* tuples of the input quantiser, of all other activation quantisers and   *)
(* of the weight quantisers, and the weight search type "pl" (per layer)   *)
(* or "pc" (per channel, where pw may contain the pruning precision 0).    *)
(* A selection  s = [a, w]  maps every activation group to the index of    *)
(* its winner and every weight group to the index of its winner ("pl") or  *)
(* to one index per output channel ("pc").                                 *)
(*                                                                         *)
(* Variable-free operator library; MPSLifeMC / MPSLifeTrace use it.        *)
(***************************************************************************)
EXTENDS FeatGraph, CostFormulas

Float == -1                                   \* "not quantised" (DummyQuantizer, precision -1)

InQ(a)        == N(a) + 2                     \* id of the network-input quantiser
OutNode(a)    == N(a) + 1                     \* the fx output node (FeatGraph convention)
IsQNode(a, n) == n \in 1..N(a) /\ Op(a, n) \in {"conv", "lin", "add"}
QNodes(a)     == {n \in 1..N(a) : IsQNode(a, n)}

(* ---------------------- reference dataflow ------------------------------ *)
RECURSIVE QPoint(_, _)
QPoint(a, t) == IF t = 0 THEN InQ(a)
                ELSE IF IsQNode(a, t) THEN t
                ELSE QPoint(a, In1(a, t))

\* the quantisation point that produced the tensor layer L consumes
RefInPoint(a, L) == QPoint(a, In1(a, L))

(* ---------------------- as implemented ---------------------------------- *)
(* register_in_mps_quantizers.                                              *)
(* walk = "pinned": start from meta['input_features_set_by'] of the layer   *)
(*   (associate_input_features: FeatGraph!SetByOf) and follow that field    *)
(*   until an MPS module is met.  Only features-DEFINING nodes, flatten and *)
(*   the (forced defining) input quantiser are ever named by the field:     *)
(*   depthwise convs and MPSAdd modules are skipped (finding F40).          *)
(* walk = "fixed" (commit 1f98e61): walk back along the first input until   *)
(*   an MPS module is met - the same recursion as QPoint.                   *)
(* One MPS module has ONE input quantiser: the loop runs over the graph     *)
(* nodes in order, so for a module with several call sites the LAST call    *)
(* site decides (LastSite).                                                 *)
RECURSIVE WalkQ(_, _)
WalkQ(a, x) == IF x = 0 THEN InQ(a)
               ELSE IF IsLayer(a, x) THEN x
               ELSE WalkQ(a, SetByOf(a, In1(a, x)))          \* x is a flatten node
AsisInPoint(a, L) == WalkQ(a, SetByOf(a, In1(a, L)))          \* pinned walk from call site L
SiteInPoint(walk, a, L) == IF walk = "pinned" THEN AsisInPoint(a, L) ELSE RefInPoint(a, L)
ModuleInPoint(walk, a, L) == SiteInPoint(walk, a, LastSite(a, L))
FirstSite(a, L) == LET cs == CallSites(a, Owner(a, L)) IN CHOOSE m \in cs : \A x \in cs : m <= x
Owners(a)       == {Owner(a, L) : L \in Layers(a)}
Reused(a, L)    == Cardinality(CallSites(a, Owner(a, L))) > 1

(* ---------------------- groups ------------------------------------------ *)
(* The group structure of an architecture is computed ONCE (GS) and handed   *)
(* to the operators below as gs:                                             *)
(*   rep  : node (0..N+1) -> smallest node of its sharing component (for a   *)
(*          layer: of the component of the FIRST call site of its module)    *)
(*   rep0 : the same, per call site                                          *)
(*   flt  : representatives of the components that reach the network output  *)
(*   qp   : tensor -> quantisation point it is on (reference dataflow)       *)
(*   asis : layer -> quantisation point found by the as-implemented walk     *)
MinOf(S) == CHOOSE m \in S : \A x \in S : m <= x
\* connected components of the sharing graph by label propagation (every node ends up labelled with the
\* smallest node of its component: the same value as FeatGraph!Rep, computed once for all nodes)
RECURSIVE Labels(_, _, _)
Labels(V, E, lab) ==
    LET nxt == [n \in V |-> MinOf({lab[n]} \cup {lab[m] : m \in {y \in V : <<n, y>> \in E}})]
    IN  IF nxt = lab THEN lab ELSE Labels(V, E, nxt)
RepMap(a) == LET V == AllNodes(a)
                 E == {e \in V \X V : Adj(a, e[1], e[2])}
             IN  Labels(V, E, [n \in V |-> n])
\* a module invoked at several call sites has ONE output / weight quantiser: the group of its first call site
\* (prediction; it only matters when the call sites lie in different components, see ReuseSplit)
GS(walk, a) ==
    LET rp0 == RepMap(a)
        rp  == [n \in DOMAIN rp0 |-> IF n \in Layers(a) THEN rp0[FirstSite(a, n)] ELSE rp0[n]] IN
         [rep  |-> rp,
          rep0 |-> rp0,
          flt  |-> {rp0[OutNode(a)]},
          qp   |-> [t \in 0..N(a) |-> QPoint(a, t)],
          asis |-> [L \in Layers(a) |-> ModuleInPoint(walk, a, L)]]

AGroup(gs, a, q)    == IF q = InQ(a) THEN InQ(a) ELSE gs.rep[q]
IsFloatGroup(gs, g) == g \in gs.flt
WGroup(gs, L)       == gs.rep[L]
AGroups(gs, a)  == {InQ(a)} \cup ({gs.rep[q] : q \in QNodes(a)} \ gs.flt)
WGroups(gs, a)  == {gs.rep[L] : L \in Layers(a)}
\* number of channels of the per-channel coefficients of a weight group
GroupWidth(gs, a, g) == LET Ls == {L \in Layers(a) : gs.rep[L] = g} IN Ch(a, CHOOSE L \in Ls : \A x \in Ls : L <= x)

Has0(p) == \E i \in DOMAIN p : p[i] = 0
No0(p)  == SelectSeq(p, LAMBDA b : b # 0)
ATuple(a, c, g) == IF g = InQ(a) THEN c.pin ELSE c.pa
\* output-connected components lose the pruning precision (build_shared_mps_qtz_map)
WTuple(gs, c, g) == IF c.wt = "pc" /\ IsFloatGroup(gs, g) THEN No0(c.pw) ELSE c.pw

RefIn(gs, a, L)        == gs.qp[In1(a, L)]
InPt(impl, gs, a, L)   == IF impl = "ref" THEN RefIn(gs, a, L) ELSE gs.asis[L]

(* Scenario predicate of finding F40: some layer consumes a tensor that was  *)
(* re-quantised by a depthwise conv / an MPSAdd, but the walk ends at the    *)
(* network-input quantiser (which is NOT a member of the placeholder's       *)
(* sharing component).                                                       *)
F40Layer(gs, a, L)  == AsisInPoint(a, L) = InQ(a) /\ RefIn(gs, a, L) # InQ(a)
KF_InputProp(gs, a) == \E L \in Layers(a) : F40Layer(gs, a, L)
(* A module invoked at call sites that do not share one quantiser group: its  *)
(* single input quantiser is the one of the last call site's producer, its    *)
(* single output / weight quantiser belongs to one component only.            *)
ReuseSplit(gs, a, L) ==
    Reused(a, L) /\ \E n, m \in CallSites(a, Owner(a, L)) :
        gs.rep0[n] # gs.rep0[m] \/ AGroup(gs, a, RefIn(gs, a, n)) # AGroup(gs, a, RefIn(gs, a, m))
\* a searchable layer (or add) shares its component with the network input
InputConnected(gs, a) == \E q \in QNodes(a) : gs.rep[q] = 0
\* one component mixes layers of different widths (one coefficient matrix for all)
MixedWidth(gs, a) == \E L, M \in Layers(a) : gs.rep[L] = gs.rep[M] /\ Ch(a, L) # Ch(a, M)

(* ---------------------- selected precisions ----------------------------- *)
OutBits(gs, a, c, s, q) ==
    LET g == AGroup(gs, a, q) IN
    IF IsFloatGroup(gs, g) THEN Float ELSE ATuple(a, c, g)[s.a[g]]
InBits(impl, gs, a, c, s, L) == OutBits(gs, a, c, s, InPt(impl, gs, a, L))
\* weight precision of every output channel of layer L
WBits(gs, a, c, s, L) ==
    LET g == WGroup(gs, L)  t == WTuple(gs, c, g) IN
    IF c.wt = "pl" THEN [ch \in 1..Ch(a, L) |-> t[s.w[g]]]
    ELSE [ch \in 1..Ch(a, L) |-> t[s.w[g][ch]]]
\* what export() materialises and summary() reports for layer L
Triple(impl, gs, a, c, s, L) ==
    [i |-> InBits(impl, gs, a, c, s, L), w |-> WBits(gs, a, c, s, L), o |-> OutBits(gs, a, c, s, L)]

(* ---------------------- effective feature counts ------------------------ *)
AlivePat(wb)   == [ch \in DOMAIN wb |-> wb[ch] # 0]
\* wbits : layer -> per-channel weight bits (model: WBits; traces: summary())
InEffW(a, wbits, L)  == Count(ActM(a, [n \in Layers(a) |-> AlivePat(wbits[n])], In1(a, L)))
OutEffW(wbits, L)    == Count(AlivePat(wbits[L]))
StaticIn(a, L)       == Ch(a, In1(a, L))
StaticOut(a, L)      == Ch(a, L)

(* ---------------------- costs ------------------------------------------- *)
BitMetrics == {"params_bit", "ops_bit", "mpic_latency", "ne16_latency"}
LKind(a, L)   == IF Op(a, L) = "lin" THEN "linear" ELSE IF a.dim = 1 THEN "conv1d" ELSE "conv2d"
CostFnOf(m, a, L) == [m |-> m, l |-> LKind(a, L), pat |-> IF IsDw(a, L) THEN "dw" ELSE "U"]
\* folding a BatchNorm creates the bias (MPS folds Conv2d-BN and Linear-BN, not Conv1d-BN)
HasBias(a, L) == Nd(a, L).bias \/ (Nd(a, L).bn /\ (a.dim = 2 \/ Op(a, L) = "lin"))
KOf(a, L)     == IF Op(a, L) = "lin" THEN 1 ELSE Nd(a, L).k
OOf(a, L)     == IF Op(a, L) = "lin" THEN 1 ELSE Sp(a, L)
K2Of(a, L)    == IF a.dim = 1 THEN 1 ELSE KOf(a, L)
O2Of(a, L)    == IF a.dim = 1 THEN 1 ELSE OOf(a, L)
\* geometry of CALL SITE L (the output size is a property of the invocation, not of the module)
Desc(a, L, cin, cout, w, ab) ==
    [cin |-> cin, cout |-> cout, kx |-> KOf(a, L), ky |-> K2Of(a, L), ox |-> OOf(a, L), oy |-> O2Of(a, L),
     w |-> w, a |-> ab, b |-> IF HasBias(a, L) THEN 1 ELSE 0, g |-> IF IsDw(a, L) THEN 0 ELSE 1, td |-> 1]

\* can the metric be evaluated on this layer at all (documented restrictions of the models)
Applicable(m, a, L, w, ab) ==
    CASE m = "mpic_latency" -> ab \in {2, 4, 8} /\ w \in {0, 2, 4, 8}
      [] m = "ne16_latency" -> (a.dim = 2 \/ Op(a, L) = "lin")      \* no Conv1d model is registered
                               /\ (w = 0 \/ (ab = 8 /\ (IsDw(a, L) => KOf(a, L) = 3) /\ KOf(a, L) \in {1, 3}))
      [] OTHER -> TRUE

\* cost as  num / den  (den = 1 except for the MPIC look-up table)
RatNum(m, a, L, cin, cout, w, ab) ==
    LET fn == CostFnOf(m, a, L)  p == Desc(a, L, cin, cout, w, ab) IN CostInt(fn, p, 1) * CostNum(fn, p)
RatDen(m, a, L, w, ab) == LET fn == CostFnOf(m, a, L) IN CostDen(fn, Desc(a, L, 1, 1, w, ab))

\* CostSpec.shared: a layer object is charged once (params_bit) or once per invocation (all the others)
SharedMetric(m)  == m = "params_bit"
CostSites(m, a)  == IF SharedMetric(m) THEN Owners(a) ELSE Layers(a)

BitsUsed(wb)  == {wb[ch] : ch \in DOMAIN wb}
NWith(wb, b)  == Cardinality({ch \in DOMAIN wb : wb[ch] = b})
RECURSIVE SumF(_, _)
SumF(f, S) == IF S = {} THEN 0 ELSE LET x == CHOOSE y \in S : TRUE IN f[x] + SumF(f, S \ {x})

(* EXACT cost of layer L under the assignment (wb = weight bits per channel,  *)
(* ab = input bits, cin = effective input features): every class of channels   *)
(* with the same precision is a layer of its own width.  Integer metrics only  *)
(* (params_bit, ops_bit, ne16_latency); for MPIC see ExactMilli.               *)
ExactInt(m, a, L, wb, ab, cin) ==
    LET term == [b \in BitsUsed(wb) |->
                    LET n == NWith(wb, b) IN RatNum(m, a, L, IF IsDw(a, L) THEN n ELSE cin, n, b, ab)]
    IN  SumF(term, BitsUsed(wb))
\* the same in thousandths, rounded down per precision class (MPIC: rational LUT)
ExactMilli(m, a, L, wb, ab, cin) ==
    LET term == [b \in BitsUsed(wb) |->
                    LET n == NWith(wb, b) IN
                    (RatNum(m, a, L, IF IsDw(a, L) THEN n ELSE cin, n, b, ab) * 1000) \div RatDen(m, a, L, b, ab)]
    IN  SumF(term, BitsUsed(wb))
AllApplicable(m, a, L, wb, ab) == \A b \in BitsUsed(wb) : Applicable(m, a, L, b, ab)

(* AS IMPLEMENTED (MPSConv2d / MPSLinear.get_cost with one-hot coefficients):  *)
(*   sum_j  mean_c(theta[j, c]) * cost_fn(in = shown_in, out = shown_out, w_j) *)
(* shown_out = C - n0 when the per-channel tuple contains 0 (finding F05);     *)
(* lin = "pinned": MPSLinear.get_modified_vars writes in_channels /            *)
(* out_channels, so a Linear cost function is shown the static in_features /   *)
(* out_features (finding F04); lin = "fixed": after the candidate fix.         *)
(* Result: numerator over the denominator  C = Len(wb).                        *)
ShownIn(lin, a, L, wbits)  == IF Op(a, L) = "lin" /\ lin = "pinned" THEN StaticIn(a, L) ELSE InEffW(a, wbits, L)
ShownOut(lin, a, L, wbits, tuple, pc) ==
    IF Op(a, L) = "lin" /\ lin = "pinned" THEN StaticOut(a, L)
    ELSE IF pc /\ Has0(tuple) THEN OutEffW(wbits, L) ELSE StaticOut(a, L)
AsisNum(m, lin, a, L, wbits, ab, tuple, pc) ==
    LET wb == wbits[L]
        si == ShownIn(lin, a, L, wbits)
        so == ShownOut(lin, a, L, wbits, tuple, pc)
        J  == {j \in DOMAIN tuple : NWith(wb, tuple[j]) > 0}
        term == [j \in J |-> NWith(wb, tuple[j]) * RatNum(m, a, L, si, so, tuple[j], ab)]
    IN  SumF(term, J)
AsisDen(wbits, L) == Len(wbits[L])

\* scenario predicates of the two cost findings, per layer
F05Layer(a, L, wbits, tuple, pc) == pc /\ Has0(tuple) /\ NWith(wbits[L], 0) > 0
F04Layer(a, L, wbits) == Op(a, L) = "lin" /\ (InEffW(a, wbits, L) # StaticIn(a, L) \/ OutEffW(wbits, L) # StaticOut(a, L))

(* ---------------------- call histories ----------------------------------- *)
(* The public calls between the coefficient write and an observation.  Mode of the model:                  *)
(*   "eval" | "hard" (training, hard_softmax, plain soft-max sampler) | "ghard" (training, hard Gumbel).   *)
(* Calls:                                                                                                  *)
(*   to_eval / to_hard / to_ghard   switch the mode (eval() / update_softmax_options + train()), no sample *)
(*   fwd_g / fwd_n                  forward pass in the CURRENT mode, autograd enabled / under no_grad      *)
(*   fwd_eval / fwd_hard / fwd_ghard = to_X followed by fwd_n                                              *)
(*   load / copy / data             other coefficients installed (load_state_dict / in-place copy_ /       *)
(*                                  .data assignment), no forward pass, no mode switch                     *)
(*   sgd_net / sgd_all              to_hard, forward + backward with autograd, one SGD step on the network *)
(*                                  weights only / on all parameters (also the coefficients)               *)
(*   export, summary, upd           observers (export() restores theta; upd = update_softmax_options(T))   *)
(*   export!                        export() compared with the eval-mode model: runs an eval forward       *)
(*   fork                           obj := deepcopy(obj); the original is perturbed, the history continues *)
(*                                  on the copy, whose state is the state at the fork: nothing changes     *)
(*   loadT                          load_state_dict of another temperature: no effect on an arg-max        *)
(* What theta encodes:                                                                                     *)
(*   "soft"  no forward pass in a hard-sampling mode yet (the conversion samples the new MPS modules in    *)
(*           training mode: a new model holds a SOFT theta) - the cost is a mixture, nothing is claimed    *)
(*   "fresh" the last sampling was an arg-max of the coefficients that are still installed (forward in     *)
(*           eval or hard mode) - WHATEVER the autograd mode of that forward pass was                      *)
(*   "stale" theta is one-hot but sampled with Gumbel noise, or the coefficients were replaced since       *)
ModeAfter(act, mode) ==
    CASE act \in {"fwd_eval", "to_eval"} -> "eval"
      [] act \in {"fwd_hard", "to_hard", "sgd_net", "sgd_all"} -> "hard"
      [] act \in {"fwd_ghard", "to_ghard"} -> "ghard"
      [] OTHER -> mode
IsForward(act)    == act \in {"fwd_eval", "fwd_hard", "fwd_ghard", "fwd_g", "fwd_n", "sgd_net", "sgd_all", "export!"}
IsAlphaWrite(act) == act \in {"load", "copy", "data", "sgd_all"}
IsWeightStep(act) == act \in {"sgd_net", "sgd_all"}
\* st = state of theta before the call, m1 = mode after the call (the mode the forward pass runs in)
ThetaAfter(act, st, m1) ==
    IF act = "export!" THEN "fresh"
    ELSE IF act = "sgd_all" THEN "stale"
    ELSE IF IsForward(act) THEN (IF m1 = "ghard" THEN "stale" ELSE "fresh")
    ELSE IF IsAlphaWrite(act) THEN (IF st = "soft" THEN "soft" ELSE "stale")
    ELSE st
RECURSIVE ThetaFrom(_, _, _, _)
ThetaFrom(h, i, st, mode) ==
    IF i > Len(h) THEN st
    ELSE LET m1 == ModeAfter(h[i], mode) IN ThetaFrom(h, i + 1, ThetaAfter(h[i], st, m1), m1)
ThetaState(h) == ThetaFrom(h, 1, "soft", "eval")
RECURSIVE ModeFrom(_, _, _)
ModeFrom(h, i, mode) == IF i > Len(h) THEN mode ELSE ModeFrom(h, i + 1, ModeAfter(h[i], mode))
ModeOf(h) == ModeFrom(h, 1, "eval")
\* number of weight updates before position i of the history
WeightVersion(h, i) == Cardinality({j \in 1..(i - 1) : IsWeightStep(h[j])})

(* ---------------------- geometry of an exported layer --------------------- *)
(* export() must hand the convolution options of the searched layer over to the fake-quantised one *)
PMOf(nd)  == IF "pm" \in DOMAIN nd THEN nd.pm ELSE "zeros"
Geom(a, L) == LET nd == Nd(a, L) IN
    IF Op(a, L) = "lin" THEN [k |-> 1, s |-> 1, d |-> 1, pm |-> "zeros", bias |-> HasBias(a, L)]
    ELSE [k |-> nd.k, s |-> nd.s, d |-> nd.d,
          pm |-> IF nd.causal \/ IsValidConv(nd) THEN "zeros" ELSE PMOf(nd),     \* explicit left padding / no padding
          bias |-> HasBias(a, L)]

(* ---------------------- the output shape a cost function is shown --------- *)
(* shapes_dict(node): the shape of the tensor the tracing example produced, INCLUDING its batch dimension b. *)
(* Conv cost functions read out_shape[2] (and [3]), linear ones do not read it: the cost must not depend on b *)
OutShapeOf(a, L, b) ==
    IF Op(a, L) = "lin" THEN <<b, Ch(a, L)>>
    ELSE IF a.dim = 1 THEN <<b, Ch(a, L), Sp(a, L)>> ELSE <<b, Ch(a, L), Sp(a, L), Sp(a, L)>>
\* (0-based index i of the code = position i + 1 here)
OXShown(a, L, shp) == IF Op(a, L) = "lin" THEN 1 ELSE shp[3]
OYShown(a, L, shp) == IF Op(a, L) = "lin" \/ a.dim = 1 THEN 1 ELSE shp[4]

(* ---------------------- candidate tuples -------------------------------- *)
RECURSIVE Arrangements(_, _)
Arrangements(S, n) ==
    IF n = 0 \/ S = {} THEN {<<>>}
    ELSE {<<>>} \cup UNION {{<<x>> \o t : t \in Arrangements(S \ {x}, n - 1)} : x \in S}
\* every ordered non-empty subset of S (15 tuples for {2,4,8})
TuplesOver(S) == Arrangements(S, Cardinality(S)) \ {<<>>}
=============================================================================
