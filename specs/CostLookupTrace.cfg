SPECIFICATION Spec
INVARIANT VerdictOk
