SPECIFICATION Spec
INVARIANT VerdictOk
