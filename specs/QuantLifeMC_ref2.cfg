SPECIFICATION Spec
CONSTANTS
  Impl = "ref"
  NPrec = 2
INVARIANT HistoryIndependent
INVARIANT LastIsPrevCall
