SPECIFICATION Spec
CONSTANTS
  Impl = "div0"
  Models = {"ne16_latency"}
INVARIANT DefinedIffSupported
INVARIANT FiniteNonNegOnSupported
