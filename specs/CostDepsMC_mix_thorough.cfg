SPECIFICATION Spec
CONSTANTS
  Mode = "mix"
  Vals = {0}
  Fams = {1}
  AllowDeps = FALSE
  D = 12
  Ste = "identity"
  TVals = {0}
  KFull = 1
  KMax = 1
INVARIANT InvMixNonNeg
INVARIANT InvMixGradSumZero
INVARIANT InvMixRaiseIffGrad
INVARIANT InvMixPrediction
INVARIANT InvMixBitsMonotone
INVARIANT InvMixOneHotFlat
