SPECIFICATION Spec
CONSTANTS
  Mode = "mix"
  Vals = {0}
  Fams = {1}
  AllowDeps = FALSE
  D = 12
INVARIANT InvMixNonNeg
INVARIANT InvMixGradSumZero
INVARIANT InvMixRaiseIffGrad
INVARIANT InvMixPrediction
INVARIANT InvMixBitsMonotone
INVARIANT InvMixOneHotFlat
