SPECIFICATION Spec
CONSTANTS
  Impl = "ref"
  MaxLen = 2
  UpdKinds = {"load", "step", "inplace"}
  Nests = {"any"}
  MatchOpts <- Opts_min
INVARIANT CurrentWeights
INVARIANT CurrentStats
INVARIANT OptionsOfThisCall
INVARIANT AllReplaced
INVARIANT KwargsUnchanged
INVARIANT DefaultsDeclared
INVARIANT OptionsInRange
