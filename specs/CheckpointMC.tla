---------------------------- MODULE CheckpointMC ----------------------------
(***************************************************************************)
(* Design-level state machine for C17: one abstract wrapper of kind Kind   *)
(* driven by every history of a search over                                *)
(*   { optimizer step on net / nas / all parameters, option calls,         *)
(*     train_nas_only / train_net_only / train_net_and_nas, train(),       *)
(*     eval(), forward, observer calls }                                   *)
(* explored to closure (which subsumes "histories of at most 5 steps").    *)
(* In EVERY reachable state TLC evaluates the checkpoint experiment        *)
(*   Save; FreshConstruct(same seed, same constructor arguments);          *)
(*   re-apply the configuration calls; Load; the usual forward pass        *)
(* and requires the restored wrapper to give the observations of the       *)
(* original in both modes (ResumeOk) and equal state_dict key sets.        *)
(* The states are dumped; a seeded sample (quick) / all of them (thorough) *)
(* are reached on real models by harness/checks/c17.py through a shortest  *)
(* history and the experiment is carried out for real.                     *)
(***************************************************************************)
EXTENDS Checkpoint, TLC

CONSTANTS Impl,     \* "asis" | "temp_float" | "theta_attr" | "lazy_buffer" | "private_stream" | "global_counter"
          Kind,     \* "pit" | "mps" | "sn"
          MaxV,     \* saturation of the version counters
          Temps     \* abstract temperature ids (1 = default)

VARIABLES s, I, hist
vars == <<s, I, hist>>
\* the history is carried for the replayer only (one shortest history per state): hidden from the fingerprint
View == <<s, I>>

P == [hasbn |-> Kind # "mps", maxv |-> MaxV, priv |-> Impl = "private_stream"]

Init == \E train \in BOOLEAN, hard \in (IF Kind = "pit" THEN {FALSE} ELSE BOOLEAN),
           dis \in (IF Kind = "mps" THEN BOOLEAN ELSE {FALSE}), dc \in (IF Kind = "pit" THEN BOOLEAN ELSE {FALSE}),
           gum \in (IF Kind = "pit" THEN {FALSE} ELSE BOOLEAN) :
          /\ I = [train |-> train, hard |-> hard, gumbel |-> gum, disable |-> dis, dc |-> dc]
          /\ s = Fresh(Kind, I)
          /\ hist = <<>>

Do(a) == s' = Next(Kind, P, s, a) /\ hist' = Append(hist, a) /\ UNCHANGED I

OptVals(o) == IF o = "temp" THEN Temps ELSE {0, 1}

Step(g)   == Do([a |-> "step", g |-> g])
Opt(o, v) == o \in OptsOf(Kind) /\ v \in OptVals(o) /\ Do([a |-> "opt", o |-> o, v |-> v])
Train(g)  == Do([a |-> "train", g |-> g])
Mode(v)   == Do([a |-> "mode", v |-> v])
Forward   == Do([a |-> "forward"])
Observe   == Do([a |-> "observe"])

Next0 == \/ \E g \in {"net", "nas", "all"} : Step(g)
         \/ \E o \in {"temp", "hard", "disable", "dc"} : \E v \in OptVals(o) : Opt(o, v)
         \/ \E g \in {"nas", "net", "both"} : Train(g)
         \/ \E v \in {0, 1} : Mode(v)
         \/ Forward \/ Observe

Spec == Init /\ [][Next0]_vars

\* the abstract state is a function of the history (the replayer relies on it)
RECURSIVE RunHist(_, _, _)
RunHist(st, h, i) == IF i > Len(h) THEN st ELSE RunHist(Next(Kind, P, st, h[i]), h, i + 1)
HistOk == s = RunHist(Fresh(Kind, I), hist, 1)

\* the checkpoint experiment succeeds in every reachable state
Resume == ResumeOk(Impl, Kind, P, I, s)
Keys   == KeysOk(Impl, Kind, I, s)

\* the code as read keeps no state outside the three classes
NoHidden == s.hid = 0

\* the classification is total and the configuration calls are exactly those that write "C" components only
ClassTotal == \A c \in {"net", "nas", "bn", "theta", "temp", "hard", "disable", "dc", "rg", "mode", "drv"} :
                 ClassOf(Impl, Kind, c) \in {"P", "D", "C"}
=============================================================================
