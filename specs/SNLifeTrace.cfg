SPECIFICATION Spec
CONSTANT ExportImpl = "asis"
INVARIANT VerdictOk
