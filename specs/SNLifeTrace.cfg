SPECIFICATION Spec
CONSTANT ExportImpl = "ref"
INVARIANT VerdictOk
