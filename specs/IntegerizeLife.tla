--------------------------- MODULE IntegerizeLife ---------------------------
(***************************************************************************)
(* Design check for C14, life-cycle part: HISTORIES between MPS.export()   *)
(* and integerize_arch.  A state is a history h (sequence of events, kept  *)
(* so that the harness can replay every enumerated history on the real     *)
(* library), the life state st of IntegerArith Part D reached by it and    *)
(* the results res of its conversions.                                     *)
(*   Forward              the fake-quantised model is run (refreshes the   *)
(*                        weight-quantiser statistics)                     *)
(*   UpdateWeights(kind)  load_state_dict / optimizer step / in-place edit *)
(*   Integerize(bk, o)    integerize_arch(deepcopy(model), bk, options o)  *)
(* Invariants = what the property needs of EVERY conversion of EVERY       *)
(* history: integer weights, scale / shift / bias come from the CURRENT    *)
(* weights; the options are those of THIS call (declared defaults where    *)
(* omitted); every Quant layer is replaced whatever the nesting of the     *)
(* model; the process defaults and the caller's options are untouched.     *)
(* Impl "stale" / "sticky" / "flatnames" are expected-to-fail variants.    *)
(***************************************************************************)
EXTENDS IntegerArith, TLC

CONSTANTS Impl, MaxLen, UpdKinds, Nests,
          MatchOpts          \* set of option records for MATCH (see Opts_* below)

VARIABLES h, st, res, nest

vars == <<h, st, res, nest>>

\* option sets (a TLC cfg file cannot contain records): 0 = option not passed
Opts_quick    == {Opt(0, 0), Opt(32, 32)}                     \* (32, 32): the upper end of both documented ranges
Opts_q3       == Opts_quick \cup {Opt(16, 0)}                 \* scale_bit only: merged with the declared shift_pos
Opts_thorough == Opts_q3 \cup {Opt(0, 16), Opt(16, 16), Opt(32, 31), Opt(8, 32), Opt(1, 1)}
Opts_min      == {Opt(0, 0)}

Ev(a, k, bk, o) == [a |-> a, k |-> k, backend |-> bk, sb |-> o.sb, sp |-> o.sp]

Init == h = <<>> /\ st = LifeInit /\ res = <<>> /\ nest \in Nests

Forward ==
    /\ Len(h) < MaxLen
    /\ h' = Append(h, Ev("fwd", "", "", Opt(0, 0)))
    /\ st' = LifeFwd(st)
    /\ UNCHANGED <<res, nest>>

UpdateWeights(k) ==
    /\ Len(h) < MaxLen
    /\ h' = Append(h, Ev("upd", k, "", Opt(0, 0)))
    /\ st' = LifeUpd(st)
    /\ UNCHANGED <<res, nest>>

Integerize(bk, o) ==
    /\ Len(h) < MaxLen
    /\ h' = Append(h, Ev("int", "", bk, o))
    /\ LET r == LifeInt(Impl, st, bk, o, nest)
       IN  st' = r.st /\ res' = Append(res, r.res)
    /\ UNCHANGED nest

Next == \/ Forward
        \/ \E k \in UpdKinds : UpdateWeights(k)
        \/ \E o \in MatchOpts : Integerize("match", o)
        \/ Integerize("maupiti", Opt(0, 0))

Spec == Init /\ [][Next]_vars

Results == {res[i] : i \in DOMAIN res}

CurrentWeights     == \A r \in Results : r.wFrom = r.wAt
CurrentStats       == \A r \in Results : r.statsFrom = r.wAt
OptionsOfThisCall  == \A r \in Results : r.used = (IF r.backend = "maupiti" THEN DeclaredOpts("maupiti")
                                                  ELSE MergeOpts(DeclaredOpts(r.backend), r.o))
AllReplaced        == \A r \in Results : r.replaced
KwargsUnchanged    == \A r \in Results : ~r.kwMut
DefaultsDeclared   == st.defs = DeclaredDefs
\* ranges follow from the options of the call (the shift of a layer is below `used.sp`, scales below 2^(used.sb-1))
OptionsInRange     == \A r \in Results : r.used.sb \in 1..32 /\ r.used.sp \in 1..32
=============================================================================
