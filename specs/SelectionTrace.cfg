SPECIFICATION Spec
INVARIANT VerdictOk
