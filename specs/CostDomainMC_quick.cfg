SPECIFICATION Spec
CONSTANTS
  Impl = "asis"
  Models = {"params", "params_no_bias", "params_bit", "ops", "ops_no_bias", "ops_bit", "mpic_latency", "mpic_energy", "gap8_latency", "ne16_latency", "diana_latency"}
INVARIANT DefinedIffSupported
INVARIANT FiniteNonNegOnSupported
