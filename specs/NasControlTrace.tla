--------------------------- MODULE NasControlTrace ---------------------------
(***************************************************************************)
(* Trace validation for C11.  One trace = one execution on a real PIT /    *)
(* MPS / SuperNet object:                                                  *)
(*   [kind |-> "pit"|"mps"|"sn",                                           *)
(*    gum0, dis0 |-> PER QUANTISER/COMBINER: the gumbel / disable options  *)
(*                   its constructor was given,                            *)
(*    init |-> OBS,                    observation right after construction*)
(*    ev   |-> << [act |-> CALL, o |-> 1|2 (object addressed; 2 = the copy *)
(*              made by a "fork"), obs |-> OBS of object 1, obs2 |-> OBS   *)
(*              of object 2 ([none |-> TRUE] before the fork),             *)
(*              mc |-> MCSTATE] ... >>]                                    *)
(* CALL    = [a |-> "train", g] | [a |-> "flag", f, v] | [a |-> "sel", v]  *)
(*         | [a |-> "upd", temp, hard, gumbel, disable] | [a |-> "fwdbwd"] *)
(*         | [a |-> "lflag", l, f, v]   layer l: train_<f> / discrete_cost *)
(*         | [a |-> "lupd", b, temp, hard, gumbel, disable]  quantiser b   *)
(*         | [a |-> "lsel", b, v]       combiner b: train_selection        *)
(*         | [a |-> "fork", how]        object 2 := copy.deepcopy(object 1)*)
(*                                      / pickle round trip                *)
(* OBS     = [all, nas, net |-> sequences of object ids as yielded by      *)
(*              parameters() / nas_parameters() / net_parameters(),        *)
(*            nnas, nnet |-> the same through named_nas_parameters() /     *)
(*              named_net_parameters(),                                    *)
(*            p |-> << [id, cls, par, rg, grad, own, q, mo] >>  every      *)
(*              parameter object, every frozen mask tensor and (cls "dc")  *)
(*              every layer's discrete_cost switch; par = it is an         *)
(*              nn.Parameter, own = owning layers, q = owning quantiser,   *)
(*              mo = name of the NasControlMC object it realises ("" none),*)
(*            flags |-> what the four PIT getters answer,                  *)
(*            bwd |-> "ok" | "noloss" (nothing trainable) | "error" | "-", *)
(*            q |-> << [temp, hard, sampler, live, mb] >> every quantiser /*)
(*              combiner (sampler classified by its behaviour; mb = block  *)
(*              of NasControlMC it realises, 0 none)]                      *)
(* MCSTATE = state of the ADDRESSED object in the target state of the      *)
(*           NasControlMC edge that is being replayed                      *)
(*           ([rg, opt] and, for the class-level machine, flags) or        *)
(*           [none |-> TRUE] for free-running traces                       *)
(*                                                                         *)
(* The walk applies the SAME operators as the state machine (NextRg,       *)
(* NextFlags, NextOpt, ArgFor, SpecifiedSet, UnspecifiedKept, IsPartition) *)
(* to the previous observation OF EACH OBJECT and the logged call and      *)
(* requires the logged post-state to satisfy the call's post-condition and *)
(* every invariant: a model-level call must be a pointwise update (the     *)
(* named thing everywhere, everything else as it was IN THAT layer).       *)
(* Intended gumbel/disable are hidden state tracked here per quantiser.    *)
(* After a fork BOTH objects are observed after every call: the addressed  *)
(* one must take the step of the machine from ITS previous state, the      *)
(* other one must not change at all; the copy must start from the state of *)
(* the original, share no parameter object with it, and satisfy every      *)
(* state invariant on its own identity lists.                              *)
(*                                                                         *)
(* Verdict (total): "ok" | "C11.<clause> ..." | "known:F07:..." |          *)
(* "known:F08:..." (bug-compatibility with the Impl = "pinned" operators)  *)
(* | "drift:..." (prediction clauses only).                                *)
(***************************************************************************)
EXTENDS NasControl, Json, IOUtils, TLC

Traces == JsonDeserialize(IOEnv.TRACE_FILE)

VARIABLES tid, verdict

Idx(s) == DOMAIN s
Grp(o, id) == IF id \in Range(o.nas) THEN "nas" ELSE IF id \in Range(o.net) THEN "net" ELSE "none"

\* verdict levels
OK == <<0, "ok">>
Lvl(v) == v[1]
Worse(a, b) == IF Lvl(b) > Lvl(a) THEN b ELSE a        \* keeps the FIRST verdict of the highest level
Viol(msg)  == <<3, msg>>
Known(msg) == <<2, msg>>
Drift(msg) == <<1, msg>>

\* first failing element of a sequence under predicate Bad (or 0)
FirstBad(s, Bad(_)) == IF \E i \in Idx(s) : Bad(s[i])
                       THEN CHOOSE i \in Idx(s) : Bad(s[i]) /\ \A j \in Idx(s) : j < i => ~Bad(s[j])
                       ELSE 0

(***************************************************************************)
(* State invariants on one observation                                     *)
(***************************************************************************)
SameIds(o) == {o.p[i].id : i \in {j \in Idx(o.p) : o.p[j].par}} = Range(o.all)

StateVerdict(kind, o, where) ==
    IF ~SameIds(o) THEN Viol("trace: harness projection inconsistent (parameter ids) at " \o where)
    ELSE IF ~IsPartition(o.all, o.nas, o.net)
    THEN Viol("C11.partition at " \o where \o ": nas=" \o ToString(o.nas) \o " net=" \o ToString(o.net)
              \o " all=" \o ToString(o.all))
    ELSE IF ~(Range(o.nnas) = Range(o.nas) /\ Len(o.nnas) = Len(o.nas)
              /\ Range(o.nnet) = Range(o.net) /\ Len(o.nnet) = Len(o.net))
    THEN Viol("C11.iterators at " \o where \o ": nas_parameters()=" \o ToString(o.nas) \o " named_nas_parameters()="
              \o ToString(o.nnas) \o " net_parameters()=" \o ToString(o.net) \o " named_net_parameters()=" \o ToString(o.nnet))
    ELSE LET badcls == FirstBad(o.p, LAMBDA x : x.par /\ ((MustBeNas(x.cls) /\ Grp(o, x.id) # "nas")
                                                         \/ (MustBeNet(x.cls) /\ Grp(o, x.id) # "net")))
         IN IF badcls # 0
            THEN Viol("C11.classification at " \o where \o ": " \o ToString(o.p[badcls]) \o " reported as "
                      \o Grp(o, o.p[badcls].id))
            ELSE OK

(***************************************************************************)
(* Frozen masks: invariants + bug-compatibility signature of F07           *)
(***************************************************************************)
FrozenBad(x) == Frozen(x.cls) /\ (x.rg \/ x.grad = "nz")

FrozenVerdict(prev, o, a, where) ==
    LET bad == FirstBad(o.p, FrozenBad)
    IN  IF bad = 0 THEN OK
        ELSE LET x == o.p[bad]
                 what == IF x.rg THEN "C11.FrozenNeverTrainable" ELSE "C11.FrozenNeverGrad"
                 \* what the pinned code does: train_* write requires_grad on every reported NAS
                 \* parameter; a frozen time mask that became trainable is read by forward and cost
                 pinnedlike == \A i \in Idx(o.p) : Frozen(o.p[i].cls) =>
                                  /\ o.p[i].par
                                  /\ o.p[i].rg = NextRg("pinned", o.p[i].cls, Grp(o, o.p[i].id), Range(o.p[i].own), o.p[i].q, prev.p[i].rg, a)
                                  /\ (o.p[i].grad = "nz" => o.p[i].rg /\ o.p[i].cls \in {"betaF", "gammaF"})
             IN IF pinnedlike
                THEN Known("known:F07:" \o what \o ": "
                           \o (IF \E i \in Idx(o.p) : Frozen(o.p[i].cls) /\ o.p[i].grad = "nz"
                               THEN "frozen rf/dilation mask of a strided Conv1d is trainable and receives a gradient after train_nas_only/train_net_and_nas"
                               ELSE "frozen mask has requires_grad=True after train_nas_only/train_net_and_nas")
                           \o " (" \o where \o ", " \o ToString(x) \o ")")
                ELSE Viol(what \o " at " \o where \o ": " \o ToString(x))

(***************************************************************************)
(* requires_grad of the non-frozen parameters after the call               *)
(***************************************************************************)
RgVerdict(prev, o, a, where) ==
    LET Exp(i) == NextRg("fixed", o.p[i].cls, Grp(o, o.p[i].id), Range(o.p[i].own), o.p[i].q, prev.p[i].rg, a)
        bad == IF \E i \in Idx(o.p) : ~Frozen(o.p[i].cls) /\ o.p[i].rg # Exp(i)
               THEN CHOOSE i \in Idx(o.p) : ~Frozen(o.p[i].cls) /\ o.p[i].rg # Exp(i)
               ELSE 0
        name == IF a.a = "train" THEN "C11.train-exact"
                ELSE IF a.a \in {"flag", "sel"} THEN "C11.setter"
                ELSE IF a.a \in {"lflag", "lsel"} THEN "C11.layer-setter" ELSE "C11.frame"
    IN  IF bad = 0 THEN OK
        ELSE Viol(name \o " at " \o where \o ": " \o ToString(o.p[bad]) \o " (group " \o Grp(o, o.p[bad].id)
                  \o ") expected " \o (IF o.p[bad].cls = "dc" THEN "discrete_cost=" ELSE "requires_grad=") \o ToString(Exp(bad)))

\* the model-level switch that was written answers the written value (the per-layer effect, discrete_cost
\* included, is part of RgVerdict: every layer's switch is an object of class "dc")
FlagVerdict(kind, o, a, where) ==
    IF kind = "pit" /\ a.a = "flag" /\ o.flags[a.f] # a.v
    THEN Viol("C11.setter at " \o where \o ": getter of " \o a.f \o " answers " \o ToString(o.flags[a.f]))
    ELSE OK

(***************************************************************************)
(* Sampling options of every quantiser / combiner; signature of F08        *)
(***************************************************************************)
\* g, d : sequences (one entry per quantiser) of the intended gumbel / disable AFTER the call
OptVerdict(kind, prev, o, a, g, d, where) ==
    LET Arg(k) == ArgFor(a, k)                       \* the update that reached quantiser k (NoUpd: none)
        Hit(k) == a.a = "upd" \/ (a.a = "lupd" /\ a.b = k)
        TH(k) == /\ SpecifiedSet(kind, prev.q[k], o.q[k], Arg(k))
                 /\ (Arg(k).temp = NoT => o.q[k].temp = prev.q[k].temp)
                 /\ (Arg(k).hard = NoB => o.q[k].hard = prev.q[k].hard)
        BadSet(k)  == o.q[k].live /\ ~SpecifiedSet(kind, prev.q[k], o.q[k], Arg(k))
        BadKept(k) == o.q[k].live /\ ~UnspecifiedKept(kind, prev.q[k], o.q[k], Arg(k))
        BadSamp(k) == o.q[k].live /\ o.q[k].sampler # Sampler(g[k], d[k])
        badset  == IF \E k \in Idx(o.q) : BadSet(k)  THEN CHOOSE k \in Idx(o.q) : BadSet(k)  ELSE 0
        badkept == IF \E k \in Idx(o.q) : BadKept(k) THEN CHOOSE k \in Idx(o.q) : BadKept(k) ELSE 0
        badsamp == IF \E k \in Idx(o.q) : BadSamp(k) THEN CHOOSE k \in Idx(o.q) : BadSamp(k) ELSE 0
        \* a quantiser that is never executed may be skipped by the update, but must not change otherwise
        baddead == IF \E k \in Idx(o.q) : ~o.q[k].live /\
                        ~(/\ o.q[k].temp \in {prev.q[k].temp, Arg(k).temp}
                          /\ (o.q[k].hard = prev.q[k].hard \/ (Arg(k).hard # NoB /\ o.q[k].hard = B(Arg(k).hard)))
                          /\ (~Hit(k) => o.q[k].sampler = prev.q[k].sampler))
                   THEN 1 ELSE 0
        \* bug-compatibility with the pinned update_softmax_options
        pinnedlike == /\ kind = "mps"
                      /\ \A k \in Idx(o.q) : o.q[k].live =>
                            /\ TH(k)
                            /\ o.q[k].sampler = (IF Hit(k) THEN PinnedSampler(Arg(k)) ELSE prev.q[k].sampler)
    IN  IF badset # 0
        THEN Viol("C11.option-set at " \o where \o ": quantiser " \o ToString(badset) \o " " \o ToString(o.q[badset]))
        ELSE IF badkept # 0 \/ badsamp # 0
        THEN LET k == IF badkept # 0 THEN badkept ELSE badsamp IN
             IF pinnedlike
             THEN Known("known:F08:" \o (IF badkept # 0 THEN "C11.option-kept" ELSE "C11.sampler") \o ": update_softmax_options re-chooses the sampler from the arguments of the current call; unspecified gumbel/disable are lost (" \o where
                        \o ": sampler " \o o.q[k].sampler \o ", options say " \o Sampler(g[k], d[k]) \o ")")
             ELSE Viol((IF badkept # 0 THEN "C11.option-kept" ELSE "C11.sampler") \o " at " \o where \o ": quantiser "
                       \o ToString(k) \o " before " \o ToString(prev.q[k]) \o " after " \o ToString(o.q[k])
                       \o " intended sampler " \o Sampler(g[k], d[k]))
        ELSE IF baddead # 0
        THEN Viol("C11.option-kept at " \o where \o ": a never-executed quantiser changed an unspecified option")
        ELSE OK

(***************************************************************************)
(* Predictions (never an alarm)                                            *)
(***************************************************************************)
\* sampler / hard flag of the quantiser that owns parameter i (irrelevant for parameters without one)
SamplerOf(o, i) == IF o.p[i].q # 0 THEN o.q[o.p[i].q].sampler ELSE "sm"
HardOf(o, i)    == IF o.p[i].q # 0 THEN o.q[o.p[i].q].hard ELSE FALSE

\* alpha of a dummy quantiser: executed or not depending on its place; no prediction
GradWrong(o, i) == /\ ~Frozen(o.p[i].cls) /\ o.p[i].cls \notin {"qdummy", "dc"}
                   /\ (o.p[i].grad # "none") # GradExpected(o.p[i].cls, o.p[i].rg, SamplerOf(o, i), HardOf(o, i))

DriftVerdict(kind, prev, o, e, where) ==
    LET a == e.act
        mc == e.mc
        hasmc == "rg" \in DOMAIN mc
        BadObj(i) == o.p[i].mo \in DOMAIN mc.rg /\ o.p[i].rg # mc.rg[o.p[i].mo]
        BadBlk(k) == /\ o.q[k].live /\ o.q[k].mb \in DOMAIN mc.opt
                     /\ (\/ o.q[k].temp # mc.opt[o.q[k].mb].temp \/ o.q[k].hard # mc.opt[o.q[k].mb].hard
                         \/ o.q[k].sampler # mc.opt[o.q[k].mb].sampler)
    IN
    IF kind = "pit" /\ o.flags # NextFlags(prev.flags, a)
    THEN Drift("drift:flags at " \o where \o ": " \o ToString(o.flags))
    ELSE IF a.a = "fwdbwd" /\ o.bwd = "ok" /\ \E i \in Idx(o.p) : GradWrong(o, i)
    THEN Drift("drift:gradient support at " \o where \o ": "
               \o ToString(o.p[CHOOSE i \in Idx(o.p) : GradWrong(o, i)]))
    ELSE IF a.a # "fwdbwd" /\ \E i \in Idx(o.p) : o.p[i].grad # "none"
    THEN Drift("drift:stale gradient at " \o where)
    ELSE IF hasmc /\ \E i \in Idx(o.p) : BadObj(i)
    THEN Drift("drift:state of the replayed edge at " \o where \o ": "
               \o ToString(o.p[CHOOSE i \in Idx(o.p) : BadObj(i)]))
    ELSE IF hasmc /\ "flags" \in DOMAIN mc /\ kind = "pit" /\ o.flags # mc.flags
    THEN Drift("drift:flags of the replayed edge at " \o where)
    ELSE IF hasmc /\ kind # "pit" /\ \E k \in Idx(o.q) : BadBlk(k)
    THEN Drift("drift:options of the replayed edge at " \o where \o ": quantiser "
               \o ToString(CHOOSE k \in Idx(o.q) : BadBlk(k)))
    ELSE OK

(***************************************************************************)
(* One step and the walk                                                   *)
(***************************************************************************)
SameStructure(prev, o) ==
    /\ Len(o.p) = Len(prev.p) /\ Len(o.q) = Len(prev.q)
    /\ \A i \in Idx(o.p) : /\ o.p[i].id = prev.p[i].id /\ o.p[i].cls = prev.p[i].cls /\ o.p[i].par = prev.p[i].par
                            /\ o.p[i].own = prev.p[i].own /\ o.p[i].q = prev.p[i].q
    /\ \A k \in Idx(o.q) : o.q[k].live = prev.q[k].live

StepVerdict(kind, prev, e, g, d, where) ==
    LET o == e.obs
        a == e.act
    IN  IF ~SameStructure(prev, o) THEN Viol("C11.structure at " \o where \o ": the set of parameter objects / quantisers changed across a control call")
        ELSE LET v1 == StateVerdict(kind, o, where) IN IF Lvl(v1) = 3 THEN v1
        ELSE LET v2 == RgVerdict(prev, o, a, where) IN IF Lvl(v2) = 3 THEN v2
        ELSE LET v3 == FlagVerdict(kind, o, a, where) IN IF Lvl(v3) = 3 THEN v3
        ELSE LET v4 == FrozenVerdict(prev, o, a, where) IN IF Lvl(v4) = 3 THEN v4
        ELSE LET v5 == OptVerdict(kind, prev, o, a, g, d, where) IN IF Lvl(v5) = 3 THEN v5
        ELSE LET v6 == IF Lvl(v4) = 0 /\ Lvl(v5) = 0 THEN DriftVerdict(kind, prev, o, e, where) ELSE OK
             IN Worse(Worse(v4, v5), v6)

\* nothing observable of an object changed (the call was addressed to the other object)
Untouched(prev, o) ==
    /\ SameStructure(prev, o)
    /\ o.all = prev.all /\ o.nas = prev.nas /\ o.net = prev.net /\ o.flags = prev.flags
    /\ \A i \in Idx(o.p) : o.p[i].rg = prev.p[i].rg /\ o.p[i].grad = "none"
    /\ \A k \in Idx(o.q) : o.q[k].temp = prev.q[k].temp /\ o.q[k].hard = prev.q[k].hard
                            /\ o.q[k].sampler = prev.q[k].sampler

\* the copy c of original r: same structure and control state, no shared object
AllIds(o) == Range(o.all) \cup {o.p[i].id : i \in Idx(o.p)}
ForkVerdict(kind, r, c, where) ==
    IF ~(/\ Len(c.p) = Len(r.p) /\ Len(c.q) = Len(r.q)
         /\ \A i \in Idx(c.p) : /\ c.p[i].cls = r.p[i].cls /\ c.p[i].par = r.p[i].par
                                 /\ c.p[i].own = r.p[i].own /\ c.p[i].q = r.p[i].q
         /\ \A k \in Idx(c.q) : c.q[k].live = r.q[k].live)
    THEN Viol("C11.fork at " \o where \o ": the copy has another structure than the original")
    ELSE IF AllIds(c) \cap AllIds(r) # {}
    THEN Viol("C11.fork at " \o where \o ": copy and original share objects " \o ToString(AllIds(c) \cap AllIds(r)))
    ELSE IF \E i \in Idx(c.p) : c.p[i].rg # r.p[i].rg
    THEN Viol("C11.fork at " \o where \o ": the copy does not start from the state of the original: "
              \o ToString(c.p[CHOOSE i \in Idx(c.p) : c.p[i].rg # r.p[i].rg]))
    ELSE IF c.flags # r.flags \/ \E k \in Idx(c.q) : (c.q[k].temp # r.q[k].temp \/ c.q[k].hard # r.q[k].hard
                                                       \/ c.q[k].sampler # r.q[k].sampler)
    THEN Viol("C11.fork at " \o where \o ": switches / sampling options of the copy differ from the original: "
              \o ToString(c.flags) \o " " \o ToString(c.q))
    ELSE LET v1 == StateVerdict(kind, c, where \o " (the copy)") IN
         IF Lvl(v1) = 3 THEN v1
         ELSE IF \E i \in Idx(c.p) : Frozen(c.p[i].cls) /\ c.p[i].rg
         THEN Viol("C11.FrozenNeverTrainable at " \o where \o " (the copy)")
         ELSE OK

\* S = [p1, p2 : previous observations; g1, d1, g2, d2 : intended gumbel/disable per quantiser; f : forked]
\* One event: [S |-> state after the event, v |-> verdict of the event].  (Not recursive: the walk below calls it
\* and recurses at shallow depth.)
WalkStep(kind, e, i, S) ==
    LET a  == e.act
        where == "event " \o ToString(i) \o " " \o ToString(a)
    IN
    IF a.a = "fork" THEN
         IF S.f THEN [S |-> S, v |-> Viol("trace: second fork")]
         ELSE IF ~Untouched(S.p1, e.obs)
         THEN [S |-> S, v |-> Viol("C11.fork at " \o where \o ": copying the model changed the original")]
         ELSE [S |-> [S EXCEPT !.p1 = e.obs, !.p2 = e.obs2, !.g2 = S.g1, !.d2 = S.d1, !.f = TRUE],
               v |-> ForkVerdict(kind, e.obs, e.obs2, where)]
    ELSE IF e.o = 2 /\ ~S.f THEN [S |-> S, v |-> Viol("trace: call on a copy that does not exist")]
    ELSE LET two  == e.o = 2
             prev == IF two THEN S.p2 ELSE S.p1
             obs  == IF two THEN e.obs2 ELSE e.obs
             g    == IF two THEN S.g2 ELSE S.g1
             d    == IF two THEN S.d2 ELSE S.d1
             \* intended gumbel / disable of every quantiser after the call (only MPS updates carry them)
             gn == [k \in Idx(g) |-> IF kind = "mps" /\ ArgFor(a, k).gumbel # NoB THEN B(ArgFor(a, k).gumbel) ELSE g[k]]
             dn == [k \in Idx(d) |-> IF kind = "mps" /\ ArgFor(a, k).disable # NoB THEN B(ArgFor(a, k).disable) ELSE d[k]]
             w2 == where \o (IF two THEN " on the copy" ELSE IF S.f THEN " on the original" ELSE "")
         IN  IF S.f /\ ~Untouched(IF two THEN S.p1 ELSE S.p2, IF two THEN e.obs ELSE e.obs2)
             THEN [S |-> S, v |-> Viol("C11.independence at " \o w2 \o ": the call changed the OTHER object")]
             ELSE [S |-> IF two THEN [S EXCEPT !.p1 = e.obs, !.p2 = obs, !.g2 = gn, !.d2 = dn]
                         ELSE [S EXCEPT !.p1 = obs, !.p2 = (IF S.f THEN e.obs2 ELSE S.p2), !.g1 = gn, !.d1 = dn],
                   v |-> StepVerdict(kind, prev, [act |-> a, obs |-> obs, mc |-> e.mc], gn, dn, w2)]

RECURSIVE Walk(_, _, _, _, _)
Walk(kind, ev, i, S, acc) ==
    IF i > Len(ev) THEN acc
    ELSE LET r == WalkStep(kind, ev[i], i, S)
         IN  IF Lvl(r.v) = 3 THEN r.v ELSE Walk(kind, ev, i + 1, r.S, Worse(acc, r.v))

InitVerdict(t) ==
    LET o == t.init
        v1 == StateVerdict(t.kind, o, "construction")
    IN  IF Lvl(v1) = 3 THEN v1
        ELSE IF \E i \in Idx(o.p) : Frozen(o.p[i].cls) /\ o.p[i].rg
        THEN Viol("C11.FrozenNeverTrainable at construction: " \o ToString(o.p[CHOOSE i \in Idx(o.p) : Frozen(o.p[i].cls) /\ o.p[i].rg]))
        ELSE IF Len(t.gum0) # Len(o.q) \/ Len(t.dis0) # Len(o.q)
        THEN Viol("trace: gum0/dis0 do not match the quantisers")
        ELSE IF \E k \in Idx(o.q) : o.q[k].live /\ o.q[k].sampler # Sampler(t.gum0[k], t.dis0[k])
        THEN Viol("C11.sampler at construction: " \o ToString(o.q) \o " constructor options say "
                  \o ToString([k \in Idx(o.q) |-> Sampler(t.gum0[k], t.dis0[k])]))
        ELSE OK

Check(t) ==
    LET v0 == InitVerdict(t)
    IN  IF Lvl(v0) = 3 THEN v0[2]
        ELSE Walk(t.kind, t.ev, 1,
                  [p1 |-> t.init, p2 |-> t.init, g1 |-> t.gum0, d1 |-> t.dis0, g2 |-> t.gum0, d2 |-> t.dis0, f |-> FALSE],
                  v0)[2]

Init == tid \in 1..Len(Traces) /\ verdict = Check(Traces[tid])
Next == UNCHANGED <<tid, verdict>>
Spec == Init /\ [][Next]_<<tid, verdict>>
VerdictOk == verdict = "ok"
=============================================================================
