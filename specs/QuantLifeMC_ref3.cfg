SPECIFICATION Spec
CONSTANTS
  Impl = "ref"
  NPrec = 3
INVARIANT HistoryIndependent
INVARIANT LastIsPrevCall
