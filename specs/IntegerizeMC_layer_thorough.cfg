SPECIFICATION Spec
CONSTANTS
  Impl = "ref"
  Mode = "layer"
  InBits = {2, 3, 4}
  OutBits = {2, 3, 4}
  WVals <- W_thorough
  BVals <- B_quick
  Targets <- T_8
  ScaleBits = {4, 8, 12}
  ShiftPoss = {8, 12}
  BigVals <- None1
  BigShifts = {0}
INVARIANT LevelDiff
INVARIANT LevelDiffSharp
INVARIANT MaupitiEquiv
INVARIANT PadOK
INVARIANT Ranges
INVARIANT SelRanges
INVARIANT ScaleIsCeil
INVARIANT ShiftOptimal
INVARIANT ErrOneSided
INVARIANT BridgeRequant
INVARIANT BridgeZP
INVARIANT BridgeApprox
INVARIANT BridgeScale
INVARIANT BridgeSelect
