SPECIFICATION Spec
CONSTANTS
  Method = "sn"
  Impl = "asis"
  MaxLen = 3
INVARIANT KeyOk
INVARIANT Coherent
PROPERTY ObserversNeutral
