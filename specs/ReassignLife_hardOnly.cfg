SPECIFICATION Spec
CONSTANTS
  Impl = "hardOnly"
  MaxHist = 0
  KeepHist = FALSE
INVARIANT RefineSeesArgmax
INVARIANT HistOk
