------------------------------ MODULE MPSLifeMC ------------------------------
(***************************************************************************)
(* Exhaustive design check for C02 / C05.  TLC GROWS every architecture of *)
(* the bounded grammar node by node, seals it, and SELECTS a configuration *)
(* (candidate precision tuples) together with a winner for every quantiser *)
(* group.  The invariants are evaluated in every selected state; every     *)
(* selected state is afterwards replayed on a real MPS model by the        *)
(* harness (harness/mps_gen.py).                                           *)
(***************************************************************************)
EXTENDS MPSLife

CONSTANTS MaxNodes,          \* operator nodes per architecture
          MinNodes,          \* only architectures with at least this many nodes are selected
          Widths, LinWidths, \* output widths of conv / linear layers
          Ks,                \* kernel sizes of non-depthwise convs
          BNs,               \* subset of BOOLEAN: may a layer be followed by a BatchNorm
          C0, Sp0,           \* input channels / spatial size
          AllowRelu, AllowPool, AllowAdd, AllowDw,
          TupMode,           \* which configurations: "one" | "pairs" | "few" | "pc" | "ne16"
          WType,             \* "pl" | "pc"
          SelMode,           \* "all" | "rot" : every winner function / three rotations per configuration
          Lin,               \* "pinned" | "fixed" : MPSLinear.get_modified_vars (finding F04)
          GuardF40, GuardF05 \* BOOLEAN: exempt the scenarios of the listed findings

VARIABLES arch, phase, gs, cfg, sel

vars == <<arch, phase, gs, cfg, sel>>

Node(op, ins, out, k, dw, bn) ==
    [op |-> op, ins |-> ins, out |-> out, k |-> k, d |-> 1, s |-> 1, bias |-> TRUE, bn |-> bn,
     dw |-> dw, excl |-> FALSE, causal |-> FALSE, reuse |-> 0]

NoCfg == [pin |-> <<>>, pa |-> <<>>, pw |-> <<>>, wt |-> WType]
NoSel == [a |-> <<>>, w |-> <<>>]
NoGS  == [rep |-> <<>>, flt |-> {}, qp |-> <<>>, asis |-> <<>>]

Init == /\ arch = [dim |-> 2, c0 |-> C0, sp |-> Sp0, nodes |-> <<>>]
        /\ phase = "grow"
        /\ gs = NoGS
        /\ cfg = NoCfg
        /\ sel = NoSel

T(a)  == 0..N(a)
NF(a) == {t \in T(a) : ~IsFlat(a, t)}
Compatible(a, p, q) == Ch(a, p) = Ch(a, q) /\ Sp(a, p) = Sp(a, q) /\ IsFlat(a, p) = IsFlat(a, q)
\* (the same ordered pair is not added twice: plinio names the MPSAdd module after its operands)
AddPairs(a) == {pq \in T(a) \X T(a) : /\ pq[1] # pq[2] /\ Compatible(a, pq[1], pq[2])
                                      /\ ~\E n \in 1..N(a) : Op(a, n) = "add" /\ Ins(a, n) = <<pq[1], pq[2]>>}

Candidates(a) ==
    {Node("conv", <<p>>, w, k, FALSE, b) : p \in NF(a), w \in Widths, k \in Ks, b \in BNs}
    \cup (IF AllowDw THEN {Node("conv", <<p>>, 0, 3, TRUE, b) : p \in NF(a), b \in BNs} ELSE {})
    \cup {Node("lin", <<p>>, w, 1, FALSE, b) : p \in T(a) \ NF(a), w \in LinWidths, b \in BNs}
    \cup (IF AllowRelu THEN {Node("relu", <<p>>, 0, 1, FALSE, FALSE) : p \in {t \in T(a) \ {0} : Op(a, t) # "relu"}} ELSE {})
    \cup (IF AllowPool THEN {Node("pool", <<p>>, 0, 1, FALSE, FALSE) : p \in {t \in NF(a) \ {0} : Sp(a, t) >= 2}} ELSE {})
    \cup {Node("flat", <<p>>, 0, 1, FALSE, FALSE) : p \in NF(a) \ {0}}
    \cup (IF AllowAdd THEN {Node("add", <<pq[1], pq[2]>>, 0, 1, FALSE, FALSE) : pq \in AddPairs(a)} ELSE {})

Grow == /\ phase = "grow" /\ N(arch) < MaxNodes
        /\ \E nd \in Candidates(arch) : arch' = [arch EXCEPT !.nodes = Append(@, nd)]
        /\ UNCHANGED <<phase, gs, cfg, sel>>

Used(a, t) == \E n \in 1..N(a) : t \in SeqSet(Ins(a, n))
Sealable(a) == /\ N(a) >= MinNodes /\ N(a) >= 1
               /\ \A t \in 0..(N(a) - 1) : Used(a, t)
               /\ Layers(a) # {}
\* the per-channel (pruning) configurations are run on architectures whose searchable layers are not tied to
\* the network input, whose groups have one width, and that end in a layer
PcOk(g, a) == ~InputConnected(g, a) /\ ~MixedWidth(g, a) /\ IsLayer(a, N(a))

(* ------------------------------ configurations -------------------------- *)
T248 == <<2, 4, 8>>
All15 == TuplesOver({2, 4, 8})
TupleChoices ==
    CASE TupMode = "one"   -> {<<T248, T248, T248>>}
      [] TupMode = "pairs" -> {<<pa, pa, pw>> : pa \in All15, pw \in All15}          \* get_default_qinfo(w, a)
      [] TupMode = "few"   -> {<<T248, T248, T248>>, <<<<8, 2>>, <<4, 8, 2>>, <<8, 4>>>>, <<<<4>>, <<2, 8>>, <<2>>>>,
                               <<<<2, 4>>, <<8>>, <<4, 2, 8>>>>}
      [] TupMode = "ne16"  -> {<<<<8>>, <<8>>, pw>> : pw \in {T248, <<8, 2>>, <<4>>}}
      [] TupMode = "pc"    -> {<<<<8, 4>>, <<4, 8>>, pw>> : pw \in {<<0, 2, 8>>, <<4, 0>>, <<8, 2, 4>>}}
      [] TupMode = "pc1"   -> {<<<<8, 4>>, <<4, 8>>, pw>> : pw \in {<<0, 4, 8>>}}
Configs == {[pin |-> t[1], pa |-> t[2], pw |-> t[3], wt |-> WType] : t \in TupleChoices}

RankIn(S, g) == Cardinality({x \in S : x < g})
RotA(g, a, c, k) == [x \in AGroups(g, a) |-> ((RankIn(AGroups(g, a), x) + k) % Len(ATuple(a, c, x))) + 1]
RotW(g, a, c, k) == [x \in WGroups(g, a) |-> ((RankIn(WGroups(g, a), x) + 2 * k + 1) % Len(WTuple(g, c, x))) + 1]
AllA(g, a, c)   == {f \in [AGroups(g, a) -> 1..3] : \A x \in AGroups(g, a) : f[x] <= Len(ATuple(a, c, x))}
AllWpl(g, a, c) == {f \in [WGroups(g, a) -> 1..3] : \A x \in WGroups(g, a) : f[x] <= Len(WTuple(g, c, x))}
ChanMaps(g, a, c, x) == [1..GroupWidth(g, a, x) -> 1..Len(WTuple(g, c, x))]
AllWpc(g, a, c) == {f \in [WGroups(g, a) -> UNION {ChanMaps(g, a, c, x) : x \in WGroups(g, a)}] :
                       \A x \in WGroups(g, a) : f[x] \in ChanMaps(g, a, c, x)}
Sels(g, a, c) ==
    IF WType = "pl"
    THEN IF SelMode = "all" THEN {[a |-> fa, w |-> fw] : fa \in AllA(g, a, c), fw \in AllWpl(g, a, c)}
         ELSE {[a |-> RotA(g, a, c, k), w |-> RotW(g, a, c, k)] : k \in 0..2}
    ELSE {[a |-> RotA(g, a, c, k), w |-> fw] : k \in 0..1, fw \in AllWpc(g, a, c)}

Seal == /\ phase = "grow" /\ Sealable(arch)
        /\ gs' = GS(arch)
        /\ phase' = "sealed"
        /\ UNCHANGED <<arch, cfg, sel>>

Select == /\ phase = "sealed"
          /\ (WType = "pc" => PcOk(gs, arch))
          /\ \E c \in Configs : \E s \in Sels(gs, arch, c) : cfg' = c /\ sel' = s
          /\ phase' = "sel"
          /\ UNCHANGED <<arch, gs>>

Next == Grow \/ Seal \/ Select
Spec == Init /\ [][Next]_vars

\* the label propagation computes the components of FeatGraph (checked on every sealed architecture)
InvRepIsRep == phase = "sealed" => \A n \in 0..(N(arch) + 1) : gs.rep[n] = Rep(arch, n)

Selected == phase = "sel"

(* ------------------------------ C02 ------------------------------------- *)
\* the input precision of a layer is the output precision selected for the tensor it consumes
InvPlumb ==
    Selected => \A L \in Layers(arch) :
        (GuardF40 /\ F40Layer(gs, arch, L))
        \/ InBits("asis", gs, arch, cfg, sel, L) = InBits("ref", gs, arch, cfg, sel, L)
\* ... for EVERY selection, i.e. the two quantisers are one group
InvPlumbGroups ==
    Selected => \A L \in Layers(arch) :
        (GuardF40 /\ F40Layer(gs, arch, L))
        \/ AGroup(gs, arch, gs.asis[L]) = AGroup(gs, arch, RefIn(gs, arch, L))
\* design rationale of the groups: both operands of an add are on the same grid
InvAddSameGrid ==
    Selected => \A n \in 1..N(arch) : Op(arch, n) = "add" =>
        (GuardF40 /\ InputConnected(gs, arch))
        \/ OutBits(gs, arch, cfg, sel, gs.qp[Ins(arch, n)[1]]) = OutBits(gs, arch, cfg, sel, gs.qp[Ins(arch, n)[2]])
\* the tensor that leaves the network is not quantised
InvOutputFloat == Selected => OutBits(gs, arch, cfg, sel, gs.qp[N(arch)]) = Float

(* ------------------------------ C05 ------------------------------------- *)
Metrics == IF WType = "pc" THEN {"params_bit", "ops_bit"} ELSE BitMetrics
InvCostExact ==
    Selected =>
    LET wb == [L \in Layers(arch) |-> WBits(gs, arch, cfg, sel, L)] IN
    \A L \in Layers(arch) : \A m \in Metrics :
        LET ab == InBits("asis", gs, arch, cfg, sel, L)
            tp == WTuple(gs, cfg, WGroup(gs, L))
            pc == WType = "pc"
        IN  (\A j \in DOMAIN tp : Applicable(m, arch, L, tp[j], ab)) =>
            \/ GuardF05 /\ F05Layer(arch, L, wb, tp, pc)
            \/ AsisNum(m, Lin, arch, L, wb, ab, tp, pc)
                   = ExactInt(m, arch, L, wb[L], ab, InEffW(arch, wb, L)) * AsisDen(wb, L)
\* the cost function is shown the effective feature counts under the PyTorch names of the layer type
InvSpecKeys ==
    Selected =>
    LET wb == [L \in Layers(arch) |-> WBits(gs, arch, cfg, sel, L)] IN
    \A L \in Layers(arch) :
        /\ ShownIn(Lin, arch, L, wb) = InEffW(arch, wb, L)
        /\ ShownOut(Lin, arch, L, wb, WTuple(gs, cfg, WGroup(gs, L)), WType = "pc") = OutEffW(wb, L)
\* pruning channels of a producer never raises the exact cost of its consumers
InvPruneLowers ==
    (Selected /\ WType = "pc") =>
    LET wb == [L \in Layers(arch) |-> WBits(gs, arch, cfg, sel, L)] IN
    \A L \in Layers(arch) : ~IsDw(arch, L) =>
        ExactInt("params_bit", arch, L, wb[L], 8, InEffW(arch, wb, L))
            <= ExactInt("params_bit", arch, L, wb[L], 8, StaticIn(arch, L))
=============================================================================
