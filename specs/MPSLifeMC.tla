------------------------------ MODULE MPSLifeMC ------------------------------
(***************************************************************************)
(* Exhaustive design check for C02 / C05.  TLC GROWS every architecture of *)
(* the bounded grammar node by node, seals it, and SELECTS a configuration *)
(* (candidate precision tuples) together with a winner for every quantiser *)
(* group; optionally it then walks HISTORIES of calls (forward passes in   *)
(* the three sampling modes, coefficient loads without a forward pass,     *)
(* observers) that decide which assignment the sampled coefficients theta  *)
(* encode when the cost is read.  The invariants are evaluated in every    *)
(* selected state; the selected states are afterwards replayed on real MPS *)
(* models by the harness (harness/mps_gen.py).                             *)
(***************************************************************************)
EXTENDS MPSLife

CONSTANTS Dim,               \* 1 | 2
          MaxNodes,          \* operator nodes per architecture
          MinNodes,          \* only architectures with at least this many nodes are selected
          Widths, LinWidths, \* output widths of conv / linear layers
          Ks,                \* kernel sizes of non-depthwise convs
          BNs,               \* subset of BOOLEAN: may a layer be followed by a BatchNorm
          C0, Sp0,           \* input channels / spatial size
          AllowRelu, AllowPool, AllowAdd, AllowDw,
          AllowReuse,        \* may a conv / lin node invoke the layer object of an earlier node again
          PMs, Ds, Ss, Biases, \* options of non-depthwise convs: padding modes, dilations, strides, bias on/off
          Batches,           \* batch sizes of the tracing example (input_shape: 1; input_example: any)
          Alphabet,          \* which calls the histories are made of: "classic" | "modes" | "export"
          FwdImpl,           \* "plain" | "cache": (sanity) eval + no_grad forward passes that skip the weight sampler
          ExpImpl,           \* "fresh" | "memo" : (sanity) export() memoised on the reported assignment
          ForkImpl,          \* "own" | "shared": (sanity) a deep copy whose samplers stay bound to the ORIGINAL's quantisers
          TupMode,           \* which configurations: "one" | "pairs" | "few" | "pc" | "pc1" | "ne16"
          WType,             \* "pl" | "pc"
          SelMode,           \* "all" | "rot" : every winner function / three rotations per configuration
          MaxHist,           \* length of the call histories explored after the selection (0: none)
          Walk,              \* "pinned" | "fixed" : register_in_mps_quantizers (finding F40, repaired)
          Lin,               \* "pinned" | "fixed" : MPSLinear.get_modified_vars (finding F04, repaired)
          GuardF40, GuardF05, GuardReuse   \* BOOLEAN: exempt the scenarios of the listed findings

VARIABLES arch, phase, gs, cfg, sel,
          smp,     \* the assignment the sampled coefficients (theta_alpha buffers) encode
          fresh,   \* "soft"  : theta was never sampled one-hot (a new model: the conversion samples the fresh
                   \*           MPS modules in training mode, i.e. soft) - nothing is claimed about the cost
                   \* "fresh" : theta is the arg-max one-hot of the CURRENT coefficients
                   \* "stale" : theta is a one-hot sampled earlier / with Gumbel noise
          hist,    \* calls made since the selection
          env      \* [mode, cached, wver (weight version), snap (weight version inside the module the last export()
                   \*  returned, -1: none), ekey (assignment at the last export), eat (weight version at the last export)]

vars == <<arch, phase, gs, cfg, sel, smp, fresh, hist, env>>
\* forked: the history continues on a deep copy of the model (the original was perturbed after the copy was taken)
Env0 == [mode |-> "eval", cached |-> FALSE, wver |-> 0, snap |-> -1, ekey |-> <<>>, eat |-> 0, forked |-> FALSE]

Node(op, ins, out, k, dw, bn, ru) ==
    [op |-> op, ins |-> ins, out |-> out, k |-> k, d |-> 1, s |-> 1, bias |-> TRUE, bn |-> bn,
     dw |-> dw, excl |-> FALSE, causal |-> (Dim = 1 /\ op = "conv"), reuse |-> ru, pm |-> "zeros"]
\* a non-depthwise conv with options (1-D: causal convs are left-padded with zeros whatever the mode)
ConvNode(p, w, k, b, pm, d, st, bi) ==
    [Node("conv", <<p>>, w, k, FALSE, b, 0) EXCEPT !.pm = IF Dim = 1 THEN "zeros" ELSE pm, !.d = d, !.s = st, !.bias = bi]

NoCfg == [pin |-> <<>>, pa |-> <<>>, pw |-> <<>>, wt |-> WType]
NoSel == [a |-> <<>>, w |-> <<>>]
NoGS  == [rep |-> <<>>, rep0 |-> <<>>, flt |-> {}, qp |-> <<>>, asis |-> <<>>]

Init == /\ arch = [dim |-> Dim, c0 |-> C0, sp |-> Sp0, nodes |-> <<>>]
        /\ phase = "grow"
        /\ gs = NoGS
        /\ cfg = NoCfg
        /\ sel = NoSel /\ smp = NoSel /\ fresh = "soft" /\ hist = <<>> /\ env = Env0

T(a)  == 0..N(a)
NF(a) == {t \in T(a) : ~IsFlat(a, t)}
Compatible(a, p, q) == Ch(a, p) = Ch(a, q) /\ Sp(a, p) = Sp(a, q) /\ IsFlat(a, p) = IsFlat(a, q)
\* (the same ordered pair is not added twice: plinio names the MPSAdd module after its operands)
AddPairs(a) == {pq \in T(a) \X T(a) : /\ pq[1] # pq[2] /\ Compatible(a, pq[1], pq[2])
                                      /\ ~\E n \in 1..N(a) : Op(a, n) = "add" /\ Ins(a, n) = <<pq[1], pq[2]>>}
\* MPS folds Conv2d-BN and Linear-BN only: 1-D convs are generated without BatchNorm
ConvBNs == IF Dim = 1 THEN {FALSE} ELSE BNs
\* invoke the layer object of node m again, on a tensor with the same number of input features
\* (a conv may see another spatial size: the output shape is a property of the call site)
ReuseCands(a) ==
    UNION {{[Nd(a, m) EXCEPT !.ins = <<p>>, !.reuse = m] :
                p \in {t \in T(a) : /\ t # In1(a, m) /\ IsFlat(a, t) = IsFlat(a, In1(a, m))
                                    /\ Ch(a, t) = Ch(a, In1(a, m))}} :
           m \in {x \in Layers(a) : Nd(a, x).reuse = 0}}

Candidates(a) ==
    {nd \in {ConvNode(p, w, k, b, pm, d, st, bi) : p \in NF(a), w \in Widths, k \in Ks, b \in ConvBNs,
                                                     pm \in PMs, d \in Ds, st \in Ss, bi \in Biases} :
        \* PyTorch: reflect / replicate / circular padding needs an input larger than the padding d*(k div 2)
        nd.pm = "zeros" \/ nd.d * (nd.k \div 2) < Sp(a, nd.ins[1])}
    \cup (IF AllowDw THEN {Node("conv", <<p>>, 0, 3, TRUE, b, 0) : p \in NF(a), b \in ConvBNs} ELSE {})
    \cup {Node("lin", <<p>>, w, 1, FALSE, b, 0) : p \in T(a) \ NF(a), w \in LinWidths, b \in BNs}
    \cup (IF AllowRelu THEN {Node("relu", <<p>>, 0, 1, FALSE, FALSE, 0) : p \in {t \in T(a) \ {0} : Op(a, t) # "relu"}} ELSE {})
    \cup (IF AllowPool THEN {Node("pool", <<p>>, 0, 1, FALSE, FALSE, 0) : p \in {t \in NF(a) \ {0} : Sp(a, t) >= 2}} ELSE {})
    \cup {Node("flat", <<p>>, 0, 1, FALSE, FALSE, 0) : p \in NF(a) \ {0}}
    \cup (IF AllowAdd THEN {Node("add", <<pq[1], pq[2]>>, 0, 1, FALSE, FALSE, 0) : pq \in AddPairs(a)} ELSE {})
    \cup (IF AllowReuse THEN ReuseCands(a) ELSE {})

Grow == /\ phase = "grow" /\ N(arch) < MaxNodes
        /\ \E nd \in Candidates(arch) : arch' = [arch EXCEPT !.nodes = Append(@, nd)]
        /\ UNCHANGED <<phase, gs, cfg, sel, smp, fresh, hist, env>>

Used(a, t) == \E n \in 1..N(a) : t \in SeqSet(Ins(a, n))
Sealable(a) == /\ N(a) >= MinNodes /\ N(a) >= 1
               /\ \A t \in 0..(N(a) - 1) : Used(a, t)
               /\ Layers(a) # {}
               /\ (AllowReuse => \E L \in Layers(a) : Reused(a, L))
\* the per-channel (pruning) configurations are run on architectures whose searchable layers are not tied to
\* the network input, whose groups have one width, and that end in a layer
PcOk(g, a) == ~InputConnected(g, a) /\ ~MixedWidth(g, a) /\ IsLayer(a, N(a))

(* ------------------------------ configurations -------------------------- *)
T248 == <<2, 4, 8>>
All15 == TuplesOver({2, 4, 8})
TupleChoices ==
    CASE TupMode = "one"   -> {<<T248, T248, T248>>}
      [] TupMode = "pairs" -> {<<pa, pa, pw>> : pa \in All15, pw \in All15}          \* get_default_qinfo(w, a)
      [] TupMode = "few"   -> {<<T248, T248, T248>>, <<<<8, 2>>, <<4, 8, 2>>, <<8, 4>>>>, <<<<4>>, <<2, 8>>, <<2>>>>,
                               <<<<2, 4>>, <<8>>, <<4, 2, 8>>>>}
      [] TupMode = "ne16"  -> {<<<<8>>, <<8>>, pw>> : pw \in {T248, <<8, 2>>, <<4>>}}
      [] TupMode = "pc"    -> {<<<<8, 4>>, <<4, 8>>, pw>> : pw \in {<<0, 2, 8>>, <<4, 0>>, <<8, 2, 4>>}}
      [] TupMode = "pc1"   -> {<<<<8, 4>>, <<4, 8>>, pw>> : pw \in {<<0, 4, 8>>}}
Configs == {[pin |-> t[1], pa |-> t[2], pw |-> t[3], wt |-> WType] : t \in TupleChoices}

RankIn(S, g) == Cardinality({x \in S : x < g})
RotA(g, a, c, k) == [x \in AGroups(g, a) |-> ((RankIn(AGroups(g, a), x) + k) % Len(ATuple(a, c, x))) + 1]
RotW(g, a, c, k) == [x \in WGroups(g, a) |-> ((RankIn(WGroups(g, a), x) + 2 * k + 1) % Len(WTuple(g, c, x))) + 1]
RotWpc(g, a, c, k) == [x \in WGroups(g, a) |->
                          [ch \in 1..GroupWidth(g, a, x) |-> ((ch + k + RankIn(WGroups(g, a), x)) % Len(WTuple(g, c, x))) + 1]]
RotSel(g, a, c, k) == [a |-> RotA(g, a, c, k), w |-> IF c.wt = "pl" THEN RotW(g, a, c, k) ELSE RotWpc(g, a, c, k)]
AllA(g, a, c)   == {f \in [AGroups(g, a) -> 1..3] : \A x \in AGroups(g, a) : f[x] <= Len(ATuple(a, c, x))}
AllWpl(g, a, c) == {f \in [WGroups(g, a) -> 1..3] : \A x \in WGroups(g, a) : f[x] <= Len(WTuple(g, c, x))}
ChanMaps(g, a, c, x) == [1..GroupWidth(g, a, x) -> 1..Len(WTuple(g, c, x))]
AllWpc(g, a, c) == {f \in [WGroups(g, a) -> UNION {ChanMaps(g, a, c, x) : x \in WGroups(g, a)}] :
                       \A x \in WGroups(g, a) : f[x] \in ChanMaps(g, a, c, x)}
Sels(g, a, c) ==
    IF WType = "pl"
    THEN IF SelMode = "all" THEN {[a |-> fa, w |-> fw] : fa \in AllA(g, a, c), fw \in AllWpl(g, a, c)}
         ELSE {RotSel(g, a, c, k) : k \in 0..2}
    ELSE {[a |-> RotA(g, a, c, k), w |-> fw] : k \in 0..1, fw \in AllWpc(g, a, c)}

Seal == /\ phase = "grow" /\ Sealable(arch)
        /\ gs' = GS(Walk, arch)
        /\ phase' = "sealed"
        /\ UNCHANGED <<arch, cfg, sel, smp, fresh, hist, env>>

\* Select = construct the model and WRITE the coefficients of the selection (theta is still the soft sample of
\* the conversion); InvCostExact etc. describe the model after one forward pass in eval / hard mode
Select == /\ phase = "sealed"
          /\ (WType = "pc" => PcOk(gs, arch))
          /\ \E c \in Configs : \E s \in Sels(gs, arch, c) :
                cfg' = c /\ sel' = s /\ smp' = s
          /\ fresh' = "soft" /\ hist' = <<>> /\ env' = Env0
          /\ phase' = "sel"
          /\ UNCHANGED <<arch, gs>>

(* ------------------------------ call histories --------------------------- *)
(* The calls and what they do to the mode / to theta are defined in MPSLife (ModeAfter, ThetaAfter).  Here the   *)
(* REFERENCE behaviour: a forward pass in eval / hard mode samples the arg-max of the current coefficients,      *)
(* whatever the autograd mode; export() converts the CURRENT weights.  Two sanity variants (expected to fail):   *)
(* fork: obj := deepcopy(obj); the ORIGINAL is then perturbed (other coefficients, other options / temperature, forward  *)
(* passes) and the history continues on the copy: the reference state of the copy is the state at the fork (the call     *)
(* changes nothing: mode, coefficients, theta, weights, caches are those of the original at that moment); loadT:         *)
(* load_state_dict of another temperature (no effect on an arg-max).  Sanity variant ForkImpl = "shared": the samplers   *)
(* of the copy stay bound to the original's quantisers, a forward pass of the copy never re-samples its own theta.       *)
(* FwdImpl = "cache": an eval forward under no_grad re-uses cached quantised weights and skips the weight        *)
(* sampler until the next mode switch;  ExpImpl = "memo": export() returns the module converted earlier when the *)
(* reported assignment did not change.                                                                           *)
Acts == CASE Alphabet = "classic" -> {"fwd_eval", "fwd_hard", "fwd_ghard", "load", "export", "summary", "upd"}
          [] Alphabet = "modes"   -> {"to_eval", "to_hard", "to_ghard", "fwd_g", "fwd_n", "load", "copy"}
          [] Alphabet = "export"  -> {"fwd_n", "to_eval", "sgd_net", "sgd_all", "export", "load"}
          [] Alphabet = "fork"    -> {"fwd_n", "fwd_g", "to_hard", "fork", "copy", "loadT", "export"}
MaxW == 2
Step(act) ==
    /\ phase = "sel" /\ Len(hist) < MaxHist
    /\ (IsWeightStep(act) => env.wver < MaxW)
    /\ hist' = Append(hist, act)
    /\ LET m1     == ModeAfter(act, env.mode)
           switch == act \in {"to_eval", "to_hard", "to_ghard", "fwd_eval", "fwd_hard", "fwd_ghard", "sgd_net", "sgd_all"}
           nograd == act \in {"fwd_n", "fwd_eval", "fwd_hard", "fwd_ghard"}
           usecache == FwdImpl = "cache" /\ m1 = "eval" /\ nograd /\ env.cached /\ ~switch
           foreign  == ForkImpl = "shared" /\ env.forked          \* the copy's forward samples the original, not itself
       IN
       /\ fresh' = ThetaAfter(act, fresh, m1)
       /\ IF IsAlphaWrite(act)
          THEN \E k \in 0..2 : /\ sel' = RotSel(gs, arch, cfg, k) /\ sel' # sel
                               /\ smp' = IF fresh = "soft" /\ act # "sgd_all" THEN sel' ELSE IF act = "sgd_all" THEN sel ELSE smp
          ELSE /\ sel' = sel
               /\ IF ~IsForward(act) THEN smp' = smp
                  ELSE IF foreign THEN smp' = smp
                  ELSE IF m1 = "ghard" THEN \E k \in 0..2 : smp' = RotSel(gs, arch, cfg, k)
                  ELSE smp' = [a |-> sel.a, w |-> IF usecache THEN smp.w ELSE sel.w]
       /\ env' = [mode   |-> m1,
                  cached |-> IF switch /\ ~(m1 = "eval" /\ nograd) THEN FALSE
                             ELSE IF m1 = "eval" /\ nograd THEN TRUE ELSE env.cached,
                  wver   |-> IF IsWeightStep(act) THEN env.wver + 1 ELSE env.wver,
                  snap   |-> IF act # "export" THEN env.snap
                             ELSE IF ExpImpl = "memo" /\ env.snap >= 0 /\ env.ekey = sel THEN env.snap ELSE env.wver,
                  ekey   |-> IF act = "export" THEN sel ELSE env.ekey,
                  eat    |-> IF act = "export" THEN env.wver ELSE env.eat,
                  forked |-> env.forked \/ act = "fork"]
    /\ UNCHANGED <<arch, phase, gs, cfg>>

Next == Grow \/ Seal \/ Select \/ \E act \in Acts : Step(act)
Spec == Init /\ [][Next]_vars

\* the label propagation computes the components of FeatGraph (checked on every sealed architecture)
InvRepIsRep == phase = "sealed" => \A n \in 0..(N(arch) + 1) : gs.rep0[n] = Rep(arch, n)

Selected == phase = "sel"
Exempt40(L) == (GuardF40 /\ F40Layer(gs, arch, L)) \/ (GuardReuse /\ ReuseSplit(gs, arch, L))

(* ------------------------------ C02 ------------------------------------- *)
\* the input precision of a layer is the output precision selected for the tensor it consumes, AT EVERY CALL SITE
InvPlumb ==
    Selected => \A L \in Layers(arch) :
        Exempt40(L) \/ InBits("asis", gs, arch, cfg, sel, L) = InBits("ref", gs, arch, cfg, sel, L)
\* ... for EVERY selection, i.e. the two quantisers are one group
InvPlumbGroups ==
    Selected => \A L \in Layers(arch) :
        Exempt40(L) \/ AGroup(gs, arch, gs.asis[L]) = AGroup(gs, arch, RefIn(gs, arch, L))
\* design rationale of the groups: both operands of an add are on the same grid
InvAddSameGrid ==
    Selected => \A n \in 1..N(arch) : Op(arch, n) = "add" =>
        (InputConnected(gs, arch))          \* the network-input quantiser is not a member of the placeholder's component
        \/ (GuardReuse /\ \E L \in Layers(arch) : ReuseSplit(gs, arch, L))
        \/ OutBits(gs, arch, cfg, sel, gs.qp[Ins(arch, n)[1]]) = OutBits(gs, arch, cfg, sel, gs.qp[Ins(arch, n)[2]])
\* the tensor that leaves the network is not quantised
InvOutputFloat == Selected => \/ GuardReuse /\ \E L \in Layers(arch) : ReuseSplit(gs, arch, L)
                              \/ OutBits(gs, arch, cfg, sel, gs.qp[N(arch)]) = Float

(* ------------------------------ C05 ------------------------------------- *)
Metrics == IF WType = "pc" THEN {"params_bit", "ops_bit"} ELSE BitMetrics
\* the cost read when theta encodes assignment s (one-hot coefficients): as implemented = exact cost of s
CostExactFor(s) ==
    LET wb == [L \in Layers(arch) |-> WBits(gs, arch, cfg, s, L)] IN
    \A m \in Metrics : \A L \in CostSites(m, arch) :
        LET ab == InBits("asis", gs, arch, cfg, s, L)
            tp == WTuple(gs, cfg, WGroup(gs, L))
            pc == WType = "pc"
        IN  (\A j \in DOMAIN tp : Applicable(m, arch, L, tp[j], ab)) =>
            \/ GuardF05 /\ F05Layer(arch, L, wb, tp, pc)
            \/ AsisNum(m, Lin, arch, L, wb, ab, tp, pc)
                   = ExactInt(m, arch, L, wb[L], ab, InEffW(arch, wb, L)) * AsisDen(wb, L)
\* after a forward pass in eval / hard mode (theta = arg-max of the selection)
InvCostExact == Selected => CostExactFor(sel)
\* in EVERY state of every history the cost is the exact cost of the assignment theta encodes ...
InvCostTheta == (Selected /\ MaxHist > 0 /\ fresh # "soft") => CostExactFor(smp)
\* ... and that assignment is the one summary() reports whenever the last sampling was an arg-max of the
\* current coefficients (forward in eval or hard mode after the last coefficient write)
InvFreshIsSummary == (Selected /\ fresh = "fresh") => smp = sel
\* the state of theta is a function of the history alone (MPSLife!ThetaState, used by the trace spec)
InvFreshDef == Selected => fresh = ThetaState(hist) /\ env.mode = ModeOf(hist)
                                 /\ env.wver = WeightVersion(hist, Len(hist) + 1)
\* export() after k weight updates = the eval-mode model at that weight version: the module the LAST export()
\* returned holds the weights that were current when it was called
InvExportCurrent == (Selected /\ env.snap >= 0) => env.snap = env.eat
\* the exported layer has the convolution options of the searched layer (padding mode, dilation, stride, bias):
\* QuantConv*.__init__ copies them from the layer it is given (and forward must use them: observed, bit-identity)
ExportedGeom(L) == Geom(arch, L)
InvExportGeom == Selected => \A L \in Layers(arch) :
                     /\ ExportedGeom(L).pm \in {"zeros", "reflect", "replicate", "circular"}
                     /\ (Nd(arch, L).causal => ExportedGeom(L).pm = "zeros")
                     /\ ExportedGeom(L) = Geom(arch, Owner(arch, L))
\* the cost does not depend on the batch size of the tracing example: no cost function reads out_shape[0]
InvBatchIndependent ==
    Selected => \A L \in Layers(arch) : \A b \in Batches :
        /\ OXShown(arch, L, OutShapeOf(arch, L, b)) = OOf(arch, L)
        /\ OYShown(arch, L, OutShapeOf(arch, L, b)) = O2Of(arch, L)
\* the cost function is shown the effective feature counts under the PyTorch names of the layer type
InvSpecKeys ==
    Selected =>
    LET wb == [L \in Layers(arch) |-> WBits(gs, arch, cfg, sel, L)] IN
    \A L \in Layers(arch) :
        /\ ShownIn(Lin, arch, L, wb) = InEffW(arch, wb, L)
        /\ ShownOut(Lin, arch, L, wb, WTuple(gs, cfg, WGroup(gs, L)), WType = "pc") = OutEffW(wb, L)
\* pruning channels of a producer never raises the exact cost of its consumers
InvPruneLowers ==
    (Selected /\ WType = "pc") =>
    LET wb == [L \in Layers(arch) |-> WBits(gs, arch, cfg, sel, L)] IN
    \A L \in Layers(arch) : ~IsDw(arch, L) =>
        ExactInt("params_bit", arch, L, wb[L], 8, InEffW(arch, wb, L))
            <= ExactInt("params_bit", arch, L, wb[L], 8, StaticIn(arch, L))
\* a per-invocation metric charges every call site with the geometry of THAT call site
InvPerInvocation ==
    Selected => \A L \in Layers(arch) : Reused(arch, L) =>
        /\ L \in CostSites("ops_bit", arch)
        /\ (L # Owner(arch, L) => L \notin CostSites("params_bit", arch))
=============================================================================
