SPECIFICATION Spec
CONSTANTS
  Impl = "asis"
  Mode = "layer"
  InBits = {2, 4}
  OutBits = {2, 4}
  WVals <- W_replay
  BVals <- B_replay
  Targets <- T_4
  ScaleBits = {12}
  ShiftPoss = {12}
  BigVals <- None1
  BigShifts = {0}
INVARIANT MaupitiEquiv
INVARIANT PadOK
