SPECIFICATION Spec
CONSTANTS
  Impl = "ref"
  MaxLen = 3
  UpdKinds = {"load"}
  Nests = {"any"}
  MatchOpts <- Opts_quick
INVARIANT CurrentWeights
INVARIANT CurrentStats
INVARIANT OptionsOfThisCall
INVARIANT AllReplaced
INVARIANT KwargsUnchanged
INVARIANT DefaultsDeclared
INVARIANT OptionsInRange
