--------------------------- MODULE ImportLifeTrace ---------------------------
(***************************************************************************)
(* Trace validation for C07.  One trace = one import scenario executed on  *)
(* the real library (harness/import_gen.py):                                *)
(*   arch, method, mode, fold, auto          the scenario                   *)
(*   O        layer sequence of the user's model (fx projection, before)    *)
(*   conv_ok, err                            did the constructor return     *)
(*   u0 / w1 s1 u1 kids     .training of the user's model before / of the   *)
(*                          wrapper, its seed, the user's model after       *)
(*   masks    per searchable layer: node n, features / time / input mask    *)
(*   dw       rel. difference wrapped vs original output, eval, float64,    *)
(*            floor(1e12 * max|dy| / (1 + max|y|)) capped at 2e9            *)
(*   sd_vals  every pre-existing state_dict entry of the user's model is    *)
(*            bitwise unchanged;  sd_keys: no key was added either          *)
(*   du       rel. difference of the USER's model output after vs before    *)
(*   sm       SetMode steps: wrapper.train(b) for b = flipped, back, final;  *)
(*            flags of wrapper / seed / modules below after each step       *)
(*   exp_ok, E   immediate export() (after the SetMode steps): layer        *)
(*            sequence of the result                                        *)
(*   de       rel. difference export vs original (only where no BatchNorm   *)
(*            had to be re-created), prediction only                        *)
(* Every expected value is recomputed here with the operators of ImportLife *)
(* that ImportLifeMC model-checks (OrigSeq, ExpSeq, Convert("asis"), ...).  *)
(* Verdict: first property clause that fails ("C07...."), else a known      *)
(* finding matched by signature ("known:F50:..", "known:F51:.."), else a    *)
(* failed prediction ("drift:.."), else "ok".                               *)
(***************************************************************************)
EXTENDS ImportLife, Json, IOUtils, TLC

Traces == JsonDeserialize(IOEnv.TRACE_FILE)

VARIABLES tid, verdict

TOL == 1000        \* 1e-9 relative, in units of 1e-12

AllOnes(s) == \A j \in DOMAIN s : s[j] = 1
Claimed(m) == m \in {"PIT", "SN"}

CfgOf(t) == [method |-> t.method, mode |-> t.mode, fold |-> t.fold, auto |-> t.auto]

FirstDiff(obs, exp) ==
    IF Len(obs) # Len(exp) THEN "length " \o ToString(Len(obs)) \o " expected " \o ToString(Len(exp))
    ELSE LET i == CHOOSE j \in 1..Len(obs) : obs[j] # exp[j] /\ \A x \in 1..(j - 1) : obs[x] = exp[x]
         IN  "record " \o ToString(i) \o ": observed " \o ToString(obs[i]) \o " expected " \o ToString(exp[i])

(* -------- the clauses; each yields <<kind, message>>, kind in ok | viol | known | drift -------- *)
OK   == <<"ok", "ok">>
V(m) == <<"viol", m>>
K(m) == <<"known", "known:" \o m>>
D(m) == <<"drift", "drift:" \o m>>

CHarness(t, a) ==
    IF ~InDomain(a) THEN D("harness: architecture outside the domain of C07 (F19 / F24 topology of the graph pass)")
    ELSE IF t.O = OrigSeq(a) THEN OK
    ELSE D("harness: projection of the built user model differs from OrigSeq(arch): " \o FirstDiff(t.O, OrigSeq(a)))

CConvert(t) ==
    IF t.conv_ok \/ t.method = "MPS" THEN OK       \* MPS rejections are skipped (and counted by the harness)
    ELSE V("C07.convert: constructor raised " \o t.err)

\* "all masks initially open": every mask of every searchable layer is all ones and has the original geometry
CMasks(t, a, cfg) ==
    IF t.method # "PIT" THEN OK
    ELSE LET bad == {j \in DOMAIN t.masks :
                        LET m == t.masks[j] IN
                        ~(/\ m.ok /\ m.n \in Layers(a)
                          /\ AllOnes(m.fm) /\ AllOnes(m.tm) /\ AllOnes(m.told)
                          /\ Len(m.fm) = Ch(a, m.n)
                          /\ (Len(m.tm) > 0 => Len(m.tm) = Nd(a, m.n).k))}
             seen == {t.masks[j].n : j \in DOMAIN t.masks}
             want == {Owner(a, n) : n \in {x \in PlainSites(a) : Handled(a, cfg, x)}}
         IN  IF bad # {} THEN V("C07.masks_open: mask of layer " \o ToString(t.masks[CHOOSE j \in bad : TRUE].n)
                                  \o " is not fully open / has not the original size")
             ELSE IF seen # want THEN D("searchable layers " \o ToString(seen) \o ", the model says " \o ToString(want))
             ELSE OK

CWrapped(t, a, cfg, asis) ==
    IF ~Claimed(t.method) THEN OK
    ELSE IF t.dw \in 0..TOL THEN
        IF ~FnPreserved(a, asis)
        THEN D("F51 predicted by the as-implemented model (wrapped function differs) but not observed")
        ELSE OK
    ELSE IF cfg.fold /\ KF_ReuseBN(a, cfg) /\ ~FnPreserved(a, asis)
         THEN K("F51:fold_bn=True folds the BatchNorm of a reused conv/linear+BN pair once per call site: wrapped model differs from the original by " \o ToString(t.dw) \o "e-12")
         ELSE V("C07.wrapped_equal: wrapped and original outputs differ in eval mode by " \o ToString(t.dw) \o "e-12 (relative), tolerance 1000")

CUserParams(t, a, cfg, asis) ==
    IF ~Claimed(t.method) THEN OK
    ELSE IF t.sd_vals THEN
        IF ~UserParamsKept(a, cfg, asis)
        THEN D("F50 predicted by the as-implemented model (caller's parameters folded in place) but not observed")
        ELSE OK
    ELSE IF KF_PlacedBN(a, cfg) /\ ~UserParamsKept(a, cfg, asis)
         THEN K("F50:BatchNorm folded into the user's own PIT layer object: parameters of the caller's model changed")
         ELSE V("C07.user_params: state_dict entries of the caller's model changed")

CUserOut(t, a, cfg, asis) ==
    IF ~Claimed(t.method) THEN OK
    ELSE IF t.du \in 0..TOL THEN
        IF ~UserFnKept(a, asis)
        THEN D("F50 predicted by the as-implemented model (caller's outputs change) but not observed")
        ELSE OK
    ELSE IF KF_PlacedBN(a, cfg) /\ ~UserFnKept(a, asis)
         THEN K("F50:BatchNorm fused into the user's own PIT layer object: the caller's model now applies it twice (eval output differs by " \o ToString(t.du) \o "e-12)")
         ELSE V("C07.user_output: eval output of the caller's model changed by " \o ToString(t.du) \o "e-12 (relative), tolerance 1000")

CMode(t) ==
    IF t.method \in {"PIT", "MPS"} /\ ~(t.w1 = t.u0 /\ t.s1 = t.u0 /\ t.kids)
    THEN V("C07.mode_kept: found training=" \o ToString(t.u0) \o ", wrapper.training=" \o ToString(t.w1)
             \o ", seed.training=" \o ToString(t.s1) \o ", uniform below seed=" \o ToString(t.kids))
    ELSE OK

CExport(t, a, cfg, asis) ==
    IF ~Claimed(t.method) THEN OK
    ELSE IF ~t.exp_ok THEN V("C07.export: export() raised " \o t.exp_err)
    ELSE LET cs   == IF t.method = "SN" THEN Choices(a) ELSE {NoChoice(a)}
             exps == {ExpSeq(a, cfg, c) : c \in cs}
             dflt == ExpSeq(a, cfg, IF t.method = "SN" THEN FirstChoice(a) ELSE NoChoice(a))
         IN  IF t.E \in exps THEN
                 IF t.E # dflt THEN D("SuperNet export selected another branch than the first maximum")
                 ELSE IF ExportSeq("asis", a, cfg, asis) # dflt
                      THEN D("F51 predicted by the as-implemented model (re-created BatchNorm missing) but not observed")
                      ELSE OK
             ELSE IF ~cfg.fold /\ KF_ReuseBN(a, cfg) /\
                     t.E \in {Flat(a, ExportBias(a, asis), h, NoChoice(a)) : h \in AsisBnVariants(a, cfg, asis)}
                  THEN K("F51:export() re-creates the BatchNorm of a reused conv/linear+BN pair after one call site only: " \o FirstDiff(t.E, dflt))
                  ELSE V("C07.export_arch: " \o FirstDiff(t.E, dflt))

\* predictions of the as-implemented model (never an alarm)
CPredict(t, a, cfg, asis) ==
    IF t.method = "PIT" /\ t.de_checked /\ FnPreserved(a, asis) /\ t.exp_ok /\ ~(t.de \in 0..TOL)
        THEN D("exported network (no BatchNorm re-created) differs from the original by " \o ToString(t.de) \o "e-12")
    ELSE IF Claimed(t.method) /\ ~t.sd_keys /\ UserKeysKept(a, asis)       \* keys can only appear on adopted user-placed layers
        THEN D("state_dict of the caller's model gained keys although no user-placed layer was adopted")
    ELSE IF t.u1 # asis.utrain
        THEN D("caller's model left with training=" \o ToString(t.u1))
    ELSE IF t.method = "SN" /\ (t.w1 # asis.wtrain \/ t.s1 # asis.strain)
        THEN D("SuperNet mode flags wrapper=" \o ToString(t.w1) \o " seed=" \o ToString(t.s1))
    ELSE IF \E j \in DOMAIN t.sm : ~(t.sm[j].w = t.sm[j].set /\ t.sm[j].s = t.sm[j].set /\ t.sm[j].kids)
        THEN D("SetMode: wrapper.train(b) did not set wrapper, seed and everything below to b")
    ELSE IF t.method = "MPS" /\ t.sd_vals # ~(\E n \in Layers(a) : MpsFolds(a, n))
        THEN D("MPS in-place BatchNorm folding of the caller's layers: parameters unchanged=" \o ToString(t.sd_vals))
    ELSE OK

\* first violation, else first known finding, else first drift, else ok
Pick(cl) ==
    LET first(kind) == CHOOSE j \in DOMAIN cl : cl[j][1] = kind /\ \A x \in 1..(j - 1) : cl[x][1] # kind
        has(kind)   == \E j \in DOMAIN cl : cl[j][1] = kind
    IN  IF has("viol") THEN cl[first("viol")][2]
        ELSE IF has("known") THEN cl[first("known")][2]
        ELSE IF has("drift") THEN cl[first("drift")][2]
        ELSE "ok"

Check(t) ==
    LET a    == t.arch
        cfg  == CfgOf(t)
        asis == Convert("asis", a, cfg)
    IN  IF CHarness(t, a) # OK THEN CHarness(t, a)[2]       \* the scenario itself is not what the specification describes
        ELSE IF ~t.conv_ok THEN Pick(<<CHarness(t, a), CConvert(t)>>)
        ELSE Pick(<<CHarness(t, a), CMasks(t, a, cfg), CWrapped(t, a, cfg, asis), CUserParams(t, a, cfg, asis),
                    CUserOut(t, a, cfg, asis), CMode(t), CExport(t, a, cfg, asis), CPredict(t, a, cfg, asis)>>)

Init == tid \in 1..Len(Traces) /\ verdict = Check(Traces[tid])
Next == UNCHANGED <<tid, verdict>>
Spec == Init /\ [][Next]_<<tid, verdict>>
VerdictOk == verdict = "ok"
=============================================================================
