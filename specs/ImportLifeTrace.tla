--------------------------- MODULE ImportLifeTrace ---------------------------
(***************************************************************************)
(* Trace validation for C07.  One trace = one import scenario executed on  *)
(* the real library (harness/import_gen.py):                                *)
(*   arch, method, mode, fold, auto, hist     the scenario                  *)
(*   O        layer sequence of the network the harness built (fx           *)
(*            projection of a twin without any plinio object)               *)
(*   OP       layer sequence of the user's model itself (with its           *)
(*            hand-placed PIT layers), user_ok: it can be evaluated         *)
(*   snopt0 / snopt1  options of every SuperNet block read from the USER's  *)
(*            combiner objects before / after the conversion                *)
(*   bn_sens  the output depends on the BatchNorm layers on the probe batch  *)
(*   conv_ok, err, errk                      did the constructor return     *)
(*   u0 / w1 s1 u1 kids     .training of the user's model before / of the   *)
(*                          wrapper, its seed, the user's model after       *)
(*   N        layer sequence of the converted (searchable) graph: the       *)
(*            attributes are read off the layer objects the search uses     *)
(*   masks    per searchable layer: node n, features / time / input mask    *)
(*   dw       rel. difference wrapped vs ORIGINAL OUTPUT RECORDED BEFORE    *)
(*            the conversion, eval, float64,                                *)
(*            floor(1e12 * max|dy| / (1 + max|y|)) capped at 2e9            *)
(*   sd_vals  every pre-existing state_dict entry of the user's model is    *)
(*            bitwise unchanged;  sd_keys: no key was added either          *)
(*   attrs_changed   names of the simple attributes (numbers, flags,        *)
(*            strings, tuples, sampling method) of the user's modules whose *)
(*            value changed                                                 *)
(*   du       rel. difference of the USER's model output after vs the       *)
(*            output recorded before                                        *)
(*   H        one record per history step: action, ok, flags of the wrapper *)
(*            (w), its seed (s), kids = every module below has the          *)
(*            wrapper's flag                                                *)
(*   dwh      after the history, if the wrapper is in eval mode: rel.       *)
(*            difference of wrapper(x) - as it is - vs the original output  *)
(*   sd_vals_end   the user's parameters after the history                  *)
(*   exp_ok, E   export() after the history: layer sequence of the result   *)
(*   dwe      after that export and a final wrapper.eval(): rel. difference *)
(*            of the wrapper vs the original output                         *)
(*   de       rel. difference export vs original (only where no BatchNorm   *)
(*            had to be re-created), prediction only                        *)
(* Every expected value is recomputed here with the operators of ImportLife *)
(* that ImportLifeMC model-checks (OrigSeq, NasSeq, ExpSeq, Convert, ...).  *)
(* Verdict: first property clause that fails ("C07...."), else a known      *)
(* finding matched by signature ("known:F5x:.."), else a failed prediction  *)
(* ("drift:.."), else "ok".                                                 *)
(***************************************************************************)
EXTENDS ImportLife, Json, IOUtils, TLC

Traces == JsonDeserialize(IOEnv.TRACE_FILE)

VARIABLES tid, verdict

TOL == 1000        \* 1e-9 relative, in units of 1e-12

AllOnes(s) == \A j \in DOMAIN s : s[j] = 1
Claimed(m) == m \in {"PIT", "SN"}

CfgOf_(t) == [method |-> t.method, mode |-> t.mode, fold |-> t.fold, auto |-> t.auto]

FirstDiff(obs, exp) ==
    IF Len(obs) # Len(exp) THEN "length " \o ToString(Len(obs)) \o " expected " \o ToString(Len(exp))
    ELSE LET i == CHOOSE j \in 1..Len(obs) : obs[j] # exp[j] /\ \A x \in 1..(j - 1) : obs[x] = exp[x]
         IN  "record " \o ToString(i) \o ": observed " \o ToString(obs[i]) \o " expected " \o ToString(exp[i])

(* -------- the clauses; each yields <<kind, message>>, kind in ok | viol | known | drift -------- *)
OK   == <<"ok", "ok">>
V(m) == <<"viol", m>>
K(m) == <<"known", "known:" \o m>>
D(m) == <<"drift", "drift:" \o m>>

\* options of the SuperNet blocks as logged (sequence of [n, hard, gum, temp, fav]) vs as declared in the architecture
OptsOf(a) == [n \in SNSites(a) |-> Nd(a, n).sno]
LoggedOpts(l) == [n \in {l[j].n : j \in DOMAIN l} |->
                     LET r == l[CHOOSE j \in DOMAIN l : l[j].n = n]
                     IN  [hard |-> r.hard, gum |-> r.gum, temp |-> r.temp, fav |-> r.fav]]

\* the history is one the state machine can take (forward only in eval mode) - a harness obligation
RECURSIVE HistOk(_, _, _)
HistOk(h, i, wm) == IF i > Len(h) THEN TRUE
                    ELSE CASE h[i] = "train" -> HistOk(h, i + 1, TRUE)
                           [] h[i] = "eval"  -> HistOk(h, i + 1, FALSE)
                           [] h[i] = "forward" -> ~wm /\ HistOk(h, i + 1, wm)
                           [] h[i] \in {"export", "export_nobn", "summary", "cost", "icv", "nassum"} -> HistOk(h, i + 1, wm)
                           [] OTHER -> FALSE

CHarness(t, a, asis) ==
    IF ~InDomain(a) THEN D("harness: architecture outside the domain of C07 (F19 / F24 topology of the graph pass)")
    ELSE IF t.O # OrigSeq(a)
         THEN D("harness: projection of the built user model differs from OrigSeq(arch): " \o FirstDiff(t.O, OrigSeq(a)))
    ELSE IF LoggedOpts(t.snopt0) # OptsOf(a)
         THEN D("harness: options of the built SuperNet blocks " \o ToString(t.snopt0) \o " differ from the architecture")
    ELSE IF t.conv_ok /\ ~HistOk(t.hist, 1, IF t.method = "SN" THEN asis.wtrain ELSE t.mode = "train")
         THEN D("harness: history " \o ToString(t.hist) \o " is not a behaviour of the state machine")
    ELSE OK

\* a PIT layer the user placed by hand stands for the plain layer it was built from (README: drop-in replacement): the user's
\* model can be evaluated and its layers have the configuration the user asked for
CPlaced(t) ==
    IF ~t.user_ok THEN V("C07.placed_layer: " \o t.err)
    ELSE IF t.OP # t.O THEN V("C07.placed_config: hand-placed PIT layer differs from the layer it was built from: " \o FirstDiff(t.OP, t.O))
    ELSE IF t.dpl # -1 /\ ~(t.dpl \in 0..TOL) THEN D("user's model with hand-placed PIT layers (all masks open) differs from its plain twin by " \o ToString(t.dpl) \o "e-12")
    ELSE OK

\* the constructor returns; documented rejections are skipped; the F52 / F53 topologies are known findings
CConvert(t, a, cfg) ==
    IF t.method = "MPS" THEN OK                      \* MPS rejections are skipped (and counted by the harness)
    ELSE IF t.conv_ok THEN
        IF Rejected(a, cfg) THEN D("a configuration the model lists as rejected by plinio was accepted")
        ELSE IF Dev("asis", F53_OPEN) /\ KF_BnNoAffine(a, cfg)
             THEN D("F53 predicted by the as-implemented model (constructor raises on BatchNorm(affine=False)) but not observed")
        ELSE OK
    ELSE IF (Rej_Trs(a, cfg) /\ t.errk = "trs") \/ (Rej_Groups(a, cfg) /\ t.errk = "groups") THEN OK
    ELSE IF KF_BnNoAffine(a, cfg) /\ t.errk = "other"
        THEN K("F53:PIT(model) raises on a BatchNorm with affine=False (" \o t.err \o ")")
    ELSE IF KF_Lin3(a, cfg) /\ t.errk = "other"
        THEN K("F52:PIT(model) raises on a searchable nn.Linear applied to a 3-D tensor (" \o t.err \o ")")
    ELSE V("C07.convert: constructor raised " \o t.err)

Lin3Broken(t, a, cfg) == KF_Lin3(a, cfg)     \* converted, but forward / export of the searchable model raise (F52)

\* "all masks initially open": every mask of every searchable layer is all ones and has the original geometry
CMasks(t, a, cfg) ==
    IF t.method # "PIT" \/ Lin3Broken(t, a, cfg) THEN OK
    ELSE LET bad == {j \in DOMAIN t.masks :
                        LET m == t.masks[j] IN
                        ~(/\ m.ok /\ m.n \in Layers(a)
                          /\ AllOnes(m.fm) /\ AllOnes(m.tm) /\ AllOnes(m.told)
                          /\ Len(m.fm) = (IF Op(a, m.n) = "lin3" THEN Nd(a, m.n).out ELSE Ch(a, m.n))
                          /\ (Len(m.tm) > 0 => Len(m.tm) = Nd(a, m.n).k))}
             seen == {t.masks[j].n : j \in DOMAIN t.masks}
             want == {Owner(a, n) : n \in {x \in PlainSites(a) : Handled(a, cfg, x)}}
         IN  IF bad # {} THEN V("C07.masks_open: mask of layer " \o ToString(t.masks[CHOOSE j \in bad : TRUE].n)
                                  \o " is not fully open / has not the original size")
             ELSE IF seen # want THEN D("searchable layers " \o ToString(seen) \o ", the model says " \o ToString(want))
             ELSE OK

\* ImportedConfig = OriginalConfig, field by field, read off the layer objects of the converted graph
CNasCfg(t, a, cfg, asis) ==
    IF ~Claimed(t.method) THEN OK
    ELSE LET exp == IF t.method = "SN" THEN OrigSeq(a) ELSE NasSeq(a, cfg) IN
         IF CfgOnly(t.N) # CfgOnly(exp)
         THEN IF KF_ReuseBN(a, cfg) /\ CfgOnly(t.N) = CfgOnly(Flat(a, ExportCfg(a, asis), ExportBias(a, asis), asis.bnode, NoChoice(a)))
              THEN K("F51:different BatchNorms behind the call sites of one reused layer are all folded into the one layer object: " \o FirstDiff(CfgOnly(t.N), CfgOnly(exp)))
              ELSE V("C07.imported_config: layers of the converted model: " \o FirstDiff(CfgOnly(t.N), CfgOnly(exp)))
         ELSE IF t.N # exp THEN D("converted graph: " \o FirstDiff(t.N, exp))
         ELSE OK

CWrapped(t, a, cfg, asis) ==
    IF ~Claimed(t.method) THEN OK
    ELSE IF t.dw \in 0..TOL THEN
        IF ~FnPreserved(a, asis) /\ t.bn_sens
        THEN D("F51 / F73 predicted by the as-implemented model (wrapped function differs) but not observed")
        ELSE OK
    ELSE IF KF_ReuseBN(a, cfg) /\ ~FnPreserved(a, asis)
         THEN K("F51:the BatchNorm(s) behind a reused conv/linear layer are fused / folded once per call site into the one layer object: wrapped model differs from the original by " \o ToString(t.dw) \o "e-12")
    ELSE IF KF_DoubleBN(a, cfg) /\ ~FnPreserved(a, asis)
         THEN K("F73:two BatchNorms in a row behind a searchable layer, fold_bn=False: the second fusion overwrites layer.bn, the first BatchNorm is lost (wrapped differs by " \o ToString(t.dw) \o "e-12)")
    ELSE IF Lin3Broken(t, a, cfg) /\ ~asis.ok
         THEN K("F52:searchable nn.Linear on a 3-D tensor: forward of the converted model raises / differs (" \o t.err \o ")")
         ELSE V("C07.wrapped_equal: wrapped output differs from the original output recorded before the conversion (eval mode) by " \o ToString(t.dw) \o "e-12 (relative), tolerance 1000")

CUserParams(t, a, cfg, asis) ==
    IF ~Claimed(t.method) THEN OK
    ELSE IF t.sd_vals /\ t.sd_vals_end THEN
        IF ~UserParamsKept(a, cfg, asis)
        THEN D("F50 predicted by the as-implemented model (caller's parameters folded in place) but not observed")
        ELSE OK
    ELSE IF KF_PlacedBN(a, cfg) /\ ~UserParamsKept(a, cfg, asis)
         THEN K("F50:BatchNorm folded into the user's own PIT layer object: parameters of the caller's model changed")
         ELSE V("C07.user_params: state_dict entries of the caller's model changed (right after the conversion: "
                    \o ToString(~t.sd_vals) \o ", after the history: " \o ToString(~t.sd_vals_end) \o ")")

CUserOut(t, a, cfg, asis) ==
    IF ~Claimed(t.method) THEN OK
    ELSE IF t.du \in 0..TOL THEN
        IF ~UserFnKept(a, asis) /\ t.bn_sens
        THEN D("F50 predicted by the as-implemented model (caller's outputs change) but not observed")
        ELSE OK
    ELSE IF KF_PlacedBN(a, cfg) /\ ~UserFnKept(a, asis)
         THEN K("F50:BatchNorm fused into the user's own PIT layer object: the caller's model now applies it twice (eval output differs by " \o ToString(t.du) \o "e-12)")
         ELSE V("C07.user_output: eval output of the caller's model differs from the output recorded before the conversion by " \o ToString(t.du) \o "e-12 (relative), tolerance 1000")

\* every user-visible attribute of the user's modules (not only parameters / buffers) is what the user set
CUserAttrs(t, a) ==
    IF ~Claimed(t.method) THEN OK
    ELSE IF LoggedOpts(t.snopt1) # OptsOf(a)
         THEN V("C07.user_attrs: options of the user's SuperNet blocks after the conversion " \o ToString(t.snopt1)
                    \o " (before: " \o ToString(t.snopt0) \o ")")
    ELSE IF Len(t.attrs_changed) > 0
         THEN V("C07.user_attrs: attributes of the caller's modules changed: " \o ToString(t.attrs_changed))
    ELSE OK

CMode(t) ==
    IF t.method \in {"PIT", "MPS"} /\ ~(t.w1 = t.u0 /\ t.s1 = t.u0 /\ t.kids)
    THEN V("C07.mode_kept: found training=" \o ToString(t.u0) \o ", wrapper.training=" \o ToString(t.w1)
             \o ", seed.training=" \o ToString(t.s1) \o ", uniform below seed=" \o ToString(t.kids))
    ELSE OK

\* mode history: after every step all flags equal the last mode the user set (found mode until then; SuperNet: claimed
\* from the first explicit train() / eval() on); every step returns
RECURSIVE WalkH(_, _, _, _, _)
WalkH(t, i, lastm, claimed, lin3) ==
    IF i > Len(t.H) THEN OK
    ELSE LET st == t.H[i]
             l2 == IF st.a = "train" THEN TRUE ELSE IF st.a = "eval" THEN FALSE ELSE lastm
             c2 == claimed \/ st.a \in {"train", "eval"}
         IN  IF ~st.ok THEN
                 IF lin3 THEN OK      \* F52: reported by CWrapped / CExport (a call that raised half-way leaves the flags anywhere)
                 ELSE IF st.a \in {"summary", "cost", "icv", "nassum"}     \* whether an observer can be evaluated is not C07's claim
                      THEN LET rest == WalkH(t, i + 1, l2, c2, lin3) IN
                           IF rest = OK THEN D("history step " \o ToString(i) \o " (" \o st.a \o ") raised " \o st.err) ELSE rest
                 ELSE V("C07.mode_history: step " \o ToString(i) \o " (" \o st.a \o ") raised " \o st.err)
             ELSE IF c2 /\ ~(st.w = l2 /\ st.s = l2 /\ st.kids)
                 THEN V("C07.mode_history: after step " \o ToString(i) \o " (" \o st.a \o ") of " \o ToString(t.hist)
                            \o ": last mode set by the user training=" \o ToString(l2) \o ", wrapper=" \o ToString(st.w)
                            \o ", seed=" \o ToString(st.s) \o ", everything below the wrapper uniform=" \o ToString(st.kids))
             ELSE WalkH(t, i + 1, l2, c2, lin3)
CHist(t, a, cfg) == WalkH(t, 1, t.u0, t.method \in {"PIT", "MPS"}, Lin3Broken(t, a, cfg))

\* after ANY history: the wrapper in eval mode - as it is - still equals the original in eval mode
CHistOut(t, a, cfg, asis) ==
    IF ~Claimed(t.method) \/ t.dwh = -1 \/ t.dwh \in 0..TOL THEN OK
    ELSE IF ((KF_ReuseBN(a, cfg) \/ KF_DoubleBN(a, cfg)) /\ ~FnPreserved(a, asis)) \/ (Lin3Broken(t, a, cfg) /\ ~asis.ok) THEN OK   \* CWrapped reports it
    ELSE V("C07.history_equal: after the history " \o ToString(t.hist) \o " the wrapper (training=False) differs from the original in eval mode by "
               \o ToString(t.dwh) \o "e-12")

\* ... and when the user finally calls eval() (after the history and the last export), the wrapper computes the original function
CEndOut(t, a, cfg, asis) ==
    IF ~Claimed(t.method) \/ t.dwe = -1 \/ t.dwe \in 0..TOL THEN OK
    ELSE IF ((KF_ReuseBN(a, cfg) \/ KF_DoubleBN(a, cfg)) /\ ~FnPreserved(a, asis)) \/ (Lin3Broken(t, a, cfg) /\ ~asis.ok) THEN OK   \* CWrapped reports it
    ELSE V("C07.history_equal: after the history " \o ToString(t.hist) \o ", a further export() and eval(), the wrapper differs from the original in eval mode by "
               \o ToString(t.dwe) \o "e-12")

CExport(t, a, cfg, asis) ==
    IF ~Claimed(t.method) THEN OK
    ELSE IF ~t.exp_ok THEN
        IF Lin3Broken(t, a, cfg) /\ ~asis.ok
        THEN K("F52:searchable nn.Linear on a 3-D tensor: export() raises (" \o t.exp_err \o ")")
        ELSE V("C07.export: export() raised " \o t.exp_err)
    ELSE LET cs   == IF t.method = "SN" THEN Choices(a) ELSE {NoChoice(a)}
             exps == {ExpSeq(a, cfg, c) : c \in cs}
             dflt == ExpSeq(a, cfg, ExportChoice(a, cfg))
         IN  IF t.E \in exps THEN
                 IF t.E # dflt THEN D("SuperNet export selected another branch than the first maximum of the coefficients")
                 ELSE IF ExportSeq("asis", a, cfg, asis) # dflt
                      THEN D("F51 / F73 predicted by the as-implemented model (re-created BatchNorm missing) but not observed")
                      ELSE OK
             ELSE IF KF_ReuseBN(a, cfg) /\
                     t.E \in {Flat(a, ExportCfg(a, asis), ExportBias(a, asis), h, NoChoice(a)) : h \in AsisBnVariants(a, cfg, asis)}
                  THEN K("F51:export() re-creates one BatchNorm for a reused conv/linear layer, after one call site only: " \o FirstDiff(t.E, dflt))
             ELSE IF KF_DoubleBN(a, cfg) /\ t.E = ExportSeq("asis", a, cfg, asis)
                  THEN K("F73:export() re-creates only the last of two BatchNorms in a row: " \o FirstDiff(t.E, dflt))
                  ELSE V("C07.export_arch: " \o FirstDiff(t.E, dflt))

\* predictions of the as-implemented model (never an alarm)
CPredict(t, a, cfg, asis) ==
    IF t.method = "PIT" /\ t.de_checked /\ FnPreserved(a, asis) /\ asis.ok /\ t.exp_ok /\ ~(t.de \in 0..TOL)
        THEN D("exported network (no BatchNorm re-created) differs from the original by " \o ToString(t.de) \o "e-12")
    ELSE IF Claimed(t.method) /\ ~t.sd_keys /\ UserKeysKept(a, asis)       \* keys can only appear on adopted user-placed layers
        THEN D("state_dict of the caller's model gained keys although no user-placed layer was adopted")
    ELSE IF t.u1 # asis.utrain
        THEN D("caller's model left with training=" \o ToString(t.u1))
    ELSE IF t.method = "SN" /\ (t.w1 # asis.wtrain \/ t.s1 # asis.strain)
        THEN D("SuperNet mode flags wrapper=" \o ToString(t.w1) \o " seed=" \o ToString(t.s1))
    ELSE IF t.method = "MPS" /\ t.sd_vals # ~(\E n \in Layers(a) : MpsFolds(a, n))
        THEN D("MPS in-place BatchNorm folding of the caller's layers: parameters unchanged=" \o ToString(t.sd_vals))
    ELSE OK

\* first violation, else first known finding, else first drift, else ok
Pick(cl) ==
    LET first(kind) == CHOOSE j \in DOMAIN cl : cl[j][1] = kind /\ \A x \in 1..(j - 1) : cl[x][1] # kind
        has(kind)   == \E j \in DOMAIN cl : cl[j][1] = kind
    IN  IF has("viol") THEN cl[first("viol")][2]
        ELSE IF has("known") THEN cl[first("known")][2]
        ELSE IF has("drift") THEN cl[first("drift")][2]
        ELSE "ok"

Check(t) ==
    LET a    == t.arch
        cfg  == CfgOf_(t)
        asis == Convert("asis", a, cfg)
    IN  IF CHarness(t, a, asis) # OK THEN CHarness(t, a, asis)[2]       \* the scenario itself is not what the specification describes
        ELSE IF ~t.user_ok THEN CPlaced(t)[2]
        ELSE IF ~t.conv_ok THEN Pick(<<CPlaced(t), CConvert(t, a, cfg)>>)
        ELSE Pick(<<CPlaced(t), CConvert(t, a, cfg), CMasks(t, a, cfg), CNasCfg(t, a, cfg, asis), CWrapped(t, a, cfg, asis),
                    CUserParams(t, a, cfg, asis), CUserOut(t, a, cfg, asis), CUserAttrs(t, a), CMode(t), CHist(t, a, cfg),
                    CHistOut(t, a, cfg, asis), CExport(t, a, cfg, asis), CEndOut(t, a, cfg, asis), CPredict(t, a, cfg, asis)>>)

Init == tid \in 1..Len(Traces) /\ verdict = Check(Traces[tid])
Next == UNCHANGED <<tid, verdict>>
Spec == Init /\ [][Next]_<<tid, verdict>>
VerdictOk == verdict = "ok"
=============================================================================
