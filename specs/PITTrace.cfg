SPECIFICATION Spec
INVARIANT VerdictOk
