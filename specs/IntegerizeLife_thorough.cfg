SPECIFICATION Spec
CONSTANTS
  Impl = "ref"
  MaxLen = 3
  UpdKinds = {"load", "step", "inplace"}
  Nests = {"any"}
  MatchOpts <- Opts_thorough
INVARIANT CurrentWeights
INVARIANT CurrentStats
INVARIANT OptionsOfThisCall
INVARIANT AllReplaced
INVARIANT KwargsUnchanged
INVARIANT DefaultsDeclared
INVARIANT OptionsInRange
