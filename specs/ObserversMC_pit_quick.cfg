SPECIFICATION Spec
CONSTANTS
    Impl = "ref"
    Kind = "pit"
    MaxBn = 1
    TrackHist = FALSE
    MaxLen = 0
INVARIANT TypeOK
INVARIANT ModesAgree
INVARIANT NoNewKeys
PROPERTY ObserversNeutral
PROPERTY SetterFrame
