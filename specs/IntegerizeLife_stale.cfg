SPECIFICATION Spec
CONSTANTS
  Impl = "stale"
  MaxLen = 3
  UpdKinds = {"load", "inplace"}
  Nests = {"any"}
  MatchOpts <- Opts_quick
INVARIANT CurrentStats
