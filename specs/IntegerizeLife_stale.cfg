SPECIFICATION Spec
CONSTANTS
  Impl = "stale"
  MaxLen = 3
  UpdKinds = {"load", "inplace"}
  Nests = {"any"}
  MatchOpts <- Opts_q3
INVARIANT CurrentStats
