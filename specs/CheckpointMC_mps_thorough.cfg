SPECIFICATION Spec
VIEW View
CONSTANTS
    Impl = "asis"
    Kind = "mps"
    MaxV = 2
    Temps = {1, 2}
INVARIANT Resume
INVARIANT Keys
INVARIANT ClassTotal
INVARIANT HistOk
INVARIANT NoHidden
