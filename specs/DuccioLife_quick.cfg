SPECIFICATION Spec
CONSTANTS
  Impl = "stateless"
  MaxCalls = 3
  Alphabet = "small"
INVARIANT HistoryIndependent
INVARIANT InitOnce
INVARIANT DefaultsAreFinal
INVARIANT ExactFamily
