------------------------------ MODULE DuccioMC ------------------------------
(***************************************************************************)
(* Exhaustive design check for C19.  A behaviour chooses a schedule length *)
(* n, adds 1..MaxMet constrained metrics (each below / at / above its      *)
(* target by 1 or 2, strength multiplier 1 or 2), seals the regulariser    *)
(* with strengths GIVEN or DERIVED from the task loss at the first call    *)
(* (action Seal = lazy initialisation), then walks the epochs 0..n (Tick). *)
(* Invariants = the clauses of the property, evaluated in every state.     *)
(* Impl = "fixed": the lazy initialisation of the current tree (strength 0 *)
(* for a metric at or below target); Impl = "pinned": the initialisation   *)
(* before the repair of F17 (infinite strength for a metric exactly at its *)
(* target, NaN value) - that configuration is expected to FAIL             *)
(* (non-vacuity of ValueFinite).                                           *)
(***************************************************************************)
EXTENDS Duccio, TLC

CONSTANTS NMax,       \* schedule lengths 1..NMax
          NSmall,     \* more than one metric only for n <= NSmall
          MaxMet,     \* up to MaxMet metrics
          Impl        \* "fixed" | "pinned" : which lazy initialisation

VARIABLES n, e, mets, str, sealed

vars == <<n, e, mets, str, sealed>>

Positions == {"below", "at", "above1", "above2"}
Target    == 10
CostOf(pos) == CASE pos = "below" -> Target - 3 [] pos = "at" -> Target
                 [] pos = "above1" -> Target + 1 [] pos = "above2" -> Target + 2

Init == n \in 1..NMax /\ e = 0 /\ mets = <<>> /\ str = <<>> /\ sealed = FALSE

AddMetric(pos, m) ==
    /\ ~sealed
    /\ Len(mets) < (IF n <= NSmall THEN MaxMet ELSE 1)
    /\ mets' = Append(mets, [pos |-> pos, m |-> m])
    /\ UNCHANGED <<n, e, str, sealed>>

\* task loss chosen so that the derived strengths are exact: L = 200 * n (units)
TaskLoss == 200 * n

Seal(mode) ==
    /\ ~sealed /\ Len(mets) >= 1
    /\ str' = [i \in DOMAIN mets |->
                 IF mode = "given" THEN Fin(100 * n * mets[i].m)
                 ELSE IF Impl = "pinned"
                      THEN DerivedStrengthPinned(TaskLoss, CostOf(mets[i].pos), Target)
                      ELSE DerivedStrength(TaskLoss, CostOf(mets[i].pos), Target)]
    /\ sealed' = TRUE
    /\ UNCHANGED <<n, e, mets>>

Tick == sealed /\ e < n /\ e' = e + 1 /\ UNCHANGED <<n, mets, str, sealed>>

Next == \/ \E pos \in Positions, m \in {1, 2} : AddMetric(pos, m)
        \/ \E mode \in {"given", "derived"} : Seal(mode)
        \/ Tick

Spec == Init /\ [][Next]_vars

C == [i \in DOMAIN mets |-> CostOf(mets[i].pos)]
T == [i \in DOMAIN mets |-> Target]
FinIdx == {i \in DOMAIN str : str[i].fin}

\* ---- the strength ramp (per metric with a finite strength)
RampStart      == sealed => \A i \in FinIdx : EffNum(str[i].v, 0, n) * 100 = FinalNum(str[i].v, n)
RampMonotone   == sealed /\ e < n => \A i \in FinIdx : EffNum(str[i].v, e + 1, n) >= EffNum(str[i].v, e, n)
RampReaches    == sealed /\ 2 * e >= n => \A i \in FinIdx : EffNum(str[i].v, e, n) = FinalNum(str[i].v, n)
RampNotBefore  == sealed /\ 2 * e < n => \A i \in FinIdx : str[i].v > 0 => EffNum(str[i].v, e, n) < FinalNum(str[i].v, n)
RampNeverAbove == sealed => \A i \in FinIdx : EffNum(str[i].v, e, n) <= FinalNum(str[i].v, n)

\* ---- the penalty
ValueFinite    == sealed => PenClass(str, C, T, e) = "fin" /\ PenNum(str, C, T, e, n) >= 0
ZeroIffWithin  == sealed /\ AllPositive(str) => (PenNum(str, C, T, e, n) = 0 <=> AllWithin(C, T))
ZeroIfWithin   == sealed /\ PenClass(str, C, T, e) = "fin" /\ AllWithin(C, T) => PenNum(str, C, T, e, n) = 0
\* strictly increasing in each excess: one more unit of cost on metric i
GrowsWithExcess ==
    sealed /\ AllPositive(str) =>
        \A i \in DOMAIN mets :
            LET C2 == [C EXCEPT ![i] = @ + 1] IN
            IF C2[i] > T[i] THEN PenNum(str, C2, T, e, n) > PenNum(str, C, T, e, n)
            ELSE PenNum(str, C2, T, e, n) = PenNum(str, C, T, e, n)
\* the reduced operators used by the trace specification agree with the literal ones
ReducedOk ==
    sealed => /\ \A i \in FinIdx : str[i].v % (100 * n) = 0 /\
                    EffNum(str[i].v, e, n) = 100 * n * EffRed(str[i].v \div (100 * n), e, n)
              /\ (PenClass(str, C, T, e) = "fin" =>
                    PenNum(str, C, T, e, n) =
                      100 * n * PenRed([i \in DOMAIN str |-> Fin(str[i].v \div (100 * n))], C, T, e, n))
\* a derived strength is positive exactly for metrics above target at the first call
DerivedPositive == sealed => \A i \in FinIdx : str[i].v >= 0
=============================================================================
