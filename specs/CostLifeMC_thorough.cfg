SPECIFICATION Spec
CONSTANTS
  Impl = "pure"
  MaxLen = 4
  Layers = {"conv2d"}
  NInit = 1
INVARIANT EvalIsFunctionOfDescription
INVARIANT FrameUnchanged
