SPECIFICATION Spec
CONSTANTS
  Impl = "wrap32"
  Mode = "edge"
  InBits = {8}
  OutBits = {4}
  WVals <- W_edge_quick
  BVals <- B_edge
  Targets <- T_edge_w32
  ScaleBits = {32}
  ShiftPoss = {32}
  BigVals <- None1
  BigShifts = {0}
INVARIANT EdgeLevel
