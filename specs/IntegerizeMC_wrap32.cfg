SPECIFICATION Spec
CONSTANTS
  Impl = "wrap32"
  Mode = "edge"
  InBits = {8}
  OutBits = {4}
  WVals <- W_edge
  BVals <- B_edge
  Targets <- T_edge_quick
  ScaleBits = {32}
  ShiftPoss = {32}
  BigVals <- None1
  BigShifts = {0}
INVARIANT EdgeLevel
