SPECIFICATION Spec
CONSTANTS
  Impl = "fixed"
  Kind = "sn"
  Temps = {1000, 2000}
  Hetero = TRUE
  Part = "opt"
  Dims = {"features", "rf", "dilation", "dc"}
  HOpts = {"temp", "hard", "gumbel", "disable"}
  Forking = FALSE
INVARIANT AlwaysHomogeneous
