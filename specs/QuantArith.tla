----------------------------- MODULE QuantArith -----------------------------
(***************************************************************************)
(* Integer-grid models of the MPS quantisers of plinio (property C13).      *)
(*                                                                         *)
(*   MinMaxWeight   (minmax_weight.py, symmetric)   ->  WQ                 *)
(*   PACTAct        (pact_act.py)                   ->  AQ                 *)
(*   QuantizerBias  (qtz_bias.py)                   ->  BQ                 *)
(*   DummyQuantizer (dummy.py)                      ->  DQ                 *)
(*                                                                         *)
(* No reals in TLA+: every input is an INTEGER grid coordinate.            *)
(*  * weights: n = x / (scale/8), i.e. 8 sub-steps per quantisation step.  *)
(*    With the symmetric min-max rule scale = 2*max|w| / (2^p - 1) the     *)
(*    channel maximum sits at n = WMax(p) = 4*(2^p - 1) exactly.           *)
(*  * activations: n = x / u for a unit u; the clipping value is clipN*u   *)
(*    and  clip + stabiliser  is D*u  (D > clipN >= 1).  The code divides  *)
(*    by (clip + 1e-3), so level boundaries are at n*L = k*D.              *)
(*  * bias: b = nb*u, scale = s_a*s_w = ns*u  (ns >= 0).                   *)
(*                                                                         *)
(* `impl` selects a transcription:                                         *)
(*   "ref"      intended arithmetic (= the pinned code except the bias     *)
(*              zero test, which is an exact `scale = 0`)                  *)
(*   "isclose"  bias zero test as written in QuantizeBiasSTE               *)
(*              (`~s_b.isclose(0)` : every scale <= threshold is zero),    *)
(*              finding F11                                                *)
(*   "round" / "noclip" / "nomask"  deliberately wrong variants, used only *)
(*              by the expected-to-fail sanity configurations.             *)
(* Variable-free operator library; QuantMC and QuantTrace use it.          *)
(***************************************************************************)
EXTENDS Integers

Pow2(k) == 2 ^ k
Min2(a, b) == IF a <= b THEN a ELSE b
Max2(a, b) == IF a >= b THEN a ELSE b
Abs(a) == IF a >= 0 THEN a ELSE -a

\* number of steps of a p-bit quantiser (2^p - 1); 0 for 0 bits
L(p) == Pow2(p) - 1

(***************************************************************************)
(* Rounding.  TLA+ \div is floor division and % is the non-negative        *)
(* remainder for a positive divisor, for negative dividends too.           *)
(***************************************************************************)
Floor(a, d) == a \div d

\* round-half-to-even of a/d, d > 0  (torch.round)
RNE(a, d) ==
    LET f == a \div d
        r == a % d
    IN  IF 2 * r < d THEN f
        ELSE IF 2 * r > d THEN f + 1
        ELSE IF f % 2 = 0 THEN f ELSE f + 1

\* round-half-away-from-zero (used only by a wrong variant)
RHA(a, d) == IF a >= 0 THEN (2 * a + d) \div (2 * d) ELSE -((2 * (-a) + d) \div (2 * d))

(***************************************************************************)
(* MinMaxWeight, symmetric.   _min_max_quantize:                           *)
(*     y = round(x / scale); y = clip(y, max = 2^(p-1) - 1); p = 0 -> 0    *)
(***************************************************************************)
WSub    == 8                              \* grid sub-steps per quantisation step
WHi(p)  == IF p = 0 THEN 0 ELSE Pow2(p - 1) - 1
WLo(p)  == IF p = 0 THEN 0 ELSE -Pow2(p - 1)
WMax(p) == (WSub \div 2) * L(p)           \* grid coordinate of the channel maximum

WQ(impl, p, n) ==
    IF p = 0 THEN 0
    ELSE IF impl = "noclip" THEN RNE(n, WSub)
    ELSE Min2(RNE(n, WSub), WHi(p))

\* the property's clauses on ONE observed level `lev` for grid input n
WInRange(p, lev)   == WLo(p) <= lev /\ lev <= WHi(p)

\* |x - lev*scale| < scale, decided from an integer bracket of the exact quotient q = x/scale:
\* nlo = floor(8q), nhi = ceil(8q)  (nlo = nhi = n on a grid point).  For integers m:
\* 8q > m <=> ceil(8q) > m  and  8q < m <=> floor(8q) < m, so the test is exact.
ErrLtStepBracket(nlo, nhi, lev) ==
    /\ Abs(lev) <= Pow2(26)                               \* keeps 8*lev inside TLC's 32-bit integers
    /\ nhi > WSub * (lev - 1)
    /\ nlo < WSub * (lev + 1)
WErrLtStep(n, lev) == ErrLtStepBracket(n, n, lev)

(***************************************************************************)
(* PACTAct.   PACTActSTE.forward:                                          *)
(*     sf = (2^p - 1) / (clip + 1e-3); y = floor(sf * clamp(x, 0, clip))   *)
(*   grid:  y = floor( clamp(n, 0, clipN) * L / D )                        *)
(***************************************************************************)
AClamp(n, clipN) == Min2(Max2(n, 0), clipN)

AQ(impl, p, n, clipN, D) ==
    IF impl = "round" THEN RNE(AClamp(n, clipN) * L(p), D)
    ELSE IF impl = "noclamp" THEN Floor(Min2(n, clipN) * L(p), D)
    ELSE Floor(AClamp(n, clipN) * L(p), D)

ATop(impl, p, clipN, D) == AQ(impl, p, clipN, clipN, D)

AInRange(p, lev) == 0 <= lev /\ lev <= L(p)
\* fake output lev*D/L never exceeds the input n (truncation); cross-multiplied
ATruncOK(p, n, lev, D)  == lev * D <= n * L(p)
\* integer output x REPORTED scale never exceeds the input: nr = floor(8 * x * (1+2^-22) / reported scale)
\* (the stated float32 tolerance of the truncation clause is folded into the logged coordinate)
ATruncRepOK(nr, lev) == Abs(lev) <= Pow2(26) /\ WSub * lev <= nr
\* error below one step of the grid the code divides by (D/L) ...
AErrLtStep(p, n, lev, D) == n * L(p) - lev * D < D
\* ... hence below one REPORTED step clip/L enlarged by the stated tolerance 2*stabiliser/clip
AErrLtRepStep(p, n, lev, clipN, D) == n * L(p) - lev * D < clipN + 2 * (D - clipN)
\* fake = lev*D/L  versus  lev * reported scale = lev*clipN/L  (numerators over L):
\* the gap must stay inside the stated relative tolerance 2*stabiliser/clip = 2*(D-clipN)/clipN
AScaleOK(lev, clipN, D) == Abs(lev * D - lev * clipN) <= 2 * (D - clipN) * lev

(***************************************************************************)
(* QuantizerBias.   QuantizeBiasSTE + RoundSTE:                            *)
(*     y = round(b / s) where s is "not zero", 0 elsewhere                 *)
(*   zt = zero-test threshold of the "isclose" transcription (grid units)  *)
(***************************************************************************)
BIsZeroScale(impl, ns, zt) ==
    IF impl = "isclose" THEN ns <= zt
    ELSE IF impl = "nomask" THEN FALSE
    ELSE ns = 0

\* a division by a zero scale that the zero test did not mask yields NaN / inf
BFinite(impl, ns, zt) == ~(ns = 0 /\ ~BIsZeroScale(impl, ns, zt))

BQ(impl, nb, ns, zt) ==
    IF BIsZeroScale(impl, ns, zt) \/ ns = 0 THEN 0 ELSE RNE(nb, ns)

BErrLtStep(nb, ns, lev) == Abs(nb - lev * ns) < ns

\* scenario signature of finding F11 (scale positive but at most the isclose threshold)
F11Signature(ns, zt) == 0 < ns /\ ns <= zt

(***************************************************************************)
(* DummyQuantizer: identity, scale 1.                                      *)
(***************************************************************************)
DQ(n) == n
=============================================================================
