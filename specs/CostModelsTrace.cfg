SPECIFICATION Spec
INVARIANT VerdictOk
