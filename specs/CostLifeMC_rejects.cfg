SPECIFICATION Spec
CONSTANTS
  Impl = "pure"
  MaxLen = 3
  Layers = {"conv2d"}
  NInit = 1
INVARIANT SomeRejected
