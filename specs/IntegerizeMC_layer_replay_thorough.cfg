SPECIFICATION Spec
CONSTANTS
  Impl = "ref"
  Mode = "layer"
  InBits = {2, 4}
  OutBits = {2, 4}
  WVals <- W_replay
  BVals <- B_replay
  Targets <- T_4
  ScaleBits = {4, 12}
  ShiftPoss = {4, 12}
  BigVals <- None1
  BigShifts = {0}
INVARIANT LevelDiff
INVARIANT LevelDiffSharp
INVARIANT MaupitiEquiv
INVARIANT PadOK
INVARIANT Ranges
INVARIANT SelRanges
