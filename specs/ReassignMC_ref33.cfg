SPECIFICATION Spec
CONSTANTS
  Mode = "reassign"
  Impl = "ref"
  NP = 3
  NCh = 3
  BitsSel = "8-2-4"
  CMin = 1
  CMax = 1
  Extra = 0
INVARIANT InvAllAssigned
INVARIANT InvCountsMet
INVARIANT InvNoLowered
INVARIANT InvIdentity
