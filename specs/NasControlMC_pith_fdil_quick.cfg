SPECIFICATION Spec
CONSTANTS
  Impl = "fixed"
  Kind = "pit"
  Temps = {1000}
  Hetero = TRUE
  Part = "ctl"
  Dims = {"features", "dilation"}
  HOpts = {"temp", "hard", "gumbel", "disable"}
  Forking = FALSE
INVARIANT TypeOK
INVARIANT FrozenNeverTrainable
INVARIANT FrozenNeverGrad
INVARIANT SamplerConsistent
INVARIANT Partition
INVARIANT IteratorsAgree
INVARIANT NoDedupIsNotPartition
PROPERTY TrainExact
PROPERTY SetterExact
PROPERTY LayerSetterExact
PROPERTY SelExact
PROPERTY OthersKept
PROPERTY LocalUpdate
PROPERTY ObserverNeutral
PROPERTY ForkExact
