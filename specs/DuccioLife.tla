----------------------------- MODULE DuccioLife -----------------------------
(***************************************************************************)
(* Life cycle of ONE DUCCIO object (property C19, "for every model and     *)
(* schedule position"): the value of a call may depend on the costs the    *)
(* model reports at that call, on (epoch, n_epochs) of that call and on    *)
(* the final strengths - given, or fixed by the documented lazy            *)
(* initialisation at the first call - and on nothing else that happened    *)
(* before.                                                                 *)
(*                                                                         *)
(* State: mode, life = [inited, str, last (epoch, n_epochs), cnt], the     *)
(* call history (kept in the state so that TLC enumerates every call       *)
(* SEQUENCE up to MaxCalls; the harness replays each one on a real         *)
(* object), the value returned by the last call, and - only for the two    *)
(* deliberately wrong implementations used as non-vacuity checks - a cache.*)
(* Action Call(s, c): the model reports costs c, the regulariser is called *)
(* with schedule s = [e, n, d] (d = TRUE: both arguments omitted, i.e. the *)
(* documented defaults epoch = 1, n_epochs = 1).  Epochs repeat, decrease  *)
(* and n_epochs changes freely from call to call.                          *)
(*                                                                         *)
(* Impl = "stateless"  : the implementation as specified.                  *)
(* Impl = "cacheEpoch" : annealed strengths cached, recomputed only when   *)
(*                       the epoch differs from the previous call.         *)
(* Impl = "cacheSched" : returned value cached per (epoch, n_epochs),      *)
(*                       cost changes ignored.                             *)
(* The last two must VIOLATE HistoryIndependent.                           *)
(*                                                                         *)
(* Strengths 10^4 m units and n_epochs dividing 19800 make every           *)
(* effective strength an integer number of units (invariant ExactFamily),  *)
(* which is also what float32 computes without rounding.                   *)
(***************************************************************************)
EXTENDS Duccio, TLC

CONSTANTS Impl, MaxCalls, Alphabet      \* Alphabet: "small" | "large"

VARIABLES mode, life, hist, val, cache

vars == <<mode, life, hist, val, cache>>

T     == <<10, 20>>                              \* targets of the two constrained metrics
Given == <<Fin(10000), Fin(20000)>>              \* given final strengths (units)
LossU == 40000                                   \* task loss (units) for derived strengths

S(e, n, d) == [e |-> e, n |-> n, d |-> d]
SchedSmall == {S(1, 1, TRUE), S(1, 20, FALSE), S(2, 50, FALSE), S(2, 4, FALSE), S(0, 4, FALSE), S(4, 4, FALSE)}
SchedLarge == SchedSmall \cup {S(0, 50, FALSE), S(1, 4, FALSE), S(1, 1, FALSE), S(3, 4, FALSE),
                               S(10, 20, FALSE), S(25, 50, FALSE), S(5, 10, FALSE)}
Scheds == IF Alphabet = "small" THEN SchedSmall ELSE SchedLarge

\* costs the model may report: one above / one below; both above; both at target; swapped
CostSmall == {<<11, 17>>, <<12, 24>>}
CostLarge == CostSmall \cup {<<10, 20>>, <<9, 21>>}
CostSets  == IF Alphabet = "small" THEN CostSmall ELSE CostLarge

NoCache == [set |-> FALSE, key |-> <<>>, effs |-> <<>>, v |-> 0]

Init == /\ mode \in {"given", "derived"}
        /\ life = LifeNew(mode, Given)
        /\ hist = <<>> /\ val = 0 /\ cache = NoCache

Effs(str, e, n) == [i \in DOMAIN str |-> IF str[i].fin THEN EffU(str[i].v, e, n) ELSE 0]
Weighted(effs, c) == LET w == [i \in DOMAIN effs |-> effs[i] * Excess(c[i], T[i])]
                     IN  IF Len(w) = 0 THEN 0 ELSE IF Len(w) = 1 THEN w[1] ELSE w[1] + w[2]

Call(s, c) ==
    /\ life.cnt < MaxCalls
    /\ LET str == LifeStr(life, LossU, c, T) IN
       /\ life' = LifeCall(life, LossU, T, [e |-> s.e, n |-> s.n, c |-> c])
       /\ hist' = Append(hist, [e |-> s.e, n |-> s.n, d |-> s.d, c |-> c])
       /\ CASE Impl = "stateless" ->
                 /\ val' = Weighted(Effs(str, s.e, s.n), c)
                 /\ cache' = cache
            [] Impl = "cacheEpoch" ->
                 LET effs == IF cache.set /\ cache.key = <<s.e>> THEN cache.effs ELSE Effs(str, s.e, s.n)
                 IN  /\ val' = Weighted(effs, c)
                     /\ cache' = [set |-> TRUE, key |-> <<s.e>>, effs |-> effs, v |-> 0]
            [] Impl = "cacheSched" ->
                 LET v == IF cache.set /\ cache.key = <<s.e, s.n>> THEN cache.v
                          ELSE Weighted(Effs(str, s.e, s.n), c)
                 IN  /\ val' = v
                     /\ cache' = [set |-> TRUE, key |-> <<s.e, s.n>>, effs |-> <<>>, v |-> v]
    /\ UNCHANGED mode

Next == \E s \in Scheds, c \in CostSets : Call(s, c)

Spec == Init /\ [][Next]_vars

LastCall == hist[Len(hist)]

\* every call returns what a fresh regulariser with the same final strengths returns
HistoryIndependent == life.cnt > 0 => val = FreshVal(life.str, T, LastCall)
\* the lazy initialisation happens once, at the first call, and is never revised
InitOnce ==
    life.cnt > 0 => /\ life.inited /\ life.cnt = Len(hist) /\ life.last = <<LastCall.e, LastCall.n>>
                    /\ (mode = "given" => life.str = Given)
                    /\ (mode = "derived" =>
                          life.str = [i \in DOMAIN T |-> DerivedStrength(LossU, hist[1].c[i], T[i])])
\* omitted arguments mean epoch = 1, n_epochs = 1: the final strengths are used
DefaultsAreFinal ==
    life.cnt > 0 /\ LastCall.d =>
        FreshVal(life.str, T, LastCall) =
            Weighted([i \in DOMAIN life.str |-> IF life.str[i].fin THEN life.str[i].v ELSE 0], LastCall.c)
\* the enumerated family is exact (no rounding in the model, none in float32)
ExactFamily ==
    /\ \A s \in Scheds : PenExact(Given, s.e, s.n)
    /\ \A s \in Scheds, c \in CostSets :
          /\ \A i \in DOMAIN T : DerivedExact(LossU, c[i], T[i])
          /\ PenExact([i \in DOMAIN T |-> DerivedStrength(LossU, c[i], T[i])], s.e, s.n)
=============================================================================
