SPECIFICATION Spec
CONSTANTS
  Impl = "fixed"
  Kind = "pit"
  Temps = {250, 500, 1000, 2000, 4000}
  Hetero = FALSE
  Part = "all"
  Dims = {"features", "rf", "dilation", "dc"}
  HOpts = {"temp", "hard", "gumbel", "disable"}
  Forking = FALSE
INVARIANT TypeOK
INVARIANT FrozenNeverTrainable
INVARIANT FrozenNeverGrad
INVARIANT SamplerConsistent
INVARIANT Partition
INVARIANT IteratorsAgree
INVARIANT NoDedupIsNotPartition
PROPERTY TrainExact
PROPERTY SetterExact
PROPERTY LayerSetterExact
PROPERTY SelExact
PROPERTY OthersKept
PROPERTY LocalUpdate
PROPERTY ObserverNeutral
PROPERTY ForkExact
