SPECIFICATION Spec
CONSTANTS
  Impl = "ref"
  MaxLen = 2
  UpdKinds = {"load"}
  Nests = {"flat", "seq", "blocks", "dict", "alias"}
  MatchOpts <- Opts_q3
INVARIANT CurrentWeights
INVARIANT CurrentStats
INVARIANT OptionsOfThisCall
INVARIANT AllReplaced
INVARIANT KwargsUnchanged
INVARIANT DefaultsDeclared
INVARIANT OptionsInRange
