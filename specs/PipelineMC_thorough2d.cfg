SPECIFICATION Spec
CONSTANTS
  Dim = 2
  C0 = 2
  Sp0 = 4
  MaxBody = 3
  Widths = {3}
  Ks = {1, 3}
  BNs = {FALSE, TRUE}
  Biases = {TRUE}
  AllowDw = TRUE
  AllowAdd = TRUE
  AllowPool = TRUE
  AllowCat = FALSE
  AllowSig = FALSE
  HeadW = 2
  Folds = {FALSE}
  MaxRounds = 1
  TimeChoices = "open"
  TupMode = "one"
  SelMode = "rot"
  Backends = {"match", "maupiti"}
  LastStage = "int"
  AllowFindings = FALSE
INVARIANT InvHandOverWF
INVARIANT InvDomainClosed
INVARIANT InvNormalForm
INVARIANT InvAligned
INVARIANT InvTimeExportable
INVARIANT InvOpenIsIdentity
INVARIANT InvOutputKept
INVARIANT InvGeomKept
INVARIANT InvCostChainPit
INVARIANT InvCostMonotone
INVARIANT InvCostChainMps
INVARIANT InvCostAllEight
INVARIANT InvCostBounded
INVARIANT InvSummaryPit
INVARIANT InvPlumb
INVARIANT InvOutputFloat
INVARIANT InvIntInputsQuantised
