SPECIFICATION Spec
CONSTANTS
  MaxNodes = 3
  MinNodes = 2
  Widths = {3}
  LinWidths = {2}
  Ks = {3}
  BNs = {FALSE}
  C0 = 2
  Sp0 = 4
  AllowRelu = FALSE
  AllowPool = TRUE
  AllowAdd = TRUE
  AllowDw = TRUE
  TupMode = "pc"
  WType = "pc"
  SelMode = "rot"
  Lin = "fixed"
  GuardF40 = TRUE
  GuardF05 = TRUE
INVARIANT InvRepIsRep
INVARIANT InvPlumb
INVARIANT InvPlumbGroups
INVARIANT InvAddSameGrid
INVARIANT InvOutputFloat
INVARIANT InvCostExact
INVARIANT InvSpecKeys
INVARIANT InvPruneLowers
