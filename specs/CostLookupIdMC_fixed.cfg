SPECIFICATION Spec
CONSTANTS
  Impl = "fixed"
  MaxLen = 4
  TypesId = {"A", "D", "B"}
  AllowDf = TRUE
INVARIANT ImplMatchesRefId
INVARIANT OrderIndependentId
