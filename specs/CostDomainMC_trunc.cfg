SPECIFICATION Spec
CONSTANTS
  Impl = "trunc"
  Models = {"mpic_latency", "mpic_energy"}
INVARIANT DefinedIffSupported
INVARIANT FiniteNonNegOnSupported
