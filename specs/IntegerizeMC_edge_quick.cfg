SPECIFICATION Spec
CONSTANTS
  Impl = "ref"
  Mode = "edge"
  InBits = {8}
  OutBits = {4}
  WVals <- W_edge_quick
  BVals <- B_edge
  Targets <- T_edge_quick
  ScaleBits = {1, 32}
  ShiftPoss = {0, 1, 32}
  BigVals <- None1
  BigShifts = {0}
INVARIANT EdgeSel
INVARIANT EdgeEveryShift
INVARIANT EdgeLevel
INVARIANT EdgeMaupiti
INVARIANT EdgeRange
