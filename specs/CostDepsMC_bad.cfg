SPECIFICATION Spec
CONSTANTS
  Mode = "lattice"
  Vals = {0, 6, 10}
  Fams = {1, 2}
  AllowDeps = FALSE
  D = 1
INVARIANT InvStrictEverywhere
