SPECIFICATION MSpec
CONSTANTS
  MaxNodes = 3
  Widths = {2}
  Dim = 1
  C0 = 2
  Sp0 = 2
  AllowExcl = FALSE
  AllowCat3 = FALSE
  AllowReuse = FALSE
  Extras = "no"
  AllowFindings = FALSE
  MAllowFindings = FALSE
  Conv1dExport = "pinned"
  ZeroClass = "kept"
  GuardExport = FALSE
INVARIANT MInvExportBuilds
