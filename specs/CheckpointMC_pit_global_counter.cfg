SPECIFICATION Spec
VIEW View
CONSTANTS
    Impl = "global_counter"
    Kind = "pit"
    MaxV = 1
    Temps = {1, 2}
INVARIANT Keys
