SPECIFICATION Spec
CONSTANTS
  Kind = "mps"
  Smp = "asis"
  SumSamples = FALSE
  ExpSamples = FALSE
  OptImpl = "pinned"
  Ctor = "bare"
  N = 2
  Chans = 2
  Temps = {"any"}
  Acts = {"mode", "fwd", "alpha", "load"}
  Writes = {"copy", "data", "optim"}
  Ckpts = {"soft", "onehot"}
  Moves = "gen"
  InitAlpha = "ctor"
  CtorOpts = "all"
  AllowKF = FALSE
  Grads = {TRUE, FALSE}
  SelHows = {}
INVARIANT TypeOK
INVARIANT SampledIsProb
INVARIANT OneHotAtArgmax
INVARIANT GumbelTraining
INVARIANT SoftKeepsWinner
INVARIANT ReportIsArgmax
INVARIANT ExportIsArgmax
INVARIANT ReportIsExport
INVARIANT ForwardSamples
PROPERTY DisabledKeeps
PROPERTY ThetaOnlyBySampling
PROPERTY AlphaOnlyByWrites
