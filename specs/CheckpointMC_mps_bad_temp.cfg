SPECIFICATION Spec
VIEW View
CONSTANTS
    Impl = "temp_float"
    Kind = "mps"
    MaxV = 1
    Temps = {1, 2}
INVARIANT Resume
