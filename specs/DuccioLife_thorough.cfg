SPECIFICATION Spec
CONSTANTS
  Impl = "stateless"
  MaxCalls = 3
  Alphabet = "large"
INVARIANT HistoryIndependent
INVARIANT InitOnce
INVARIANT DefaultsAreFinal
INVARIANT ExactFamily
