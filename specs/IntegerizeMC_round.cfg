SPECIFICATION Spec
CONSTANTS
  Impl = "round"
  Mode = "layer"
  InBits = {4}
  OutBits = {4}
  WVals <- W_replay
  BVals <- B_replay
  Targets <- T_4
  ScaleBits = {12}
  ShiftPoss = {12}
  BigVals <- None1
  BigShifts = {0}
INVARIANT LevelDiffSharp
