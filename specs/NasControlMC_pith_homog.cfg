SPECIFICATION Spec
CONSTANTS
  Impl = "fixed"
  Kind = "pit"
  Temps = {1000}
  Hetero = TRUE
  Part = "ctl"
  Dims = {"rf", "dc"}
  HOpts = {"temp", "hard", "gumbel", "disable"}
  Forking = FALSE
INVARIANT AlwaysHomogeneous
