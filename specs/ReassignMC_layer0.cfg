SPECIFICATION Spec
CONSTANTS
  Mode = "layer"
  Impl = "ref"
  NP = 1
  NCh = 1
  BitsSel = "0-2-4-8"
  CMin = 1
  CMax = 10
  Extra = 0
INVARIANT InvLayerComposition
INVARIANT InvLayerPromotes
INVARIANT InvLayerCost
INVARIANT InvLayerZeroKept
