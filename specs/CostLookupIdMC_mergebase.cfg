SPECIFICATION Spec
CONSTANTS
  Impl = "mergebase"
  MaxLen = 3
  TypesId = {"A", "D"}
  AllowDf = FALSE
INVARIANT ImplMatchesRefId
INVARIANT OrderIndependentId
