SPECIFICATION SpecGC
CONSTANTS
  Impl = "ref"
  MaxNodes = 2
  Widths = {2}
  Dims = {1, 2}
  C0 = 2
  Sp0 = 2
  Methods = {"PIT", "SN", "MPS"}
  Twos = {"no", "cat"}
  ConvVars = {"dflt"}
  BnVars = {"dflt"}
  SnoVars = {1}
  AllowPl = TRUE
  AllowExcl = TRUE
  AllowReuse = TRUE
  AllowLin3 = FALSE
  AllowDrop = FALSE
  AllowBnShare = FALSE
  PlainOps = {"relu", "pool", "flat", "add"}
  Biases = {TRUE, FALSE}
  AllowFindings = TRUE
  MaxHist = 0
