------------------------------- MODULE PITTrace -------------------------------
(***************************************************************************)
(* Trace validation of PIT scenarios (C01, C04, C08, C09).                  *)
(*                                                                         *)
(* One trace = one scenario executed on the real library:                  *)
(*   Convert(arch, fold_bn) ; SetMasks ; Observe ; Cost ; Export ; Run      *)
(* logged as one record (format: harness/pitscn.py).  The verdict is total: *)
(* "ok", the first failing PROPERTY clause, "known:Fxx:..." when a clause   *)
(* fails on a topology that carries the signature of a listed finding       *)
(* (scenario predicates KF_* of FeatGraph), or "drift:..." when only a     *)
(* prediction of the as-implemented model fails.                           *)
(*                                                                         *)
(* The reference values every observation is compared with are computed    *)
(* HERE, by the operators of FeatGraph / MaskAlgebra, from the logged       *)
(* architecture and the logged per-layer masks.                            *)
(***************************************************************************)
EXTENDS FeatGraph, Json, IOUtils, TLC

MA == INSTANCE MaskAlgebra

Traces == JsonDeserialize(IOEnv.TRACE_FILE)

VARIABLES tid, verdict

Pat(s)      == [c \in 1..Len(s) |-> s[c] = 1]
Idx1(s)     == {s[i] + 1 : i \in DOMAIN s}                 \* 0-based index list -> 1-based set
Ascending(s) == \A i \in 1..(Len(s) - 1) : s[i] < s[i + 1]

LIdx(t, n)  == CHOOSE i \in DOMAIN t.L : t.L[i].n = n
LRec(t, n)  == t.L[LIdx(t, n)]
\* exported layers are logged once per layer OBJECT (under the node that owns it)
EIdx(t, n)  == CHOOSE i \in DOMAIN t.E.L : t.E.L[i].n = Owner(t.arch, n)
ERec(t, n)  == t.E.L[EIdx(t, n)]
HasE(t, n)  == \E i \in DOMAIN t.E.L : t.E.L[i].n = Owner(t.arch, n)

\* observed per-call-site output masks (all ones where the mask could not be read)
M(t) == LET a == t.arch IN
        [n \in SearchLayers(a) |-> IF LRec(t, n).mask_ok THEN Pat(LRec(t, n).mask) ELSE AllTrue(Ch(a, n))]

(* ----------------------------- known findings -------------------------- *)
\* C01 covers receptive-field / dilation pruning "when the layer is causally (left-)padded": a scenario in which a
\* Conv1d that is NOT causally padded ('same' padding, explicit symmetric pad, un-padded) lost a tap is outside C01's
\* domain (MaskAlgebraMC_patterns_same shows why: a re-centred smaller kernel reads other samples)
NonCausalPruned(t) ==
    t.arch.dim = 1 /\ \E i \in DOMAIN t.L :
        LET r == t.L[i]  nd == Nd(t.arch, r.n) IN
        nd.op = "conv" /\ ~nd.causal /\ r.t /\ \E j \in DOMAIN r.tmask : r.tmask[j] = 0
Known(t) ==
    LET a == t.arch IN
    IF KF_Reuse(a) THEN "known:F09:a searchable layer is invoked at two call sites (one mask / one input calculator per layer object)"
    ELSE IF KF_DwOrphan(a) THEN "known:F19:depthwise conv whose sharing component has no features-defining node (masker is None)"
    ELSE IF KF_FixedAfterSearch(a) \/ KF_FixedInMaskedGroup(a)
         THEN "known:F20:a layer excluded from the search consumes / is added to a tensor that the search can prune"
    ELSE IF KF_CatIntoAdd(a) THEN "known:F21:a channel-concat output reaches a residual add; the masks of its parts are not tied to the other addend"
    ELSE IF KF_NonZeroOp(a) THEN "known:F29:sigmoid (an op of plinio's features-propagating list) maps the exact zeros of a pruned channel to 1/2: the consumer still reads that channel in the masked network, export() removes it"
    ELSE IF KF_CatIntoOutput(a) THEN "known:F25:a channel concat feeds the network output; its prunable parts are not frozen, the exported output width changes"
    ELSE IF KF_MixedWidthGroup(a) THEN "known:F24:producers of different widths (conv->flatten and linear) meet in one residual add and share one masker"
    \* (F72 only changes the computed function: it is a signature for C01 clauses only, and the last one tried)
    ELSE IF t.props.C01 /\ KF_CoupledOp(a) THEN "known:F72:log_softmax over the features axis (an op of plinio's features-propagating list) on a tensor the search can prune: the pruned channels take part in the normalisation of the masked network, export() removes them"
    ELSE ""

\* (a clause that already carries the signature of a finding of its own, e.g. F26, keeps it)
Fail(t, clause) == IF Len(clause) >= 6 /\ SubSeq(clause, 1, 6) = "known:" THEN clause
                   ELSE IF Known(t) # "" THEN Known(t) ELSE clause

(* ----------------------------- per call site --------------------------- *)
C09Layer(t, n) ==
    LET a == t.arch  r == LRec(t, n)  reach == ActM(a, M(t), In1(a, n)) IN
    IF ~r.mask_ok THEN "C09.mask layer " \o ToString(n) \o ": the layer has no usable output mask"
    ELSE IF ~r.told_ok THEN "C09.told layer " \o ToString(n) \o ": the input features calculator cannot be evaluated"
    ELSE IF r.told_n # Count(reach)
         THEN "C09.charged layer " \o ToString(n) \o ": charged for " \o ToString(r.told_n)
                  \o " input features, " \o ToString(Count(reach)) \o " are alive in the tensor that reaches it"
    ELSE IF r.sum_in # Count(reach)
         THEN "C09.reported layer " \o ToString(n) \o ": summary() reports " \o ToString(r.sum_in)
                  \o " input features, " \o ToString(Count(reach)) \o " are alive"
    ELSE IF r.sum_out # Count(M(t)[n])
         THEN "C09.reported-out layer " \o ToString(n) \o ": summary() out_features differs from the layer's alive outputs"
    ELSE IF t.E.export_ok /\ HasE(t, n) /\ ERec(t, n).in_ch # (IF IsDw(a, n) THEN Count(M(t)[n]) ELSE Count(reach))
         THEN "C09.exported layer " \o ToString(n) \o ": exported with " \o ToString(ERec(t, n).in_ch)
                  \o " input features, " \o ToString(Count(reach)) \o " are alive"
    ELSE "ok"

C01Layer(t, n) ==
    LET a == t.arch  r == LRec(t, n)  reach == ActM(a, M(t), In1(a, n)) IN
    IF ~r.mask_ok \/ ~r.told_ok THEN "C01.masks layer " \o ToString(n) \o ": masks cannot be read"
    ELSE IF Pat(r.told) # reach
         THEN "C01.align-told layer " \o ToString(n) \o ": input mask used for slicing differs from the alive pattern of the tensor that reaches the layer"
    ELSE IF \E c \in DOMAIN reach : ~reach[c] /\ r.nz_in[c] = 1
         THEN "C01.zero layer " \o ToString(n) \o ": a pruned input channel carries non-zero values in the masked network"
    ELSE IF ~HasE(t, n) THEN "C01.export layer " \o ToString(n) \o ": layer missing from the exported network"
    ELSE LET e == ERec(t, n) IN
         IF ~e.rect THEN "C01.slice layer " \o ToString(n) \o ": exported weight is not a rectangular slice of the original"
         ELSE IF Idx1(e.out_idx) # Positions1(M(t)[n]) \/ ~Ascending(e.out_idx)
              THEN "C01.align-out layer " \o ToString(n) \o ": exported output channels are not the alive channels in order"
         ELSE IF e.bias_idx # <<>> /\ e.bias_idx # e.out_idx
              THEN "C01.align-bias layer " \o ToString(n) \o ": exported bias does not follow the output channels"
         ELSE IF ~IsDw(a, n) /\ (Idx1(e.in_idx) # Positions1(reach) \/ ~Ascending(e.in_idx))
              THEN "C01.align-in layer " \o ToString(n) \o ": exported input channels are not the alive positions of the incoming tensor"
         ELSE IF IsDw(a, n) /\ ~(e.groups = e.in_ch /\ e.in_ch = e.out_ch)
              THEN "C01.dw layer " \o ToString(n) \o ": exported depthwise layer has groups/in/out that differ"
         ELSE IF r.t /\ Nd(a, n).causal /\
                 ~MA!TermsEqualObs(r.K, r.d0, e.taps, e.k, e.dil, IF e.pad = <<>> THEN -1 ELSE e.pad[1])
              THEN "C01.time layer " \o ToString(n) \o ": exported taps " \o ToString(e.taps) \o " k=" \o ToString(e.k)
                       \o " dil=" \o ToString(e.dil) \o " pad=" \o ToString(e.pad) \o " do not read the samples of the kept taps (K="
                       \o ToString(r.K) \o ", d0=" \o ToString(r.d0) \o ")"
         ELSE IF r.t /\ a.dim = 1 /\ Nd(a, n).sym /\
                 (e.pad = <<>> \/ ~MA!TermsEqualPadObs(r.K, r.d0, ((r.K - 1) * r.d0) \div 2, e.taps, e.k, e.dil, e.pad[1]))
              THEN "C01.time-pad layer " \o ToString(n) \o ": exported taps " \o ToString(e.taps) \o " dil=" \o ToString(e.dil)
                       \o " behind the exported explicit padding " \o ToString(e.pad) \o " do not read the samples of the kept taps"
         ELSE IF r.t /\ a.dim = 1 /\ ~Nd(a, n).causal /\ ~Nd(a, n).valid /\ ~Nd(a, n).sym
                 /\ ~MA!TermsEqualSameObs(r.K, r.d0, e.taps, e.k, e.dil)
              THEN "C01.time-same layer " \o ToString(n) \o ": exported taps " \o ToString(e.taps) \o " k=" \o ToString(e.k)
                       \o " dil=" \o ToString(e.dil) \o " with padding='same' do not read the samples of the kept taps (K="
                       \o ToString(r.K) \o ", d0=" \o ToString(r.d0) \o ")"
         ELSE IF r.t /\ Idx1(e.taps) # Positions1(Pat(r.tmask))
              THEN "C01.time-kept layer " \o ToString(n) \o ": exported taps differ from the taps kept by the forward pass"
         ELSE "ok"

C08Layer(t, n) ==
    LET a == t.arch  r == LRec(t, n) IN
    IF ~r.mask_ok THEN "C08.mask layer " \o ToString(n) \o ": no usable output mask"
    ELSE IF Count(M(t)[n]) < 1 THEN "C08.alive layer " \o ToString(n) \o ": no output feature left"
    ELSE IF HasMasker(a, MaskerSite(a, n)) /\ Frozen(a, MaskerSite(a, n)) /\ Count(M(t)[n]) # Ch(a, n)
         THEN "C08.frozen layer " \o ToString(n) \o ": width fixed by the network input/output was pruned"
    ELSE IF r.t /\ (r.sum_k < 1 \/ r.sum_dil < 1 \/ Count(Pat(r.tmask)) < 1)
         THEN "C08.kernel layer " \o ToString(n) \o ": kernel/dilation searched out of existence (k=" \o ToString(r.sum_k) \o ")"
    ELSE IF ~HasE(t, n) THEN "C08.export layer " \o ToString(n) \o ": layer missing from the exported network"
    ELSE LET e == ERec(t, n) IN
         IF r.sum_in # e.in_ch \/ r.sum_out # e.out_ch
         THEN "C08.summary layer " \o ToString(n) \o ": summary() sizes differ from the exported layer"
         ELSE IF r.t /\ (r.sum_k # e.k \/ r.sum_dil # e.dil)
         THEN "C08.summary-time layer " \o ToString(n) \o ": summary() kernel/dilation differ from the exported layer"
         ELSE "ok"

(* standalone BatchNorm layers (op "bns"): summary(), exported size and exported statistics follow the alive channels *)
BNs(t)  == IF "B" \in DOMAIN t THEN t.B ELSE <<>>
EBNs(t) == IF "B" \in DOMAIN t.E THEN t.E.B ELSE <<>>
RECURSIVE BnWalk(_, _, _)
BnWalk(t, which, i) ==
    IF i > Len(BNs(t)) THEN "ok"
    ELSE LET a == t.arch  b == BNs(t)[i]  reach == ActM(a, M(t), In1(a, b.n))
             es == {j \in DOMAIN EBNs(t) : EBNs(t)[j].n = b.n}
             v == IF ~b.ok THEN which \o ".bn layer " \o ToString(b.n) \o ": the BatchNorm cannot report its size"
                  ELSE IF which = "C09" /\ b.sum_nf # Count(reach)
                       THEN "C09.bn layer " \o ToString(b.n) \o ": summary() reports " \o ToString(b.sum_nf)
                                \o " features, " \o ToString(Count(reach)) \o " are alive in the tensor that reaches it"
                  ELSE IF which = "C01" /\ Pat(b.told) # reach
                       THEN "C01.bn-told layer " \o ToString(b.n) \o ": mask used for slicing the BatchNorm differs from the alive pattern of its input"
                  ELSE IF t.E.export_ok /\ es # {} /\
                          LET e == EBNs(t)[CHOOSE j \in es : TRUE] IN
                              \/ e.nf # Count(reach)
                              \/ (which = "C01" /\ (Idx1(e.idx) # Positions1(reach) \/ ~Ascending(e.idx)))
                       THEN which \o ".bn-export layer " \o ToString(b.n) \o ": exported BatchNorm does not keep exactly the statistics of the alive channels, in order"
                  ELSE "ok"
         IN IF v # "ok" THEN v ELSE BnWalk(t, which, i + 1)

(* predictions of the as-implemented model (drift only) *)
DriftLayer(t, n) ==
    LET a == t.arch  r == LRec(t, n) IN
    IF r.mask_ok /\ r.told_ok /\ Known(t) = "" /\ Pat(r.told) # ToldM(a, M(t), n)
    THEN "drift:told layer " \o ToString(n) \o ": calculator pattern differs from the as-implemented model"
    ELSE IF r.t /\ r.babs /\ Positions1(Pat(r.tmask)) #
              {j + 1 : j \in MA!Kept("last", r.K, [i \in 0..(r.K - 1) |-> r.b[i + 1]],
                                     [i \in 0..(MA!GLen(r.K) - 1) |-> r.g[i + 1]])}
    THEN "drift:tmask layer " \o ToString(n) \o ": time mask differs from MaskAlgebra (anchor last)"
    ELSE "ok"

RECURSIVE Walk(_, _, _)
\* which: "C09" | "C01" | "C08" | "drift"
One(t, which, n) == CASE which = "C09" -> C09Layer(t, n)
                      [] which = "C01" -> C01Layer(t, n)
                      [] which = "C08" -> C08Layer(t, n)
                      [] OTHER -> DriftLayer(t, n)
Walk(t, which, i) ==
    IF i > Len(t.L) THEN "ok"
    ELSE LET v == One(t, which, t.L[i].n) IN IF v # "ok" THEN v ELSE Walk(t, which, i + 1)

(* ----------------------------- whole scenario -------------------------- *)
AddsAligned(t) ==
    LET a == t.arch IN
    \A n \in 1..N(a) : Op(a, n) \in {"add", "catt"} =>
        ActM(a, M(t), Ins(a, n)[1]) = ActM(a, M(t), Ins(a, n)[2])

ExportRuns(t, p) ==
    IF ~t.E.export_ok THEN p \o ".export: export() raised " \o t.E.err
    ELSE IF ~t.E.run_ok THEN p \o ".run: the exported network does not run on an input of the original shape: " \o t.E.err
    ELSE IF ~t.E.shape_ok THEN p \o ".shape: the exported network returns another output shape"
    ELSE "ok"

(* C04: every cost entry  [name, nas, scratch]  : cost reported by the NAS model (discrete) vs the same *)
(* metric computed from scratch on the exported network by the harness; and, recomputed HERE from the   *)
(* exported geometry, the parameter / MAC count of the exported searchable layers.                      *)
RECURSIVE SumE(_, _, _, _)
ExpLayerParams(a, e, nobias) ==
    LET n == e.n  kk == IF Op(a, n) = "lin" THEN 1 ELSE IF a.dim = 1 THEN e.k ELSE e.k * e.k IN
    (e.out_ch * (e.in_ch \div e.groups) * kk) + (IF e.bias_idx # <<>> /\ ~nobias THEN e.out_ch ELSE 0)
\* per-invocation metric: summed over all calls of the layer (outpos_sum = total number of output positions)
ExpLayerOps(a, e, nobias) ==
    LET n == e.n  kk == IF Op(a, n) = "lin" THEN 1 ELSE IF a.dim = 1 THEN e.k ELSE e.k * e.k IN
    ((e.out_ch * (e.in_ch \div e.groups) * kk) + (IF e.bias_idx # <<>> /\ ~nobias THEN e.out_ch ELSE 0)) * e.outpos_sum
SumE(a, es, i, which) ==
    IF i > Len(es) THEN 0
    ELSE (CASE which = "params"          -> ExpLayerParams(a, es[i], FALSE)
            [] which = "params_no_bias"  -> ExpLayerParams(a, es[i], TRUE)
            [] which = "ops"             -> ExpLayerOps(a, es[i], FALSE)
            [] which = "ops_no_bias"     -> ExpLayerOps(a, es[i], TRUE)
            [] OTHER -> 0) + SumE(a, es, i + 1, which)
\* signature of F26: an exported NON-depthwise conv with in = out = groups = 1 (the CostSpec depthwise pattern
\* matches it, the pattern chosen for the NAS layer was the generic one)
F26Sig(t) == \E i \in DOMAIN t.E.L : LET e == t.E.L[i] IN
                 Op(t.arch, e.n) = "conv" /\ ~IsDw(t.arch, e.n) /\ e.in_ch = 1 /\ e.out_ch = 1
RECURSIVE C04Costs(_, _)
C04Costs(t, i) ==
    IF i > Len(t.cost) THEN "ok"
    ELSE LET c == t.cost[i] IN
         IF ~c.ok THEN "C04.eval " \o c.name \o ": cost could not be evaluated: " \o c.err
         ELSE IF ~c.integral THEN "C04.integral " \o c.name \o ": discrete cost is not an integer"
         ELSE IF c.nas # c.scratch /\ c.metric = "gap8_latency" /\ F26Sig(t)
              THEN "known:F26:gap8_latency: a generic conv left with one input and one output channel satisfies the depthwise pattern in the exported network, the NAS model charges the generic formula"
         ELSE IF c.nas # c.scratch
              THEN "C04.cost " \o c.name \o ": NAS model reports " \o ToString(c.nas) \o ", the exported network costs "
                       \o ToString(c.scratch)
         ELSE IF c.metric \in {"params", "params_no_bias", "ops", "ops_no_bias"} /\ ~c.full
                 /\ c.nas # SumE(t.arch, t.E.L, 1, c.metric)
              THEN "C04.recount " \o c.name \o ": NAS model reports " \o ToString(c.nas) \o ", the exported layers amount to "
                       \o ToString(SumE(t.arch, t.E.L, 1, c.metric))
         ELSE IF c.open_checked /\ (c.open_disc # c.orig \/ c.open_cont # c.orig)
              THEN "C04.open " \o c.name \o ": with all masks open discrete=" \o ToString(c.open_disc) \o " continuous="
                       \o ToString(c.open_cont) \o " original=" \o ToString(c.orig)
         ELSE C04Costs(t, i + 1)

Chain(vs) == IF \A i \in DOMAIN vs : vs[i] = "ok" THEN "ok"
             ELSE vs[CHOOSE i \in DOMAIN vs : vs[i] # "ok" /\ \A j \in 1..(i - 1) : vs[j] = "ok"]

CheckProps(t) ==
    IF ~t.conv_ok /\ RejectedFusion(t.arch) /\ t.conv_rejected_fusion
    THEN "outside:the conversion rejects (ValueError, multiple users) a searchable layer whose output feeds a BatchNorm and another node"
    ELSE IF ~t.conv_ok THEN Fail(t, "C09.convert: conversion raised " \o t.conv_err)
    ELSE IF ~t.fwd_ok THEN Fail(t, "C09.forward: the converted model cannot run: " \o t.fwd_err)
    ELSE
    LET v09 == IF t.props.C09
               THEN Chain(<<Walk(t, "C09", 1), BnWalk(t, "C09", 1),
                            IF AddsAligned(t) THEN "ok" ELSE "C09.add: the two sides of a residual sum carry different alive patterns",
                            ExportRuns(t, "C09")>>)
               ELSE "ok"
        v08 == IF t.props.C08 THEN Chain(<<ExportRuns(t, "C08"), Walk(t, "C08", 1)>>) ELSE "ok"
        v01 == IF t.props.C01 /\ ~NonCausalPruned(t)
               THEN Chain(<<ExportRuns(t, "C01"), Walk(t, "C01", 1), BnWalk(t, "C01", 1),
                            IF t.E.out_equal THEN "ok" ELSE "C01.output: exported network and masked network differ (rel. diff e-12: "
                                                                \o ToString(t.E.diff) \o ")">>)
               ELSE "ok"
        v04 == IF t.props.C04 THEN Chain(<<ExportRuns(t, "C04"), C04Costs(t, 1)>>) ELSE "ok"
        v   == Chain(<<v09, v08, v01, v04>>)
    IN  IF v # "ok" THEN Fail(t, v)
        ELSE IF t.props.C01 /\ NonCausalPruned(t)
             THEN "outside:C01 covers rf/dilation pruning of causally padded Conv1d layers only; a non-causally padded layer lost a tap"
        ELSE Walk(t, "drift", 1)

Init == tid \in 1..Len(Traces) /\ verdict = CheckProps(Traces[tid])
Next == UNCHANGED <<tid, verdict>>
Spec == Init /\ [][Next]_<<tid, verdict>>
VerdictOk == verdict = "ok"
=============================================================================
