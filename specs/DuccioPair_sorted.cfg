SPECIFICATION Spec
CONSTANTS
  Impl = "sorted"
INVARIANT PairedByPosition
