SPECIFICATION Spec
CONSTANTS
    Impl = "ref"
    Kind = "sn"
    MaxBn = 2
    TrackHist = TRUE
    MaxLen = 5
INVARIANT TypeOK
INVARIANT Erasure
