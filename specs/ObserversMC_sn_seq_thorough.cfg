SPECIFICATION Spec
CONSTANTS
    Impl = "ref"
    Kind = "sn"
    Half = "modes"
    Temps = {1000}
    MaxBn = 2
    TrackHist = TRUE
    MaxLen = 5
INVARIANT TypeOK
INVARIANT Erasure
