----------------------------- MODULE QuantLifeMC -----------------------------
(***************************************************************************)
(* Design check for the history independence of a quantiser object (C13).   *)
(* TLC enumerates EVERY sequence of                                        *)
(*   SetMode, SetGrad, SetDeq, SetPrec, Call(same | inplace | fresh)       *)
(* to closure (the state carries the configuration of the previous call,   *)
(* so the closure contains every ordered pair of call configurations with  *)
(* every tensor relation).  `res` records, for the last call, what the     *)
(* returned value was computed for (got) and what it must have been        *)
(* computed for (want).  The labelled graph of the "ref" configuration is  *)
(* dumped and every edge is replayed on real plinio quantiser objects      *)
(* (harness/checks/c13.py); QuantTrace validates those executions with the *)
(* same operators.                                                         *)
(***************************************************************************)
EXTENDS QuantLife, TLC

CONSTANTS Impl,      \* "ref" | "cache_ok" | "cache_nodeq" | "cache_noprec" | "cache_noversion"
          NPrec      \* length of the precision tuple

VARIABLES s, h, res

vars == <<s, h, res>>

NoRes == [valid |-> FALSE, got |-> Want(CHOOSE x \in LifeInit(NPrec) : TRUE),
          want |-> Want(CHOOSE x \in LifeInit(NPrec) : TRUE)]

Init == s \in LifeInit(NPrec) /\ h = NoHid /\ res = NoRes

SetMode(m) == CanSetMode(s, m) /\ s' = DoSetMode(s, m) /\ UNCHANGED <<h, res>>
SetGrad(g) == CanSetGrad(s, g) /\ s' = DoSetGrad(s, g) /\ UNCHANGED <<h, res>>
SetDeq(d)  == CanSetDeq(s, d)  /\ s' = DoSetDeq(s, d)  /\ UNCHANGED <<h, res>>
SetPrec(i) == CanSetPrec(s, i, NPrec) /\ s' = DoSetPrec(s, i) /\ UNCHANGED <<h, res>>
Call(rel)  == /\ CanCall(s, rel)
              /\ LET h1 == Touch(h, rel) IN
                   /\ res' = [valid |-> TRUE, got |-> Got(Impl, h1, s), want |-> Want(s)]
                   /\ h' = HidAfter(Impl, h1, s)
              /\ s' = DoCall(s, rel)

Next == \/ \E m \in LModes : SetMode(m)
        \/ \E g \in BOOLEAN : SetGrad(g)
        \/ \E d \in BOOLEAN : SetDeq(d)
        \/ \E i \in 1..NPrec : SetPrec(i)
        \/ \E rel \in Rels : Call(rel)

Spec == Init /\ [][Next]_vars

\* every call returns what the CURRENT configuration and the CURRENT data prescribe
HistoryIndependent == res.valid => res.got = res.want
\* bookkeeping of the history abstraction
LastIsPrevCall == s.has <=> s.last.valid
=============================================================================
