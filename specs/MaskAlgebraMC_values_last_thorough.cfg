SPECIFICATION Spec
CONSTANTS
  Anchor = "last"
  Mode = "values"
  KMaxV = 6
  KMaxP = 12
INVARIANT AtLeastOneTap
INVARIANT DilAtLeastOne
INVARIANT KeepAliveSameTap
INVARIANT ExportEquivalent
INVARIANT PatternShape
INVARIANT MonotoneBeta
INVARIANT MonotoneGamma
INVARIANT AllOpenIsFull
