SPECIFICATION Spec
CONSTANTS
  MaxLen = 3
INVARIANT ObsDependsOnMasksOnly
PROPERTY MasksOnlyBySetMasks
