SPECIFICATION Spec
CONSTANTS
  Method = "sn"
  Impl = "asis"
  MaxLen = 4
INVARIANT KeyOk
INVARIANT Coherent
PROPERTY ObserversNeutral
