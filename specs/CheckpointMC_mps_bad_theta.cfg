SPECIFICATION Spec
VIEW View
CONSTANTS
    Impl = "theta_attr"
    Kind = "mps"
    MaxV = 1
    Temps = {1, 2}
INVARIANT Resume
