SPECIFICATION Spec
CONSTANTS
  MaxNodes = 3
  MinNodes = 3
  Widths = {2}
  LinWidths = {2}
  Ks = {3}
  BNs = {FALSE}
  C0 = 2
  Sp0 = 4
  AllowRelu = FALSE
  AllowPool = FALSE
  AllowAdd = FALSE
  AllowDw = FALSE
  TupMode = "pc1"
  WType = "pc"
  SelMode = "rot"
  Lin = "pinned"
  GuardF40 = TRUE
  GuardF05 = TRUE
INVARIANT InvCostExact
INVARIANT InvSpecKeys
