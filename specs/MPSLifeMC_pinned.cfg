SPECIFICATION Spec
CONSTANTS
  Dim = 2
  MaxNodes = 3
  MinNodes = 3
  Widths = {2}
  LinWidths = {2}
  Ks = {3}
  BNs = {FALSE}
  C0 = 2
  Sp0 = 4
  AllowRelu = FALSE
  AllowPool = FALSE
  AllowAdd = FALSE
  AllowDw = FALSE
  AllowReuse = FALSE
  PMs = {"zeros"}
  Ds = {1}
  Ss = {1}
  Biases = {TRUE}
  Batches = {1, 4}
  Alphabet = "classic"
  FwdImpl = "plain"
  ForkImpl = "own"
  ExpImpl = "fresh"
  TupMode = "pc1"
  WType = "pc"
  SelMode = "rot"
  MaxHist = 0
  Walk = "fixed"
  Lin = "pinned"
  GuardF40 = FALSE
  GuardF05 = TRUE
  GuardReuse = TRUE
INVARIANT InvCostExact
INVARIANT InvSpecKeys
INVARIANT InvPerInvocation
