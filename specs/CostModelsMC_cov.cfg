SPECIFICATION Spec
CONSTANTS
  Models = {"params", "params_no_bias", "params_bit", "ops", "ops_no_bias", "ops_bit", "mpic_latency", "mpic_energy", "gap8_latency", "ne16_latency", "diana_latency"}
  CinLo = 4
  CinHi = 4
  CinStep = 1
  CinExtra = {5}
  CoutLo = 4
  CoutHi = 4
  CoutStep = 1
  CoutExtra = {6}
  KSet = {1, 3}
  OSet = {1, 2}
  WSet = {2, 8}
  ASet = {2, 8}
INVARIANT AllDefined
INVARIANT NonNegative
INVARIANT PositiveNonEmpty
INVARIANT DwIsGenericPerGroup
INVARIANT HelpersExact
INVARIANT RejectsUnsupported
INVARIANT BigSound
PROPERTY Monotone
PROPERTY HelpersMonotone
