SPECIFICATION Spec
CONSTANTS
  Impl = "fixed"
  MaxA = 4
  MaxB = 1
INVARIANT ImplMatchesRef
INVARIANT ConflictOnlyIfTwo
INVARIANT NoCrossTalk
INVARIANT OrderIndependent
