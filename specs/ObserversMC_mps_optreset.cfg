SPECIFICATION Spec
CONSTANTS
    Impl = "optreset"
    Kind = "mps"
    Half = "options"
    Temps = {1000, 500}
    MaxBn = 0
    TrackHist = FALSE
    MaxLen = 0
INVARIANT TypeOK
INVARIANT SamplerConsistent
PROPERTY ObserversNeutral
