SPECIFICATION Spec
CONSTANTS
  Method = "mps"
  Impl = "inplace"
  MaxLen = 2
INVARIANT KeyOk
INVARIANT Coherent
PROPERTY ObserversNeutral
