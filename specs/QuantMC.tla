------------------------------- MODULE QuantMC -------------------------------
(***************************************************************************)
(* Design check for C13: the integer-grid quantiser models of QuantArith   *)
(* satisfy every clause of the property on EVERY grid point (hence on and  *)
(* next to every level boundary) for the configured bit-widths.            *)
(*                                                                         *)
(* One behaviour = one sweep of one quantiser configuration along the      *)
(* input axis (action Step: n' = n + 1), so that "monotone" is a relation  *)
(* between the two ends of a step and every grid point is a state:         *)
(*   kind "w": weight quantiser, p bits, n in -(WMax+8) .. WMax+8          *)
(*   kind "a": PACT, p bits, (clipN, D) from DMuls x DOffs x Deltas,       *)
(*             n in -8 .. D+8       (D = 8*L(p)*m + r,  clipN = D - delta) *)
(*   kind "b": bias, scale ns in BScales, nb in -BSpan .. BSpan            *)
(*   kind "d": dummy quantiser                                             *)
(* Invariants are the property's clauses; they are stated on derived       *)
(* operators of the state, so they are evaluated in every state.           *)
(***************************************************************************)
EXTENDS QuantArith, TLC

CONSTANTS Impl,        \* which transcription (see QuantArith)
          Bits,        \* set of bit-widths (0 only meaningful for weights)
          DMuls, DOffs, Deltas,   \* PACT grids
          BScales, BSpan, ZT      \* bias grids; ZT = zero-test threshold of "isclose"

VARIABLES kind, p, clipN, D, n

vars == <<kind, p, clipN, D, n>>

ABits == Bits \ {0}

Init ==
    \/ /\ kind = "w" /\ p \in Bits /\ clipN = 0 /\ D = 0
       /\ n = -(WMax(p) + WSub)
    \/ /\ kind = "a" /\ p \in ABits
       /\ \E m \in DMuls, r \in DOffs, dl \in Deltas :
             /\ D = 8 * L(p) * m + r
             /\ clipN = D - dl
             /\ clipN >= 1
       /\ n = -8
    \/ /\ kind = "b" /\ p = 0 /\ clipN = 0 /\ D \in BScales      \* D carries the scale ns
       /\ n = -BSpan
    \/ /\ kind = "d" /\ p = 0 /\ clipN = 0 /\ D = 0 /\ n = -8

Hi == CASE kind = "w" -> WMax(p) + WSub
        [] kind = "a" -> D + 8
        [] kind = "b" -> BSpan
        [] OTHER      -> 8

Step == n < Hi /\ n' = n + 1 /\ UNCHANGED <<kind, p, clipN, D>>

Next == Step
Spec == Init /\ [][Next]_vars

(***************************************************************************)
(* weights                                                                 *)
(***************************************************************************)
W(m) == WQ(Impl, p, m)

WRange == kind = "w" => WInRange(p, W(n))
WMono  == kind = "w" => W(n) <= W(n + 1)
WErr   == (kind = "w" /\ p # 0 /\ Abs(n) <= WMax(p)) => WErrLtStep(n, W(n))
WZero  == kind = "w" => /\ (p = 0 => W(n) = 0)
                        /\ (n = 0 => W(n) = 0)
\* both ends of the signed range are used: +max -> 2^(p-1)-1 (clipped), -max -> -2^(p-1)
WEnds  == (kind = "w" /\ p # 0) => /\ (n = WMax(p)  => W(n) = WHi(p))
                                   /\ (n = -WMax(p) => W(n) = WLo(p))
\* exact ties go to the even level (or are clipped at the top)
WTies  == (kind = "w" /\ p # 0 /\ n % WSub = WSub \div 2) => (W(n) % 2 = 0 \/ W(n) = WHi(p))

(***************************************************************************)
(* activations                                                             *)
(***************************************************************************)
A(m) == AQ(Impl, p, m, clipN, D)
InClip == 0 <= n /\ n <= clipN

ARange  == kind = "a" => AInRange(p, A(n))
AZero   == (kind = "a" /\ n <= 0) => A(n) = 0
ATopCommon == (kind = "a" /\ n >= clipN) => A(n) = ATop(Impl, p, clipN, D)
ATopIsMax  == kind = "a" => A(n) <= ATop(Impl, p, clipN, D)
AMono   == kind = "a" => A(n) <= A(n + 1)
ATrunc  == (kind = "a" /\ InClip) => ATruncOK(p, n, A(n), D)
\* the same against the reported scale clipN/L: floor(8*n*L/clipN) is the input in 1/8 reported steps
ATruncRep == (kind = "a" /\ InClip) => ATruncRepOK((8 * n * L(p)) \div clipN, A(n))
AErr    == (kind = "a" /\ InClip) => /\ AErrLtStep(p, n, A(n), D)
                                     /\ AErrLtRepStep(p, n, A(n), clipN, D)
AScale  == kind = "a" => AScaleOK(A(n), clipN, D)

(***************************************************************************)
(* bias                                                                    *)
(***************************************************************************)
B(m) == BQ(Impl, m, D, ZT)

BFin   == kind = "b" => BFinite(Impl, D, ZT)
BZero  == (kind = "b" /\ D = 0) => B(n) = 0
BMono  == kind = "b" => B(n) <= B(n + 1)
BErr   == (kind = "b" /\ D > 0) => BErrLtStep(n, D, B(n))

(***************************************************************************)
(* dummy                                                                   *)
(***************************************************************************)
DIdent == kind = "d" => DQ(n) = n
=============================================================================
