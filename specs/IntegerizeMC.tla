---------------------------- MODULE IntegerizeMC ----------------------------
(***************************************************************************)
(* Design check for C14 (one-step enumerations over IntegerArith).         *)
(*                                                                         *)
(* Mode "layer": a tiny integer layer, one output channel, two inputs:     *)
(*    in/out activation bits ib, ob; integer weights w = <<w1, w2>>;       *)
(*    input levels x = <<x1, x2>> (unsigned image, 0..2^ib-1); integer     *)
(*    bias b; target T = tm/2^te of the approximation; MATCH options       *)
(*    scale_bit / shift_pos.  From the state the specification derives     *)
(*    what the backend layer classes compute: shift (ShiftSelect), scale   *)
(*    (binary_search), MATCH output, MAUPITI output (offset inputs,        *)
(*    zero-point), and what the fake-quantised counterpart emits           *)
(*    (FakeLevel).  Invariants = the property:                             *)
(*      LevelDiff      |integer out - fake image| <= 1 + floor(bound)      *)
(*      LevelDiffSharp |...| <= ceil(bound)         (no float round-off    *)
(*                     in the model, so the sharp form holds too)          *)
(*      MaupitiEquiv   MAUPITI out = MATCH out + lo   (zero-point, F14)    *)
(*      PadOK          MAUPITI pads with the image of 0 of its INPUT       *)
(*      Ranges         1 <= scale <= 2^(scale_bit-1), 0 <= shift <         *)
(*                     shift_pos, bias*scale fits 32 bits, outputs inside  *)
(*                     the declared activation range                       *)
(*      ScaleIsCeil    binary_search = clip(ceil(T*2^sh), 1, U)            *)
(*      ShiftOptimal   the shift is the FIRST strict minimiser of the      *)
(*                     mean error                                          *)
(*      Bridge*        the big-number operators the trace specification    *)
(*                     uses agree with the plain ones                      *)
(* Mode "approx": two channels with big biases: _integer_approximation     *)
(*    under the 32-bit constraint on bias*scale (SelNone, SelSound,        *)
(*    SelOptimal, ScalesRange, ErrBelowStep).                              *)
(* Mode "edge": the boundary of the option ranges (shifts 0..31, scales up  *)
(*    to 2^31, shift_pos 0/1, scale_bit 1) with unbounded integers; the     *)
(*    sanity variant "2^shift in 32-bit two's complement" must fail.        *)
(* Mode "big": algebraic identities of the big-number library against      *)
(*    TLC's native integers.                                               *)
(* Every state of modes "layer" and "approx" is also EXECUTED on the real  *)
(* backend classes by the harness (harness/checks/c14.py) and the          *)
(* observations are validated by IntegerizeTrace.                          *)
(***************************************************************************)
EXTENDS IntegerArith, TLC

CONSTANTS Impl, Mode,
          InBits, OutBits,      \* sets of activation bit-widths
          WVals,                \* set of integer weights (each of w1, w2)
          BVals,                \* set of integer biases (mode "layer": small; "approx": big)
          Targets,              \* set of <<tm, te>>
          ScaleBits, ShiftPoss, \* sets of scale_bit / shift_pos
          BigVals, BigShifts    \* mode "big"

VARIABLES ib, ob, w, x, b, tm, te, sbit, spos,
          ph,        \* "cfg" | "sel" | "done"  (see below)
          sh, sc     \* what _integer_approximation computes: shift (or -1) and the scales for it

(***************************************************************************)
(* constant sets of the configurations (a TLC cfg file cannot contain      *)
(* negative numbers or tuples; the cfg files substitute these by name)     *)
(***************************************************************************)
W_quick    == {-8, 1, 7}
W_thorough == {-8, -3, -2, 1, 5, 7}
W_replay   == {-2, 1, 7}
B_layer    == {-9, 0, 4, 60}
B_replay   == {-9, 4}
B_quick    == {-9, 0, 60}
B_nobias   == {-9, 60}
T_8 == {<<3, 3>>, <<5, 6>>, <<1, 0>>, <<3, 1>>, <<11, 10>>, <<1, 9>>, <<37, 8>>, <<255, 10>>}
T_6 == {<<3, 3>>, <<5, 6>>, <<3, 1>>, <<11, 10>>, <<37, 8>>, <<255, 10>>}
T_4 == {<<3, 3>>, <<5, 6>>, <<3, 1>>, <<37, 8>>}
B_approx_quick    == {-134217728, -2097153, 0, 134217720, 134217728}
B_approx_thorough == B_approx_quick \cup {-1048577, -5, 3, 1048576, 2097151}
T_approx_quick    == {<<3, 3>>, <<5, 6>>, <<3, 1>>, <<37, 8>>, <<1, 8>>, <<255, 8>>, <<16, 0>>}
T_approx_thorough == T_approx_quick \cup {<<1, 0>>, <<129, 8>>, <<5, 0>>}
Big_quick    == {-1073741823, -16385, -16384, -1, 0, 1, 16383, 16384, 32768, 268435456, 1073741823}
Big_thorough == Big_quick \cup {-268435457, -16383, -3, 2, 16385}
None1 == {0}
T_none == {<<1, 0>>}
\* mode "edge": targets tm / 2^s with ODD tm (first exact at shift s), every s in 0..31
EdgeTm_quick    == {1, 6962545}
EdgeTm_thorough == {1, 3, 21845, 6962545, 16777215}
EdgeS_all       == 0..31
T_edge_quick    == {<<t, s>> : t \in EdgeTm_quick, s \in EdgeS_all}
T_edge_thorough == {<<t, s>> : t \in EdgeTm_thorough, s \in EdgeS_all}
W_edge == {1, 127}
W_edge_quick == {127}
T_edge_w32 == {<<6962545, 31>>, <<6962545, 30>>, <<1, 31>>}
B_edge == {-1}
B_edge_thorough == {-1, 0, 200}
EdgeX  == {0, 200}

vars == <<ib, ob, w, x, b, tm, te, sbit, spos, ph, sh, sc>>

\* input levels that matter: both ends, next to the ends, the middle
XSel(bits) == {0, 1, L(bits) \div 2, L(bits) - 1, L(bits)}

(***************************************************************************)
(* Phases, so that TLC's workers share the enumeration (initial states are *)
(* generated sequentially) and nothing is computed twice:                  *)
(*   "cfg"   Init fixed the configuration (bits, target(s), options)       *)
(*   "sel"   FillSel chose the bias(es) and RECORDED what                  *)
(*           _integer_approximation computes: sh = selected shift or -1,   *)
(*           sc = the scales for that shift  (invariants on the selection) *)
(*   "done"  FillOps chose weights and input levels of one output element  *)
(*           (invariants on the arithmetic of the layer)                   *)
(***************************************************************************)
Blank == w = <<>> /\ x = <<>> /\ b = <<>> /\ sh = 0 /\ sc = <<>> /\ ph = "cfg"

Init ==
    \/ /\ Mode = "layer"
       /\ ib \in InBits /\ ob \in OutBits
       /\ \E t \in Targets : tm = <<t[1]>> /\ te = t[2]
       /\ sbit \in ScaleBits /\ spos \in ShiftPoss
       /\ Blank
    \/ /\ Mode = "approx"
       /\ ib = 0 /\ ob = 0
       /\ \E t1 \in Targets, t2 \in Targets :
             /\ t1[2] = t2[2]
             /\ tm = <<t1[1], t2[1]>> /\ te = t1[2]
       /\ sbit \in ScaleBits /\ spos \in ShiftPoss
       /\ Blank
    \/ /\ Mode = "edge"
       /\ ib \in InBits /\ ob = 0                  \* the output precision is chosen with the operands (FillOpsEdge)
       /\ \E t \in Targets : tm = <<t[1]>> /\ te = t[2]
       /\ sbit \in ScaleBits /\ spos \in ShiftPoss
       /\ Blank
    \/ /\ Mode = "big"
       /\ ib \in BigVals /\ ob = 0 /\ sbit = 0
       /\ tm = <<>> /\ te = 0
       /\ spos \in BigShifts
       /\ Blank

Scales(shift) ==
    IF shift = -1 THEN <<>> ELSE [i \in DOMAIN tm |-> ScaleFor(tm[i], te, shift, sbit)]

\* _integer_approximation: depends on the targets, the biases and the two options only
FillSel ==
    /\ Mode \in {"layer", "approx"} /\ ph = "cfg"
    /\ \E bb \in (IF Mode = "layer" THEN {<<v>> : v \in BVals} ELSE BVals \X BVals) :
          /\ b' = bb
          /\ LET s == ShiftSelect(tm, te, bb, sbit, spos)
             IN  sh' = s /\ sc' = Scales(s)
    /\ ph' = "sel"
    /\ UNCHANGED <<ib, ob, w, x, tm, te, sbit, spos>>

\* mode "edge": the same two steps with unbounded integers (sc holds big-number records)
EdgeTmB == [i \in DOMAIN tm |-> BigInt(tm[i])]
EdgeTes == [i \in DOMAIN tm |-> -te]
FillSelEdge ==
    /\ Mode = "edge" /\ ph = "cfg"
    /\ \E v \in BVals :
          /\ b' = <<v>>
          /\ LET s == ShiftSelectBig(EdgeTmB, EdgeTes, <<BigInt(v)>>, sbit, spos)
             IN  sh' = s /\ sc' = IF s = -1 THEN <<>> ELSE <<ScaleForBig(BigInt(tm[1]), -te, s, sbit)>>
    /\ ph' = "sel"
    /\ UNCHANGED <<ib, ob, w, x, tm, te, sbit, spos>>

FillOpsEdge ==
    /\ Mode = "edge" /\ ph = "sel" /\ sh # -1
    /\ w' \in WVals \X WVals
    /\ x' \in EdgeX \X EdgeX
    /\ ob' \in OutBits
    /\ ph' = "done"
    /\ UNCHANGED <<ib, b, tm, te, sbit, spos, sh, sc>>

\* the operands of one output element
FillOps ==
    /\ Mode = "layer" /\ ph = "sel" /\ sh # -1
    /\ w' \in WVals \X WVals
    /\ x' \in XSel(ib) \X XSel(ib)
    /\ ph' = "done"
    /\ UNCHANGED <<ib, ob, b, tm, te, sbit, spos, sh, sc>>

FillBig ==
    /\ Mode = "big" /\ ph = "cfg"
    /\ \E v2 \in BigVals, v3 \in BigVals : x' = <<ib, v2, v3>>
    /\ w' = <<>> /\ b' = <<>> /\ sh' = 0 /\ sc' = <<>>
    /\ ph' = "done"
    /\ UNCHANGED <<ib, ob, tm, te, sbit, spos>>

Next == FillSel \/ FillOps \/ FillSelEdge \/ FillOpsEdge \/ FillBig
Spec == Init /\ [][Next]_vars

(***************************************************************************)
(* mode "layer"                                                            *)
(***************************************************************************)
IsLayer == Mode = "layer" /\ ph = "done"
IsSel   == Mode = "layer" /\ ph = "sel"
U   == UpperBound(sbit)
Sh  == sh
S   == sc[1]
B1  == b[1]
Acc == w[1] * x[1] + w[2] * x[2]
WSum == w[1] + w[2]

MatchOut == Requant(Impl, Acc, S, B1 * S, Sh, 0, L(ob))
Fake     == FakeLevel(Acc, B1, tm[1], te, ob)

LoIn  == ActLo("maupiti", ib)
LoOut == ActLo("maupiti", ob)
HiOut == ActHi("maupiti", ob)
AccOff == w[1] * (x[1] + LoIn) + w[2] * (x[2] + LoIn)
ZP == ZeroPoint(Impl, B1 * S, S, Sh, LoIn, LoOut, WSum)
MaupitiOut == Requant(Impl, AccOff, S, ZP, Sh, LoOut, HiOut)

LevelDiff ==
    (IsLayer /\ Sh # -1) => Abs(MatchOut - Fake) <= 1 + ApproxFloor(Acc + B1, S, Sh, tm[1], te)
LevelDiffSharp ==
    (IsLayer /\ Sh # -1) => Abs(MatchOut - Fake) <= ApproxCeil(Acc + B1, S, Sh, tm[1], te)
MaupitiEquiv ==
    (IsLayer /\ Sh # -1) => MaupitiOut = MatchOut + LoOut
PadOK == IsLayer => PadValue(Impl, LoIn, LoOut) = LoIn
SelRanges ==
    IsSel => /\ Sh \in 0..(spos - 1)
             /\ S \in 1..U
             /\ FitsI32(B1, S)
Ranges ==
    IsLayer => /\ MatchOut \in ActLo("match", ob)..ActHi("match", ob)
               /\ MaupitiOut \in LoOut..HiOut
ScaleIsCeil ==
    IsSel => \A s \in 0..(spos - 1) : ScaleFor(tm[1], te, s, sbit) = CeilClip(tm[1], te, s, U)
ShiftOptimal ==
    (IsSel /\ Sh # -1) =>
        \A s \in 0..(spos - 1) :
            /\ ~ErrLess(tm, te, sbit, s, Sh)
            /\ (s < Sh => ErrLess(tm, te, sbit, Sh, s))
\* the approximation never undershoots unless it saturates, and is closer than one step of the shift
ErrOneSided ==
    (IsSel /\ Sh # -1 /\ CeilDiv(tm[1] * Pow2(Sh), Pow2(te)) <= U) =>
        /\ S * Pow2(te) >= tm[1] * Pow2(Sh)
        /\ S * Pow2(te) - tm[1] * Pow2(Sh) < Pow2(te)

\* big-number operators (trace level) = plain operators (design level)
BridgeRequant ==
    (IsLayer /\ Sh # -1) =>
        LET zpr == ZeroPoint("ref", B1 * S, S, Sh, LoIn, LoOut, WSum) IN
        /\ RequantBig(BigInt(Acc), BigInt(S), BigInt(B1 * S), Sh, 0, L(ob))
              = Requant("ref", Acc, S, B1 * S, Sh, 0, L(ob))
        /\ RequantBig(BigInt(AccOff), BigInt(S), BigInt(zpr), Sh, LoOut, HiOut)
              = Requant("ref", AccOff, S, zpr, Sh, LoOut, HiOut)
BridgeZP ==
    (IsLayer /\ Sh # -1) =>
        \A im \in {"ref", "asis"} :
            ZeroPointBig(im, BigInt(B1 * S), BigInt(S), Sh, LoIn, LoOut, BigInt(WSum))
               = BigInt(ZeroPoint(im, B1 * S, S, Sh, LoIn, LoOut, WSum))
BridgeApprox ==
    (IsLayer /\ Sh # -1) =>
        LET an == ApproxNum(Acc + B1, S, Sh, tm[1], te) IN
        /\ ApproxCeilBig(1, BigInt(Acc + B1), BigInt(S), Sh, BigInt(tm[1]), -te)
              = CeilDiv(an, Pow2(Sh + te))
        /\ an < 268435456 =>
           ApproxCeilBig(4, BigInt(Acc + B1), BigInt(S), Sh, BigInt(tm[1]), -te)
              = CeilDiv(4 * an, Pow2(Sh + te))
BridgeScale ==
    IsSel => \A s \in 0..(spos - 1) :
        ScaleForBig(BigInt(tm[1]), -te, s, sbit) = BigInt(CeilClip(tm[1], te, s, U))
BridgeSelect ==
    (Mode \in {"layer", "approx"} /\ ph = "sel") =>
        ShiftSelectBig([i \in DOMAIN tm |-> BigInt(tm[i])], [i \in DOMAIN tm |-> -te],
                       [i \in DOMAIN b |-> BigInt(b[i])], sbit, spos) = sh

(***************************************************************************)
(* mode "edge": the boundary of the documented option ranges               *)
(* (shift_pos up to 32, i.e. shifts 0..31; scale_bit 1..32; shift_pos 0/1) *)
(* with unbounded integers.  Targets are tm/2^s with odd tm, so that the   *)
(* approximation is first exact at shift s and EVERY shift 0..31 is the    *)
(* selected one in some state (EdgeEveryShift).                            *)
(***************************************************************************)
IsEdgeSel  == Mode = "edge" /\ ph = "sel"
IsEdge     == Mode = "edge" /\ ph = "done"
ES    == sc[1]
EB    == BigInt(b[1])
EAcc  == w[1] * x[1] + w[2] * x[2]
EAccOff == w[1] * (x[1] + LoIn) + w[2] * (x[2] + LoIn)
EMatch == RequantImplBig(Impl, BigInt(EAcc), ES, BigMul(EB, ES), sh, 0, L(ob))
EFake  == FakeLevelBig(BigInt(EAcc + b[1]), BigInt(tm[1]), -te, ob)
EZP    == ZeroPointBig("ref", BigMul(EB, ES), ES, sh, LoIn, LoOut, BigInt(WSum))

EdgeSel ==
    IsEdgeSel => /\ sh \in -1..(spos - 1)
                 /\ sh # -1 => /\ BigLe(BigInt(1), ES) /\ BigLe(ES, BigPow2(sbit - 1))
                               /\ BigFitsI32(BigMul(EB, ES))
                 /\ sh = -1 => \A s \in 0..(spos - 1) : OverflowBig(EdgeTmB, EdgeTes, <<EB>>, s, sbit)
\* the exact shift is the selected one whenever it is admissible
EdgeEveryShift ==
    (IsEdgeSel /\ te < spos /\ BigLe(BigInt(tm[1]), BigPow2(sbit - 1)) /\ BigFitsI32(BigMul(EB, BigInt(tm[1]))))
        => (sh = te /\ ES = BigInt(tm[1]))
EdgeLevel ==
    IsEdge => Abs(EMatch - EFake) <= 1 + ApproxFloorBig(BigInt(EAcc + b[1]), ES, sh, BigInt(tm[1]), -te)
EdgeMaupiti ==
    IsEdge => RequantImplBig(Impl, BigInt(EAccOff), ES, EZP, sh, LoOut, HiOut) = EMatch + LoOut
EdgeRange == IsEdge => EMatch \in 0..L(ob)

(***************************************************************************)
(* mode "approx"                                                           *)
(***************************************************************************)
IsApprox == Mode = "approx" /\ ph = "sel"
ASh == sh
Shifts == 0..(spos - 1)

SelNone  == IsApprox => (ASh = -1 <=> \A s \in Shifts : Overflow(tm, te, b, s, sbit))
SelSound == (IsApprox /\ ASh # -1) => (ASh \in Shifts /\ ~Overflow(tm, te, b, ASh, sbit))
SelOptimal ==
    (IsApprox /\ ASh # -1) =>
        \A s \in Shifts : ~Overflow(tm, te, b, s, sbit) =>
            /\ ~ErrLess(tm, te, sbit, s, ASh)
            /\ (s < ASh => ErrLess(tm, te, sbit, ASh, s))
ScalesRange ==
    IsApprox => \A s \in Shifts, i \in DOMAIN tm : ScaleFor(tm[i], te, s, sbit) \in 1..UpperBound(sbit)
ErrBelowStep ==
    IsApprox => \A s \in Shifts, i \in DOMAIN tm :
        CeilDiv(tm[i] * Pow2(s), Pow2(te)) <= UpperBound(sbit) => ErrNum(tm[i], te, s, sbit) < Pow2(te)
\* the 32-bit test on native integers agrees with the big-number test
BridgeFits ==
    IsApprox => \A s \in Shifts, i \in DOMAIN tm :
        LET scl == ScaleFor(tm[i], te, s, sbit)
        IN  FitsI32(b[i], scl) <=> BigFitsI32(BigMul(BigInt(b[i]), BigInt(scl)))

(***************************************************************************)
(* mode "big": identities against native integers                          *)
(***************************************************************************)
IsBig == Mode = "big" /\ ph = "done"
Small(v) == Abs(v) <= 32768
Cap(v) == IF v >= CapI THEN CapI ELSE IF v <= -CapI THEN -CapI ELSE v

BigRoundTrip == IsBig => \A i \in 1..3 : BigOk(BigInt(x[i])) /\ BigToIntCap(BigInt(x[i])) = Cap(x[i])
BigAddOK ==
    IsBig => /\ BigToIntCap(BigAdd(BigInt(x[1] \div 2), BigInt(x[2] \div 2))) = Cap(x[1] \div 2 + x[2] \div 2)
             /\ BigToIntCap(BigSub(BigInt(x[1] \div 2), BigInt(x[2] \div 2))) = Cap(x[1] \div 2 - x[2] \div 2)
             /\ BigOk(BigAdd(BigInt(x[1]), BigInt(x[2]))) /\ BigOk(BigSub(BigInt(x[1]), BigInt(x[2])))
             /\ BigAdd(BigSub(BigInt(x[1]), BigInt(x[2])), BigInt(x[2])) = BigInt(x[1])
BigCmpOK ==
    IsBig => BigCmp(BigInt(x[1]), BigInt(x[2])) = (IF x[1] < x[2] THEN -1 ELSE IF x[1] > x[2] THEN 1 ELSE 0)
BigMulOK ==
    IsBig => /\ (Small(x[1]) /\ Small(x[2])) => BigToIntCap(BigMul(BigInt(x[1]), BigInt(x[2]))) = Cap(x[1] * x[2])
             \* multi-limb products: ring identities
             /\ BigMul(BigInt(x[1]), BigAdd(BigInt(x[2]), BigInt(x[3])))
                  = BigAdd(BigMul(BigInt(x[1]), BigInt(x[2])), BigMul(BigInt(x[1]), BigInt(x[3])))
             /\ BigMul(BigMul(BigInt(x[1]), BigInt(x[2])), BigInt(x[3]))
                  = BigMul(BigInt(x[1]), BigMul(BigInt(x[2]), BigInt(x[3])))
             /\ BigMul(BigInt(x[1]), BigInt(x[2])) = BigMul(BigInt(x[2]), BigInt(x[1]))
             /\ BigOk(BigMul(BigInt(x[1]), BigInt(x[2])))
BigShiftOK ==
    IsBig => /\ BigToIntCap(BigFloorShr(BigInt(x[1]), spos)) = Cap(x[1] \div Pow2(spos))
             /\ BigToIntCap(BigCeilShr(BigInt(x[1]), spos)) = Cap(CeilDiv(x[1], Pow2(spos)))
             /\ BigFloorShr(BigShl(BigMul(BigInt(x[1]), BigInt(x[2])), spos), spos) = BigMul(BigInt(x[1]), BigInt(x[2]))
             /\ BigShl(BigMul(BigInt(x[1]), BigInt(x[2])), spos) = BigMul(BigInt(x[1]), BigMul(BigInt(x[2]), BigPow2(spos)))
             /\ BigOk(BigShl(BigInt(x[1]), spos)) /\ BigOk(BigFloorShr(BigMul(BigInt(x[1]), BigInt(x[2])), spos))
             \* floor((p*2^k + r) / 2^k) = p for 0 <= r < 2^k
             /\ (x[3] >= 0 /\ x[3] < Pow2(spos)) =>
                   BigFloorShr(BigAdd(BigShl(BigMul(BigInt(x[1]), BigInt(x[2])), spos), BigInt(x[3])), spos)
                      = BigMul(BigInt(x[1]), BigInt(x[2]))
=============================================================================
