SPECIFICATION Spec
CONSTANTS
  Mode = "reassign"
  Impl = "ref"
  NP = 2
  NCh = 3
  BitsSel = "2-8"
  CMin = 1
  CMax = 1
  Extra = 0
INVARIANT InvAllAssigned
INVARIANT InvCountsMet
INVARIANT InvNoLowered
INVARIANT InvIdentity
