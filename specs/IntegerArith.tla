---------------------------- MODULE IntegerArith ----------------------------
(***************************************************************************)
(* Integer arithmetic of the MATCH / MAUPITI backends of plinio            *)
(* (plinio/methods/mps/quant/backends/...), property C14.                  *)
(*                                                                         *)
(* Extends QuantArith (the integer-grid quantiser models of C13) with      *)
(*   Part A  the requantisation of an integer layer                        *)
(*             out = clip(floor((acc*scale + addend) / 2^shift), lo, hi)   *)
(*           the activation ranges of the two backends, MAUPITI's          *)
(*           zero-point and padding value, the fake-quantised image the    *)
(*           integer layer has to reproduce and the property's bound;      *)
(*   Part B  `binary_search` (utils.py) and `_integer_approximation`       *)
(*           (scale per channel, ONE shift per layer = first strict        *)
(*           minimum of the mean error among the shifts whose bias*scale   *)
(*           fits 32 bits), statement by statement;                        *)
(*   Part C  arbitrary-precision integers (TLC integers are 32 bit; real   *)
(*           layers have 24/32-bit scales and 2^20 accumulators): the same *)
(*           operators on sign / base-2^14 limb records, used by the trace *)
(*           specification on operands logged from real layers.  Their     *)
(*           agreement with Part A / B on small operands is an invariant   *)
(*           of IntegerizeMC (mode "big");                                 *)
(*   Part D  the life-cycle of a conversion: which weights / quantiser     *)
(*           statistics / options a call of integerize_arch must use.      *)
(*                                                                         *)
(* No reals: the float target  s_w*s_x/s_y  of the approximation is a      *)
(* DYADIC rational  tm / 2^te  (every float is one), `impl` selects a      *)
(* transcription where the pinned code deviates from the intended          *)
(* arithmetic:                                                             *)
(*   "ref"   intended: MAUPITI removes the INPUT offset -2^(in_bits-1) in  *)
(*           the zero-point and pads with the image of 0 in the INPUT      *)
(*           domain                                                        *)
(*   "asis"  pinned MAUPITI: both use the OUTPUT precision (finding F14;   *)
(*           identical to "ref" when in_bits = out_bits)                   *)
(*   "round" / "nobias" / "zpsign"  deliberately wrong variants, used only *)
(*           by expected-to-fail sanity configurations.                    *)
(* Variable-free operator library; IntegerizeMC / IntegerizeTrace use it.  *)
(***************************************************************************)
EXTENDS QuantArith, Sequences

Clip(v, lo, hi) == Min2(Max2(v, lo), hi)
CeilDiv(a, d)   == -((-a) \div d)                 \* d > 0

(***************************************************************************)
(* Part A.  ranges, requantisation, zero-point                             *)
(***************************************************************************)
\* activation range a backend declares for `bits` bits
ActLo(backend, bits) == IF backend = "maupiti" THEN -Pow2(bits - 1) ELSE 0
ActHi(backend, bits) == IF backend = "maupiti" THEN Pow2(bits - 1) - 1 ELSE Pow2(bits) - 1

\* MATCH*.forward / MAUPITI*.forward (not the last layer):
\*   out = clip(floor((acc * scale + addend) / 2^shift), clip_inf, clip_sup)
\* addend = add_bias = b_int*scale (MATCH) or the zero-point (MAUPITI)
Requant(impl, acc, scale, addend, shift, lo, hi) ==
    LET num == IF impl = "nobias" THEN acc * scale ELSE acc * scale + addend
        q   == IF impl = "round" THEN RNE(num, Pow2(shift)) ELSE Floor(num, Pow2(shift))
    IN  Clip(q, lo, hi)

\* MAUPITI: activations are stored offset by lo = -2^(bits-1).  With x' = x + loIn:
\*   acc' = sum w*x' = acc + loIn*wsum, and the result has to be offset by loOut, hence
\*   zp = b*scale + loOut*2^shift - loIn*scale*wsum
\* The pinned code uses clip_inf (= loOut) for both offsets.
ZeroPoint(impl, bscaled, scale, shift, loIn, loOut, wsum) ==
    LET inOff == IF impl \in {"asis"} THEN loOut ELSE loIn
    IN  IF impl = "zpsign"
        THEN bscaled + loOut * Pow2(shift) + inOff * scale * wsum
        ELSE bscaled + loOut * Pow2(shift) - inOff * scale * wsum

\* value MAUPITIConv2d pads with: must be the image of 0 in the INPUT domain
PadValue(impl, loIn, loOut) == IF impl = "asis" THEN loOut ELSE loIn

\* image of the fake-quantised counterpart (PACT output quantiser with L = 2^ob - 1 steps,
\* ideal scales): floor((acc + b) * T) clipped to [0, L];  T = tm / 2^te
FakeLevel(acc, b, tm, te, ob) == Clip(Floor((acc + b) * tm, Pow2(te)), 0, L(ob))

\* the property's bound: |acc + b| * |scale/2^shift - T|, floor and ceiling (common denominator 2^(shift+te))
ApproxNum(x, scale, shift, tm, te) == Abs(x) * Abs(scale * Pow2(te) - tm * Pow2(shift))
ApproxFloor(x, scale, shift, tm, te) == ApproxNum(x, scale, shift, tm, te) \div Pow2(shift + te)
ApproxCeil(x, scale, shift, tm, te)  == CeilDiv(ApproxNum(x, scale, shift, tm, te), Pow2(shift + te))

(***************************************************************************)
(* Part B.  binary_search and _integer_approximation                       *)
(***************************************************************************)
\* binary_search(div = 2^-sh, low, high, x = tm/2^te):   x ? mid*div   <=>   tm*2^sh ? mid*2^te
RECURSIVE BinarySearch(_, _, _, _, _)
BinarySearch(tm, te, sh, low, high) ==
    IF high # low
    THEN LET mid == (low + high) \div 2
             lhs == tm * Pow2(sh)
             rhs == mid * Pow2(te)
         IN  IF lhs = rhs THEN mid
             ELSE IF lhs < rhs THEN BinarySearch(tm, te, sh, low, mid)
             ELSE BinarySearch(tm, te, sh, mid + 1, high)
    ELSE low

\* what the search computes in closed form: the smallest m in [1, U] with m/2^sh >= T, else U
CeilClip(tm, te, sh, U) == Clip(CeilDiv(tm * Pow2(sh), Pow2(te)), 1, U)

UpperBound(scaleBit) == Pow2(scaleBit - 1)

\* scale of one channel for shift sh
ScaleFor(tm, te, sh, scaleBit) == BinarySearch(tm, te, sh, 1, UpperBound(scaleBit))

\* |scale/2^sh - T| * 2^(sh+te)
ErrNum(tm, te, sh, scaleBit) == Abs(ScaleFor(tm, te, sh, scaleBit) * Pow2(te) - tm * Pow2(sh))

\* channels: sequences tms (targets tm/2^te, common te) and bs (integer biases)
RECURSIVE SumErr(_, _, _, _, _)
SumErr(tms, te, sh, scaleBit, i) ==
    IF i > Len(tms) THEN 0 ELSE ErrNum(tms[i], te, sh, scaleBit) + SumErr(tms, te, sh, scaleBit, i + 1)

\* mean error of shift a  <  mean error of shift b   (cross-multiplied; same n, same te)
ErrLess(tms, te, scaleBit, a, b) ==
    SumErr(tms, te, a, scaleBit, 1) * Pow2(b) < SumErr(tms, te, b, scaleBit, 1) * Pow2(a)

\* 32-bit constraint on bias*scale, evaluated without leaving TLC's 32-bit integers
MaxI32 == 2147483647
FitsI32(b, s) ==                                   \* -2^31 <= b*s <= 2^31 - 1,   s >= 1
    IF b >= 0 THEN b <= MaxI32 \div s
    ELSE LET n == -b  q == MaxI32 \div s  r == MaxI32 % s
         IN  \* n*s <= 2^31 = q*s + r + 1
             n <= q \/ (n = q + 1 /\ s <= r + 1)

Overflow(tms, te, bs, sh, scaleBit) ==
    \E i \in DOMAIN tms : ~FitsI32(bs[i], ScaleFor(tms[i], te, sh, scaleBit))

\* the selection loop:  for sh in 0..shiftPos-1:  if avg[sh] < min_diff and not overflow: take it
\* best = -1 encodes min_diff = inf / min_shift = None
RECURSIVE SelectFrom(_, _, _, _, _, _, _)
SelectFrom(tms, te, bs, scaleBit, shiftPos, sh, best) ==
    IF sh >= shiftPos THEN best
    ELSE IF ~Overflow(tms, te, bs, sh, scaleBit)
            /\ (best = -1 \/ ErrLess(tms, te, scaleBit, sh, best))
         THEN SelectFrom(tms, te, bs, scaleBit, shiftPos, sh + 1, sh)
         ELSE SelectFrom(tms, te, bs, scaleBit, shiftPos, sh + 1, best)

ShiftSelect(tms, te, bs, scaleBit, shiftPos) == SelectFrom(tms, te, bs, scaleBit, shiftPos, 0, -1)

(***************************************************************************)
(* Part C.  arbitrary-precision integers                                   *)
(*   natural  = little-endian sequence of limbs in 0..2^14-1, no trailing  *)
(*              zero limb (<<>> is 0)                                      *)
(*   integer  = [s |-> 1 | -1, m |-> natural]   (0 has s = 1)              *)
(* A column of the schoolbook product is at most min(len)*2^28 + carry, so *)
(* at least one factor must have at most 7 limbs (98 bits).                *)
(***************************************************************************)
LB   == 14
BASE == 16384

Limb(a, i) == IF i >= 1 /\ i <= Len(a) THEN a[i] ELSE 0

RECURSIVE NatNorm(_)
NatNorm(a) == IF Len(a) > 0 /\ a[Len(a)] = 0 THEN NatNorm(SubSeq(a, 1, Len(a) - 1)) ELSE a

RECURSIVE NatFromInt(_)
NatFromInt(n) == IF n = 0 THEN <<>> ELSE <<n % BASE>> \o NatFromInt(n \div BASE)     \* n >= 0

\* well-formedness of a logged natural
NatOk(a) == /\ \A i \in DOMAIN a : a[i] \in 0..(BASE - 1)
            /\ (Len(a) > 0 => a[Len(a)] # 0)

RECURSIVE NatCmpFrom(_, _, _)
NatCmpFrom(a, b, i) ==                              \* compare limbs i, i-1, ..., 1
    IF i = 0 THEN 0
    ELSE IF Limb(a, i) < Limb(b, i) THEN -1
    ELSE IF Limb(a, i) > Limb(b, i) THEN 1
    ELSE NatCmpFrom(a, b, i - 1)
NatCmp(a, b) == NatCmpFrom(a, b, Max2(Len(a), Len(b)))

RECURSIVE NatAddFrom(_, _, _, _, _)
NatAddFrom(a, b, i, n, carry) ==
    IF i > n THEN (IF carry = 0 THEN <<>> ELSE <<carry>>)
    ELSE LET t == Limb(a, i) + Limb(b, i) + carry
         IN  <<t % BASE>> \o NatAddFrom(a, b, i + 1, n, t \div BASE)
NatAdd(a, b) == NatNorm(NatAddFrom(a, b, 1, Max2(Len(a), Len(b)), 0))

RECURSIVE NatSubFrom(_, _, _, _, _)
NatSubFrom(a, b, i, n, borrow) ==                   \* a >= b
    IF i > n THEN <<>>
    ELSE LET t == Limb(a, i) - Limb(b, i) - borrow
         IN  IF t < 0 THEN <<t + BASE>> \o NatSubFrom(a, b, i + 1, n, 1)
             ELSE <<t>> \o NatSubFrom(a, b, i + 1, n, 0)
NatSub(a, b) == NatNorm(NatSubFrom(a, b, 1, Len(a), 0))

RECURSIVE ColSum(_, _, _, _)
ColSum(a, b, k, i) ==                               \* sum over i' >= i of a[i'] * b[k + 1 - i']
    IF i > Len(a) \/ i > k THEN 0
    ELSE a[i] * Limb(b, k + 1 - i) + ColSum(a, b, k, i + 1)

RECURSIVE NatMulFrom(_, _, _, _)
NatMulFrom(a, b, k, carry) ==
    IF k > Len(a) + Len(b) THEN (IF carry = 0 THEN <<>> ELSE <<carry>>)
    ELSE LET t == ColSum(a, b, k, 1) + carry
         IN  <<t % BASE>> \o NatMulFrom(a, b, k + 1, t \div BASE)
\* the shorter factor drives the column sums
NatMul(a, b) == IF Len(a) = 0 \/ Len(b) = 0 THEN <<>>
                ELSE IF Len(a) <= Len(b) THEN NatNorm(NatMulFrom(a, b, 1, 0))
                ELSE NatNorm(NatMulFrom(b, a, 1, 0))

\* floor(a / 2^k)
NatShr(a, k) ==
    LET q == k \div LB
        r == k % LB
        n == Max2(Len(a) - q, 0)
    IN  NatNorm([i \in 1..n |->
                    (Limb(a, i + q) \div Pow2(r)) + (Limb(a, i + q + 1) % Pow2(r)) * Pow2(LB - r)])

\* a * 2^k
NatShl(a, k) ==
    LET q == k \div LB
        r == k % LB
        n == Len(a) + q + 1
    IN  IF Len(a) = 0 THEN <<>>
        ELSE NatNorm([i \in 1..n |->
                    IF i <= q THEN 0
                    ELSE (Limb(a, i - q) % Pow2(LB - r)) * Pow2(r) + (Limb(a, i - q - 1) \div Pow2(LB - r))])

\* a mod 2^k = 0
NatLowZero(a, k) ==
    LET q == k \div LB
        r == k % LB
    IN  /\ \A i \in 1..Min2(q, Len(a)) : a[i] = 0
        /\ Limb(a, q + 1) % Pow2(r) = 0

\* value if below 2^30, else 2^30 (cap of everything that is logged)
CapI == 1073741824
NatToIntCap(a) ==
    IF Len(a) > 3 THEN CapI
    ELSE IF Limb(a, 3) >= 4 THEN CapI
    ELSE Limb(a, 1) + Limb(a, 2) * BASE + Limb(a, 3) * BASE * BASE

\* ---- signed ----
BigOk(x)   == x.s \in {1, -1} /\ NatOk(x.m) /\ (Len(x.m) = 0 => x.s = 1)
Big(s, m)  == [s |-> IF Len(m) = 0 THEN 1 ELSE s, m |-> m]
BigInt(n)  == IF n >= 0 THEN Big(1, NatFromInt(n)) ELSE Big(-1, NatFromInt(-n))
BigZero    == Big(1, <<>>)
BigNeg(x)  == Big(-x.s, x.m)
BigAbs(x)  == Big(1, x.m)
BigIsZero(x) == Len(x.m) = 0

BigAdd(x, y) ==
    IF x.s = y.s THEN Big(x.s, NatAdd(x.m, y.m))
    ELSE LET c == NatCmp(x.m, y.m)
         IN  IF c = 0 THEN BigZero
             ELSE IF c > 0 THEN Big(x.s, NatSub(x.m, y.m))
             ELSE Big(y.s, NatSub(y.m, x.m))
BigSub(x, y) == BigAdd(x, BigNeg(y))
BigMul(x, y) == Big(x.s * y.s, NatMul(x.m, y.m))
BigShl(x, k) == Big(x.s, NatShl(x.m, k))

\* -1 / 0 / 1
BigCmp(x, y) ==
    IF x.s # y.s THEN x.s
    ELSE x.s * NatCmp(x.m, y.m)
BigLe(x, y) == BigCmp(x, y) <= 0
BigLt(x, y) == BigCmp(x, y) < 0

\* floor(x / 2^k), ceil(x / 2^k)
BigFloorShr(x, k) ==
    IF x.s = 1 THEN Big(1, NatShr(x.m, k))
    ELSE IF NatLowZero(x.m, k) THEN Big(-1, NatShr(x.m, k))
    ELSE Big(-1, NatAdd(NatShr(x.m, k), <<1>>))
BigCeilShr(x, k) == BigNeg(BigFloorShr(BigNeg(x), k))

BigToIntCap(x) == x.s * NatToIntCap(x.m)

BigPow2(k) == Big(1, NatShl(<<1>>, k))
BigClip(x, lo, hi) == IF BigLt(x, lo) THEN lo ELSE IF BigLt(hi, x) THEN hi ELSE x

\* ---- the operators of Part A / B on big operands ----
\* clip(floor((acc*scale + addend) / 2^shift), lo, hi)  with small lo, hi
RequantBig(acc, scale, addend, shift, lo, hi) ==
    BigToIntCap(BigClip(BigFloorShr(BigAdd(BigMul(acc, scale), addend), shift), BigInt(lo), BigInt(hi)))

ZeroPointBig(impl, bscaled, scale, shift, loIn, loOut, wsum) ==
    LET inOff == IF impl = "asis" THEN loOut ELSE loIn
    IN  BigSub(BigAdd(bscaled, BigMul(BigInt(loOut), BigPow2(shift))),
               BigMul(BigInt(inOff), BigMul(scale, wsum)))

\* target T = tm * 2^te with te any integer (te < 0 for T < 1): both scale/2^shift and T over 2^k,
\* k = max(shift, -te)
DyK(shift, te) == Max2(shift, Max2(-te, 0))
\* |scale/2^shift - T| * 2^k
ApproxNumBig(scale, shift, tm, te) ==
    LET k == DyK(shift, te)
    IN  BigAbs(BigSub(BigShl(scale, k - shift), BigShl(tm, k + te)))
\* ceil(mul * |x| * |scale/2^shift - T|)   (capped)
ApproxCeilBig(mul, x, scale, shift, tm, te) ==
    BigToIntCap(BigCeilShr(BigMul(BigInt(mul), BigMul(BigAbs(x), ApproxNumBig(scale, shift, tm, te))),
                           DyK(shift, te)))

\* clip(ceil(T * 2^sh), 1, 2^(scaleBit-1)) : what binary_search returns for a float target
ScaleForBig(tm, te, sh, scaleBit) ==
    LET e == te + sh
        c == IF e >= 0 THEN BigShl(tm, e) ELSE BigCeilShr(tm, -e)
    IN  BigClip(c, BigInt(1), BigPow2(scaleBit - 1))

\* -2^31 <= x <= 2^31 - 1
BigFitsI32(x) == BigLe(BigNeg(BigPow2(31)), x) /\ BigLt(x, BigPow2(31))

\* ---- _integer_approximation on float targets: channel c has target tms[c] * 2^tes[c] (tes[c] any integer) ----
RECURSIVE MaxNegExp(_, _)
MaxNegExp(tes, i) == IF i > Len(tes) THEN 0 ELSE Max2(-tes[i], MaxNegExp(tes, i + 1))
\* common exponent: every scale/2^sh (sh < shiftPos) and every target is an integer over 2^K
CommonK(tes, shiftPos) == Max2(shiftPos, MaxNegExp(tes, 1))

\* |scale/2^sh - T_c| * 2^K
ErrBigAt(tmc, tec, sh, scaleBit, K) ==
    BigAbs(BigSub(BigShl(ScaleForBig(tmc, tec, sh, scaleBit), K - sh), BigShl(tmc, K + tec)))

RECURSIVE SumErrBig(_, _, _, _, _, _)
SumErrBig(tms, tes, sh, scaleBit, K, i) ==
    IF i > Len(tms) THEN BigZero
    ELSE BigAdd(ErrBigAt(tms[i], tes[i], sh, scaleBit, K), SumErrBig(tms, tes, sh, scaleBit, K, i + 1))

OverflowBig(tms, tes, bs, sh, scaleBit) ==
    \E i \in DOMAIN tms : ~BigFitsI32(BigMul(bs[i], ScaleForBig(tms[i], tes[i], sh, scaleBit)))

\* best = <<shift, sum of errors>> or <<-1, 0>>
RECURSIVE SelectFromBig(_, _, _, _, _, _, _, _)
SelectFromBig(tms, tes, bs, scaleBit, shiftPos, K, sh, best) ==
    IF sh >= shiftPos THEN best[1]
    ELSE LET e == SumErrBig(tms, tes, sh, scaleBit, K, 1)
         IN  IF ~OverflowBig(tms, tes, bs, sh, scaleBit) /\ (best[1] = -1 \/ BigLt(e, best[2]))
             THEN SelectFromBig(tms, tes, bs, scaleBit, shiftPos, K, sh + 1, <<sh, e>>)
             ELSE SelectFromBig(tms, tes, bs, scaleBit, shiftPos, K, sh + 1, best)

ShiftSelectBig(tms, tes, bs, scaleBit, shiftPos) ==
    SelectFromBig(tms, tes, bs, scaleBit, shiftPos, CommonK(tes, shiftPos), 0, <<-1, BigZero>>)

\* floor(|x| * |scale/2^shift - T|)
ApproxFloorBig(x, scale, shift, tm, te) ==
    BigToIntCap(BigFloorShr(BigMul(BigAbs(x), ApproxNumBig(scale, shift, tm, te)), DyK(shift, te)))

\* ---- the boundary of the option ranges: shifts up to 31, scales up to 2^31 -------------------------------
\* image of the fake-quantised counterpart with unbounded integers: clip(floor(x * tm * 2^te), 0, 2^ob - 1)
FakeLevelBig(x, tm, te, ob) ==
    LET p == BigMul(x, tm)
        q == IF te >= 0 THEN BigShl(p, te) ELSE BigFloorShr(p, -te)
    IN  BigToIntCap(BigClip(q, BigInt(0), BigInt(L(ob))))

\* 2^shift as a 32-bit two's-complement operand (what `2 ** shift` is when the shift is an int32 tensor):
\* exact up to 30, -2^31 at 31
Wrap32Pow2Neg(shift) == shift = 31

\* The REFERENCE requantisation is RequantBig: unbounded integers, every admissible shift 0..31.
\* impl "wrap32" (deliberately wrong, expected-to-fail sanity variant): the divisor 2^shift is evaluated in 32-bit
\* two's complement, so that at shift 31 the division is by -2^31 and the sign of every pre-activation flips.
RequantImplBig(impl, acc, scale, addend, shift, lo, hi) ==
    IF impl = "wrap32" /\ Wrap32Pow2Neg(shift)
    THEN BigToIntCap(BigClip(BigFloorShr(BigNeg(BigAdd(BigMul(acc, scale), addend)), shift), BigInt(lo), BigInt(hi)))
    ELSE RequantBig(acc, scale, addend, shift, lo, hi)

(***************************************************************************)
(* Part D.  life-cycle of a conversion (variable-free part; the state      *)
(* machine is IntegerizeLife, the trace walk is in IntegerizeTrace).       *)
(*                                                                         *)
(* The fake-quantised model has WEIGHTS of version wv (0 after export();   *)
(* every load_state_dict / optimizer step / in-place edit makes a new      *)
(* version) and weight-quantiser STATISTICS of version sv: MinMaxWeight    *)
(* keeps ch_min / ch_max as plain attributes that only a forward of the    *)
(* quantiser refreshes (they are not in the state_dict), and `scale` is    *)
(* derived from them.  The process holds per-backend option DEFAULTS.      *)
(* integerize_arch(deepcopy(model), backend, options):                     *)
(*   wFrom      version of the weights the integer weights are made of     *)
(*   statsFrom  version of the statistics behind the stored s_w, hence     *)
(*              behind scale / shift / integer bias                        *)
(*   used       <<scale_bit, shift_pos>> the layers were built with        *)
(*   replaced   every Quant layer of the graph became a backend layer      *)
(*   defs'      process defaults afterwards                                *)
(* impl "ref": intended;  "stale": s_w read before the quantiser is re-run *)
(* on the current weights;  "sticky": the options of a call are merged     *)
(* INTO the process defaults;  "flatnames": the backend layer is           *)
(* registered under the fx node name, which is the module path only for    *)
(* top-level attributes.  An option value 0 means "not passed".            *)
(***************************************************************************)
Opt(sb, sp)   == [sb |-> sb, sp |-> sp]
DeclaredOpts(backend) == IF backend = "match" THEN Opt(24, 24) ELSE Opt(16, 32)
DeclaredDefs  == [bk \in {"match", "maupiti"} |-> DeclaredOpts(bk)]
MergeOpts(base, o) == Opt(IF o.sb = 0 THEN base.sb ELSE o.sb, IF o.sp = 0 THEN base.sp ELSE o.sp)

LifeInit == [wv |-> 0, sv |-> 0, defs |-> DeclaredDefs]
LifeFwd(st) == [st EXCEPT !.sv = st.wv]
LifeUpd(st) == [st EXCEPT !.wv = st.wv + 1]
\* result of one conversion and the state after it (the conversion works on a deep copy of the model)
LifeInt(impl, st, backend, o, nest) ==
    LET base == IF impl = "sticky" THEN st.defs[backend] ELSE DeclaredOpts(backend)
        used == IF backend = "maupiti" THEN DeclaredOpts(backend) ELSE MergeOpts(base, o)
    IN  [res |-> [backend |-> backend, o |-> o, wAt |-> st.wv,
                  wFrom |-> st.wv,
                  statsFrom |-> IF impl = "stale" THEN st.sv ELSE st.wv,
                  used |-> used,
                  replaced |-> (impl # "flatnames" \/ nest = "flat"),
                  kwMut |-> FALSE],
         st  |-> IF impl = "sticky" /\ backend = "match"
                 THEN [st EXCEPT !.defs = [st.defs EXCEPT ![backend] = used]] ELSE st]
=============================================================================
