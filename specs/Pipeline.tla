------------------------------ MODULE Pipeline ------------------------------
(***************************************************************************)
(* The documented PLiNIO optimisation PIPELINE applied to ONE network,      *)
(* stage after stage (system-level check "PIPE"; composes the stage         *)
(* properties C01 / C04 / C07 (PIT), C02 / C05 (MPS), C14 (integer          *)
(* backends)):                                                              *)
(*                                                                         *)
(*   seed -> PIT search -> export() -> [PIT search -> export()] ->          *)
(*   MPS search -> export() -> integerize_arch(MATCH | MAUPITI)             *)
(*                                                                         *)
(* Every stage consumes the OUTPUT of the previous one.  This module is the *)
(* variable-free operator library: what each stage must hand to the next.   *)
(*                                                                         *)
(* Architectures are the node-sequence records of FeatGraph.  The central   *)
(* operator is  ExportArch(a, m, T, fold) : the FeatGraph record of the     *)
(* network that PIT.export() must return for architecture a, per-layer      *)
(* output masks m, kept kernel geometry T and the fold_bn option.  It is    *)
(* LOCAL (every layer only learns its own surviving outputs / taps); that   *)
(* the shapes of the result compose, and that its derived widths are the    *)
(* alive counts of the reference dataflow (FeatGraph!ActM), is what the     *)
(* design-level invariants of PipelineMC establish and what PipelineTrace   *)
(* decides on the real exported torch modules.                              *)
(*                                                                         *)
(* MPS operators come from MPSLife (quantisation points, quantiser groups,  *)
(* exact bit costs); the integer ranges from IntegerArith.                  *)
(***************************************************************************)
EXTENDS MPSLife

MA == INSTANCE MaskAlgebra
IA == INSTANCE IntegerArith

(* ------------------------------ normal form ----------------------------- *)
(* plinio classifies a convolution as depthwise (features-PROPAGATING) iff  *)
(* groups = in_channels = out_channels.  A generic convolution that is left *)
(* with one input and one output channel satisfies the test: in the NEXT    *)
(* stage it is a depthwise layer (it joins the sharing component of its     *)
(* producer).  The normal form makes that explicit, so that all dataflow    *)
(* operators see the network as the next stage will.                        *)
DefNode(op, ins) ==
    [op |-> op, ins |-> ins, out |-> 0, k |-> 1, d |-> 1, s |-> 1, bias |-> TRUE, bn |-> FALSE,
     dw |-> FALSE, excl |-> FALSE, causal |-> FALSE, reuse |-> 0]

DwLike(dw, cin, cout) == dw \/ (cin = 1 /\ cout = 1)

NormNode(a, n) ==
    LET nd == Nd(a, n) IN
    CASE nd.op = "conv" ->
            LET dwl == DwLike(nd.dw, Ch(a, nd.ins[1]), nd.out) IN
            [nd EXCEPT !.out = IF dwl THEN 0 ELSE nd.out, !.dw = dwl, !.d = IF nd.k = 1 THEN 1 ELSE nd.d,
                       !.causal = (a.dim = 1 /\ nd.causal), !.reuse = 0]
      [] nd.op = "lin"  -> [DefNode("lin", nd.ins) EXCEPT !.out = nd.out, !.bias = nd.bias, !.bn = nd.bn, !.excl = nd.excl]
      [] OTHER          -> DefNode(nd.op, nd.ins)
NormArch(a) == [dim |-> a.dim, c0 |-> a.c0, sp |-> a.sp, nodes |-> [n \in 1..N(a) |-> NormNode(a, n)]]

(* ------------------------------ well-formedness ------------------------- *)
(* (i) "the architecture handed to stage k+1 is well formed": references    *)
(* point backwards, shapes compose, every layer kind is known, no tensor    *)
(* has width / length zero, every tensor is consumed.                       *)
PipeOps == {"conv", "lin", "relu", "id", "pool", "flat", "add", "cat", "sig", "tanh", "silu", "drop"}
InsOk(a, n) == LET nd == Nd(a, n) IN
               /\ Len(nd.ins) >= 1
               /\ \A i \in DOMAIN nd.ins : nd.ins[i] \in 0..(n - 1)
SameGrid(a, p, q) == Sp(a, p) = Sp(a, q) /\ SpW(a, p) = SpW(a, q) /\ IsFlat(a, p) = IsFlat(a, q)
NodeWF(a, n) ==
    LET nd == Nd(a, n)  p == nd.ins[1] IN
    /\ nd.op \in PipeOps
    /\ CASE nd.op = "conv" -> /\ Len(nd.ins) = 1 /\ ~IsFlat(a, p)
                              /\ nd.k >= 1 /\ nd.d >= 1 /\ nd.s >= 1 /\ (nd.dw \/ nd.out >= 1)
                              /\ (a.dim = 2 => nd.d = 1 /\ nd.k % 2 = 1)
                              /\ (a.dim = 1 /\ ~nd.causal => nd.s = 1)
         [] nd.op = "lin"  -> Len(nd.ins) = 1 /\ IsFlat(a, p) /\ nd.out >= 1
         [] nd.op = "add"  -> /\ Len(nd.ins) = 2
                              /\ Ch(a, nd.ins[1]) = Ch(a, nd.ins[2]) /\ SameGrid(a, nd.ins[1], nd.ins[2])
         [] nd.op = "cat"  -> Len(nd.ins) >= 2 /\ \A i \in DOMAIN nd.ins : SameGrid(a, nd.ins[1], nd.ins[i])
         [] nd.op = "pool" -> Len(nd.ins) = 1 /\ ~IsFlat(a, p) /\ Sp(a, p) >= 2 /\ (a.dim = 1 \/ SpW(a, p) >= 2)
         [] nd.op = "flat" -> Len(nd.ins) = 1 /\ ~IsFlat(a, p)
         [] OTHER          -> Len(nd.ins) = 1
    /\ Ch(a, n) >= 1 /\ Sp(a, n) >= 1 /\ SpW(a, n) >= 1
UsedT(a, t) == \E n \in 1..N(a) : t \in SeqSet(Ins(a, n))
WF(a) == /\ a.dim \in {1, 2} /\ a.c0 >= 1 /\ a.sp >= 1 /\ N(a) >= 1
         /\ \A n \in 1..N(a) : InsOk(a, n)
         /\ \A n \in 1..N(a) : NodeWF(a, n)
         /\ \A t \in 0..(N(a) - 1) : UsedT(a, t)
\* first node that breaks well-formedness (for messages); 0 if none
FirstBadNode(a) == IF \E n \in 1..N(a) : ~InsOk(a, n) THEN CHOOSE n \in 1..N(a) : ~InsOk(a, n)
                   ELSE IF \E n \in 1..N(a) : ~NodeWF(a, n)
                   THEN CHOOSE n \in 1..N(a) : ~NodeWF(a, n) /\ \A x \in 1..(n - 1) : NodeWF(a, x)
                   ELSE 0

(* ------------------------------ stage domains --------------------------- *)
NoReuseNoExcl(a) == \A n \in Layers(a) : Nd(a, n).reuse = 0 /\ ~Nd(a, n).excl
\* what the PIT stage is documented to support (C01 / C09): FeatGraph!Supported
PitDomain(a) == WF(a) /\ NoReuseNoExcl(a) /\ Supported(a)
\* the MPS stage: the grammar of C02 (no concatenation, zero-preserving element-wise ops are irrelevant to it)
MpsOps == {"conv", "lin", "relu", "id", "pool", "flat", "add"}
MpsDomain(a) == WF(a) /\ NoReuseNoExcl(a) /\ \A n \in 1..N(a) : Op(a, n) \in MpsOps
\* the integer backends convert Conv2d and Linear only (match_layer_map / maupiti_layer_map)
IntDomain(a) == MpsDomain(a) /\ a.dim = 2

(* ------------------------------ PIT: search result ---------------------- *)
\* layers whose receptive field / dilation PIT searches: stride-1 Conv1d (strided ones get frozen time maskers)
TimeLayers(a) == {n \in SearchLayers(a) : a.dim = 1 /\ Op(a, n) = "conv" /\ Nd(a, n).s = 1}
\* kernel geometry kept by a set S of taps of a K-tap kernel with dilation d0 (taps 0..K-1, tap K-1 = current sample):
\* exportable as a dilated convolution iff the kept taps are evenly spaced and include the last one
SortedTaps(S) == MA!SortedSeq(S)
EvenlySpaced(S) == LET q == SortedTaps(S) IN \A i \in 2..(Len(q) - 1) : q[i + 1] - q[i] = q[2] - q[1]
GeomOfTaps(K, d0, S) ==
    LET q == SortedTaps(S) IN
    [k |-> Cardinality(S), d |-> IF Cardinality(S) >= 2 THEN (q[2] - q[1]) * d0 ELSE 1]
TapsExportable(K, S) == S # {} /\ S \subseteq 0..(K - 1) /\ (K - 1) \in S /\ EvenlySpaced(S)
\* T of a (cut, lev) choice per time layer (design level): the kept taps are suffix x power-of-two comb
KeptOf(K, c) == MA!Kept("last", K, MA!BetaOfCut(K, c.cut), MA!GammaOfLev(K, c.lev))
TOfChoice(a, tm) == [n \in DOMAIN tm |-> GeomOfTaps(Nd(a, n).k, Nd(a, n).d, KeptOf(Nd(a, n).k, tm[n]))]
TimeOf(a, T, n)  == IF n \in DOMAIN T THEN T[n] ELSE [k |-> Nd(a, n).k, d |-> IF Nd(a, n).k = 1 THEN 1 ELSE Nd(a, n).d]

(* ------------------------------ PIT: export ----------------------------- *)
ExpNode(a, m, T, fold, n) ==
    LET nd == Nd(a, n)  srch == Searchable(a, n) IN
    IF nd.op = "conv" THEN
        LET cout == IF srch THEN Count(m[n]) ELSE Ch(a, n)
            cin  == Count(ActM(a, m, nd.ins[1]))
            dwl  == DwLike(nd.dw, cin, cout)
            tt   == TimeOf(a, T, n) IN
        [nd EXCEPT !.out = IF dwl THEN 0 ELSE cout, !.dw = dwl, !.k = tt.k, !.d = IF tt.k = 1 THEN 1 ELSE tt.d,
                   !.bias = nd.bias \/ (fold /\ nd.bn /\ srch), !.bn = nd.bn /\ ~(fold /\ srch),
                   !.excl = FALSE, !.reuse = 0]
    ELSE IF nd.op = "lin" THEN
        [nd EXCEPT !.out = IF srch THEN Count(m[n]) ELSE nd.out,
                   !.bias = nd.bias \/ (fold /\ nd.bn /\ srch), !.bn = nd.bn /\ ~(fold /\ srch), !.excl = FALSE]
    ELSE nd
\* (the result is already in normal form when a is)
ExportArch(a, m, T, fold) == [a EXCEPT !.nodes = [n \in 1..N(a) |-> ExpNode(a, m, T, fold, n)]]

\* (ii) abstract function preservation = alignment: the derived width of every tensor of the exported network is the
\* number of channels the reference dataflow says can be non-zero in the masked network, grids are untouched, and every
\* pruned channel reaches its consumers as exact zeros
Aligned(a, m, x) ==
    /\ N(x) = N(a)
    /\ \A n \in 0..N(a) : Ch(x, n) = Count(ActM(a, m, n)) /\ Sp(x, n) = Sp(a, n) /\ SpW(x, n) = SpW(a, n)
    /\ ZeroPreservedM(a, m)
FirstMisaligned(a, m, x) == CHOOSE n \in 0..N(a) : Ch(x, n) # Count(ActM(a, m, n)) \/ Sp(x, n) # Sp(a, n)

(* ------------------------------ costs of a PLAIN network ---------------- *)
(* FeatGraph!ParamsOf / OpsOf on the static shapes: what the built-in size / *)
(* operation metrics give "from scratch" on an ordinary torch network.       *)
PitMetrics == {"params", "params_no_bias", "ops", "ops_no_bias"}
SiteCost(metric, a, n, cin, cout, keff, bias) ==
    CASE metric = "params"         -> ParamsOf(a, n, cin, cout, keff, bias)
      [] metric = "params_no_bias" -> ParamsOf(a, n, cin, cout, keff, FALSE)
      [] metric = "ops"            -> OpsOf(a, n, cin, cout, keff, bias)
      [] metric = "ops_no_bias"    -> OpsOf(a, n, cin, cout, keff, FALSE)
LayerCost(metric, a, n) == SiteCost(metric, a, n, Ch(a, In1(a, n)), Ch(a, n), Nd(a, n).k, Nd(a, n).bias)
RECURSIVE PSum(_, _)
PSum(f, S) == IF S = {} THEN 0 ELSE LET x == CHOOSE y \in S : TRUE IN f[x] + PSum(f, S \ {x})
ArchCost(metric, a) == PSum([n \in Layers(a) |-> LayerCost(metric, a, n)], Layers(a))
\* what the PIT model must charge with discrete_cost = True: every searchable layer with the inputs that are alive in the
\* tensor that reaches it, its own alive outputs, the kept taps, and the bias it has after conversion
PitSiteCost(metric, a, m, T, fold, n) ==
    SiteCost(metric, a, n, Count(ActM(a, m, In1(a, n))), Count(m[n]), TimeOf(a, T, n).k,
             Nd(a, n).bias \/ (fold /\ Nd(a, n).bn))
PitCost(metric, a, m, T, fold) ==
    PSum([n \in SearchLayers(a) |-> PitSiteCost(metric, a, m, T, fold, n)], SearchLayers(a))
NumelOf(a) == ArchCost("params", a)

(* ------------------------------ PIT: summary() -------------------------- *)
\* (iv) what summary() of the searched PIT model reports for layer n, AS IMPLEMENTED (input features from the features
\* calculator the layer was given: FeatGraph!ToldM), and the geometry of the same layer in the network stage k+1 receives
PitSummary(a, m, T, n) == [i |-> Count(ToldM(a, m, n)), o |-> Count(m[n]), k |-> TimeOf(a, T, n).k]
GeomIn(x, n) == IF IsDw(x, n) THEN Ch(x, n) ELSE Ch(x, In1(x, n))
LayerGeom(x, n) == [i |-> GeomIn(x, n), o |-> Ch(x, n), k |-> Nd(x, n).k]

(* ------------------------------ MPS ------------------------------------- *)
\* MPS folds Conv2d-BN and Linear-BN into the layer (a bias appears); Conv1d-BN stays a float BatchNorm
FoldsBN(a, n) == IsLayer(a, n) /\ Nd(a, n).bn /\ (a.dim = 2 \/ Op(a, n) = "lin")
MpsImportArch(a) ==
    [a EXCEPT !.nodes = [n \in 1..N(a) |-> IF FoldsBN(a, n) THEN [Nd(a, n) EXCEPT !.bias = TRUE, !.bn = FALSE] ELSE Nd(a, n)]]
\* per-layer search: export() keeps the geometry
MpsExportArch(a) == a
\* per layer: weight bits w, input bits ab  ->  the two bit-aware metrics in terms of the PLAIN metrics of the same layer
\* (iii) cost accounting chain between the stages
BitFromPlain(metric, a, L, w, ab) ==
    IF metric = "params_bit" THEN w * LayerCost("params_no_bias", a, L)
    ELSE w * ab * LayerCost("ops_no_bias", a, L)
UniformBits(wb) == \A c \in DOMAIN wb : wb[c] = wb[1]

(* ------------------------------ integer backends ------------------------ *)
\* MAUPITI removes ReLU (the clip of the requantiser implements it): relu -> identity
IntArch(a, be) ==
    IF be = "maupiti"
    THEN [a EXCEPT !.nodes = [n \in 1..N(a) |-> IF Nd(a, n).op = "relu" THEN DefNode("id", Nd(a, n).ins) ELSE Nd(a, n)]]
    ELSE a
\* scenario predicates of the integer-stage findings on the architecture the stage receives
KF_NoBias(a)   == \E L \in Layers(a) : ~Nd(a, L).bias                \* F12
KF_IntAdd(a)   == \E n \in 1..N(a) : Op(a, n) = "add"                \* F70 (pipeline only): quantiser after a residual add
KF_FinalConv(a) == Op(a, N(a)) = "conv"                               \* F31
LastLayer(a)   == CHOOSE L \in Layers(a) : \A x \in Layers(a) : x <= L

(* ------------------------------ tolerance classes ----------------------- *)
(* (ii) function preservation chain.  What each hand-over claims about       *)
(* output(stage k+1 input model) vs output(stage k exported model):          *)
(*   "roundoff"  float64, |diff| <= 1e-9 (1 + max|y|)      PIT import / export *)
(*   "none"      MPS import quantises: nothing is claimed                      *)
(*   "exact"     float32 bit identity                      MPS export          *)
(*   "level"     one quantisation level per layer + the stated bound, final   *)
(*               logits within the stated tolerance        integer backends   *)
ClaimOf(step) == CASE step \in {"pit", "pitx"} -> "roundoff"
                   [] step = "mps"  -> "none"
                   [] step = "mpsx" -> "exact"
                   [] step = "int"  -> "level"
                   [] OTHER -> "exact"
RoundoffE12 == 1000          \* 1e-9 in units of 1e-12
=============================================================================
