SPECIFICATION Spec
CONSTANTS
  Impl = "fixed"
  Kind = "pit"
  Temps = {1000}
  Hetero = FALSE
  Part = "ctl"
  Dims = {"features"}
  HOpts = {"temp", "hard", "gumbel", "disable"}
  Forking = TRUE
INVARIANT NeverDiverge
