SPECIFICATION Spec
CONSTANTS
    Impl = "ref"
    Kind = "pit"
    Half = "modes"
    Temps = {1000}
    MaxBn = 2
    TrackHist = FALSE
    MaxLen = 0
INVARIANT TypeOK
INVARIANT NoNewKeys
INVARIANT SamplerConsistent
PROPERTY ObserversNeutral
PROPERTY SetterFrame
PROPERTY OptionFrame
PROPERTY ModeFrame
