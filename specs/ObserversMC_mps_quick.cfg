SPECIFICATION Spec
CONSTANTS
    Impl = "ref"
    Kind = "mps"
    Half = "modes"
    Temps = {1000}
    MaxBn = 1
    TrackHist = FALSE
    MaxLen = 0
INVARIANT TypeOK
INVARIANT NoNewKeys
INVARIANT SamplerConsistent
PROPERTY ObserversNeutral
PROPERTY SetterFrame
PROPERTY OptionFrame
PROPERTY ModeFrame
