SPECIFICATION Spec
CONSTANTS
  Impl = "sentinel"
  MaxLen = 3
  TypesId = {"A"}
  AllowDf = TRUE
INVARIANT ImplMatchesRefId
INVARIANT OrderIndependentId
