SPECIFICATION Spec
CONSTANTS
    Impl = "valuesonly"
    Kind = "sn"
    Half = "modes"
    Temps = {1000}
    MaxBn = 1
    TrackHist = TRUE
    MaxLen = 3
INVARIANT TypeOK
INVARIANT Erasure
