SPECIFICATION Spec
CONSTANTS
  Impl = "asis"
  MaxNodes = 2
  Widths = {2}
  Dims = {1, 2}
  C0 = 2
  Sp0 = 2
  Methods = {"PIT", "SN", "MPS"}
  Twos = {"no", "cat"}
  AllowPl = TRUE
  AllowExcl = TRUE
  AllowReuse = TRUE
  AllowFindings = FALSE
INVARIANT InvFnPreserved
INVARIANT InvUserParams
INVARIANT InvUserFn
INVARIANT InvModeKept
INVARIANT InvExportIso
INVARIANT InvBnAccount
