--------------------------- MODULE CostLookupTrace ---------------------------
(***************************************************************************)
(* Trace validation for C15.  One trace = one execution against the real   *)
(* plinio.cost.CostSpec:                                                   *)
(*   [dflt |-> "zero"|"fail",                                              *)
(*    ev   |-> << [a |-> "reg", ty, p] | [a |-> "get", ty, d, res] ...>>]  *)
(* d = the layer description (cin, cout, groups, kernel, usr flag); which  *)
(* constraints it satisfies is decided by CostLookup!RefSat.               *)
(* "reg" events are replayed with the spec's Register step; for every      *)
(* "get" event the logged result `res` (as observed on the real object) is *)
(* compared with RefLookup on the history registered SO FAR.               *)
(* Verdict is total: "ok", "known:F15:..." (signature of the listed        *)
(* finding, decided here) or the failing clause.                           *)
(***************************************************************************)
EXTENDS CostLookup, Json, IOUtils, TLC

Traces == JsonDeserialize(IOEnv.TRACE_FILE)

VARIABLES tid, verdict

ToSet(s) == {s[i] : i \in DOMAIN s}

\* walk the events; carry the registration history
\* dreg = registrations that associate the spec's own default function object (identity extension of CostLookup)
IsDf(e) == "df" \in DOMAIN e /\ e.df
RECURSIVE Walk(_, _, _, _, _)
Walk(ev, i, reg, dreg, dflt) ==
    IF i > Len(ev) THEN "ok"
    ELSE LET e == ev[i] IN
         IF e.a = "reg"
         THEN IF <<e.ty, e.p>> \in Range(reg)
              THEN "trace: duplicate registration"
              ELSE Walk(ev, i + 1, Append(reg, <<e.ty, e.p>>), IF IsDf(e) THEN dreg \cup {<<e.ty, e.p>>} ELSE dreg, dflt)
         ELSE \* "get"
              LET sat  == RefSat(e.d)      \* decided HERE from the logged layer description, not by the harness
                  ref  == RefLookupId(reg, dreg, e.ty, sat, dflt)      \* by the layer's OWN type; default object = default
                  obs  == e.res
              IN  IF obs = ref
                  THEN Walk(ev, i + 1, reg, dreg, dflt)
                  ELSE IF obs = Scan("pinned", reg, e.ty, sat, dflt) /\ F15Signature(reg, e.ty, sat)
                       THEN "known:F15:lookup raises a conflict although only one constrained pattern matches (constrained registered before unconstrained)"
                       ELSE "C15.lookup event " \o ToString(i) \o ": observed " \o ToString(obs)
                                \o " expected " \o ToString(ref)

Check(t) == Walk(t.ev, 1, <<>>, {}, t.dflt)

Init == tid \in 1..Len(Traces) /\ verdict = Check(Traces[tid])
Next == UNCHANGED <<tid, verdict>>
Spec == Init /\ [][Next]_<<tid, verdict>>
VerdictOk == verdict = "ok"
=============================================================================
