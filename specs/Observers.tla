------------------------------ MODULE Observers ------------------------------
(***************************************************************************)
(* C18 - export(), summary(), cost and get_cost() are OBSERVERS of a NAS   *)
(* model.  Operator library (no variables).                                *)
(*                                                                         *)
(* The abstract CORE of a PIT / MPS / SuperNet wrapper is what a call can  *)
(* change and what decides every later observation:                        *)
(*   wt    .training of the wrapper                                        *)
(*   st    .training of the inner (seed) model and its layers              *)
(*   theta class of the sampled coefficients stored in the model           *)
(*         "-" (PIT has none) | "soft" | "hard" (one-hot)                  *)
(*   bn    number of BatchNorm statistics updates so far (saturating)      *)
(*   dk    attribute keys added to the __dict__ of modules of the model    *)
(*         since construction (abstract: a set of key classes)             *)
(* plus, not modelled but observed on the real object as opaque values,    *)
(* parameters, buffers, requires_grad flags, outputs, costs, summary.      *)
(* The cost specification cs in {"A","B"} (single CostSpec) or "D" (dict)  *)
(* is not part of the core: switching it must leave the core alone.        *)
(*                                                                         *)
(* Calls (records, field a):                                               *)
(*   [a |-> "export", nobn |-> BOOLEAN]    export() / export(add_bn=False) *)
(*   [a |-> "summary"]  [a |-> "cost"]  [a |-> "getcost", n |-> "a"|"b"]   *)
(*   [a |-> "setcs", c |-> "A"|"B"|"D"]    cost_specification = ...        *)
(*   [a |-> "forward"]                     forward pass on a batch         *)
(*   [a |-> "mode", v |-> BOOLEAN]         .train() / .eval()              *)
(*                                                                         *)
(* Next(impl, ...) is the effect of a call on the core:                    *)
(*   impl = "ref"     what the property demands (observers = identity)     *)
(*   impl = "pinned"  literal model of the pinned code: the three export() *)
(*                    trace self.seed.eval() and run a shape-propagation   *)
(*                    forward on the LIVE seed, never restoring the mode   *)
(*                    (F16), which for MPS also re-samples the persistent  *)
(*                    theta_alpha buffers in eval mode (F35)               *)
(*   impl = "f16"     pinned + the candidate repair of F16 (mode restored) *)
(*   impl = "costkeys" ref, except that cost / get_cost hand the LIVE      *)
(*                    vars(module) dictionary to the cost functions and    *)
(*                    update it (F36: MPSAdd under vmap; F37: fixed /      *)
(*                    branch layers get 'output_shape')                    *)
(***************************************************************************)
EXTENDS Naturals, Sequences, FiniteSets

Kinds       == {"pit", "mps", "sn"}
Specs       == {"A", "B", "D"}
ObserverOps == {"export", "summary", "cost", "getcost"}
IsObserver(a) == a.a \in ObserverOps

Min2(x, y) == IF x < y THEN x ELSE y

\* class of the coefficients a forward pass leaves in the model (deterministic samplers: softmax, no Gumbel noise)
\*   MPS      : STE arg-max whenever hard_softmax or the quantiser is in eval mode
\*   SuperNet : one-hot only with hard_softmax (the softmax sampler does not look at the mode)
Sampled(kind, hard, st) ==
    IF kind = "pit" THEN "-"
    ELSE IF kind = "mps" THEN (IF hard \/ ~st THEN "hard" ELSE "soft")
    ELSE (IF hard THEN "hard" ELSE "soft")

\* P = [hard |-> BOOLEAN, hasbn |-> BOOLEAN, maxbn |-> Nat]
FwdCore(kind, P, c) ==
    [c EXCEPT !.theta = Sampled(kind, P.hard, c.st),
              !.bn    = IF c.st /\ P.hasbn THEN Min2(c.bn + 1, P.maxbn) ELSE c.bn]

RefNext(kind, P, c, a) ==
    IF a.a = "forward" THEN FwdCore(kind, P, c)
    ELSE IF a.a = "mode" THEN [c EXCEPT !.wt = a.v, !.st = a.v]
    ELSE c                                   \* observers and the cost-specification setter

\* the pinned export: convert(self.seed, ..., 'export') = trace(seed.eval()); ShapeProp forward on the live seed
PinnedExport(kind, P, c, restore) ==
    [c EXCEPT !.st    = IF restore THEN c.st ELSE FALSE,
              !.theta = Sampled(kind, P.hard, FALSE)]

ImplNext(impl, kind, P, c, a) ==
    IF impl = "ref" THEN RefNext(kind, P, c, a)
    ELSE IF impl = "costkeys"
         THEN (IF a.a \in {"cost", "getcost"} THEN [c EXCEPT !.dk = c.dk \cup {"costkeys"}] ELSE RefNext(kind, P, c, a))
    ELSE IF a.a = "export" THEN PinnedExport(kind, P, c, impl = "f16")
    ELSE IF a.a = "summary" /\ kind = "sn"
         THEN [c EXCEPT !.theta = Sampled(kind, P.hard, c.st)]   \* SuperNetCombiner.summary() re-samples
    ELSE RefNext(kind, P, c, a)

\* which calls exist for a kind / specification
Enabled(kind, cs, a) ==
    /\ (a.a = "export" /\ a.nobn => kind = "pit")
    /\ (a.a = "cost" => cs # "D")
    /\ (a.a = "getcost" => cs = "D")
    /\ (a.a = "setcs" => a.c # cs)

(***************************************************************************)
(* Sequences of calls: running a sequence and running it with every        *)
(* observer call erased must end in the same core ("the search can         *)
(* continue afterwards exactly as if they had not been called").           *)
(***************************************************************************)
RECURSIVE Run(_, _, _, _, _, _)
Run(impl, kind, P, c, seq, i) ==
    IF i > Len(seq) THEN c
    ELSE Run(impl, kind, P, ImplNext(impl, kind, P, c, seq[i]), seq, i + 1)

Erase(seq) == SelectSeq(seq, LAMBDA a : ~IsObserver(a))

ErasureOk(impl, kind, P, c0, seq) ==
    Run(impl, kind, P, c0, seq, 1) = Run(impl, kind, P, c0, Erase(seq), 1)

\* specification after a sequence of calls (for "switching it and switching it back")
RECURSIVE SpecAfter(_, _, _)
SpecAfter(cs, seq, i) ==
    IF i > Len(seq) THEN cs
    ELSE SpecAfter(IF seq[i].a = "setcs" THEN seq[i].c ELSE cs, seq, i + 1)
=============================================================================
