------------------------------ MODULE Observers ------------------------------
(***************************************************************************)
(* C18 - export(), summary(), cost and get_cost() are OBSERVERS of a NAS   *)
(* model.  Operator library (no variables).                                *)
(*                                                                         *)
(* The abstract CORE of a PIT / MPS / SuperNet wrapper is what a call can  *)
(* change and what decides every later observation:                        *)
(*   wt    .training of the wrapper                                        *)
(*   st    .training of the inner (seed) model and its layers; the two     *)
(*         differ right after SuperNet(...) (the constructor leaves the    *)
(*         layers in eval mode under a wrapper whose flag is True) and     *)
(*         after nas.seed.train() / nas.seed.eval()                        *)
(*   gl    'grad link': the coefficients stored in the model carry the     *)
(*         autograd graph of the forward pass that sampled them, so that   *)
(*         cost.backward() reaches the architectural parameters without a  *)
(*         new forward pass (TRUE after a forward pass; PIT stores none)   *)
(*   frz   the BatchNorm layers have been put in eval mode individually    *)
(*         while the rest of the inner model is in training mode           *)
(*   theta class of the sampled coefficients stored in the model           *)
(*         "-" (PIT has none) | "soft" | "hard" (one-hot)                  *)
(*   bn    number of BatchNorm statistics updates so far (saturating)      *)
(*   opt   the option record as the user set it (see below)                *)
(*   samp  the sampling routine actually in force                          *)
(*   dk    attribute keys added to the __dict__ of modules of the model    *)
(*         since construction (abstract: a set of key classes)             *)
(* plus, not modelled but observed on the real object as opaque values,    *)
(* parameters, buffers, requires_grad flags, outputs, costs, summary.      *)
(* The cost specification cs in {"A","B"} (single CostSpec) or "D" (dict)  *)
(* is not part of the core: switching it must leave the core alone.        *)
(*                                                                         *)
(* Calls (records, field a):                                               *)
(*   [a |-> "export", nobn |-> BOOLEAN]    export() / export(add_bn=False) *)
(*   [a |-> "summary"]  [a |-> "cost"]  [a |-> "getcost", n |-> "a"|"b"]   *)
(*   [a |-> "setcs", c |-> "A"|"B"|"D", how |-> "s"|"f"|"i"]               *)
(*                                         cost_specification = a spec of  *)
(*                                         contents c, given as the built- *)
(*                                         in object ("s"), as a freshly   *)
(*                                         constructed temporary object    *)
(*                                         ("f"), or as the user's own     *)
(*                                         object changed IN PLACE to these*)
(*                                         contents ("i"): only the        *)
(*                                         contents may matter             *)
(*   [a |-> "forward"]                     forward pass on a batch         *)
(*   [a |-> "inspect"]                     str(), named_nas_parameters(),  *)
(*                                         named_net_parameters(), (MPS)   *)
(*                                         nas_parameters_summary()        *)
(*   [a |-> "mode", v |-> BOOLEAN]         nas.train() / nas.eval()        *)
(*   [a |-> "seedmode", v |-> BOOLEAN]     nas.seed.train() / .eval() only *)
(*   [a |-> "freezebn"]                    .eval() on every BatchNorm layer*)
(*                                         of the model (frozen statistics)*)
(*   [a |-> "upd", o |-> option, v |-> value]  one option call (NOT an     *)
(*                                         observer)                       *)
(*                                                                         *)
(* Next(impl, ...) is the effect of a call on the core:                    *)
(*   impl = "ref"     what the property demands (observers = identity)     *)
(*   impl = "pinned"  literal model of the pinned code: the three export() *)
(*                    trace self.seed.eval() and run a shape-propagation   *)
(*                    forward on the LIVE seed, never restoring the mode   *)
(*                    (F16), which for MPS also re-samples the persistent  *)
(*                    theta_alpha buffers in eval mode (F35)               *)
(*   impl = "f16"     pinned + the candidate repair of F16 (mode restored) *)
(*   impl = "valuesonly" ref, except that export() restores the stored     *)
(*                    coefficients by value only (no autograd graph)       *)
(*   impl = "rootmode" ref, except that export() restores one flag for the *)
(*                    whole inner model (frozen BatchNorm layers thaw)     *)
(*   impl = "wrapmode" ref, except that export() restores the inner model  *)
(*                    to the mode of the wrapper instead of its own        *)
(*   impl = "optreset" ref, except that export() switches sampling back ON *)
(*                    (disable := FALSE) instead of back to what it was    *)
(*   impl = "costkeys" ref, except that cost / get_cost hand the LIVE      *)
(*                    vars(module) dictionary to the cost functions and    *)
(*                    update it (F36: MPSAdd under vmap; F37: fixed /      *)
(*                    branch layers get 'output_shape')                    *)
(***************************************************************************)
EXTENDS Naturals, Sequences, FiniteSets

Kinds       == {"pit", "mps", "sn"}
Specs       == {"A", "B", "D"}
ObserverOps == {"export", "summary", "cost", "getcost", "inspect"}
IsObserver(a) == a.a \in ObserverOps

Min2(x, y) == IF x < y THEN x ELSE y

\* class of the coefficients a forward pass leaves in the model (the same for the softmax and the Gumbel sampler)
\*   MPS      : one-hot whenever hard_softmax or the quantiser is in eval mode
\*   SuperNet : one-hot only with hard_softmax (the eval-mode sampler is the plain softmax)
Sampled(kind, hard, st) ==
    IF kind = "pit" THEN "-"
    ELSE IF kind = "mps" THEN (IF hard \/ ~st THEN "hard" ELSE "soft")
    ELSE (IF hard THEN "hard" ELSE "soft")

(***************************************************************************)
(* Options (the "configuration" of the search, as the user set it) and the *)
(* sampler actually in force.  One record for the three kinds; a kind only *)
(* ever changes its own options:                                           *)
(*   MPS      temp, hard, gumbel, disable   update_softmax_options(...)    *)
(*   SuperNet temp, hard                    update_softmax_options(...)    *)
(*            (gumbel is a constructor argument of the SuperNetModules)    *)
(*   PIT      tf, trf, td, dc   train_features / train_rf / train_dilation *)
(*                              / discrete_cost := v                       *)
(* temp is the temperature x 1000; booleans are 0 / 1 in calls.            *)
(***************************************************************************)
OptNames(kind) == IF kind = "mps" THEN {"temp", "hard", "gumbel", "disable"}
                  ELSE IF kind = "sn" THEN {"temp", "hard"}
                  ELSE {"tf", "trf", "td", "dc"}

DefaultOpt == [temp |-> 1000, hard |-> FALSE, gumbel |-> FALSE, disable |-> FALSE,
               tf |-> TRUE, trf |-> TRUE, td |-> TRUE, dc |-> FALSE]

SetOpt(opt, o, v) == IF o = "temp" THEN [opt EXCEPT !.temp = v] ELSE [opt EXCEPT ![o] = (v = 1)]
OptIs(opt, o, v)  == IF o = "temp" THEN opt.temp = v ELSE opt[o] = (v = 1)

\* the sampling routine the options select: "sm" softmax | "gs" Gumbel softmax | "none" sampling disabled | "-" PIT
SamplerOf(kind, opt) ==
    IF kind = "pit" THEN "-"
    ELSE IF kind = "mps" /\ opt.disable THEN "none"
    ELSE IF opt.gumbel THEN "gs" ELSE "sm"

\* P = [hasbn |-> BOOLEAN, maxbn |-> Nat]
FwdCore(kind, P, c) ==
    [c EXCEPT !.theta = IF c.samp = "none" THEN c.theta ELSE Sampled(kind, c.opt.hard, c.st),
              !.gl    = IF kind = "pit" \/ c.samp = "none" THEN c.gl ELSE TRUE,
              !.bn    = IF c.st /\ ~c.frz /\ P.hasbn THEN Min2(c.bn + 1, P.maxbn) ELSE c.bn]

RefNext(kind, P, c, a) ==
    IF a.a = "forward" THEN FwdCore(kind, P, c)
    ELSE IF a.a = "mode" THEN [c EXCEPT !.wt = a.v, !.st = a.v, !.frz = FALSE]   \* nas.train() / nas.eval(): everything
    ELSE IF a.a = "seedmode" THEN [c EXCEPT !.st = a.v, !.frz = FALSE]            \* nas.seed.train() / .eval(): inner model only
    ELSE IF a.a = "freezebn" THEN [c EXCEPT !.frz = c.st]             \* every BatchNorm layer .eval() (statistics frozen)
    ELSE IF a.a = "upd" THEN LET o2 == SetOpt(c.opt, a.o, a.v) IN [c EXCEPT !.opt = o2, !.samp = SamplerOf(kind, o2)]
    ELSE c                                   \* observers and the cost-specification setter

\* the pinned export: convert(self.seed, ..., 'export') = trace(seed.eval()); ShapeProp forward on the live seed
PinnedExport(kind, P, c, restore) ==
    [c EXCEPT !.st    = IF restore THEN c.st ELSE FALSE,
              !.theta = IF c.samp = "none" THEN c.theta ELSE Sampled(kind, c.opt.hard, FALSE)]

\* an export() that protects the stored coefficients by switching sampling off around the conversion and then
\* switches it back ON instead of back to what it was (a seeded defect the check must see)
OptResetExport(kind, c) ==
    LET o2 == [c.opt EXCEPT !.disable = FALSE] IN [c EXCEPT !.opt = o2, !.samp = SamplerOf(kind, o2)]

ImplNext(impl, kind, P, c, a) ==
    IF impl = "ref" THEN RefNext(kind, P, c, a)
    ELSE IF impl = "costkeys"
         THEN (IF a.a \in {"cost", "getcost"} THEN [c EXCEPT !.dk = c.dk \cup {"costkeys"}] ELSE RefNext(kind, P, c, a))
    ELSE IF impl = "optreset"
         THEN (IF a.a = "export" THEN OptResetExport(kind, c) ELSE RefNext(kind, P, c, a))
    ELSE IF impl = "valuesonly"    \* export() puts the stored coefficients back BY VALUE (graph-less copies): the autograd link
                                   \* between the cost and the architectural parameters is gone until the next forward pass
         THEN (IF a.a = "export" /\ kind # "pit" THEN [c EXCEPT !.gl = FALSE] ELSE RefNext(kind, P, c, a))
    ELSE IF impl = "rootmode"      \* export() restores ONE flag for the whole inner model: individually frozen layers thaw
         THEN (IF a.a = "export" THEN [c EXCEPT !.frz = FALSE] ELSE RefNext(kind, P, c, a))
    ELSE IF impl = "wrapmode"      \* export() puts the inner model in the mode of the WRAPPER, not in the mode it had
         THEN (IF a.a = "export" THEN [c EXCEPT !.st = c.wt] ELSE RefNext(kind, P, c, a))
    ELSE IF a.a = "export" THEN PinnedExport(kind, P, c, impl = "f16")
    ELSE IF a.a = "summary" /\ kind = "sn" /\ c.samp # "none"
         THEN [c EXCEPT !.theta = Sampled(kind, c.opt.hard, c.st)]   \* SuperNetCombiner.summary() re-sampled
    ELSE RefNext(kind, P, c, a)

\* which calls exist for a kind / specification
Enabled(kind, cs, a) ==
    /\ (a.a = "export" /\ a.nobn => kind = "pit")
    /\ (a.a = "cost" => cs # "D")
    /\ (a.a = "getcost" => cs = "D")
    /\ (a.a = "setcs" => a.c # cs /\ (a.how = "i" => a.c # "D"))
    /\ (a.a = "upd" => a.o \in OptNames(kind))

(***************************************************************************)
(* Sequences of calls: running a sequence and running it with every        *)
(* observer call erased must end in the same core ("the search can         *)
(* continue afterwards exactly as if they had not been called").           *)
(***************************************************************************)
RECURSIVE Run(_, _, _, _, _, _)
Run(impl, kind, P, c, seq, i) ==
    IF i > Len(seq) THEN c
    ELSE Run(impl, kind, P, ImplNext(impl, kind, P, c, seq[i]), seq, i + 1)

Erase(seq) == SelectSeq(seq, LAMBDA a : ~IsObserver(a))

ErasureOk(impl, kind, P, c0, seq) ==
    Run(impl, kind, P, c0, seq, 1) = Run(impl, kind, P, c0, Erase(seq), 1)

\* specification after a sequence of calls (for "switching it and switching it back")
RECURSIVE SpecAfter(_, _, _)
SpecAfter(cs, seq, i) ==
    IF i > Len(seq) THEN cs
    ELSE SpecAfter(IF seq[i].a = "setcs" THEN seq[i].c ELSE cs, seq, i + 1)
=============================================================================
