SPECIFICATION Spec
INVARIANT VerdictOk
