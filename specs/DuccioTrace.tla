---------------------------- MODULE DuccioTrace ----------------------------
(***************************************************************************)
(* Trace validation for C19: executions of the real plinio.regularizers    *)
(* DUCCIO / BaseRegularizer on stub models and on real PIT / MPS models.   *)
(* Units: strengths are integer multiples of u = 2^-10 (so that float32    *)
(* evaluates everything exactly); observed values and gradients are logged *)
(* in units of u/64 (field frac = TRUE if the observed float was not an  *)
(* integer number of such units).                                          *)
(*                                                                         *)
(* [k |-> "hist", mode |-> "given"|"derived", n, t, mults | lossM, calls]  *)
(*    one DUCCIO object over a history of calls with the same n_epochs n;  *)
(*    given:   final strength of metric i = 100*n*mults[i] units           *)
(*    derived: from task loss lossM*100*n units at the first call          *)
(*             (Duccio!DerivedStrength on the costs of calls[1])           *)
(*    calls[j] = [e, c (costs), cls "fin"|"nan"|"inf"|"neg", v, frac, g]   *)
(*    g (optional, stub models) = d value / d cost_i                       *)
(* [k |-> "ramp", n, mult, v]   single metric, excess 1, v[e+1] = value at *)
(*    epoch e = 0..n  (= the effective strength itself)                    *)
(* [k |-> "rampg", n, sbits, bits, near, start]  the same for a generic    *)
(*    float32 strength: IEEE bit patterns (order-isomorphic for positive   *)
(*    floats); near[e+1] = value >= s*(1-2^-20), start = |100*v0 - s| <=   *)
(*    s*2^-20, both decided by the harness with exact rationals            *)
(* [k |-> "base", sU, c, v, frac]  BaseRegularizer: value = strength*cost  *)
(*    (strength sU units, exact)                                           *)
(* [k |-> "baseq", sM, c, vq, big, form]  BaseRegularizer with an arbitrary*)
(*    decimal strength sM * 10^sE given in any accepted form (python int / *)
(*    float, 0-d tensor, or omitted = the documented default 1e-3): vq is  *)
(*    the observed value in units of 10^(sE-2); clause |vq - 100*sM*c| <=  *)
(*    2 + 100*sM*c/10^6 (float32 round-off), big = value out of range      *)
(* [k |-> "life", mode, t, sU | lossU, calls]  one DUCCIO object called    *)
(*    with epoch AND n_epochs changing from call to call (a behaviour of   *)
(*    DuccioLife); calls[j] = [e, n, d (arguments omitted), c, cls, v,     *)
(*    frac, fcls, fv, ffrac] where f* is what a FRESH real regulariser     *)
(*    with the same final strengths returned for the same costs, epoch and *)
(*    n_epochs.  Property: every call equals the fresh one.                *)
(*                                                                         *)
(* Property clauses -> violation; equality with the formula where the      *)
(* property only states order facts -> drift.  Signature of defect F17     *)
(* (repaired in the repository; a match is therefore reported as a         *)
(* violation by the harness): strengths derived from the task loss while   *)
(* some metric is exactly at its target at the first call, and the value   *)
(* class is the one the pinned initialisation (DerivedStrengthPinned)      *)
(* produces.                                                               *)
(***************************************************************************)
EXTENDS Duccio, Json, IOUtils, TLC

Traces == JsonDeserialize(IOEnv.TRACE_FILE)

VARIABLES tid, verdict

Has(r, f) == f \in DOMAIN r
VU == 64                        \* value units per strength unit

\* first failing message of a sequence of <<ok, msg>> pairs, "ok" if none; drift messages
\* (prefix handled by caller) come last
RECURSIVE FirstBad(_, _)
FirstBad(checks, i) ==
    IF i > Len(checks) THEN "ok"
    ELSE IF checks[i][1] THEN FirstBad(checks, i + 1) ELSE checks[i][2]

\* ------------------------------------------------------------------ ramp (exact family)
CheckRamp(t) ==
    LET n == t.n
        V(e) == t.v[e + 1]                       \* observed effective strength, units/64
        S == 100 * n * t.mult * VU               \* final strength
    IN  IF Len(t.v) # n + 1 THEN "trace: ramp length"
        ELSE FirstBad(<<
          <<V(0) * 100 = S, "C19.ramp n=" \o ToString(n) \o ": strength at epoch 0 is not 1% of the final strength">>,
          <<\A e \in 0..(n - 1) : V(e + 1) >= V(e), "C19.ramp n=" \o ToString(n) \o ": effective strength decreases with the epoch">>,
          <<\A e \in 0..n : V(e) <= S, "C19.ramp n=" \o ToString(n) \o ": effective strength exceeds the final strength">>,
          <<\A e \in 0..n : 2 * e >= n => V(e) = S, "C19.ramp n=" \o ToString(n) \o ": final strength not reached at half the schedule">>,
          <<\A e \in 0..n : 2 * e < n => V(e) < S, "C19.ramp n=" \o ToString(n) \o ": final strength reached before half the schedule">>,
          <<\A e \in 0..n : V(e) = EffRed(t.mult, e, n) * VU,
            "drift:C19.ramp n=" \o ToString(n) \o ": values satisfy the property but are not the linear ramp of the model">>
        >>, 1)

\* ------------------------------------------------------------------ ramp (generic float32 strength)
CheckRampG(t) ==
    LET n == t.n
        B(e) == t.bits[e + 1]
    IN  IF Len(t.bits) # n + 1 \/ Len(t.near) # n + 1 THEN "trace: rampg length"
        ELSE FirstBad(<<
          <<t.start, "C19.rampg n=" \o ToString(n) \o ": strength at epoch 0 is not 1% of the final strength (rel. 2^-20)">>,
          <<\A e \in 0..(n - 1) : B(e + 1) >= B(e), "C19.rampg n=" \o ToString(n) \o ": effective strength decreases with the epoch">>,
          <<\A e \in 0..n : B(e) <= t.sbits, "C19.rampg n=" \o ToString(n) \o ": effective strength exceeds the final strength">>,
          <<\A e \in 0..n : 2 * e >= n => t.near[e + 1], "C19.rampg n=" \o ToString(n) \o ": final strength not reached at half the schedule (rel. 2^-20)">>,
          <<\A e \in 0..n : 2 * e < n => B(e) < t.sbits, "C19.rampg n=" \o ToString(n) \o ": final strength reached before half the schedule">>
        >>, 1)

\* ------------------------------------------------------------------ BaseRegularizer
CheckBase(t) ==
    IF t.frac \/ t.v # BaseVal(t.sU, t.c) * VU
    THEN "C19.base: value " \o ToString(t.v) \o "/64 u differs from strength*cost = " \o ToString(BaseVal(t.sU, t.c)) \o " u"
    ELSE "ok"

\* ------------------------------------------------------------------ DUCCIO histories
Strengths(t) ==
    \* as multipliers m (strength = 100 n m units); the task loss is lossM * 100 n units
    IF t.mode = "given" THEN [i \in DOMAIN t.t |-> Fin(t.mults[i])]
    ELSE [i \in DOMAIN t.t |-> DerivedStrength(t.lossM, t.calls[1].c[i], t.t[i])]

ExVec(c, t) == [i \in DOMAIN t |-> Excess(c[i], t[i])]
Leq(a, b)   == \A i \in DOMAIN a : a[i] <= b[i]

CheckHist(t) ==
    LET n   == t.n
        str == Strengths(t)
        K   == Len(t.calls)
        pos == AllPositive(str)
        f17 == t.mode = "derived" /\ \E i \in DOMAIN t.t : t.calls[1].c[i] = t.t[i]
        pin == [i \in DOMAIN t.t |-> DerivedStrengthPinned(t.lossM, t.calls[1].c[i], t.t[i])]
        finite(j) == t.calls[j].cls = "fin"
        callmsg(j) == "call " \o ToString(j) \o " (epoch " \o ToString(t.calls[j].e) \o "/" \o ToString(n)
                         \o ", costs " \o ToString(t.calls[j].c) \o ", targets " \o ToString(t.t) \o ")"
        \* per call property clauses
        bad1 == {j \in 1..K : ~finite(j)}
        bad2 == {j \in 1..K : finite(j) /\ AllWithin(t.calls[j].c, t.t) /\ t.calls[j].v # 0}
        bad3 == {j \in 1..K : finite(j) /\ pos /\ ~AllWithin(t.calls[j].c, t.t) /\ t.calls[j].v <= 0}
        \* grows with each excess (same epoch), monotone in the epoch (same costs)
        bad4 == {<<a, b>> \in (1..K) \X (1..K) :
                    /\ pos /\ finite(a) /\ finite(b) /\ t.calls[a].e = t.calls[b].e
                    /\ Leq(ExVec(t.calls[a].c, t.t), ExVec(t.calls[b].c, t.t))
                    /\ IF ExVec(t.calls[a].c, t.t) = ExVec(t.calls[b].c, t.t)
                       THEN t.calls[a].v # t.calls[b].v ELSE t.calls[a].v >= t.calls[b].v}
        bad5 == {<<a, b>> \in (1..K) \X (1..K) :
                    /\ finite(a) /\ finite(b) /\ t.calls[a].c = t.calls[b].c
                    /\ t.calls[a].e < t.calls[b].e /\ t.calls[a].v > t.calls[b].v}
        \* gradient: finite, non-negative, positive above target
        bad6 == {j \in 1..K : finite(j) /\ Has(t.calls[j], "g") /\
                    \/ (Has(t.calls[j], "gerr") /\ t.calls[j].gerr)      \* autograd refused the returned value
                    \/ \E i \in DOMAIN t.t : \/ t.calls[j].g[i] < 0
                                          \/ (pos /\ t.calls[j].c[i] > t.t[i] /\ t.calls[j].g[i] <= 0)}
        \* prediction
        drift == {j \in 1..K : finite(j) /\
                    \/ t.calls[j].frac
                    \/ t.calls[j].v # PenRed(str, t.calls[j].c, t.t, t.calls[j].e, n) * VU
                    \/ (Has(t.calls[j], "g") /\ \E i \in DOMAIN t.t :
                           /\ t.calls[j].c[i] # t.t[i] /\ str[i].fin
                           /\ t.calls[j].g[i] #
                                (IF t.calls[j].c[i] > t.t[i] THEN EffRed(str[i].v, t.calls[j].e, n) * VU ELSE 0))}
        any(S) == CHOOSE x \in S : TRUE
    IN  IF \E i \in DOMAIN t.t : t.mode = "derived" /\ ~DerivedExact(t.lossM, t.calls[1].c[i], t.t[i])
        THEN "trace: derived strength not exact"
        ELSE IF bad1 # {}
        THEN (IF f17 /\ \A j \in bad1 : t.calls[j].cls = PenClass(pin, t.calls[j].c, t.t, t.calls[j].e)
              THEN "known:F17:DUCCIO with task_loss and a metric exactly at its target at the first call: value is "
                       \o t.calls[any(bad1)].cls \o " at " \o callmsg(any(bad1))
              ELSE "C19.finite: value is " \o t.calls[any(bad1)].cls \o " at " \o callmsg(any(bad1)))
        ELSE IF bad2 # {} THEN "C19.zero: value is not zero although every cost is within its target, " \o callmsg(any(bad2))
        ELSE IF bad3 # {} THEN "C19.zero: value is not positive although a cost exceeds its target, " \o callmsg(any(bad3))
        ELSE IF bad4 # {} THEN "C19.grows: value does not grow with the excess between " \o callmsg(any(bad4)[1])
                                   \o " and " \o callmsg(any(bad4)[2])
        ELSE IF bad5 # {} THEN "C19.epoch: value decreases with the epoch between " \o callmsg(any(bad5)[1])
                                   \o " and " \o callmsg(any(bad5)[2])
        ELSE IF bad6 # {} THEN "C19.grad: gradient w.r.t. a cost cannot be computed, is negative, or is zero above target, " \o callmsg(any(bad6))
        ELSE IF drift # {} THEN "drift:C19 value/gradient satisfies the property but differs from the model formula at "
                                   \o callmsg(any(drift))
        ELSE "ok"

\* ------------------------------------------------------------------ BaseRegularizer, any strength form
CheckBaseQ(t) ==
    LET exp == 100 * t.sM * t.c
        d   == IF t.vq >= exp THEN t.vq - exp ELSE exp - t.vq
    IN  IF t.big \/ d > 2 + exp \div 1000000
        THEN "C19.base: strength given as " \o t.form \o " (" \o ToString(t.sM) \o "e" \o t.sE \o "), cost "
                 \o ToString(t.c) \o ": value " \o (IF t.big THEN "out of range" ELSE ToString(t.vq))
                 \o " differs from strength*cost = " \o ToString(exp) \o " (units of 1e-2 of the strength exponent)"
        ELSE "ok"

\* ------------------------------------------------------------------ life cycle of one object
RECURSIVE LifeAfter(_, _, _, _)
LifeAfter(t, L, life, j) ==        \* life-cycle state after the first j calls (Duccio!LifeCall)
    IF j = 0 THEN life
    ELSE LifeCall(LifeAfter(t, L, life, j - 1), L, t.t, t.calls[j])

CheckLife(t) ==
    LET K    == Len(t.calls)
        L    == IF t.mode = "given" THEN 0 ELSE t.lossU
        new  == LifeNew(t.mode, IF t.mode = "given" THEN [i \in DOMAIN t.t |-> Fin(t.sU[i])] ELSE <<>>)
        end  == LifeAfter(t, L, new, K)
        str  == end.str                 \* fixed at the first call, never revised (DuccioLife!InitOnce)
        pos  == AllPositive(str)
        f17  == t.mode = "derived" /\ \E i \in DOMAIN t.t : t.calls[1].c[i] = t.t[i]
        pin  == [i \in DOMAIN t.t |-> DerivedStrengthPinned(L, t.calls[1].c[i], t.t[i])]
        fin(j) == t.calls[j].cls = "fin"
        msg(j) == "call " \o ToString(j) \o " of " \o ToString(K) \o " (epoch " \o ToString(t.calls[j].e) \o ", n_epochs "
                     \o ToString(t.calls[j].n) \o (IF t.calls[j].d THEN " by default" ELSE "") \o ", costs "
                     \o ToString(t.calls[j].c) \o ", targets " \o ToString(t.t) \o "; earlier calls "
                     \o ToString([i \in 1..(j - 1) |-> <<t.calls[i].e, t.calls[i].n>>]) \o ")"
        final(j) == LET w == [i \in DOMAIN t.t |-> t.sU[i] * Excess(t.calls[j].c[i], t.t[i])] IN
                    (IF Len(w) = 1 THEN w[1] ELSE w[1] + w[2]) * VU
        bad1 == {j \in 1..K : ~fin(j)}
        \* history independence: equal to the fresh regulariser
        bad2 == {j \in 1..K : fin(j) /\ (t.calls[j].fcls # "fin" \/ t.calls[j].v # t.calls[j].fv)}
        bad3 == {j \in 1..K : fin(j) /\ AllWithin(t.calls[j].c, t.t) /\ t.calls[j].v # 0}
        bad4 == {j \in 1..K : fin(j) /\ pos /\ ~AllWithin(t.calls[j].c, t.t) /\ t.calls[j].v <= 0}
        \* given strengths: final strength from half the schedule on (incl. omitted arguments), 1% at epoch 0
        bad5 == {j \in 1..K : fin(j) /\ t.mode = "given" /\ Len(t.t) <= 2 /\
                    \/ (2 * t.calls[j].e >= t.calls[j].n /\ t.calls[j].v # final(j))
                    \/ (t.calls[j].e = 0 /\ t.calls[j].v * 100 # final(j))
                    \/ t.calls[j].v > final(j)}
        drift == {j \in 1..K : fin(j) /\
                    \/ t.calls[j].frac \/ ~PenExact(str, t.calls[j].e, t.calls[j].n)
                    \/ t.calls[j].v # FreshVal(str, t.t, t.calls[j]) * VU}
        any(S) == CHOOSE x \in S : TRUE
    IN  IF K = 0 \/ Len(t.t) > 2 THEN "trace: life shape"
        ELSE IF \E i \in DOMAIN t.t : t.mode = "derived" /\ ~DerivedExact(L, t.calls[1].c[i], t.t[i])
        THEN "trace: derived strength not exact"
        ELSE IF bad1 # {}
        THEN (IF f17 /\ \A j \in bad1 : t.calls[j].cls = PenClass(pin, t.calls[j].c, t.t, t.calls[j].e)
              THEN "known:F17:DUCCIO with task_loss and a metric exactly at its target at the first call: value is "
                       \o t.calls[any(bad1)].cls \o " at " \o msg(any(bad1))
              ELSE "C19.finite: value is " \o t.calls[any(bad1)].cls \o " at " \o msg(any(bad1)))
        ELSE IF bad2 # {}
        THEN "C19.history: value " \o ToString(t.calls[any(bad2)].v) \o " differs from the value "
                 \o ToString(t.calls[any(bad2)].fv) \o " (" \o t.calls[any(bad2)].fcls
                 \o ") of a fresh regulariser with the same final strengths at " \o msg(any(bad2))
        ELSE IF bad3 # {} THEN "C19.zero: value is not zero although every cost is within its target, " \o msg(any(bad3))
        ELSE IF bad4 # {} THEN "C19.zero: value is not positive although a cost exceeds its target, " \o msg(any(bad4))
        ELSE IF bad5 # {} THEN "C19.ramp: effective strength is not 1% at epoch 0 / the final strength from half the schedule on / exceeds it, "
                                   \o msg(any(bad5))
        ELSE IF drift # {} THEN "drift:C19 value satisfies the property but differs from the model formula at " \o msg(any(drift))
        ELSE "ok"

\* ------------------------------------------------------------------ attribute life cycle (both classes)
\* [k |-> "attr", variant, hist, ev]  a behaviour of RegLife replayed on the real class; ev[j] = one
\* application: [i (actions of hist done before it), sch, pub (public attributes read back from the
\* object at that moment: base [name, s, isT], duccio [t, f]), cost (what the model reports), cls, v,
\* frac, fcls, fv (a FRESH object built from those attributes, same model), g (d value / d cost), gerr]
CheckAttr(t) ==
    LET K     == Len(t.ev)
        base  == t.variant # "duccio"
        real  == Has(t, "real") /\ t.real          \* real model: its costs are not the model's A / B vectors
        E(j)  == t.ev[j]
        sch(j) == Sched(E(j).sch)
        pred(j) == AttrRun("live", AttrInit(t.variant), SubSeq(t.hist, 1, E(j).i), 1)
        msg(j) == "application " \o ToString(j) \o " after " \o ToString(SubSeq(t.hist, 1, E(j).i))
                     \o " on a " \o t.variant \o "-built object: public attributes " \o ToString(E(j).pub)
                     \o ", model cost " \o ToString(E(j).cost) \o ", value " \o ToString(E(j).v)
                     \o "/64 u" \o (IF Has(E(j), "g") THEN ", gradient " \o ToString(E(j).g) ELSE "")
        bad1 == {j \in 1..K : E(j).cls # "fin" \/ E(j).gerr}
        \* BaseRegularizer: strength x the named cost, gradient = strength (CURRENT attributes / cost)
        bad2 == {j \in 1..K : base /\
                    \/ E(j).frac \/ E(j).v # BaseVal(E(j).pub.s, E(j).cost[Idx(E(j).pub.name)]) * VU
                    \/ (Has(E(j), "g") /\ (\/ E(j).g[Idx(E(j).pub.name)] # E(j).pub.s * VU
                                              \/ E(j).g[3 - Idx(E(j).pub.name)] # 0))}
        \* both: equal to a fresh object built from the current attributes
        bad3 == {j \in 1..K : E(j).fcls # "fin" \/ E(j).v # E(j).fv}
        \* DUCCIO: gradient positive exactly above target (positive strengths)
        bad4 == {j \in 1..K : ~base /\ Has(E(j), "g") /\ \E i \in 1..2 :
                    \/ E(j).g[i] < 0
                    \/ (E(j).cost[i] > E(j).pub.t[i] /\ E(j).pub.f[i] > 0 /\ E(j).g[i] <= 0)
                    \/ (E(j).cost[i] < E(j).pub.t[i] /\ E(j).g[i] # 0)}
        drift == {j \in 1..K :
                    IF base THEN ~(E(j).pub.name = pred(j).name /\ E(j).pub.s = pred(j).s /\ E(j).pub.isT = pred(j).isT
                                   /\ (real \/ E(j).cost = pred(j).cost))
                    ELSE \/ ~(E(j).pub.t = pred(j).t /\ E(j).pub.f = pred(j).f /\ (real \/ E(j).cost = pred(j).cost))
                         \/ E(j).frac
                         \/ E(j).v # PenU([i \in 1..2 |-> Fin(E(j).pub.f[i])], E(j).cost, E(j).pub.t, sch(j)[1], sch(j)[2]) * VU
                         \/ \E i \in 1..2 : Has(E(j), "g") /\ E(j).cost[i] > E(j).pub.t[i] /\
                               E(j).g[i] # EffU(E(j).pub.f[i], sch(j)[1], sch(j)[2]) * VU}
        any(S) == CHOOSE x \in S : TRUE
    IN  IF \E i \in DOMAIN t.hist : ~(t.hist[i] \in BaseActions \cup DuccioActions) THEN "trace: unknown attribute action"
        ELSE IF bad1 # {} THEN "C19.attr: value not finite or not differentiable at " \o msg(any(bad1))
        ELSE IF bad2 # {} THEN "C19.attr: BaseRegularizer does not return (current strength) x (current cost of the current cost_name) with gradient = strength at "
                                   \o msg(any(bad2))
        ELSE IF bad3 # {} THEN "C19.attr: value differs from the value " \o ToString(E(any(bad3)).fv)
                                   \o " of a fresh regulariser built from the current public attributes at " \o msg(any(bad3))
        ELSE IF bad4 # {} THEN "C19.attr: DUCCIO gradient w.r.t. a cost is not positive exactly above the current target at " \o msg(any(bad4))
        ELSE IF drift # {} THEN "drift:C19 attribute life cycle: observation satisfies the property but differs from the model at " \o msg(any(drift))
        ELSE "ok"

\* ------------------------------------------------------------------ pairing of strengths and targets
\* [k |-> "pair", names, rank, s, t, c, e, n, cls, v, frac]  one call of a DUCCIO built with the targets dict
\* in the caller's insertion order `names` (rank = alphabetical ranks, computed by the harness from the names)
\* and the positional final_strengths s; everything in caller order.  Property: with the final strength in
\* force (2e >= n) and at epoch 0 (1%) the value is sum_i s[i] * excess_i, i = position in the CALLER's dict.
CheckPair(t) ==
    LET pos  == PairedPen("position", t.rank, t.s, t.c, t.t, t.e, t.n) * VU
        srt  == PairedPen("sorted", t.rank, t.s, t.c, t.t, t.e, t.n) * VU
        what == "targets built in the order " \o ToString(t.names) \o " (alphabetical ranks " \o ToString(t.rank)
                   \o "), final_strengths " \o ToString(t.s) \o " u, costs " \o ToString(t.c) \o ", targets "
                   \o ToString(t.t) \o ", epoch " \o ToString(t.e) \o "/" \o ToString(t.n) \o ": value "
                   \o ToString(t.v) \o "/64 u, expected " \o ToString(pos) \o "/64 u"
                   \o (IF t.v = srt /\ srt # pos THEN " (observed = strengths paired with the alphabetically sorted names)" ELSE "")
    IN  IF ~IsPermutation(t.rank) \/ Len(t.rank) # Len(t.s) THEN "trace: pair shape"
        ELSE IF t.cls # "fin" THEN "C19.finite: value is " \o t.cls \o " for " \o what
        ELSE IF t.v # pos /\ (2 * t.e >= t.n \/ t.e = 0)
        THEN "C19.pairing: final_strengths[i] does not weight the i-th metric of the caller's targets dict; " \o what
        ELSE IF t.v # pos \/ t.frac THEN "drift:C19 pairing: " \o what
        ELSE "ok"

Check(t) ==
    IF ~Has(t, "k") THEN "trace: missing kind"
    ELSE IF t.k = "pair" THEN CheckPair(t)
    ELSE IF t.k = "attr" THEN CheckAttr(t)
    ELSE IF t.k = "baseq" THEN CheckBaseQ(t)
    ELSE IF t.k = "life" THEN CheckLife(t)
    ELSE IF t.k = "ramp" THEN CheckRamp(t)
    ELSE IF t.k = "rampg" THEN CheckRampG(t)
    ELSE IF t.k = "base" THEN CheckBase(t)
    ELSE IF t.k = "hist" THEN CheckHist(t)
    ELSE "trace: unknown kind"

Init == tid \in 1..Len(Traces) /\ verdict = Check(Traces[tid])
Next == UNCHANGED <<tid, verdict>>
Spec == Init /\ [][Next]_<<tid, verdict>>
VerdictOk == verdict = "ok"
=============================================================================
