SPECIFICATION Spec
CONSTANTS
  Impl = "own"
  NL = 2
  Scale = "quick"
INVARIANT OwnArgmin
INVARIANT TotalNotHigher
INVARIANT AnnouncedIsReal
INVARIANT OnlyPromotes
