SPECIFICATION Spec
CONSTANTS
  Impl = "asis"
  ExcludeKF = TRUE
  KindSet = {"layer", "ubf", "ubm"}
  NBrSet = {}
  MaxBlocks = 1
  UseSet = {1}
  PoolSet = {FALSE}
  GumbelSet = {FALSE}
  HardSet = {TRUE}
  BigN = 12
  Acts = {"SetAlpha"}
  D = 4
  NameFamily = "plain"
  NameImpl = "asis"
  SampleImpl = "ref"
  ForkImpl = "ref"
INVARIANT TypeOK
INVARIANT C03_ExportSucceeds
INVARIANT C03_ExportIsWinner
INVARIANT C03_KeptModules
INVARIANT F03SigExact
