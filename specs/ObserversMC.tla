---------------------------- MODULE ObserversMC ----------------------------
(***************************************************************************)
(* Design-level state machine for C18: one abstract NAS model of kind Kind *)
(* driven by every sequence of calls over                                  *)
(*   { export, export(add_bn=False), summary, cost, get_cost(n),           *)
(*     str() / named_nas_parameters() / ..., cost_specification := c,      *)
(*     forward, nas.train(), nas.eval(), nas.seed.train(), nas.seed.eval(),*)
(*     one option call (update_softmax_options(o = v), PIT mask switches,  *)
(*     discrete_cost := v) }.                                              *)
(*                                                                         *)
(* The control state is a product of two groups of dimensions that the     *)
(* code keeps apart (modes / BatchNorm counter / cost specification on one *)
(* side, the option record and the sampler in force on the other), so it   *)
(* is explored in two HALVES (as NasControlMC does for C11):               *)
(*   Half = "modes"   : options fixed by the constructor; calls = the      *)
(*                      observers, the specification setter, forward,      *)
(*                      train(), eval()                                    *)
(*   Half = "options" : specification fixed, mode fixed by the initial     *)
(*                      state; calls = the observers, forward and every    *)
(*                      single option call that CHANGES an option          *)
(* Both halves contain "set something; observer; forward / cost".          *)
(*                                                                         *)
(* Two uses per half:                                                      *)
(*  - TrackHist = FALSE: the graph is explored to CLOSURE (this subsumes   *)
(*    every call sequence of every length); the labelled graph is dumped   *)
(*    and every edge is executed on real models by harness/checks/c18.py.  *)
(*  - TrackHist = TRUE: the call history is part of the state, so TLC      *)
(*    enumerates EVERY sequence up to MaxLen calls and checks in each the  *)
(*    erasure property (running the sequence = running it with all the     *)
(*    observer calls deleted) and the cost-specification round trip.       *)
(***************************************************************************)
EXTENDS Observers, TLC

CONSTANTS Impl,       \* "ref" | "pinned" | "f16" | "costkeys" | "optreset" | "wrapmode" | "rootmode" | "valuesonly"
          Half,       \* "modes" | "options"
          Temps,      \* temperatures x 1000 (contains 1000, the constructor default)
          Kind,       \* "pit" | "mps" | "sn"
          MaxBn,      \* saturation of the BatchNorm-update counter
          TrackHist,  \* BOOLEAN
          MaxLen      \* bound on the history when TrackHist

VARIABLES core, cs, par, init, hist
vars == <<core, cs, par, init, hist>>

NoCore  == [wt |-> FALSE, st |-> FALSE, theta |-> "-", bn |-> 0, frz |-> FALSE, gl |-> TRUE, dk |-> {}, opt |-> DefaultOpt, samp |-> "-"]
HardSet == IF Kind = "pit" THEN {FALSE} ELSE BOOLEAN

Opts == [temp : Temps, hard : BOOLEAN, gumbel : BOOLEAN, disable : BOOLEAN,
         tf : BOOLEAN, trf : BOOLEAN, td : BOOLEAN, dc : BOOLEAN]

TypeOK == /\ core \in [wt : BOOLEAN, st : BOOLEAN, theta : {"-", "soft", "hard"}, bn : 0..MaxBn, frz : BOOLEAN, gl : BOOLEAN, dk : SUBSET {"costkeys"},
                       opt : Opts, samp : {"-", "sm", "gs", "none"}]
          /\ cs \in Specs
          /\ par \in [hasbn : BOOLEAN, maxbn : {MaxBn}]

\* initial states: constructor arguments (mode of the user's network, hard_softmax, Gumbel sampler of the SuperNet
\* blocks, cost specification), followed by "the usual forward pass" so that the stored coefficients are those of
\* the current mode
GumSet == IF Kind = "sn" /\ Half = "options" THEN BOOLEAN ELSE {FALSE}
\* modes of a FRESHLY CONSTRUCTED wrapper, no mode call made (modes half): PIT / MPS restore the mode of the user's
\* network on wrapper and seed; SuperNet leaves the layers in eval mode under a wrapper whose flag is True.
\* The options half starts after an explicit nas.train() / nas.eval().
FreshModes == IF Half = "modes" /\ Kind = "sn" THEN {<<TRUE, FALSE>>} ELSE {<<TRUE, TRUE>>, <<FALSE, FALSE>>}
Init == \E md \in FreshModes, hard \in (IF Half = "modes" THEN HardSet ELSE {FALSE}), gum \in GumSet,
           c0 \in (IF Half = "modes" THEN {"A", "D"} ELSE {"A"}) :
          LET o0 == [DefaultOpt EXCEPT !.hard = hard, !.gumbel = gum] IN
          /\ par = [hasbn |-> Kind # "mps", maxbn |-> MaxBn]
          /\ core = [wt |-> md[1], st |-> md[2], theta |-> Sampled(Kind, hard, md[2]), bn |-> 0, frz |-> FALSE, gl |-> TRUE, dk |-> {},
                     opt |-> o0, samp |-> SamplerOf(Kind, o0)]
          /\ cs = c0
          /\ init = IF TrackHist THEN [core |-> core, cs |-> c0] ELSE [core |-> NoCore, cs |-> "A"]
          /\ hist = <<>>

InHalf(a) == IF Half = "modes" THEN a.a # "upd" ELSE a.a \notin {"setcs", "getcost", "mode", "seedmode", "inspect", "freezebn"}

Do(a) == /\ Enabled(Kind, cs, a) /\ InHalf(a)
         /\ (TrackHist /\ a.a = "setcs" => a.how = "s")     \* (the history configs enumerate contents, not objects)
         /\ (TrackHist => Len(hist) < MaxLen)
         /\ core' = ImplNext(Impl, Kind, par, core, a)
         /\ cs' = IF a.a = "setcs" THEN a.c ELSE cs
         /\ hist' = IF TrackHist THEN Append(hist, a) ELSE hist
         /\ UNCHANGED <<par, init>>

Export(nobn) == Do([a |-> "export", nobn |-> nobn])
Summary      == Do([a |-> "summary"])
Cost         == Do([a |-> "cost"])
GetCost(n)   == Do([a |-> "getcost", n |-> n])
SetCS(c, h)  == Do([a |-> "setcs", c |-> c, how |-> h])
Forward      == Do([a |-> "forward"])
Mode(v)      == Do([a |-> "mode", v |-> v])
SeedMode(v)  == Do([a |-> "seedmode", v |-> v])
Inspect      == Do([a |-> "inspect"])
FreezeBN     == Kind # "mps" /\ Do([a |-> "freezebn"])         \* (MPS folds the BatchNorm layers at import)
\* one option call that changes the option (v is an element of Temps, or 0 / 1)
Upd(o, v)    == ~OptIs(core.opt, o, v) /\ Do([a |-> "upd", o |-> o, v |-> v])
OptVals(o)   == IF o = "temp" THEN Temps ELSE {0, 1}

Next == \/ \E b \in BOOLEAN : Export(b)
        \/ Summary \/ Cost
        \/ \E n \in {"a", "b"} : GetCost(n)
        \/ \E c \in Specs, h \in {"s", "f", "i"} : SetCS(c, h)
        \/ Forward
        \/ \E v \in BOOLEAN : Mode(v)
        \/ \E v \in BOOLEAN : SeedMode(v)
        \/ Inspect \/ FreezeBN
        \/ \E o \in OptNames(Kind) : \E v \in OptVals(o) : Upd(o, v)

Spec == Init /\ [][Next]_vars

(***************************************************************************)
(* Properties                                                              *)
(***************************************************************************)
\* nas.train() / nas.eval() put the inner model in the mode of the wrapper, nas.seed.train() / nas.seed.eval() touch the
\* inner model only (that observers never change a mode is part of ObserversNeutral; "model.training is True but
\* model.seed.training is False" after export() was F16)
ModeFrame ==
    [][/\ (\A v \in BOOLEAN : Mode(v) => core'.wt = v /\ core'.st = v)
       /\ (\A v \in BOOLEAN : SeedMode(v) => core'.wt = core.wt /\ core'.st = v)]_vars
ModesAgree == core.st = core.wt

\* no observer call ever adds an attribute to a module of the model
NoNewKeys == core.dk = {}

\* [][Observer => UNCHANGED core]: the four observers change nothing
ObserversNeutral ==
    [][/\ (\A b \in BOOLEAN : Export(b) => core' = core /\ cs' = cs)
       /\ (Summary => core' = core /\ cs' = cs)
       /\ (Cost => core' = core /\ cs' = cs)
       /\ (Inspect => core' = core /\ cs' = cs)
       /\ (\A n \in {"a", "b"} : GetCost(n) => core' = core /\ cs' = cs)]_vars

\* the setter of the cost specification touches the specification only
SetterFrame == [][\A c \in Specs, h \in {"s", "f", "i"} : SetCS(c, h) => core' = core /\ cs' = c]_vars

\* an option call changes the option it names (and the sampler it selects), nothing else
OptionFrame ==
    [][\A o \in OptNames(Kind) : \A v \in OptVals(o) : Upd(o, v) =>
          /\ OptIs(core'.opt, o, v)
          /\ \A f \in DOMAIN core.opt \ {o} : core'.opt[f] = core.opt[f]
          /\ core'.samp = SamplerOf(Kind, core'.opt)
          /\ core'.wt = core.wt /\ core'.st = core.st /\ core'.theta = core.theta /\ core'.bn = core.bn /\ core'.dk = core.dk
          /\ core'.frz = core.frz /\ core'.gl = core.gl
          /\ cs' = cs]_vars

\* the sampler in force is the one the options (as the user set them) select
SamplerConsistent == core.samp = SamplerOf(Kind, core.opt)

\* history configs: every sequence, with and without its observer calls, ends in the same core and specification;
\* the specification in force is the last one that was set (set a, set b, set a = set a)
Erasure == TrackHist =>
              /\ core = Run(Impl, Kind, par, init.core, hist, 1)
              /\ ErasureOk(Impl, Kind, par, init.core, hist)
              /\ cs = SpecAfter(init.cs, Erase(hist), 1)
=============================================================================
