---------------------------- MODULE ObserversMC ----------------------------
(***************************************************************************)
(* Design-level state machine for C18: one abstract NAS model of kind Kind *)
(* driven by every sequence of calls over                                  *)
(*   { export, export(add_bn=False), summary, cost, get_cost(n),           *)
(*     cost_specification := c, forward, train(), eval() }.                *)
(*                                                                         *)
(* Two uses:                                                               *)
(*  - TrackHist = FALSE: the graph is explored to CLOSURE (this subsumes   *)
(*    every call sequence of every length); the labelled graph is dumped   *)
(*    and every edge is executed on real models by harness/checks/c18.py.  *)
(*  - TrackHist = TRUE: the call history is part of the state, so TLC      *)
(*    enumerates EVERY sequence up to MaxLen calls and checks in each the  *)
(*    erasure property (running the sequence = running it with all the     *)
(*    observer calls deleted) and the cost-specification round trip.       *)
(***************************************************************************)
EXTENDS Observers, TLC

CONSTANTS Impl,       \* "ref" | "pinned" | "f16" | "costkeys"
          Kind,       \* "pit" | "mps" | "sn"
          MaxBn,      \* saturation of the BatchNorm-update counter
          TrackHist,  \* BOOLEAN
          MaxLen      \* bound on the history when TrackHist

VARIABLES core, cs, par, init, hist
vars == <<core, cs, par, init, hist>>

NoCore  == [wt |-> FALSE, st |-> FALSE, theta |-> "-", bn |-> 0, dk |-> {}]
HardSet == IF Kind = "pit" THEN {FALSE} ELSE BOOLEAN

TypeOK == /\ core \in [wt : BOOLEAN, st : BOOLEAN, theta : {"-", "soft", "hard"}, bn : 0..MaxBn, dk : SUBSET {"costkeys"}]
          /\ cs \in Specs
          /\ par \in [hard : BOOLEAN, hasbn : BOOLEAN, maxbn : {MaxBn}]

\* initial states: constructor arguments (mode of the user's network, hard_softmax, cost specification), followed
\* by "the usual forward pass" so that the stored coefficients are those of the current mode
Init == \E train \in BOOLEAN, hard \in HardSet, c0 \in {"A", "D"} :
          /\ par = [hard |-> hard, hasbn |-> Kind # "mps", maxbn |-> MaxBn]
          /\ core = [wt |-> train, st |-> train, theta |-> Sampled(Kind, hard, train), bn |-> 0, dk |-> {}]
          /\ cs = c0
          /\ init = IF TrackHist THEN [core |-> core, cs |-> c0] ELSE [core |-> NoCore, cs |-> "A"]
          /\ hist = <<>>

Do(a) == /\ Enabled(Kind, cs, a)
         /\ (TrackHist => Len(hist) < MaxLen)
         /\ core' = ImplNext(Impl, Kind, par, core, a)
         /\ cs' = IF a.a = "setcs" THEN a.c ELSE cs
         /\ hist' = IF TrackHist THEN Append(hist, a) ELSE hist
         /\ UNCHANGED <<par, init>>

Export(nobn) == Do([a |-> "export", nobn |-> nobn])
Summary      == Do([a |-> "summary"])
Cost         == Do([a |-> "cost"])
GetCost(n)   == Do([a |-> "getcost", n |-> n])
SetCS(c)     == Do([a |-> "setcs", c |-> c])
Forward      == Do([a |-> "forward"])
Mode(v)      == Do([a |-> "mode", v |-> v])

Next == \/ \E b \in BOOLEAN : Export(b)
        \/ Summary \/ Cost
        \/ \E n \in {"a", "b"} : GetCost(n)
        \/ \E c \in Specs : SetCS(c)
        \/ Forward
        \/ \E v \in BOOLEAN : Mode(v)

Spec == Init /\ [][Next]_vars

(***************************************************************************)
(* Properties                                                              *)
(***************************************************************************)
\* the inner model is in the mode of the wrapper ("model.training is True but model.seed.training is False" is F16)
ModesAgree == core.st = core.wt

\* no observer call ever adds an attribute to a module of the model
NoNewKeys == core.dk = {}

\* [][Observer => UNCHANGED core]: the four observers change nothing
ObserversNeutral ==
    [][/\ (\A b \in BOOLEAN : Export(b) => core' = core /\ cs' = cs)
       /\ (Summary => core' = core /\ cs' = cs)
       /\ (Cost => core' = core /\ cs' = cs)
       /\ (\A n \in {"a", "b"} : GetCost(n) => core' = core /\ cs' = cs)]_vars

\* the setter of the cost specification touches the specification only
SetterFrame == [][\A c \in Specs : SetCS(c) => core' = core /\ cs' = c]_vars

\* history configs: every sequence, with and without its observer calls, ends in the same core and specification;
\* the specification in force is the last one that was set (set a, set b, set a = set a)
Erasure == TrackHist =>
              /\ core = Run(Impl, Kind, par, init.core, hist, 1)
              /\ ErasureOk(Impl, Kind, par, init.core, hist)
              /\ cs = SpecAfter(init.cs, Erase(hist), 1)
=============================================================================
