SPECIFICATION Spec
INVARIANT VerdictOk
