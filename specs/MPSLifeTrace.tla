----------------------------- MODULE MPSLifeTrace -----------------------------
(***************************************************************************)
(* Trace validation for C02 and C05.  One trace = one scenario executed on *)
(* a real plinio MPS model (harness/mps_gen.py):                            *)
(*   Convert(arch, cfg) ; WriteCoefficients ; Forward(mode) ; Cost ;        *)
(*   Export ; Compare                                                       *)
(* logged as one record:                                                    *)
(*   prop  "C02" | "C05"        which property this batch decides           *)
(*   arch, cfg                  architecture / candidate tuples, search type *)
(*   L     one record per quantisation point the library created (n = node, *)
(*         0 = input quantiser): intended bits (want_..), arg-max of the raw  *)
(*         coefficients (am_..), summary() (su_..), exported layer (ex_..),     *)
(*         candidate tuples (cand_..), quantiser object identities (qid_..),   *)
(*         what the probing cost specification was shown (pr_..)              *)
(*   bit_identical, export_ok, cost (x100), cost_ok, metrics, ...           *)
(*   hist  the public calls made between the coefficient write and the cost *)
(*         read (forward passes in eval / hard / hard-Gumbel mode, loads of *)
(*         other coefficients, export, summary, update_softmax_options);    *)
(*         th_.. = the assignment the SAMPLED coefficients (theta_alpha)     *)
(*         encode when the cost is read, th_hot = theta is one-hot;         *)
(*         cost2 = the metrics read again in the reverse order; full        *)
(* EVERYTHING the observations are compared with is computed HERE from the  *)
(* logged architecture with the operators of MPSLife (reference dataflow    *)
(* QPoint, groups GS, exact costs ExactInt / ExactMilli, as-implemented     *)
(* cost AsisNum).  The verdict is total: "ok", the first failing PROPERTY   *)
(* clause, "known:Fxx:..." (signature of a listed finding, decided here),   *)
(* or "drift:..." (only a prediction failed).                              *)
(***************************************************************************)
EXTENDS MPSLife, Json, IOUtils

Traces == JsonDeserialize(IOEnv.TRACE_FILE)

VARIABLES tid, verdict

NA == -9
RecIdx(t, n) == CHOOSE i \in DOMAIN t.L : t.L[i].n = n
HasRec(t, n) == \E i \in DOMAIN t.L : t.L[i].n = n
Rec(t, n)    == t.L[RecIdx(t, n)]
\* the harness calls the input quantiser node 0; a layer is recorded under the node that owns the layer object
HId(a, q)    == IF q = InQ(a) THEN 0 ELSE IF IsLayer(a, q) THEN Owner(a, q) ELSE q
RecL(t, L)   == Rec(t, Owner(t.arch, L))
Least(S)     == CHOOSE x \in S : \A y \in S : x <= y
Abs(x)       == IF x < 0 THEN -x ELSE x
Str(x)       == ToString(x)

QIds(a)      == {HId(a, q) : q \in QNodes(a) \cup {InQ(a)}}
KindOf(a, n) == IF n = 0 THEN "in" ELSE Op(a, n)

(* --------------------------- structure --------------------------------- *)
\* every quantisation point of the reference dataflow has a searchable module, and nothing else has
MissingRecs(t) == {n \in QIds(t.arch) : ~HasRec(t, n)}
ExtraRecs(t)   == {i \in DOMAIN t.L : t.L[i].n \notin QIds(t.arch) \/ t.L[i].kind # KindOf(t.arch, t.L[i].n)}
LayersOf(t)    == Layers(t.arch)
SuBad(t)       == {n \in QIds(t.arch) : ~Rec(t, n).su_ok
                                        \/ (n \in LayersOf(t) /\ (Len(Rec(t, n).su_w) # Ch(t.arch, n)
                                                                  \/ Len(Rec(t, n).th_w) # Ch(t.arch, n)))}
HistBad(t)     == t.hist_err # ""
(* Finding F74: copy.deepcopy of an MPS model raises RuntimeError ("Only Tensors created explicitly by the user support the   *)
(* deepcopy protocol") when the theta_alpha buffers hold the result of a forward pass that ran with autograd enabled.          *)
ThetaProducers == {"fwd_g", "sgd_net", "sgd_all", "fwd_n", "fwd_eval", "fwd_hard", "fwd_ghard", "export!"}
ForkAfterGrad(t) ==
    /\ t.hist_err_act = "fork" /\ t.hist_err_type = "RuntimeError" /\ t.hist_err_pos \in DOMAIN t.hist
    /\ LET P == {j \in 1..(t.hist_err_pos - 1) : t.hist[j] \in ThetaProducers} IN
       P # {} /\ t.hist[CHOOSE j \in P : \A k \in P : k <= j] \in {"fwd_g", "sgd_net", "sgd_all"}
HistVerdict(t, pid) ==
    IF ForkAfterGrad(t)
    THEN "known:F74:copy.deepcopy of the model raises after a forward pass with autograd enabled (call " \o Str(t.hist_err_pos) \o " of the history)"
    ELSE pid \o ".call: a public call raised: " \o t.hist_err

(* --------------------------- C02 --------------------------------------- *)
SameTriple(r, p) ==       \* p \in {"ex", "am"} compared with summary()
    IF p = "ex" THEN r.ex_o = r.su_o /\ r.ex_i = r.su_i /\ r.ex_w = r.su_w
    ELSE r.am_o = r.su_o /\ r.am_i = r.su_i /\ r.am_w = r.su_w
TripleStr(i, w, o) == "(in " \o Str(i) \o ", w " \o Str(w) \o ", out " \o Str(o) \o ")"

PlumbBad(t, gs) ==        \* layers whose exported input precision is not the exported output precision of their producer
    {L \in LayersOf(t) : RecL(t, L).ex_i # Rec(t, HId(t.arch, RefIn(gs, t.arch, L))).ex_o}

\* at the moment of an export(): summary() = exported precisions = arg-max of the raw coefficients, for every module
MomentSame(r) == /\ r.su_i = r.ex_i /\ r.su_w = r.ex_w /\ r.su_o = r.ex_o
                 /\ r.su_i = r.am_i /\ r.su_w = r.am_w /\ r.su_o = r.am_o
GeomSame(t, M) ==
    LET r == Rec(t, M)  g == Geom(t.arch, M) IN
    r.ex_k = g.k /\ r.ex_s = g.s /\ r.ex_d = g.d /\ r.ex_pm = g.pm /\ r.ex_bias = g.bias
\* position in the history of the i-th compared export
NthExport(h, i) == CHOOSE j \in DOMAIN h : h[j] = "export!" /\ Cardinality({k \in 1..(j - 1) : h[k] = "export!"}) = i - 1

Drift02(t, gs) ==
    LET a == t.arch IN
    IF \E L \in LayersOf(t) : ReuseSplit(gs, a, L) THEN "ok"      \* which call site's group a split module joins is not predicted
    ELSE IF t.conflict THEN "drift:two quantiser groups of the specification share one quantiser object"
    ELSE IF \E n \in QIds(a) : Rec(t, n).am_o # Rec(t, n).want_o \/ Rec(t, n).am_w # Rec(t, n).want_w
         THEN "drift:the coefficients written through a layer are not the ones its quantisers hold (sharing differs from the groups of the specification)"
    ELSE IF \E n, m \in QIds(a) :
                (AGroup(gs, a, IF n = 0 THEN InQ(a) ELSE n) = AGroup(gs, a, IF m = 0 THEN InQ(a) ELSE m))
                    # (Rec(t, n).qid_o = Rec(t, m).qid_o)
         THEN "drift:activation quantisers are not shared exactly inside the groups of the specification"
    ELSE IF \E n, m \in Owners(a) : (WGroup(gs, n) = WGroup(gs, m)) # (Rec(t, n).qid_w = Rec(t, m).qid_w)
         THEN "drift:weight quantisers are not shared exactly inside the groups of the specification"
    ELSE IF \E n \in QIds(a) : (Rec(t, n).su_o = Float) # IsFloatGroup(gs, AGroup(gs, a, IF n = 0 THEN InQ(a) ELSE n))
         THEN "drift:the set of unquantised (output-connected) activations differs from the specification"
    ELSE "ok"

Check02(t) ==
    LET a == t.arch  gs == GS("fixed", t.arch) IN
    IF ~t.build_ok THEN "C02.convert: MPS(...) raised on an architecture of the grammar: " \o t.build_err
    ELSE IF MissingRecs(t) # {} THEN "C02.convert node " \o Str(Least(MissingRecs(t))) \o ": no searchable module was created for this quantisation point"
    ELSE IF ExtraRecs(t) # {} THEN "C02.convert: a searchable module was created that is no quantisation point of the dataflow"
    ELSE IF HistBad(t) THEN HistVerdict(t, "C02")
    ELSE IF ~t.export_done THEN "trace: scenario without export"
    ELSE IF ~t.export_ok \/ t.exports = <<>> \/ \E i \in DOMAIN t.exports : ~t.exports[i].ok
         THEN "C02.export: export() raised " \o t.export_err
    ELSE IF SuBad(t) # {} THEN "C02.summary node " \o Str(Least(SuBad(t))) \o ": summary() has no usable entry"
    ELSE IF \E n \in QIds(a) : ~Rec(t, n).ex_ok
         THEN LET n == Least({x \in QIds(a) : ~Rec(t, x).ex_ok}) IN
              "C02.exported node " \o Str(n) \o ": no fake-quantised layer of the right kind / geometry in the exported model (" \o Rec(t, n).ex_type \o ")"
    ELSE IF \E n \in QIds(a) : ~SameTriple(Rec(t, n), "ex")
         THEN LET n == Least({x \in QIds(a) : ~SameTriple(Rec(t, x), "ex")})  r == Rec(t, n) IN
              "C02.summary node " \o Str(n) \o ": exported " \o TripleStr(r.ex_i, r.ex_w, r.ex_o)
                  \o " but summary() reports " \o TripleStr(r.su_i, r.su_w, r.su_o)
    ELSE IF \E n \in QIds(a) : ~SameTriple(Rec(t, n), "am")
         THEN LET n == Least({x \in QIds(a) : ~SameTriple(Rec(t, x), "am")})  r == Rec(t, n) IN
              "C02.argmax node " \o Str(n) \o ": summary() reports " \o TripleStr(r.su_i, r.su_w, r.su_o)
                  \o " but the largest coefficients select " \o TripleStr(r.am_i, r.am_w, r.am_o)
    ELSE IF PlumbBad(t, gs) # {}
         THEN LET L == Least(PlumbBad(t, gs))  p == HId(a, RefIn(gs, a, L)) IN
              IF \A x \in PlumbBad(t, gs) : ReuseSplit(gs, a, x)
              THEN "known:F66:layer object of node " \o Str(Owner(a, L)) \o " is invoked at call sites whose producers are quantised by different groups: at call site "
                       \o Str(L) \o " it consumes the " \o Str(Rec(t, p).ex_o) \o "-bit output of node " \o Str(p) \o " but its single input quantiser reports "
                       \o Str(RecL(t, L).ex_i) \o " bit"
              ELSE IF \A x \in PlumbBad(t, gs) : F40Layer(gs, a, x) /\ RecL(t, x).ex_i = Rec(t, 0).ex_o
              THEN "known:F40:layer " \o Str(L) \o " consumes the tensor re-quantised by node " \o Str(p) \o " ("
                       \o Str(Rec(t, p).ex_o) \o " bit) but takes the network-input quantiser (" \o Str(RecL(t, L).ex_i) \o " bit) as its input quantiser"
              ELSE "C02.plumb layer " \o Str(L) \o ": exported input precision " \o Str(RecL(t, L).ex_i)
                       \o " but the tensor it consumes is produced by node " \o Str(p) \o " with output precision " \o Str(Rec(t, p).ex_o)
    ELSE IF \E i \in DOMAIN t.exports : \E j \in DOMAIN t.exports[i].T : ~MomentSame(t.exports[i].T[j])
         THEN LET i == Least({x \in DOMAIN t.exports : \E j \in DOMAIN t.exports[x].T : ~MomentSame(t.exports[x].T[j])})
                  j == Least({y \in DOMAIN t.exports[i].T : ~MomentSame(t.exports[i].T[y])})  r == t.exports[i].T[j] IN
              "C02.summary export() number " \o Str(i) \o " of the history, node " \o Str(r.n) \o ": summary() read right before it (no forward pass in between) reports "
                  \o TripleStr(r.su_i, r.su_w, r.su_o) \o ", the exported layer has " \o TripleStr(r.ex_i, r.ex_w, r.ex_o)
                  \o ", the largest coefficients select " \o TripleStr(r.am_i, r.am_w, r.am_o)
    ELSE IF \E M \in Owners(a) : ~GeomSame(t, M)
         THEN LET M == Least({x \in Owners(a) : ~GeomSame(t, x)})  r == Rec(t, M)  g == Geom(a, M) IN
              "C02.geometry layer " \o Str(M) \o ": exported (k " \o Str(r.ex_k) \o ", stride " \o Str(r.ex_s) \o ", dilation " \o Str(r.ex_d)
                  \o ", padding_mode " \o r.ex_pm \o ", bias " \o Str(r.ex_bias) \o ") but the searched layer has (k " \o Str(g.k) \o ", stride "
                  \o Str(g.s) \o ", dilation " \o Str(g.d) \o ", padding_mode " \o g.pm \o ", bias " \o Str(g.bias) \o ")"
    ELSE IF \E i \in DOMAIN t.exports : ~t.exports[i].wcur
         THEN LET i == Least({x \in DOMAIN t.exports : ~t.exports[x].wcur}) IN
              "C02.snapshot: export() number " \o Str(i) \o " of the history (after " \o Str(t.exports[i].wver)
                  \o " weight update(s)) returned layers whose weight / bias are not the current ones of the model"
    ELSE IF \E i \in DOMAIN t.exports : ~t.exports[i].bit
         THEN LET i == Least({x \in DOMAIN t.exports : ~t.exports[x].bit}) IN
              "C02.bit-identical: export() number " \o Str(i) \o " of the history (after " \o Str(t.exports[i].wver)
                  \o " weight update(s)) and the eval-mode MPS model at that moment differ (max |diff| x1e6 = " \o Str(t.exports[i].diff) \o ")"
    ELSE IF ~t.bit_identical
         THEN "C02.bit-identical: the exported model and the eval-mode MPS model differ (max |diff| x1e6 = " \o Str(t.maxdiff_e6) \o ")"
    ELSE IF \E i \in DOMAIN t.exports : t.exports[i].wver # WeightVersion(t.hist, NthExport(t.hist, i))
         THEN "drift:an SGD step of the history did not change the weights"
    ELSE Drift02(t, gs)

(* --------------------------- C05 --------------------------------------- *)
SeqToSet(s) == {s[i] : i \in DOMAIN s}
(* The assignment the cost is compared with is the one the SAMPLED coefficients encode (th_..): in eval mode   *)
(* and in hard-sampling mode with the plain sampler it must ALSO be the one summary() reports (clause fresh);   *)
(* with hard Gumbel sampling, or when other coefficients were installed since the last forward pass, theta is   *)
(* a one-hot of another assignment and only "cost = exact cost of the sampled assignment" is claimed.           *)
WBitsObs(t) == [L \in LayersOf(t) |-> RecL(t, L).th_w]
InObs(t, L) == RecL(t, L).th_i
TS(t)       == ThetaState(t.hist)
AllHot(t)   == \A n \in QIds(t.arch) : Rec(t, n).th_hot
SameAsSummary(r) == r.th_o = r.su_o /\ r.th_i = r.su_i /\ r.th_w = r.su_w

\* plinio evaluates the cost function for EVERY pair of candidate precisions; a metric is applicable to the
\* model iff it is defined on all of them (documented restrictions of mpic / ne16)
MetricApplicable(t, m) ==
    \A L \in LayersOf(t) : \A w \in SeqToSet(RecL(t, L).cand_w) : \A ab \in SeqToSet(RecL(t, L).cand_i) :
        Applicable(m, t.arch, L, w, ab)

RECURSIVE SumOver(_, _)
SumOver(f, S) == IF S = {} THEN 0 ELSE LET x == CHOOSE y \in S : TRUE IN f[x] + SumOver(f, S \ {x})

\* a shared metric charges every layer OBJECT once, a per-invocation metric every CALL SITE with its own geometry
ExactTotal(t, m) ==      \* integer metrics
    LET a == t.arch  wb == WBitsObs(t)  S == CostSites(m, a) IN
    SumOver([L \in S |-> ExactInt(m, a, L, wb[L], InObs(t, L), InEffW(a, wb, L))], S)
ExactTotalMilli(t, m) == \* MPIC (rational look-up table), thousandths rounded down per (call site, precision class)
    LET a == t.arch  wb == WBitsObs(t)  S == CostSites(m, a) IN
    SumOver([L \in S |-> ExactMilli(m, a, L, wb[L], InObs(t, L), InEffW(a, wb, L))], S)
\* as implemented, in hundredths rounded down per call site
AsisTotalCenti(t, m, lin) ==
    LET a == t.arch  wb == WBitsObs(t)  S == CostSites(m, a) IN
    SumOver([L \in S |->
                (AsisNum(m, lin, a, L, wb, InObs(t, L), RecL(t, L).cand_w, t.cfg.wt = "pc") * 100) \div AsisDen(wb, L)], S)
NLayers(t) == Cardinality(LayersOf(t))

(* Tolerances (float32 accumulation in plinio, x100 rounding in the harness):                     *)
(*   integer metrics: |obs - 100 exact| <= 1 + |exact| / 1000          (1e-5 relative + 0.01)       *)
(*   as-implemented : one more hundredth per layer (per-layer floor)                                *)
(*   MPIC           : |10 obs - milli| <= 10 + 3 per layer + milli / 50000                         *)
CloseInt(obs, exact)        == Abs(obs - 100 * exact) <= 1 + Abs(exact) \div 1000
CloseCenti(obs, centi, nl)  == Abs(obs - centi) <= 1 + nl + Abs(centi) \div 100000
CloseMilli(obs, milli, nl)  == Abs(10 * obs - milli) <= 10 + 3 * nl + Abs(milli) \div 50000

AnyF05(t) == \E L \in LayersOf(t) : F05Layer(t.arch, L, WBitsObs(t), RecL(t, L).cand_w, t.cfg.wt = "pc")
AnyF04(t) == \E L \in LayersOf(t) : F04Layer(t.arch, L, WBitsObs(t))

V(c, msg) == [c |-> c, s |-> msg]
OkV == V("ok", "ok")

CostVerdict(t, m) ==
    IF ~MetricApplicable(t, m) THEN OkV                    \* documented rejection: nothing is required
    ELSE IF ~t.cost_ok[m] THEN V("bad", "C05.cost " \o m \o ": get_cost raised / is not finite on a model the metric supports")
    ELSE IF ~t.cost_rep[m]
         THEN V("bad", "C05.cost " \o m \o ": the value get_cost returned is not representable (not finite, or >= 2^31 / 100) - the exact cost of the assignment is "
                           \o (IF m = "mpic_latency" THEN Str(ExactTotalMilli(t, m)) \o "/1000" ELSE Str(ExactTotal(t, m))))
    ELSE IF ~t.cost2_ok[m] \/ ~t.cost2_rep[m] \/ Abs(t.cost2[m] - t.cost[m]) > 1
         THEN V("bad", "C05.order " \o m \o ": " \o Str(t.cost[m]) \o "/100 when read first, " \o Str(t.cost2[m])
                           \o "/100 when read again after the other metrics")
    ELSE IF m = "mpic_latency"
         THEN IF CloseMilli(t.cost[m], ExactTotalMilli(t, m), NLayers(t)) THEN OkV
              ELSE V("bad", "C05.cost " \o m \o ": observed " \o Str(t.cost[m]) \o "/100, exact " \o Str(ExactTotalMilli(t, m)) \o "/1000")
    ELSE IF CloseInt(t.cost[m], ExactTotal(t, m)) THEN OkV
    ELSE IF AnyF05(t) /\ CloseCenti(t.cost[m], AsisTotalCenti(t, m, "fixed"), NLayers(t))
         THEN V("known", "known:F05:" \o m \o " = " \o Str(t.cost[m]) \o "/100 instead of " \o Str(ExactTotal(t, m))
                  \o ": channels pruned by the 0-bit precision are discounted twice (mean of the coefficients x cost of C-n0 channels)")
    ELSE IF AnyF04(t) /\ CloseCenti(t.cost[m], AsisTotalCenti(t, m, "pinned"), NLayers(t))
         THEN V("known", "known:F04:" \o m \o " = " \o Str(t.cost[m]) \o "/100 instead of " \o Str(ExactTotal(t, m))
                  \o ": a Linear layer is charged for its static in_features / out_features although channels were pruned")
    ELSE V("bad", "C05.cost " \o m \o ": observed " \o Str(t.cost[m]) \o "/100, exact cost of the assignment encoded by the sampled coefficients ("
             \o TS(t) \o ") is " \o Str(ExactTotal(t, m)))

\* first failing entry of a family of verdicts; a genuine clause failure takes precedence over a known signature
FirstBad(S, F) ==
    LET bad == {x \in S : F[x].c # "ok"}  hard == {x \in S : F[x].c = "bad"} IN
    IF bad = {} THEN OkV ELSE IF hard # {} THEN F[Least(hard)] ELSE F[Least(bad)]

FirstBadMetric(t) == FirstBad(DOMAIN t.metrics, [i \in DOMAIN t.metrics |-> CostVerdict(t, t.metrics[i])])

\* one layer object has one features calculator: the one of its LAST call site
KeysVerdict(t, M) ==
    LET a == t.arch  r == Rec(t, M)  wb == WBitsObs(t)  L == LastSite(a, M)
        ein == 1000 * InEffW(a, wb, L)   eout == 1000 * OutEffW(wb, L) IN
    IF r.pr_n = 0 THEN V("bad", "C05.keys layer " \o Str(M) \o ": the cost function of the layer was never called")
    ELSE IF ~r.pr_consistent
         THEN V("bad", "C05.keys layer " \o Str(M) \o ": the cost function is not shown one pair of feature counts under the PyTorch names of the layer type")
    ELSE IF Abs(r.pr_in - ein) <= 1 /\ Abs(r.pr_out - eout) <= 1 THEN OkV
    ELSE IF Op(a, M) = "lin" /\ r.pr_foreign /\ r.pr_in = 1000 * StaticIn(a, L) /\ r.pr_out = 1000 * StaticOut(a, L)
         THEN V("known", "known:F04:Linear layer " \o Str(M) \o " is shown in_features/out_features = " \o Str(r.pr_in) \o "/" \o Str(r.pr_out)
                  \o " (x1000, static) instead of the effective " \o Str(ein) \o "/" \o Str(eout)
                  \o "; the effective counts are written under in_channels/out_channels")
    ELSE V("bad", "C05.keys layer " \o Str(M) \o ": shown (in, out) = (" \o Str(r.pr_in) \o ", " \o Str(r.pr_out) \o ") x1000, effective ("
             \o Str(ein) \o ", " \o Str(eout) \o ")")

FirstBadKeys(t) ==
    IF ~t.probe THEN OkV ELSE FirstBad(Owners(t.arch), [M \in Owners(t.arch) |-> KeysVerdict(t, M)])

Drift05(t) ==
    IF \E L \in LayersOf(t) : ReuseSplit(GS("fixed", t.arch), t.arch, L) THEN "ok"   \* which group a split module joins is not predicted
    ELSE IF t.conflict THEN "drift:two quantiser groups of the specification share one quantiser object"
    ELSE IF \E n \in QIds(t.arch) : Rec(t, n).su_o # Rec(t, n).want_o \/ Rec(t, n).su_w # Rec(t, n).want_w
         THEN "drift:summary() does not report the precisions written by the harness"
    ELSE IF t.fresh_model /\ (TS(t) = "soft") = AllHot(t) /\ \E n \in QIds(t.arch) : Len(Rec(t, n).cand_o) > 1
         THEN "drift:theta of a model that never ran a hard-sampling forward pass is expected to be soft, afterwards one-hot"
    ELSE "ok"

(* full_cost = True on a network with layers that are NOT searched (excluded): every bit-aware cost function  *)
(* reads w_precision / in_precision, which a fixed layer does not have - get_cost raises KeyError (F65).      *)
HasFixed(a) == \E n \in 1..N(a) : IsLayer(a, n) /\ Nd(a, n).excl
CheckFull(t) ==
    IF \A i \in DOMAIN t.metrics : ~t.cost_ok[t.metrics[i]]
    THEN "known:F65:full_cost=True with a fixed (not searched) conv / linear layer: get_cost raises for every bit-aware metric (the fixed layer has no w_precision / in_precision)"
    ELSE "drift:full_cost with fixed layers evaluates now; the specification has no model of the precision charged to fixed layers"

Check05(t) ==
    IF ~t.build_ok THEN "C05.convert: MPS(...) raised on an architecture of the grammar: " \o t.build_err
    ELSE IF HistBad(t) THEN HistVerdict(t, "C05")
    ELSE IF t.full /\ HasFixed(t.arch) THEN CheckFull(t)
    ELSE IF MissingRecs(t) # {} THEN "C05.convert node " \o Str(Least(MissingRecs(t))) \o ": no searchable module was created for this quantisation point"
    ELSE IF ExtraRecs(t) # {} THEN "C05.convert: a searchable module was created that is no quantisation point of the dataflow"
    ELSE IF SuBad(t) # {} THEN "C05.summary node " \o Str(Least(SuBad(t))) \o ": summary() has no usable entry"
    ELSE IF t.frame_changed # ""
         THEN "C05.frame: reading the cost changed the state of the model (" \o t.frame_changed
                  \o "): every tensor of state_dict(), the features calculators and the layer attributes must be the same before and after get_cost()"
    ELSE IF ~AllHot(t)
         THEN IF TS(t) = "soft" THEN "ok"         \* soft coefficients: the cost is a mixture, nothing is claimed
              ELSE "C05.hard: after a forward pass in a hard-sampling mode (" \o TS(t) \o ") the sampled coefficients are not one-hot"
    ELSE IF TS(t) = "fresh" /\ \E n \in QIds(t.arch) : ~SameAsSummary(Rec(t, n))
         THEN LET n == Least({x \in QIds(t.arch) : ~SameAsSummary(Rec(t, x))})  r == Rec(t, n) IN
              "C05.fresh node " \o Str(n) \o ": after a forward pass in eval / hard mode the sampled coefficients encode "
                  \o TripleStr(r.th_i, r.th_w, r.th_o) \o " but summary() reports " \o TripleStr(r.su_i, r.su_w, r.su_o)
    ELSE LET c == FirstBadMetric(t)  k == FirstBadKeys(t) IN
         IF c.c = "bad" THEN c.s
         ELSE IF k.c = "bad" THEN k.s
         ELSE IF c.c = "known" THEN c.s
         ELSE IF k.c = "known" THEN k.s
         ELSE Drift05(t)

Check(t) == IF t.prop = "C02" THEN Check02(t) ELSE Check05(t)

Init == tid \in 1..Len(Traces) /\ verdict = Check(Traces[tid])
Next == UNCHANGED <<tid, verdict>>
Spec == Init /\ [][Next]_<<tid, verdict>>
VerdictOk == verdict = "ok"
=============================================================================
