SPECIFICATION Spec
CONSTANTS
    Impl = "ref"
    Kind = "pit"
    Half = "options"
    Temps = {1000, 500}
    MaxBn = 0
    TrackHist = TRUE
    MaxLen = 3
INVARIANT TypeOK
INVARIANT Erasure
