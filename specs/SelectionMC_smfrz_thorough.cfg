SPECIFICATION Spec
CONSTANTS
  Kind = "sn"
  Smp = "asis"
  SumSamples = FALSE
  ExpSamples = FALSE
  OptImpl = "fixed"
  Ctor = "model"
  N = 2
  Chans = 1
  Temps = {"any"}
  Acts = {"temp", "hard", "gumbel", "disable", "mode", "fwd", "alpha", "load", "freeze", "summary", "export"}
  Writes = {"copy", "data", "optim"}
  Ckpts = {"soft"}
  Moves = "gen"
  InitAlpha = "ctor"
  CtorOpts = "all"
  AllowKF = TRUE
  Grads = {TRUE, FALSE}
  SelHows = {"freeze_attr", "unfreeze_attr", "net_only", "nas_only", "net_and_nas"}
INVARIANT TypeOK
INVARIANT SampledIsProb
INVARIANT OneHotAtArgmax
INVARIANT GumbelTraining
INVARIANT SoftKeepsWinner
INVARIANT ReportIsArgmax
INVARIANT ExportIsArgmax
INVARIANT ReportIsExport
INVARIANT ForwardSamples
PROPERTY DisabledKeeps
PROPERTY ThetaOnlyBySampling
PROPERTY AlphaOnlyByWrites
