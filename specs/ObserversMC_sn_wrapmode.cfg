SPECIFICATION Spec
CONSTANTS
    Impl = "wrapmode"
    Kind = "sn"
    Half = "modes"
    Temps = {1000}
    MaxBn = 1
    TrackHist = FALSE
    MaxLen = 0
INVARIANT TypeOK
PROPERTY ObserversNeutral
