SPECIFICATION Spec
INVARIANT VerdictOk
