SPECIFICATION Spec
VIEW View
CONSTANTS
    Impl = "asis"
    Kind = "mps"
    MaxV = 1
    Temps = {1, 2}
INVARIANT Resume
INVARIANT Keys
INVARIANT ClassTotal
INVARIANT HistOk
INVARIANT NoHidden
