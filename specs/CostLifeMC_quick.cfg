SPECIFICATION Spec
CONSTANTS
  Impl = "pure"
  MaxLen = 3
  Layers = {"conv1d", "conv2d", "linear"}
  NInit = 2
INVARIANT EvalIsFunctionOfDescription
INVARIANT FrameUnchanged
