SPECIFICATION Spec
CONSTANTS
  Impl = "asis"
  ExcludeKF = TRUE
  KindSet = {"layer"}
  NBrSet = {1, 2, 3}
  MaxBlocks = 2
  UseSet = {1}
  PoolSet = {FALSE}
  GumbelSet = {FALSE, TRUE}
  HardSet = {FALSE, TRUE}
  BigN = 0
  Acts = {"SetAlpha", "SetHard", "SetMode", "Forward", "Summary"}
  D = 4
  NameFamily = "plain"
  NameImpl = "asis"
  SampleImpl = "ref"
  ForkImpl = "ref"
INVARIANT TypeOK
INVARIANT C03_ExportSucceeds
INVARIANT C03_ExportIsWinner
INVARIANT C03_KeptModules
INVARIANT F03SigExact
INVARIANT C06_Bounds
INVARIANT C06_AsisIsRef
INVARIANT C06_HardIsExport
INVARIANT C06_StoredHot
INVARIANT C06_FullCostAllFixed
INVARIANT F23SigExact
