---------------------------- MODULE CostFormulas ----------------------------
(***************************************************************************)
(* Integer transcription of every built-in cost function of plinio/cost    *)
(* (properties C16; reused by C04/C05/C06/C12/C20 for the cost of PIT /    *)
(* MPS / SuperNet layers).  Variable-free operator library.                *)
(*                                                                         *)
(* NUMBERS.  TLC has 32-bit integers and no reals.  A possibly fractional  *)
(* ("relaxed") channel count c is represented by the integer  cs = c * S   *)
(* where the scale S is an explicit argument (S = 1: integer channels,     *)
(* S = 4: quarter channels).  Every operator says in which unit its result *)
(* is expressed.  Results that do not fit 2^31 are handled by the callers  *)
(* with the multi-limb naturals ("Big") defined below: every cost is       *)
(* delivered as  Core * Mult  with both factors below 2^31 (CostCore /     *)
(* CostMult), and, for the MPIC look-up table, a rational  num / den.      *)
(*                                                                         *)
(* A layer description is a record                                         *)
(*   p = [cin, cout : channels * S,  kx, ky : kernel,  ox, oy : output     *)
(*        size,  w, a : weight / activation bits,  b : 1 iff bias,         *)
(*        g : 1 = groups is 1 | 0 = depthwise (groups = cin = cout),       *)
(*        td : 1/w_theta_alpha (NE16 only; 1, 2 or 4; 0 encodes a fraction *)
(*             w_theta_alpha of EXACTLY 0, e.g. one-hot sampling)]         *)
(* A point may also carry  wf, af : fractional part of the weight /        *)
(* activation precision in tenths (w_true = w + wf/10 with w the floor);   *)
(* absent = 0.  Only the domain predicate CostSupported reads them.       *)
(* with kx=ky=ox=oy=1 for Linear and ky=oy=1 for Conv1d.                   *)
(* A registered cost function is  fn = [m, l, pat]:  m = name of the cost  *)
(* specification, l \in {"conv1d","conv2d","linear"}, pat \in {"U","dw"}.  *)
(***************************************************************************)
EXTENDS Integers, Sequences, TLC

Reject == -1      \* the function raises (unsupported precision / layer kind)

(***************************************************************************)
(* Multi-limb naturals: little-endian tuples of BigLen limbs, base 10^4.   *)
(* limb * n + carry < 2^31 for every n <= 200000.                          *)
(***************************************************************************)
BigBase == 10000
BigLen  == 7
BigZero == <<0, 0, 0, 0, 0, 0, 0>>

\* 0 <= n < 2^31
BigFromInt(n) == <<n % BigBase, (n \div BigBase) % BigBase, n \div (BigBase * BigBase), 0, 0, 0, 0>>

\* a JSON limb list (little-endian, any length <= BigLen) padded to BigLen
BigPad(s) == <<IF Len(s) >= 1 THEN s[1] ELSE 0, IF Len(s) >= 2 THEN s[2] ELSE 0,
               IF Len(s) >= 3 THEN s[3] ELSE 0, IF Len(s) >= 4 THEN s[4] ELSE 0,
               IF Len(s) >= 5 THEN s[5] ELSE 0, IF Len(s) >= 6 THEN s[6] ELSE 0,
               IF Len(s) >= 7 THEN s[7] ELSE 0>>

BigWellFormed(s) == Len(s) <= BigLen /\ \A i \in 1..Len(s) : s[i] \in 0..(BigBase - 1)

RECURSIVE BigMulFrom(_, _, _, _)
BigMulFrom(x, n, i, carry) ==
    IF i > BigLen THEN <<>>
    ELSE LET t == x[i] * n + carry IN <<t % BigBase>> \o BigMulFrom(x, n, i + 1, t \div BigBase)
\* x * n for 0 <= n <= 200000 (the product must stay below 10^28)
BigMulSmall(x, n) == BigMulFrom(x, n, 1, 0)

RECURSIVE BigAddFrom(_, _, _, _)
BigAddFrom(x, y, i, carry) ==
    IF i > BigLen THEN <<>>
    ELSE LET t == x[i] + y[i] + carry IN <<t % BigBase>> \o BigAddFrom(x, y, i + 1, t \div BigBase)
BigAdd(x, y) == BigAddFrom(x, y, 1, 0)

RECURSIVE BigCmpFrom(_, _, _)
\* -1 | 0 | 1, scanning from the most significant limb
BigCmpFrom(x, y, i) ==
    IF i = 0 THEN 0
    ELSE IF x[i] < y[i] THEN -1 ELSE IF x[i] > y[i] THEN 1 ELSE BigCmpFrom(x, y, i - 1)
BigCmp(x, y) == BigCmpFrom(x, y, BigLen)
BigLeq(x, y) == BigCmp(x, y) <= 0
BigLt(x, y)  == BigCmp(x, y) < 0
BigIsZero(x) == x = BigZero

RECURSIVE BigSubFrom(_, _, _, _)
\* x - y for x >= y
BigSubFrom(x, y, i, borrow) ==
    IF i > BigLen THEN <<>>
    ELSE LET t == x[i] - y[i] - borrow IN
         IF t < 0 THEN <<t + BigBase>> \o BigSubFrom(x, y, i + 1, 1)
                  ELSE <<t>> \o BigSubFrom(x, y, i + 1, 0)
BigAbsDiff(x, y) == IF BigLeq(y, x) THEN BigSubFrom(x, y, 1, 0) ELSE BigSubFrom(y, x, 1, 0)

\* decimal rendering (for verdict messages)
Pad4(n) == (IF n < 10 THEN "000" ELSE IF n < 100 THEN "00" ELSE IF n < 1000 THEN "0" ELSE "") \o ToString(n)
RECURSIVE BigStrFrom(_, _, _)
BigStrFrom(x, i, started) ==
    IF i = 0 THEN (IF started THEN "" ELSE "0")
    ELSE IF ~started /\ x[i] = 0 THEN BigStrFrom(x, i - 1, FALSE)
    ELSE (IF started THEN Pad4(x[i]) ELSE ToString(x[i])) \o BigStrFrom(x, i - 1, TRUE)
BigStr(x) == BigStrFrom(x, BigLen, FALSE)

\* Core * Mult as a Big (Core < 2^31, Mult <= 200000)
BigProd(core, mult) == BigMulSmall(BigFromInt(core), mult)

(***************************************************************************)
(* Rounding helpers.  Argument  xs = x * S  (x possibly fractional), N an  *)
(* integer; \div is the floor division and % the non-negative remainder    *)
(* (also for negative dividends), exactly like Python's // and % .         *)
(***************************************************************************)
ExactFloorDiv(xs, N, S) == xs \div (S * N)                      \* floor(x / N)
ExactCeilDiv(xs, N, S)  == (xs + S * N - 1) \div (S * N)        \* ceil(x / N)
ExactMod(xs, N, S)      == xs % (S * N)                         \* (x mod N) * S

\* gap8_latency.FloorSTE / diana_latency.FloorSTE / _floor:  floor((ch + N - 1) / N)
FloorSTE(chs, N, S) == (chs + S * (N - 1)) \div (S * N)
\* ne16_latency.DivAndCeilSTE:  ((a - 1) // b) + 1
DivAndCeilSTE(xs, N, S) == ((xs - S) \div (S * N)) + 1
\* ne16_latency.FloorDivideSTE:  torch.floor_divide(ch, N)
FloorDivideSTE(xs, N, S) == xs \div (S * N)
\* ne16_latency.ModuloSTE:  a % b     (result * S)
ModuloSTE(xs, N, S) == xs % (S * N)
\* diana_latency.GateSTE:  (ch >= th).float()
GateSTE(chs, th, S) == IF chs >= th * S THEN 1 ELSE 0

IsIntegral(xs, S) == xs % S = 0

(***************************************************************************)
(* Hardware-independent size and operation counts.                         *)
(* kk = product of the kernel dimensions (1 for Linear), oo = product of   *)
(* the output spatial dimensions, b \in {0,1}.                             *)
(* Generic formulas: unit S^2.  Depthwise formulas: unit S.                *)
(***************************************************************************)
ParamsGen(cin, cout, kk, b, S)   == cout * (cin * kk + b * S)     \* params.py  _params_*_generic / _linear
ParamsDw(c, kk, b)               == c * (kk + b)                  \* params.py  _params_*_dw
ParamsNoBiasGen(cin, cout, kk)   == cin * cout * kk               \* params_no_bias.py
ParamsNoBiasDw(c, kk)            == c * kk
ParamsBitGen(cin, cout, kk, w)   == kk * cin * cout * w           \* params_bit.py
ParamsBitDw(c, kk, w)            == kk * c * w

OpsGen(cin, cout, kk, b, oo, S)  == ParamsGen(cin, cout, kk, b, S) * oo      \* ops.py
OpsDw(c, kk, b, oo)              == ParamsDw(c, kk, b) * oo
OpsNoBiasGen(cin, cout, kk, oo)  == ParamsNoBiasGen(cin, cout, kk) * oo      \* ops_no_bias.py
OpsNoBiasDw(c, kk, oo)           == ParamsNoBiasDw(c, kk) * oo
OpsBitGen(cin, cout, kk, w, a, oo) == kk * cin * cout * w * a * oo           \* ops_bit.py
OpsBitDw(c, kk, w, a, oo)        == kk * c * w * a * oo

(***************************************************************************)
(* GAP8 (gap8_latency.py).  Unit S for the convolution (the im2col term is *)
(* linear in ch_in), plain integers for depthwise and linear.              *)
(***************************************************************************)
Gap8ConvGen(cin, cout, kx, ky, ox, oy, S) ==
    LET iterations == FloorSTE(ox, 2, 1) * FloorSTE(oy, 8, 1)
        im2col     == kx * ky * cin * 2                                     \* unit S
        matmul     == FloorSTE(cout, 4, S) * (5 + FloorSTE(kx * ky * cin, 4, S) * (6 + 8) + 10)
    IN  iterations * (im2col + S * matmul)
Gap8ConvDw(cout, kx, ky, ox, oy, S) == 4 * FloorSTE(cout, 4, S) * ox * oy * kx * ky      \* unit 1
Gap8Linear(cin, cout, S)            == FloorSTE(cin, 2, S) * FloorSTE(cout, 4, S)          \* unit 1

(***************************************************************************)
(* MPIC (mpic_latency.py, mpic_energy.py): cycles = MACs * LUT[a][w] with  *)
(* LUT[a][w] = 1/x (x one decimal) = MpicNum / MpicDen(a, w);  0 for w = 0.*)
(* energy = cycles / 250e6 * mean(5.30,5.39,5.46,5.38)e-3                  *)
(*        = cycles * 2153 / 10^14  J.                                      *)
(***************************************************************************)
MpicSupported(a, w) == a \in {2, 4, 8} /\ w \in {0, 2, 4, 8}
MpicDen(a, w) ==
    IF a = 2 THEN (IF w = 2 THEN 65 ELSE IF w = 4 THEN 40 ELSE IF w = 8 THEN 22 ELSE 1)
    ELSE IF a = 4 THEN (IF w = 2 THEN 39 ELSE IF w = 4 THEN 35 ELSE IF w = 8 THEN 21 ELSE 1)
    ELSE (IF w = 2 THEN 25 ELSE IF w = 4 THEN 23 ELSE IF w = 8 THEN 21 ELSE 1)
MpicNum(a, w) == IF w = 0 THEN 0 ELSE 10
MpicEnergyNum == 2153           \* J * 10^14 per cycle

(***************************************************************************)
(* NE16 (ne16_latency.py): Ne16PerfModel.latency with nq_shift = nq_bias = *)
(* False, nq_bits = 32, 8-bit input / output, buffers (5,5,16) / (3,3,32). *)
(* ko, ki: output / input channels of the tile model in unit S; result in  *)
(* unit S.  kind \in {"3x3", "1x1", "dw"}.                                 *)
(***************************************************************************)
Ne16Load(kind)            == IF kind = "1x1" THEN 10 + 3 * 3 * DivAndCeilSTE(16 * 8, 256, 1)
                                              ELSE 6 + 5 * 5 * DivAndCeilSTE(16 * 8, 256, 1)
Ne16Streamout             == 3 + 3 * 3 * DivAndCeilSTE(32 * 8, 256, 1) + 1
\* all of the following in unit S, k in unit S
Ne16MatrixVec(kind, k, w, S) == IF kind = "1x1" THEN 6 * S + k ELSE 6 * S + k * w
Ne16NormQuant(k, S)          == S * (9 + DivAndCeilSTE(k * FloorDivideSTE(32, 8, 1), 4, S))
Ne16Iteration(kind, k, nin, w, S) ==
    IF kind = "dw"
    THEN S * Ne16Load(kind) + (6 * S + k) + Ne16MatrixVec(kind, k, w, S) + 2 * S
         + Ne16NormQuant(k, S) + S * Ne16Streamout
    ELSE nin * (S * Ne16Load(kind) + 6 * S + Ne16MatrixVec(kind, k, w, S) + 2 * S)
         + Ne16NormQuant(k, S) + S * Ne16Streamout
Ne16Latency(kind, ox, oy, ko, ki, w, S) ==
    LET kbody    == IF kind = "dw" THEN 16 ELSE 32
        nbody    == FloorDivideSTE(ko, kbody, S)
        krem     == ModuloSTE(ko, kbody, S)                     \* unit S
        nin      == DivAndCeilSTE(ki, 16, S)
        nspatial == DivAndCeilSTE(ox, 3, 1) * DivAndCeilSTE(oy, 3, 1)
    IN  nspatial * (nbody * Ne16Iteration(kind, kbody * S, nin, w, S)
                    + (IF krem # 0 THEN Ne16Iteration(kind, krem, nin, w, S) ELSE 0))
\* Ne16PerfModel_generalized: a kx x ky kernel as n3 3x3 passes + n1 1x1 passes
Ne16N3x3(kx, ky) == (kx \div 3) * (ky \div 3)
Ne16N1x1(kx, ky) == (kx % 3) * ky + (ky % 3) * kx - (kx % 3) * (ky % 3)
Ne16Generalized(dw, kx, ky, ox, oy, ko, ki, w, S) ==
    (IF Ne16N3x3(kx, ky) > 0
        THEN Ne16N3x3(kx, ky) * Ne16Latency(IF dw THEN "dw" ELSE "3x3", ox, oy, ko, ki, w, S) ELSE 0)
  + (IF Ne16N1x1(kx, ky) > 0
        \* a depthwise 1x1 pass is neither is_1x1 nor is_dw in the code: it is costed with the
        \* formulas of the `else` branches, i.e. like "3x3"; unreachable (dw requires 3x3)
        THEN Ne16N1x1(kx, ky) * Ne16Latency(IF dw THEN "3x3" ELSE "1x1", ox, oy, ko, ki, w, S) ELSE 0)

(***************************************************************************)
(* DIANA (diana_latency.py).  Unit 40 * S:                                 *)
(*   analog : gate*8*cin*k + 18.2 * A / u,   18.2 = 70 / (1e9 / 260e6)     *)
(*   digital: cycles + gate * ox*oy*(cout+cin)/8                           *)
(***************************************************************************)
DianaUnit == 40
DianaOxUnroll(cout, cin, kx, ky, S) ==
    LET cu == IF cin > 64 * S THEN cin ELSE 64 * S                         \* max(64, ch_in), unit S
        ok(u) == u * cout <= 512 * S /\ (u + kx - 1) * cu * ky <= 1152 * S
    IN  IF ok(8) THEN 8 ELSE IF ok(4) THEN 4 ELSE IF ok(2) THEN 2 ELSE 1
DianaAnalog(cin, cout, kx, ky, ox, oy, S) ==
    LET u == DianaOxUnroll(cout, cin, kx, ky, S)
        A == FloorSTE(cout, 512, S) * FloorSTE(cin, 128, S) * ox * oy
    IN  GateSTE(cout, 1, S) * DianaUnit * 8 * cin * kx * ky + S * A * (728 \div u)
\* cg = ch_out / groups (unit S)
DianaDigital(cin, cout, cg, kx, ky, ox, oy, S) ==
    LET cycles == FloorSTE(cg, 16, S) * cin * FloorSTE(ox, 16, 1) * oy * kx * ky     \* unit S
    IN  DianaUnit * cycles + GateSTE(cout, 1, S) * 5 * ox * oy * (cout + cin)

(***************************************************************************)
(* The registry: which functions each built-in specification registers.    *)
(***************************************************************************)
SizeModels  == {"params", "params_no_bias", "params_bit"}
OpsModels   == {"ops", "ops_no_bias", "ops_bit"}
MpicModels  == {"mpic_latency", "mpic_energy"}
FiveWay     == SizeModels \cup OpsModels \cup MpicModels
AllModels   == FiveWay \cup {"gap8_latency", "ne16_latency", "diana_latency"}

Registered ==
    {[m |-> m, l |-> l, pat |-> pat] : m \in FiveWay, l \in {"conv1d", "conv2d"}, pat \in {"U", "dw"}}
    \cup {[m |-> m, l |-> "linear", pat |-> "U"] : m \in AllModels}
    \cup {[m |-> "gap8_latency", l |-> "conv2d", pat |-> pat] : pat \in {"U", "dw"}}
    \cup {[m |-> "ne16_latency", l |-> "conv2d", pat |-> pat] : pat \in {"U", "dw"}}
    \cup {[m |-> "diana_latency", l |-> "conv2d", pat |-> "U"]}

\* models where the bit-width scales the work (monotone in bits), and which bits they read
UsesW(m) == m \in {"params_bit", "ops_bit", "mpic_latency", "mpic_energy", "ne16_latency", "diana_latency"}
UsesA(m) == m \in {"ops_bit", "mpic_latency", "mpic_energy", "ne16_latency", "diana_latency"}
UsesOut(m) == m \notin SizeModels
UsesBias(m) == m \in {"params", "ops", "mpic_latency", "mpic_energy"}

(***************************************************************************)
(* The precision / layer-kind restrictions each model DECLARES (doc-string *)
(* / assertion message / README), written independently of the formulas.   *)
(***************************************************************************)
DeclaredSupported(fn, p) ==
    CASE fn.m \in MpicModels -> p.a \in {2, 4, 8} /\ p.w \in {0, 2, 4, 8}
      [] fn.m = "ne16_latency" ->
            /\ p.a = 8
            /\ (fn.l = "conv2d" /\ fn.pat = "U" => (p.kx = 3 /\ p.ky = 3) \/ (p.kx = 1 /\ p.ky = 1))
            /\ (fn.pat = "dw" => p.kx = 3 /\ p.ky = 3)
      [] fn.m = "diana_latency" ->
            \/ p.w = 8 /\ p.a = 8
            \/ p.w = 2 /\ p.a = 8 /\ p.g = 1
      [] OTHER -> TRUE

(***************************************************************************)
(* The SUPPORTED domain of a function over inputs that need not be         *)
(* integers: the look-up-table models are defined for the listed           *)
(* precisions EXACTLY (2.5, 4.7, 0.9, -0.5 bit are not entries of any      *)
(* table); everything else must be rejected, not rounded or truncated.     *)
(***************************************************************************)
FracW(p) == IF "wf" \in DOMAIN p THEN p.wf ELSE 0
FracA(p) == IF "af" \in DOMAIN p THEN p.af ELSE 0
RestrictedModels == MpicModels \cup {"ne16_latency", "diana_latency"}
CostSupported(fn, p) ==
    /\ DeclaredSupported(fn, p)
    /\ (fn.m \in MpicModels \cup {"diana_latency"} => FracW(p) = 0 /\ FracA(p) = 0)
    /\ (fn.m = "ne16_latency" => FracA(p) = 0)
\* What C16 claims about rejection.  NE16 declares no weight-precision restriction, and its short-cuts
\* (w = 0 or theta = 0 return 0) come before its assertions, so there the declared activation restriction
\* is not enforced: neither is claimed either way.
CostClaimed(fn, p) ==
    fn.m = "ne16_latency" =>
        /\ FracW(p) = 0 /\ p.w \in {0, 2, 4, 8}
        /\ ((p.w = 0 \/ p.td = 0) => (p.a = 8 /\ FracA(p) = 0))
\* int(x) of Python for x = n + f/10, n = floor(x): truncation towards zero
TruncToZero(n, f) == IF n >= 0 \/ f = 0 THEN n ELSE n + 1

(***************************************************************************)
(* Dispatcher.  For p in unit S:                                           *)
(*    cost(fn, p) * CostUnit(fn.m, S)  =  CostCore * CostMult * num / den  *)
(* with num/den = 1 except for MPIC.  CostCore = Reject when the function  *)
(* raises.  (As implemented: NE16 returns 0 for w = 0 or theta = 0 BEFORE  *)
(* looking at the activation precision or the kernel.)                     *)
(***************************************************************************)
CostUnit(m, S) ==
    IF m \in FiveWay THEN S * S
    ELSE IF m = "diana_latency" THEN DianaUnit * S
    ELSE S                                  \* gap8_latency, ne16_latency

CostCore(fn, p, S) ==
    LET kk == p.kx * p.ky
        m  == fn.m
        dw == fn.pat = "dw"
    IN
    CASE m = "params"         -> IF dw THEN S * ParamsDw(p.cin, kk, p.b) ELSE ParamsGen(p.cin, p.cout, kk, p.b, S)
      [] m = "params_no_bias" -> IF dw THEN S * ParamsNoBiasDw(p.cin, kk) ELSE ParamsNoBiasGen(p.cin, p.cout, kk)
      [] m = "params_bit"     -> IF dw THEN S * ParamsBitDw(p.cout, kk, p.w) ELSE ParamsBitGen(p.cin, p.cout, kk, p.w)
      [] m = "ops"            -> IF dw THEN S * ParamsDw(p.cin, kk, p.b) ELSE ParamsGen(p.cin, p.cout, kk, p.b, S)
      [] m = "ops_no_bias"    -> IF dw THEN S * ParamsNoBiasDw(p.cin, kk) ELSE ParamsNoBiasGen(p.cin, p.cout, kk)
      [] m = "ops_bit"        -> IF dw THEN S * ParamsNoBiasDw(p.cout, kk) ELSE ParamsNoBiasGen(p.cin, p.cout, kk)
      [] m \in MpicModels     -> IF ~MpicSupported(p.a, p.w) THEN Reject
                                 ELSE IF dw THEN S * ParamsDw(p.cin, kk, p.b) ELSE ParamsGen(p.cin, p.cout, kk, p.b, S)
      [] m = "gap8_latency"   ->
            IF fn.l = "linear" THEN S * Gap8Linear(p.cin, p.cout, S)
            ELSE IF dw THEN S * Gap8ConvDw(p.cout, p.kx, p.ky, p.ox, p.oy, S)
            ELSE Gap8ConvGen(p.cin, p.cout, p.kx, p.ky, p.ox, p.oy, S)
      [] m = "ne16_latency"   ->
            \* inner model in unit S*td: ko = theta*cout = cout/(S*td), ki = cin = cin*td/(S*td);
            \* cost = latency / theta = latency * td  =>  cost * S = latency in unit S*td
            IF p.w = 0 \/ p.td = 0 THEN 0            \* "if w_precision == 0 or w_theta_alpha == 0: return 0."
            ELSE IF p.a # 8 THEN Reject
            ELSE IF fn.l = "linear" THEN Ne16Generalized(FALSE, 1, 1, 1, 1, p.cout, p.cin * p.td, p.w, S * p.td)
            ELSE IF dw THEN (IF p.kx = 3 /\ p.ky = 3
                             THEN Ne16Generalized(TRUE, 3, 3, p.ox, p.oy, p.cout, p.cin * p.td, p.w, S * p.td)
                             ELSE Reject)
            ELSE IF (p.kx = 3 /\ p.ky = 3) \/ (p.kx = 1 /\ p.ky = 1)
                 THEN Ne16Generalized(FALSE, p.kx, p.ky, p.ox, p.oy, p.cout, p.cin * p.td, p.w, S * p.td)
                 ELSE Reject
      [] m = "diana_latency"  ->
            IF p.w = 2 /\ p.a = 8
            THEN (IF p.g # 1 THEN Reject ELSE DianaAnalog(p.cin, p.cout, p.kx, p.ky, p.ox, p.oy, S))
            ELSE IF p.w = 8 /\ p.a = 8
            THEN DianaDigital(p.cin, p.cout, IF p.g = 1 THEN p.cout ELSE S, p.kx, p.ky, p.ox, p.oy, S)
            ELSE Reject

CostMult(fn, p) ==
    LET oo == p.ox * p.oy IN
    CASE fn.m \in {"ops", "ops_no_bias"} \cup MpicModels -> oo
      [] fn.m = "params_bit" -> 1       \* w is inside the core (fits)
      [] fn.m = "ops_bit"    -> p.w * p.a * oo
      [] OTHER -> 1

CostNum(fn, p) == IF fn.m \in MpicModels THEN MpicNum(p.a, p.w) * (IF fn.m = "mpic_energy" THEN MpicEnergyNum ELSE 1) ELSE 1
CostDen(fn, p) == IF fn.m \in MpicModels THEN MpicDen(p.a, p.w) ELSE 1

\* plain-integer cost (unit CostUnit) for callers whose layers are small and whose model is integer valued
CostInt(fn, p, S) == CostCore(fn, p, S) * CostMult(fn, p)

\* numerator as a Big:  cost * CostUnit * CostDen  =  CostBigNum   (energy: * 10^14)
CostBigNum(fn, p, S) == BigMulSmall(BigProd(CostCore(fn, p, S), CostMult(fn, p)), CostNum(fn, p))

\* x1/d1 <= x2/d2  for Bigs x and small positive denominators
RatLeq(x1, d1, x2, d2) == BigLeq(BigMulSmall(x1, d2), BigMulSmall(x2, d1))
RatLt(x1, d1, x2, d2)  == BigLt(BigMulSmall(x1, d2), BigMulSmall(x2, d1))
=============================================================================
