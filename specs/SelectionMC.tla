----------------------------- MODULE SelectionMC -----------------------------
(***************************************************************************)
(* Design-level state machine for C10: one decision point under every      *)
(* interleaving of option updates, mode switches, forward passes (with     *)
(* grad enabled and under torch.no_grad()), writes to the coefficients     *)
(* (in-place copy_, assignment to .data, optimizer step, load_state_dict   *)
(* of a checkpoint taken in another state), summary() and export() calls,  *)
(* explored to closure.                                                    *)
(*                                                                         *)
(* Init = the object right after construction, for every combination of    *)
(* constructor options (Selection!InitState).  With InitAlpha = "any" the  *)
(* initial state additionally includes a first assignment of arbitrary     *)
(* coefficients (every ranking matrix) - used for the per-channel          *)
(* enumeration, where the interleavings are restricted by Acts.            *)
(*                                                                         *)
(* Every edge of the reachable graph is replayed on the real objects by    *)
(* harness/checks/c10.py (the action label carries the arguments).         *)
(***************************************************************************)
EXTENDS Selection, TLC

CONSTANTS Kind,      \* "mps" | "sn"
          Smp,       \* "asis" | "ref" | "skipflag" | "skipver" | "trainonly"   sampler semantics (Selection!Impl)
          SumSamples, ExpSamples,   \* BOOLEAN: pinned summary() / export() side effects (Selection!Impl)
          OptImpl,   \* "pinned" | "fixed"  update_softmax_options semantics (MPS only)
          Ctor,      \* "bare" | "model"
          N,         \* number of candidates
          Chans,     \* channels (1 = per-layer quantiser / combiner)
          Temps,     \* temperature classes, e.g. {"lo","hi"}
          Acts,      \* enabled actions, subset of
                     \* {"temp","hard","gumbel","disable","mode","fwd","alpha","load","freeze","summary","export"}
          Grads,     \* grad modes of the forward passes, subset of BOOLEAN (FALSE = under torch.no_grad())
          SelHows,   \* calls that freeze / unfreeze alpha, subset of Selection!SelHowsAll ({}: alpha stays trainable)
          Writes,    \* enabled ways of writing alpha, subset of Selection!WriteKinds
          Ckpts,     \* kinds of checkpoints that are loaded, subset of Selection!CkptKinds
          Moves,     \* "all": a write may install any ranking matrix; "gen": only the neighbours of the current
                     \*        one under a generating set of moves (same reachable states, fewer edges)
          CtorOpts,  \* "all": every combination of the constructor's hard / gumbel / disable flags; "default": none set
          InitAlpha, \* "ctor": coefficients as left by the constructor; "any": every ranking matrix
          AllowKF    \* TRUE: the named deviations KF_* are admitted by the invariants

VARIABLE st

IM           == Impl(Smp, SumSamples, ExpSamples)
RankMatrices == [1..Chans -> Rankings(N)]
Identity     == [i \in 1..N |-> i]

\* generating moves on one ranking: rotate the candidates, exchange the first two
Rot(r)  == [i \in 1..N |-> r[(i % N) + 1]]
Swap(r) == IF N < 2 THEN r ELSE [i \in 1..N |-> IF i = 1 THEN r[2] ELSE IF i = 2 THEN r[1] ELSE r[i]]
Neighbours(rk) == {[rk EXCEPT ![c] = Rot(rk[c])] : c \in 1..Chans} \cup {[rk EXCEPT ![c] = Swap(rk[c])] : c \in 1..Chans}
Targets(rk)    == IF Moves = "all" THEN RankMatrices ELSE Neighbours(rk)

Init ==
    \E r0 \in Rankings(N), rk \in RankMatrices, hard \in BOOLEAN, gum \in BOOLEAN, dis \in BOOLEAN, t \in Temps,
       sel \in BOOLEAN :
        /\ (Kind = "sn" => ~dis)
        /\ (CtorOpts = "default" => ~hard /\ ~gum /\ ~dis)
        \* a SuperNetCombiner is built with frozen coefficients (warm-up); everything else with trainable ones
        /\ (sel \/ (Kind = "sn" /\ Ctor = "bare" /\ SelHows # {}))
        /\ IF Kind = "sn" \/ InitAlpha = "ctor"
           THEN /\ rk = [c \in 1..Chans |-> r0]
                /\ st = InitState(Kind, IM, OptImpl, Ctor, rk, hard, gum, dis, t, sel)
           ELSE /\ r0 = Identity      \* quantiser built with ascending precisions, then alpha := rk
                /\ LET s == InitState(Kind, IM, OptImpl, Ctor, [c \in 1..Chans |-> r0], hard, gum, dis, t, sel)
                   IN  st = IF rk = s.rank THEN s ELSE DoSetAlpha(IM, s, rk, "copy")

UpdTemp(t)    == "temp" \in Acts /\ st' = DoOption(Kind, IM, OptImpl, st, "temp", t)
UpdHard(b)    == "hard" \in Acts /\ st' = DoOption(Kind, IM, OptImpl, st, "hard", b)
UpdGumbel(b)  == "gumbel" \in Acts /\ Kind = "mps" /\ st' = DoOption(Kind, IM, OptImpl, st, "gumbel", b)
UpdDisable(b) == "disable" \in Acts /\ Kind = "mps" /\ st' = DoOption(Kind, IM, OptImpl, st, "disable", b)
ModeTrain     == "mode" \in Acts /\ st' = DoMode(st, TRUE)
ModeEval      == "mode" \in Acts /\ st' = DoMode(st, FALSE)
Forward(g)    == "fwd" \in Acts /\ g \in Grads /\ st' = DoForward(Kind, IM, st, g)
SetSel(how)   == "freeze" \in Acts /\ how \in SelHows /\ st' = DoSetSel(st, how)
SetAlpha(rk, wk) == "alpha" \in Acts /\ wk \in Writes /\ rk # st.rank /\ rk \in Targets(st.rank)
                    /\ (wk = "optim" => st.sel)          \* an optimizer only moves trainable tensors
                    /\ st' = DoSetAlpha(IM, st, rk, wk)
\* the checkpoint holds coefficients rk (possibly the current ones), a theta_alpha sampled for them, temperature t
Load(rk, ck, t)  == "load" \in Acts /\ ck \in Ckpts /\ rk \in Targets(st.rank) \cup {st.rank}
                    /\ st' = DoLoad(Kind, IM, st, rk, [c \in 1..Chans |-> CkptClass(ck, rk[c])], t)
Summarize     == "summary" \in Acts /\ st' = DoSummary(Kind, IM, st)
Export        == "export" \in Acts /\ st' = DoExport(Kind, IM, Ctor, st)

Next ==
    \/ \E t \in Temps : UpdTemp(t)
    \/ \E b \in BOOLEAN : UpdHard(b) \/ UpdGumbel(b) \/ UpdDisable(b) \/ Forward(b)
    \/ ModeTrain \/ ModeEval \/ Summarize \/ Export
    \/ \E how \in SelHowsAll : SetSel(how)
    \* (constant bounds, so that TLC labels every edge with the action and its arguments)
    \/ \E rk \in RankMatrices, wk \in WriteKinds : SetAlpha(rk, wk)
    \/ \E rk \in RankMatrices, ck \in CkptKinds, t \in Temps : Load(rk, ck, t)

Spec == Init /\ [][Next]_st

----------------------------------------------------------------------------
TypeOK ==
    /\ st.rank \in RankMatrices
    /\ st.hard \in BOOLEAN /\ st.gum \in BOOLEAN /\ st.dis \in BOOLEAN
    /\ st.sampler \in {"sm", "gs", "none"}
    /\ st.training \in BOOLEAN /\ st.temp \in Temps
    /\ \A c \in 1..Chans : st.theta[c] \in Classes(N)
    /\ st.fresh \in BOOLEAN /\ st.sampled \in BOOLEAN /\ st.lastinf \in BOOLEAN /\ st.skip \in BOOLEAN
    /\ st.sel \in BOOLEAN /\ (SelHows = {} => st.sel)
    /\ (Kind = "sn" => st.sampler # "none")
    /\ (Smp \notin Skips => ~st.skip)

\* the sampling step depends on the coefficients, the options and the mode only
ForwardSamples == \A c \in 1..Chans : SampleOK(Kind, IM, st, c)
\* C10, first sentence: what a sampling step produced is a probability vector (per channel)
SampledIsProb == \A c \in 1..Chans : ProbOK(st, c)
\* C10: in eval mode, and in training with hard non-Gumbel sampling, theta is the one-hot at argmax(alpha)
OneHotAtArgmax == \A c \in 1..Chans : OneHotOK(Kind, st, c, AllowKF)
\* C10: with Gumbel noise in training theta stays a probability vector, one-hot iff hard
GumbelTraining == \A c \in 1..Chans : GumbelOK(st, c)
\* plain soft-max keeps the winner (monotonicity of the soft-max)
SoftKeepsWinner == \A c \in 1..Chans : SoftOK(st, c)
\* C10, second sentence: summary() designates, and export() keeps, argmax(alpha)
ReportIsArgmax == \A c \in 1..Chans : ReportOK(Kind, IM, st, c, AllowKF)
ExportIsArgmax == \A c \in 1..Chans : ExportOK(st, c)
ReportIsExport == \A c \in 1..Chans :
    \/ ReportSet(Kind, IM, st, c) = {ExportChoice(st, c)}
    \/ AllowKF /\ KF_SNSummaryResamples(Kind, st.training, st.sampler)

IsLoad == \E rk \in RankMatrices, ck \in CkptKinds, t \in Temps :
              st' = DoLoad(Kind, IM, st, rk, [c \in 1..Chans |-> CkptClass(ck, rk[c])], t)
IsSampling == \/ \E g \in BOOLEAN : st' = DoForward(Kind, IM, st, g)
              \/ st' = DoSummary(Kind, IM, st)
              \/ st' = DoExport(Kind, IM, Ctor, st)
\* disable_sampling: "keep the saved coefficients" - only loading a checkpoint changes theta while sampling is disabled
DisabledKeeps == [][st.sampler = "none" /\ st'.sampler = "none" /\ st'.theta # st.theta => IsLoad]_st
\* theta is only changed by a sampling step or by loading a checkpoint
ThetaOnlyBySampling == [][st'.theta # st.theta => IsSampling \/ IsLoad]_st
\* the coefficients are only changed by the writes (summary / export / forward are observers of alpha)
AlphaOnlyByWrites ==
    [][st'.rank # st.rank => (\E wk \in WriteKinds : st' = DoSetAlpha(IM, st, st'.rank, wk)) \/ IsLoad]_st
=============================================================================
