----------------------------- MODULE SelectionMC -----------------------------
(***************************************************************************)
(* Design-level state machine for C10: one decision point under every      *)
(* interleaving of option updates, mode switches, forward passes,          *)
(* coefficient updates, summary() and export() calls, explored to closure. *)
(*                                                                         *)
(* Init = the object right after construction, for every combination of    *)
(* constructor options (Selection!InitState).  With InitAlpha = "any" the  *)
(* initial state additionally includes a first assignment of arbitrary     *)
(* coefficients (every ranking matrix) - used for the per-channel          *)
(* enumeration, where the interleavings are restricted by Acts.            *)
(*                                                                         *)
(* Every edge of the reachable graph is replayed on the real objects by    *)
(* harness/checks/c10.py (the action label carries the arguments).         *)
(***************************************************************************)
EXTENDS Selection, TLC

CONSTANTS Kind,      \* "mps" | "sn"
          Impl,      \* "asis" | "ref"      sampler semantics (differs for "sn" only)
          OptImpl,   \* "pinned" | "fixed"  update_softmax_options semantics (MPS only)
          Ctor,      \* "bare" | "model"
          N,         \* number of candidates
          Chans,     \* channels (1 = per-layer quantiser / combiner)
          Temps,     \* temperature classes, e.g. {"lo","hi"}
          Acts,      \* enabled actions, subset of
                     \* {"temp","hard","gumbel","disable","mode","fwd","alpha","summary","export"}
          InitAlpha, \* "ctor": coefficients as left by the constructor; "any": every ranking matrix
          AllowKF    \* TRUE: the named deviations KF_* are admitted by the invariants

VARIABLE st

RankMatrices == [1..Chans -> Rankings(N)]
Identity     == [i \in 1..N |-> i]

Init ==
    \E r0 \in Rankings(N), rk \in RankMatrices, hard \in BOOLEAN, gum \in BOOLEAN, dis \in BOOLEAN, t \in Temps :
        /\ (Kind = "sn" => ~dis)
        /\ IF Kind = "sn" \/ InitAlpha = "ctor"
           THEN /\ rk = [c \in 1..Chans |-> r0]
                /\ st = InitState(Kind, Impl, OptImpl, Ctor, rk, hard, gum, dis, t)
           ELSE /\ r0 = Identity      \* quantiser built with ascending precisions, then alpha := rk
                /\ LET s == InitState(Kind, Impl, OptImpl, Ctor, [c \in 1..Chans |-> r0], hard, gum, dis, t)
                   IN  st = IF rk = s.rank THEN s ELSE DoSetAlpha(s, rk)

UpdTemp(t)    == "temp" \in Acts /\ st' = DoOption(Kind, OptImpl, st, "temp", t)
UpdHard(b)    == "hard" \in Acts /\ st' = DoOption(Kind, OptImpl, st, "hard", b)
UpdGumbel(b)  == "gumbel" \in Acts /\ Kind = "mps" /\ st' = DoOption(Kind, OptImpl, st, "gumbel", b)
UpdDisable(b) == "disable" \in Acts /\ Kind = "mps" /\ st' = DoOption(Kind, OptImpl, st, "disable", b)
ModeTrain     == "mode" \in Acts /\ st' = DoMode(st, TRUE)
ModeEval      == "mode" \in Acts /\ st' = DoMode(st, FALSE)
Forward       == "fwd" \in Acts /\ st' = DoForward(Kind, Impl, st)
SetAlpha(rk)  == "alpha" \in Acts /\ st.rank # rk /\ st' = DoSetAlpha(st, rk)
Summarize     == "summary" \in Acts /\ st' = DoSummary(Kind, Impl, st)
Export        == "export" \in Acts /\ st' = DoExport(Kind, Impl, Ctor, st)

Next ==
    \/ \E t \in Temps : UpdTemp(t)
    \/ \E b \in BOOLEAN : UpdHard(b) \/ UpdGumbel(b) \/ UpdDisable(b)
    \/ ModeTrain \/ ModeEval \/ Forward \/ Summarize \/ Export
    \/ \E rk \in RankMatrices : SetAlpha(rk)

Spec == Init /\ [][Next]_st

----------------------------------------------------------------------------
TypeOK ==
    /\ st.rank \in RankMatrices
    /\ st.hard \in BOOLEAN /\ st.gum \in BOOLEAN /\ st.dis \in BOOLEAN
    /\ st.sampler \in {"sm", "gs", "none"}
    /\ st.training \in BOOLEAN /\ st.temp \in Temps
    /\ \A c \in 1..Chans : st.theta[c] \in Classes(N)
    /\ st.fresh \in BOOLEAN /\ st.sampled \in BOOLEAN
    /\ (Kind = "sn" => st.sampler # "none")

\* C10, first sentence: what a sampling step produced is a probability vector (per channel)
SampledIsProb == \A c \in 1..Chans : ProbOK(st, c)
\* C10: in eval mode, and in training with hard non-Gumbel sampling, theta is the one-hot at argmax(alpha)
OneHotAtArgmax == \A c \in 1..Chans : OneHotOK(Kind, st, c, AllowKF)
\* C10: with Gumbel noise in training theta stays a probability vector, one-hot iff hard
GumbelTraining == \A c \in 1..Chans : GumbelOK(st, c)
\* plain soft-max keeps the winner (monotonicity of the soft-max)
SoftKeepsWinner == \A c \in 1..Chans : SoftOK(st, c)
\* C10, second sentence: summary() designates, and export() keeps, argmax(alpha)
ReportIsArgmax == \A c \in 1..Chans : ReportOK(Kind, Impl, st, c, AllowKF)
ExportIsArgmax == \A c \in 1..Chans : ExportOK(st, c)
ReportIsExport == \A c \in 1..Chans :
    \/ ReportSet(Kind, Impl, st, c) = {ExportChoice(st, c)}
    \/ AllowKF /\ KF_SNSummaryResamples(Kind, st.training, st.sampler)

\* disable_sampling: "keep the saved coefficients" - no step changes theta while sampling stays disabled
DisabledKeeps == [][st.sampler = "none" /\ st'.sampler = "none" => st'.theta = st.theta]_st
\* theta is only changed by a sampling step
ThetaOnlyBySampling ==
    [][st'.theta # st.theta => \/ st' = DoForward(Kind, Impl, st)
                               \/ st' = DoSummary(Kind, Impl, st)
                               \/ st' = DoExport(Kind, Impl, Ctor, st)]_st
\* the coefficients are only changed by SetAlpha (summary/export/forward are observers of alpha)
AlphaOnlyBySetAlpha == [][st'.rank # st.rank => st' = DoSetAlpha(st, st'.rank)]_st
=============================================================================
