SPECIFICATION Spec
CONSTANTS
  Impl = "own"
  NL = 2
  Scale = "quick"
INVARIANT NoCollisionPossible
