SPECIFICATION Spec
CONSTANTS
  Impl = "asis"
  ExcludeKF = TRUE
  KindSet = {"layer", "ubm"}
  NBrSet = {2}
  MaxBlocks = 1
  UseSet = {1}
  PoolSet = {FALSE}
  GumbelSet = {FALSE}
  HardSet = {TRUE}
  BigN = 0
  Acts = {"SetAlpha"}
  D = 4
  NameFamily = "collide"
  NameImpl = "prefixdot"
  SampleImpl = "ref"
  ForkImpl = "ref"
INVARIANT TypeOK
INVARIANT C06_FullCostAllFixed
INVARIANT NamesCollide
