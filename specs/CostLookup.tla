----------------------------- MODULE CostLookup -----------------------------
(***************************************************************************)
(* Cost-function lookup of plinio.cost.CostSpec (property C15).             *)
(*                                                                         *)
(* A cost specification is built by a HISTORY of registrations             *)
(*     spec[(LayerType, constraint)] = cost_fn                             *)
(* and queried with  spec[(LayerType, layer_description)].                 *)
(* Patterns of one layer type:  "U" = unconstrained (constraint None),     *)
(* "dw", "k3", "usr" = three constrained patterns.  A layer description is *)
(* abstracted to the set of constraints it satisfies.  Each registration   *)
(* associates a function that we name after <<type, pattern>>.             *)
(*                                                                         *)
(* Variable-free operator library; CostLookupMC / CostLookupTrace use it.  *)
(***************************************************************************)
EXTENDS Naturals, Sequences, FiniteSets

Types       == {"A", "B"}                    \* two layer types (e.g. Conv2d, Linear)
Patterns    == {"U", "dw", "k3", "usr"}
Constrained == Patterns \ {"U"}
Defaults    == {"zero", "fail"}

Range(s) == {s[i] : i \in DOMAIN s}

\* all sequences without repetition over set S, of length <= n
RECURSIVE ArrangementsOf(_, _)
ArrangementsOf(S, n) ==
    IF n = 0 \/ S = {} THEN {<<>>}
    ELSE {<<>>} \cup UNION {{<<x>> \o t : t \in ArrangementsOf(S \ {x}, n - 1)} : x \in S}

\* registrations of layer type ty, in order
OfType(reg, ty) == SelectSeq(reg, LAMBDA r : r[1] = ty)
Pats(reg, ty)   == {r[2] : r \in Range(OfType(reg, ty))}

(***************************************************************************)
(* Reference semantics (cost/README + property statement): constrained     *)
(* pattern the layer satisfies, else unconstrained, else default;          *)
(* "conflict" iff two different constrained patterns match.                *)
(* Result: <<"fn", pattern>> | <<"zero">> | <<"fail">> | <<"conflict">>     *)
(***************************************************************************)
RefLookup(reg, ty, sat, dflt) ==
    LET m == Pats(reg, ty) \cap sat
    IN  IF Cardinality(m) >= 2 THEN <<"conflict">>
        ELSE IF Cardinality(m) = 1 THEN <<"fn", CHOOSE p \in m : TRUE>>
        ELSE IF "U" \in Pats(reg, ty) THEN <<"fn", "U">>
        ELSE <<dflt>>

(***************************************************************************)
(* As-implemented scan of CostSpec.__getitem__, statement by statement.    *)
(* State of the loop: <<best_match, best_constr>>; best_constr = "None"    *)
(* is Python's None.  Impl = "pinned": the code of the pinned commit       *)
(* (an unconstrained entry is treated like a matching constrained one when *)
(* a constrained entry was already taken -> spurious conflict, finding     *)
(* F15).  Impl = "fixed": after the fix: commit (an unconstrained entry    *)
(* only applies while no constrained entry matched).                       *)
(***************************************************************************)
RECURSIVE ScanFrom(_, _, _, _, _, _)
ScanFrom(impl, entries, i, sat, best, bconstr) ==
    IF i > Len(entries) THEN best
    ELSE LET p == entries[i][2] IN
         IF impl = "pinned" THEN
              IF p = "U" \/ p \in sat
              THEN IF bconstr = "None"
                   THEN ScanFrom(impl, entries, i + 1, sat, <<"fn", p>>,
                                 IF p = "U" THEN "None" ELSE p)
                   ELSE <<"conflict">>
              ELSE ScanFrom(impl, entries, i + 1, sat, best, bconstr)
         ELSE \* "fixed"
              IF p = "U"
              THEN IF bconstr = "None"
                   THEN ScanFrom(impl, entries, i + 1, sat, <<"fn", p>>, bconstr)
                   ELSE ScanFrom(impl, entries, i + 1, sat, best, bconstr)
              ELSE IF p \in sat
                   THEN IF bconstr = "None"
                        THEN ScanFrom(impl, entries, i + 1, sat, <<"fn", p>>, p)
                        ELSE <<"conflict">>
                   ELSE ScanFrom(impl, entries, i + 1, sat, best, bconstr)

Scan(impl, reg, ty, sat, dflt) == ScanFrom(impl, OfType(reg, ty), 1, sat, <<dflt>>, "None")

\* Signature of finding F15: a constrained pattern the layer satisfies is registered
\* BEFORE the unconstrained pattern of the same type.
F15Signature(reg, ty, sat) ==
    LET e == OfType(reg, ty) IN
    \E i, j \in DOMAIN e : i < j /\ e[i][2] \in sat /\ e[j][2] = "U"

(***************************************************************************)
(* What the built-in constraints MEAN (plinio/cost/pattern.py, README):    *)
(* depthwise = in_channels, out_channels and groups all equal; "3x3" =     *)
(* every kernel dimension is 3.  d = [cin, cout, groups, k (sequence),     *)
(* usr (BOOLEAN: the user constraint of the harness)].                     *)
(***************************************************************************)
RefSat(d) == (IF d.cin = d.groups /\ d.cout = d.groups THEN {"dw"} ELSE {})
             \cup (IF \A i \in DOMAIN d.k : d.k[i] = 3 THEN {"k3"} ELSE {})
             \cup (IF d.usr THEN {"usr"} ELSE {})


(***************************************************************************)
(* Function IDENTITY and derived layer types (round-3 extension).           *)
(* A registration may associate the very function object that the spec     *)
(* uses as its default ("depthwise is free" in a 'zero' spec): dreg = the  *)
(* set of <<type, pattern>> registered that way.  What a caller can        *)
(* observe of a result is then Obj(result): the default object for the     *)
(* default AND for those registrations.  Layer types may derive from each  *)
(* other (a user's SubConv2d(nn.Conv2d) = type "D" below "A"): the lookup  *)
(* is by the layer's OWN type, registrations of a base type are not merged *)
(* into it.                                                                *)
(***************************************************************************)
Obj(r, ty, dreg, dflt) == IF Len(r) = 2 /\ <<ty, r[2]>> \in dreg THEN <<dflt>> ELSE r
RefLookupId(reg, dreg, ty, sat, dflt) == Obj(RefLookup(reg, ty, sat, dflt), ty, dreg, dflt)

\* "sentinel": the default object doubles as the 'no constrained match yet' marker (identity test on the result)
RECURSIVE ScanSentinel(_, _, _, _, _, _, _, _)
ScanSentinel(entries, i, sat, best, generic, ty, dreg, dflt) ==
    IF i > Len(entries)
    THEN IF Obj(best, ty, dreg, dflt) = <<dflt>> /\ generic # <<>> THEN generic ELSE best
    ELSE LET p == entries[i][2] IN
         IF p = "U" THEN ScanSentinel(entries, i + 1, sat, best, <<"fn", p>>, ty, dreg, dflt)
         ELSE IF p \in sat
              THEN IF Obj(best, ty, dreg, dflt) = <<dflt>>
                   THEN ScanSentinel(entries, i + 1, sat, <<"fn", p>>, generic, ty, dreg, dflt)
                   ELSE <<"conflict">>
              ELSE ScanSentinel(entries, i + 1, sat, best, generic, ty, dreg, dflt)

\* base types of a layer type (reflexive); "D" derives from "A"
Bases(ty) == IF ty = "D" THEN {"D", "A"} ELSE {ty}
\* "mergebase": the lists of every registered type the layer's type derives from are scanned one after the other, in
\* the order in which the types were first registered (dict insertion order)
TypeOrder(reg) == LET firsts == {i \in DOMAIN reg : \A j \in 1..(i - 1) : reg[j][1] # reg[i][1]} IN
                  [k \in 1..Cardinality(firsts) |->
                      reg[CHOOSE i \in firsts : Cardinality({j \in firsts : j < i}) = k - 1][1]]
RECURSIVE MergedEntries(_, _, _, _)
MergedEntries(reg, ty, tord, k) ==
    IF k > Len(tord) THEN <<>>
    ELSE (IF tord[k] \in Bases(ty) THEN OfType(reg, tord[k]) ELSE <<>>) \o MergedEntries(reg, ty, tord, k + 1)

ScanId(impl, reg, dreg, ty, sat, dflt) ==
    CASE impl = "sentinel"  -> Obj(ScanSentinel(OfType(reg, ty), 1, sat, <<dflt>>, <<>>, ty, dreg, dflt), ty, dreg, dflt)
      [] impl = "mergebase" -> LET e == MergedEntries(reg, ty, TypeOrder(reg), 1)
                                   r == ScanFrom("fixed", e, 1, sat, <<dflt>>, "None")
                               IN  \* the function found may belong to a base type: name it after the type that registered it
                                   IF Len(r) = 2 /\ <<ty, r[2]>> \notin Range(reg) THEN <<"basefn", r[2]>>
                                   ELSE Obj(r, ty, dreg, dflt)
      [] OTHER              -> Obj(Scan("fixed", reg, ty, sat, dflt), ty, dreg, dflt)

\* permutations of a registration history (for order independence)
Perms(reg) == {p \in ArrangementsOf(Range(reg), Len(reg)) : Len(p) = Len(reg)}
=============================================================================
