SPECIFICATION Spec
CONSTANTS
  Anchor = "last"
  Mode = "gamma"
  KMaxV = 9
  KMaxP = 12
INVARIANT AtLeastOneTap
INVARIANT DilAtLeastOne
INVARIANT KeepAliveSameTap
INVARIANT ExportEquivalent
INVARIANT PatternShape
INVARIANT MonotoneBeta
INVARIANT MonotoneGamma
INVARIANT AllOpenIsFull
