SPECIFICATION Spec
CONSTANTS
  Impl = "shared"
  NL = 2
  Scale = "quick"
INVARIANT OwnArgmin
INVARIANT TotalNotHigher
INVARIANT AnnouncedIsReal
INVARIANT OnlyPromotes
