SPECIFICATION Spec
CONSTANTS
    Impl = "costkeys"
    Kind = "mps"
    MaxBn = 1
    TrackHist = FALSE
    MaxLen = 0
INVARIANT TypeOK
INVARIANT ModesAgree
PROPERTY ObserversNeutral
