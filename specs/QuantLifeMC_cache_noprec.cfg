SPECIFICATION Spec
CONSTANTS
  Impl = "cache_noprec"
  NPrec = 2
INVARIANT HistoryIndependent
INVARIANT LastIsPrevCall
