SPECIFICATION Spec
INVARIANT VerdictOk
