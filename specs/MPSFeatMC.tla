------------------------------ MODULE MPSFeatMC ------------------------------
(***************************************************************************)
(* Exhaustive design check of channel pruning by the mixed-precision       *)
(* search (MPS half of C09, last sentence of C05).                         *)
(*                                                                         *)
(* TLC GROWS every architecture of the bounded grammar exactly as          *)
(* FeatGraphMC does (the Grow action, the candidate nodes and the          *)
(* constants of that module are reused unchanged: conv incl. depthwise and *)
(* excluded, linear, relu, pooling, flatten, add, channel concat, time /   *)
(* height concat, 1-D and 2-D), SEALS it, and then CHOOSES every           *)
(* zero / non-zero pattern of the per-channel weight precisions of every   *)
(* component the search can prune (MSealAndChoose; f maps the smallest     *)
(* searchable layer of a component to the set of its alive channels, the   *)
(* empty set included).  The invariants are evaluated in every such state; *)
(* the states are afterwards replayed on real MPS models by the harness.   *)
(***************************************************************************)
EXTENDS FeatGraphMC, MPSFeat

CONSTANTS MAllowFindings,   \* BOOLEAN: also seal the topologies of the listed findings (sanity configs)
          Conv1dExport,     \* "pinned" | "fixed"  : MPSConv1d.export (finding F62)
          ZeroClass,        \* "kept" | "dropped"  : is the 0-bit class materialised by export()
          GuardExport       \* BOOLEAN: exempt the scenarios of the two export findings (F62, F63)

MSealable(a) == /\ N(a) >= 1
                /\ \A t \in 0..(N(a) - 1) : Used(a, t)
                /\ SearchLayers(a) # {}
                /\ (MAllowFindings \/ MSupported(a, MRepMap(a), TRUE))

MSealAndChoose ==
    /\ phase = "grow" /\ MSealable(arch)
    /\ LET rm == MRepMap(arch)  keys == MFreeKeys(arch, rm, TRUE) IN
           /\ f' \in [keys -> SUBSET (1..MaxW)]
           /\ \A r \in keys : f'[r] \subseteq 1..Ch(arch, r)
    /\ phase' = "masked"
    /\ UNCHANGED arch

MNext == Grow \/ MSealAndChoose
MSpec == Init /\ [][MNext]_vars

RM == MRepMap(arch)
MM == MMOf(arch, RM, f, TRUE)
WB == [L \in SearchLayers(arch) |-> BitsOfPat(MM[L])]

(* ---- C09 ---- *)
\* what a layer is told (reports, is charged for) = the alive features of the tensor that reaches it
MInvToldIsActual == Masked => MToldIsActual(arch, MM)
\* identical on both sides of a residual sum
MInvAddAligned   == Masked => MAddAligned(arch, MM)
\* the network output keeps its width
MInvOutputKept   == Masked => MOutputKept(arch, MM)
\* a component can be pruned only as a whole: every searchable layer of a free component carries the chosen pattern
MInvOnePattern   == Masked => \A L \in MFreeLayers(arch, RM, TRUE) :
                        Positions1(MM[L]) = f[MLayerRep(arch, RM, L)] /\ Len(MM[L]) = Ch(arch, L)
(* ---- exported network ---- *)
MInvExportBuilds == Masked => \A L \in SearchLayers(arch) :
                        \/ GuardExport /\ (KF_MPSDwExport(arch, WB) \/ KF_MPSConv1dExport(arch))
                        \/ ExportBuilds(arch, WB[L], L, ZeroClass, Conv1dExport)
MInvExportShape  == Masked => ExportShapeConsistent(arch, WB, ZeroClass)
\* the classes of an exported layer partition its channels: alive channels at non-zero precision, pruned at 0 bit
MInvExportPartition == Masked => \A L \in SearchLayers(arch) :
                        LET parts == ExportParts(arch, WB[L], L, "kept") IN
                        /\ ExportedOut(arch, WB[L], L, "kept") = Ch(arch, L)
                        /\ (0 \in DOMAIN parts => parts[0].out = Ch(arch, L) - Count(MM[L]))
                        /\ (0 \notin DOMAIN parts => Count(MM[L]) = Ch(arch, L))
(* ---- C05, last sentence ---- *)
MInvPruneLowers  == Masked => PruneLowers(arch, RM, f, TRUE)
\* the cost function is shown the alive input features / the layer's alive outputs
MInvShown        == Masked => \A L \in SearchLayers(arch) :
                        ChargedNum(arch, MM, L) = PBNum(arch, L, Count(MReach(arch, MM, L)), WB[L])

(* non-vacuity witnesses (run as expected-to-fail properties in the _cov config):                *)
(* some state prunes a channel that a conv / a linear / a depthwise consumer reads               *)
NoPrunedInput(kind) ==
    Masked => ~\E L \in SearchLayers(arch) :
                  /\ Count(MReach(arch, MM, L)) < Ch(arch, In1(arch, L))
                  /\ (CASE kind = "dw"  -> IsDw(arch, L)
                        [] kind = "lin" -> Op(arch, L) = "lin"
                        [] OTHER        -> Op(arch, L) = "conv" /\ ~IsDw(arch, L))
NoPrunedConvInput == NoPrunedInput("conv")
NoPrunedLinInput  == NoPrunedInput("lin")
NoPrunedDwInput   == NoPrunedInput("dw")
=============================================================================
