SPECIFICATION Spec
CONSTANTS
    Impl = "valuesonly"
    Kind = "mps"
    Half = "modes"
    Temps = {1000}
    MaxBn = 1
    TrackHist = FALSE
    MaxLen = 0
INVARIANT TypeOK
PROPERTY ObserversNeutral
