SPECIFICATION Spec
CONSTANTS
    Impl = "ref"
    Kind = "pit"
    MaxBn = 2
    TrackHist = TRUE
    MaxLen = 5
INVARIANT TypeOK
INVARIANT Erasure
