SPECIFICATION Spec
CONSTANTS
  Kind = "mps"
  Impl = "asis"
  OptImpl = "fixed"
  Ctor = "bare"
  N = 3
  Chans = 1
  Temps = {"any"}
  Acts = {"temp", "hard", "gumbel", "disable", "mode", "fwd", "alpha", "summary", "export"}
  InitAlpha = "ctor"
  AllowKF = FALSE
INVARIANT TypeOK
INVARIANT SampledIsProb
INVARIANT OneHotAtArgmax
INVARIANT GumbelTraining
INVARIANT SoftKeepsWinner
INVARIANT ReportIsArgmax
INVARIANT ExportIsArgmax
INVARIANT ReportIsExport
PROPERTY DisabledKeeps
PROPERTY ThetaOnlyBySampling
PROPERTY AlphaOnlyBySetAlpha
