SPECIFICATION Spec
CONSTANTS
  Impl = "ref"
  MaxLen = 4
  UpdKinds = {"load", "inplace"}
  Nests = {"any"}
  MatchOpts <- Opts_q3
INVARIANT CurrentWeights
INVARIANT CurrentStats
INVARIANT OptionsOfThisCall
INVARIANT AllReplaced
INVARIANT KwargsUnchanged
INVARIANT DefaultsDeclared
INVARIANT OptionsInRange
