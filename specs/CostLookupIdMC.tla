--------------------------- MODULE CostLookupIdMC ---------------------------
(***************************************************************************)
(* C15, identity / derived-type extension: registration histories over      *)
(* types A (base), D (derived from A), B with a flag "registered with the   *)
(* spec's default function object"; every layer description of every type;  *)
(* both defaults.                                                           *)
(***************************************************************************)
EXTENDS CostLookup, TLC

CONSTANTS Impl,          \* "fixed" | "sentinel" | "mergebase"
          MaxLen, TypesId, AllowDf

VARIABLES reg, dreg, dflt

vars == <<reg, dreg, dflt>>

Init == reg = <<>> /\ dreg = {} /\ dflt \in Defaults

Register(ty, p, df) ==
    /\ <<ty, p>> \notin Range(reg) /\ Len(reg) < MaxLen
    /\ (ty # "A" => p \in {"U", "dw", "k3"}) /\ (ty = "B" => p \in {"U", "dw"})
    /\ reg' = Append(reg, <<ty, p>>)
    /\ dreg' = IF df THEN dreg \cup {<<ty, p>>} ELSE dreg
    /\ UNCHANGED dflt

Next == \E ty \in TypesId, p \in Patterns, df \in (IF AllowDf THEN BOOLEAN ELSE {FALSE}) : Register(ty, p, df)
Spec == Init /\ [][Next]_vars

QueriesId == TypesId \X SUBSET Constrained

\* what the caller observes = what the reference semantics prescribes, for the layer's own type
ImplMatchesRefId ==
    \A q \in QueriesId : ScanId(Impl, reg, dreg, q[1], q[2], dflt) = RefLookupId(reg, dreg, q[1], q[2], dflt)
\* and it does not depend on the order of registration
OrderIndependentId ==
    \A q \in QueriesId : \A pr \in Perms(reg) :
        ScanId(Impl, pr, dreg, q[1], q[2], dflt) = ScanId(Impl, reg, dreg, q[1], q[2], dflt)
=============================================================================
