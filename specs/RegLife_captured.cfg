SPECIFICATION Spec
CONSTANTS
  Impl = "captured"
  MaxHist = 2
INVARIANT ApplyIsCurrent
INVARIANT HistOk
INVARIANT BaseLinear
INVARIANT ExactAttr
