SPECIFICATION Spec
CONSTANTS
  MaxNodes = 3
  MinNodes = 1
  Widths = {3}
  LinWidths = {2}
  Ks = {1, 3}
  BNs = {FALSE, TRUE}
  C0 = 3
  Sp0 = 4
  AllowRelu = TRUE
  AllowPool = TRUE
  AllowAdd = TRUE
  AllowDw = TRUE
  TupMode = "one"
  WType = "pl"
  SelMode = "rot"
  Lin = "fixed"
  GuardF40 = TRUE
  GuardF05 = TRUE
INVARIANT InvRepIsRep
INVARIANT InvPlumb
INVARIANT InvPlumbGroups
INVARIANT InvAddSameGrid
INVARIANT InvOutputFloat
INVARIANT InvCostExact
INVARIANT InvSpecKeys
