SPECIFICATION Spec
CONSTANTS
  Impl = "dropinf"
INVARIANT PairedByPosition
