SPECIFICATION Spec
CONSTANTS
  Impl = "pinned"
  Kind = "pit"
  Temps = {1000}
INVARIANT FrozenNeverTrainable
