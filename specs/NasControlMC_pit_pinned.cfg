SPECIFICATION Spec
CONSTANTS
  Impl = "pinned"
  Kind = "pit"
  Temps = {1000}
  Hetero = FALSE
  Part = "all"
  Dims = {"features", "rf", "dilation", "dc"}
  HOpts = {"temp", "hard", "gumbel", "disable"}
  Forking = FALSE
INVARIANT FrozenNeverTrainable
