SPECIFICATION Spec
CONSTANTS
  Impl = "idcache"
  Kind = "pit"
  Temps = {1000}
  Hetero = FALSE
  Part = "ctl"
  Dims = {"features"}
  HOpts = {"temp", "hard", "gumbel", "disable"}
  Forking = TRUE
INVARIANT Partition
