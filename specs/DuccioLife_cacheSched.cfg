SPECIFICATION Spec
CONSTANTS
  Impl = "cacheSched"
  MaxCalls = 2
  Alphabet = "small"
INVARIANT HistoryIndependent
INVARIANT InitOnce
INVARIANT DefaultsAreFinal
INVARIANT ExactFamily
