------------------------------ MODULE CostDeps ------------------------------
(***************************************************************************)
(* C12 - cost is a differentiable, monotone function of the ARCHITECTURE   *)
(* only.  Variable-free operator library (design model + the clauses the   *)
(* trace specification evaluates).                                         *)
(*                                                                         *)
(* PIT.  The architectural state of a converted model is                   *)
(*    A = [th : searchable call site -> <<|alpha_1| .. |alpha_W|>>,        *)
(*         tb : Conv1d call site     -> <<|beta_1|  .. |beta_K|>>,         *)
(*         tg : Conv1d call site     -> <<|gamma_1| .. |gamma_G|>>]        *)
(* magnitudes in units of 0.1 (MaskAlgebra).  NOTHING ELSE - in particular *)
(* no weight and no input sample - is an argument of Cost: this is claim   *)
(* (a) of the property ("depends on the architectural parameters only")    *)
(* at design level.  Layers that share a masker carry the same th; widths  *)
(* fixed by the network input/output and strided Conv1d time masks are     *)
(* constant (all One).                                                     *)
(*                                                                         *)
(* Cost(metric, a, A, disc) transcribes what PIT._get_single_cost charges: *)
(*   cout = sum of theta_alpha            (disc: number of theta > 0.5)    *)
(*   cin  = what the input features calculator reports (value version of   *)
(*          FeatGraph!CalcM / SetByOf: concat adds, flatten multiplies,    *)
(*          add takes the first operand)                                   *)
(*   k    = sum_j theta_beta[j]/(j+1) * theta_gamma[j]/cnt(j)              *)
(*          (disc: |MaskAlgebra!Kept|)                                     *)
(* and feeds them to the integer transcription of the registered cost      *)
(* function (CostFormulas!CostInt).  Units: channels 1/10; the continuous  *)
(* kernel size of a Conv1d in 1/2400 (exact for K <= 4, see KEff); a cost  *)
(* is delivered in units of 1/Unit(metric, a).                             *)
(*                                                                         *)
(* MPS / SuperNet.  A decision point mixes candidate costs C_k with        *)
(* coefficients theta = softmax(alpha/T):  cost = sum theta_k C_k.  The    *)
(* Mix* operators give the sign of d cost / d alpha_k and what happens     *)
(* when alpha_k is raised (theta integers with sum D).                     *)
(***************************************************************************)
EXTENDS FeatGraph, TLC

MA == INSTANCE MaskAlgebra
CF == INSTANCE CostFormulas

S  == 10                                   \* channel unit (1/10 channel)
KL == 24                                   \* common multiple of the normalisation denominators, K <= 4

PitMetrics == {"params", "params_no_bias", "ops", "ops_no_bias", "gap8_latency"}
\* gap8_latency registers no Conv1d pattern (such layers cost 0 by the specification's default) but it does model
\* Linear layers: on a 1-D network the metric is the latency of its Linear layers, which depends on the masks of
\* the Conv1d layers that feed them
Applicable(metric, a) == metric \in PitMetrics
\* metrics that are polynomials with positive coefficients in the effective sizes (no rounding)
Smooth(metric) == metric \in {"params", "params_no_bias", "ops", "ops_no_bias"}

Z(s) == [i \in 0..(Len(s) - 1) |-> s[i + 1]]          \* 1-based sequence -> 0-based function
AllOne(w) == [c \in 1..w |-> MA!One]

TimeLayers(a) == {n \in SearchLayers(a) : a.dim = 1 /\ Op(a, n) = "conv"}
TimeFree(a)   == {n \in TimeLayers(a) : Nd(a, Owner(a, n)).s = 1}   \* strided Conv1d: frozen time masks
FreeLayer(a, n) == HasMasker(a, MaskerSite(a, n)) /\ ~Frozen(a, MaskerSite(a, n))
KOf(a, n) == Nd(a, n).k
GOf(a, n) == MA!GLen(Nd(a, n).k)

\* the continuous kernel size is exact in 1/2400 when every searchable Conv1d has K <= 4
ContExact(a) == \A n \in TimeLayers(a) : KOf(a, n) <= 4
KU(a) == IF a.dim = 1 THEN 100 * KL ELSE 1           \* kernel unit: 1/2400 for 1-D networks

WellFormedState(a, A) ==
    /\ DOMAIN A.th = SearchLayers(a) /\ DOMAIN A.tb = TimeLayers(a) /\ DOMAIN A.tg = TimeLayers(a)
    /\ \A n \in SearchLayers(a) : Len(A.th[n]) = Ch(a, n) /\ \A c \in 1..Ch(a, n) : A.th[n][c] >= 0
    /\ \A n \in TimeLayers(a) : /\ Len(A.tb[n]) = KOf(a, n) /\ Len(A.tg[n]) = GOf(a, n)
                                /\ \A i \in 1..KOf(a, n) : A.tb[n][i] >= 0
                                /\ \A i \in 1..GOf(a, n) : A.tg[n][i] >= 0

(* ------------------------------ effective sizes ------------------------ *)
\* output features of searchable call site n: unit 1/10
OutVal(A, n, disc) ==
    LET s == A.th[n]  W == Len(s) IN
    IF disc THEN S * Cardinality(MA!AliveCh(W, s)) ELSE MA!SumF(MA!ThetaAlpha(W, s), 1..W)

\* value of the features calculator attached to tensor n (as implemented, cf. FeatGraph!CalcM)
RECURSIVE CalcV(_, _, _, _), SumCalcV(_, _, _, _, _)
CalcV(a, A, n, disc) ==
    IF n = 0 THEN S * a.c0
    ELSE LET nd == Nd(a, n) IN
         CASE nd.op \in {"conv", "lin"} ->
                  IF Searchable(a, n) THEN OutVal(A, n, disc)
                  ELSE IF IsDw(a, n) THEN CalcV(a, A, nd.ins[1], disc)
                  ELSE S * Ch(a, n)
           [] nd.op \in {"add", "catt"} -> CalcV(a, A, nd.ins[1], disc)
           [] nd.op = "cat"  -> SumCalcV(a, A, nd.ins, 1, disc)
           [] nd.op = "flat" -> CalcV(a, A, nd.ins[1], disc) * Positions(a, nd.ins[1])
           [] OTHER          -> CalcV(a, A, nd.ins[1], disc)
SumCalcV(a, A, ins, i, disc) ==
    IF i > Len(ins) THEN 0 ELSE CalcV(a, A, ins[i], disc) + SumCalcV(a, A, ins, i + 1, disc)
InVal(a, A, n, disc) == CalcV(a, A, SetByOf(a, In1(a, LastSite(a, n))), disc)

\* number of gamma levels that reach tap j  (= 1 / gamma_norm[j])
Cnt(K, j) == Cardinality({i \in 0..(MA!GLen(K) - 1) : MA!X("last", K, j) % (2^i) = 0})
\* effective kernel size of a Conv1d in units of 1/(100*KL); b, g: 1-based magnitude sequences
KEff(K, b, g, disc) ==
    IF disc THEN 100 * KL * MA!KOpt("last", K, Z(b), Z(g))
    ELSE LET tb == MA!ThetaBeta(K, Z(b))  tg == MA!ThetaGamma("last", K, Z(g)) IN
         MA!SumF([j \in 0..(K - 1) |-> tb[j] * tg[j] * (KL \div ((j + 1) * Cnt(K, j)))], 0..(K - 1))
KLDivides(K) == \A j \in 0..(K - 1) : KL % ((j + 1) * Cnt(K, j)) = 0

(* ------------------------------ cost ------------------------------------ *)
Fn(metric, a, n) ==
    [m |-> metric,
     l |-> IF Op(a, n) = "lin" THEN "linear" ELSE IF a.dim = 1 THEN "conv1d" ELSE "conv2d",
     pat |-> IF IsDw(a, n) THEN "dw" ELSE "U"]

\* the three effective sizes of call site n - the ONLY way the architectural state enters a cost
Eff(a, A, n, disc) ==
    [cin  |-> InVal(a, A, n, disc),
     cout |-> OutVal(A, n, disc),
     kx   |-> IF n \in TimeLayers(a) THEN KEff(KOf(a, n), A.tb[n], A.tg[n], disc)
              ELSE IF Op(a, n) = "conv" /\ a.dim = 2 THEN KOf(a, n) ELSE KU(a)]
Sizes(a, A, disc) == [n \in SearchLayers(a) |-> Eff(a, A, n, disc)]

\* the layer description PIT hands to the cost function (get_modified_vars + shapes_dict)
Desc(a, A, n, disc) ==
    LET conv2 == Op(a, n) = "conv" /\ a.dim = 2
        e     == Eff(a, A, n, disc) IN
    [cin  |-> e.cin, cout |-> e.cout, kx |-> e.kx,
     ky   |-> IF conv2 THEN KOf(a, n) ELSE 1,
     ox   |-> IF Op(a, n) = "lin" THEN 1 ELSE Sp(a, n),
     oy   |-> IF conv2 THEN SpW(a, n) ELSE 1,
     w |-> 8, a |-> 8, td |-> 1,
     b    |-> IF Nd(a, n).bias THEN KU(a) ELSE 0,        \* one bias per output channel, in kernel units
     g    |-> IF IsDw(a, n) THEN 0 ELSE 1]

NoModel(metric, a, n) == metric = "gap8_latency" /\ Fn(metric, a, n).l = "conv1d"
LayerCost(metric, a, A, n, disc) == IF NoModel(metric, a, n) THEN 0 ELSE CF!CostInt(Fn(metric, a, n), Desc(a, A, n, disc), S)
\* CostSpec.shared: a layer object invoked at several call sites is charged once (size-like metrics) or per call
SharedMetric(metric) == metric \in {"params", "params_no_bias", "gap8_latency"}
CostSites(metric, a) == IF SharedMetric(metric) THEN {n \in SearchLayers(a) : Owner(a, n) = n} ELSE SearchLayers(a)
Cost(metric, a, A, disc) ==
    MA!SumF([n \in CostSites(metric, a) |-> LayerCost(metric, a, A, n, disc)], CostSites(metric, a))
Unit(metric, a) == IF metric = "gap8_latency" THEN S ELSE CF!CostUnit(metric, S) * KU(a)

\* the same metric on the ORIGINAL network.  For the size / operation counts an independent
\* transcription exists (FeatGraph!ParamsOf / OpsOf on the static shapes); gap8 is evaluated with the
\* integer formula on the static shapes.
StaticDesc(a, n) ==
    LET conv2 == Op(a, n) = "conv" /\ a.dim = 2 IN
    [cin |-> Ch(a, In1(a, n)), cout |-> Ch(a, n), kx |-> IF Op(a, n) = "lin" THEN 1 ELSE KOf(a, n),
     ky |-> IF conv2 THEN KOf(a, n) ELSE 1, ox |-> IF Op(a, n) = "lin" THEN 1 ELSE Sp(a, n),
     oy |-> IF conv2 THEN SpW(a, n) ELSE 1, w |-> 8, a |-> 8, td |-> 1,
     b |-> IF Nd(a, n).bias THEN 1 ELSE 0, g |-> IF IsDw(a, n) THEN 0 ELSE 1]
OrigLayer(metric, a, n) ==
    LET cin == Ch(a, In1(a, n))  cout == Ch(a, n)  k == KOf(a, n)  bias == Nd(a, n).bias IN
    CASE metric = "params"         -> ParamsOf(a, n, cin, cout, k, bias)
      [] metric = "params_no_bias" -> ParamsOf(a, n, cin, cout, k, FALSE)
      [] metric = "ops"            -> OpsOf(a, n, cin, cout, k, bias)
      [] metric = "ops_no_bias"    -> OpsOf(a, n, cin, cout, k, FALSE)
      [] OTHER                     -> IF NoModel(metric, a, n) THEN 0 ELSE CF!CostInt(Fn(metric, a, n), StaticDesc(a, n), 1)
OrigCost(metric, a) == MA!SumF([n \in CostSites(metric, a) |-> OrigLayer(metric, a, n)], CostSites(metric, a))

(* ------------------------------ the mask lattice ------------------------ *)
SeqLeq(s, t) == Len(s) = Len(t) /\ \A i \in 1..Len(s) : s[i] <= t[i]
Leq(A, B) ==
    /\ \A n \in DOMAIN A.th : SeqLeq(A.th[n], B.th[n])
    /\ \A n \in DOMAIN A.tb : SeqLeq(A.tb[n], B.tb[n]) /\ SeqLeq(A.tg[n], B.tg[n])

\* an element of the architectural state:  <<"a", n, c>> | <<"b", n, i>> | <<"g", n, i>>  (1-based index;
\* for "a" n is any call site that uses the masker: the write goes to every call site sharing it)
SameMasker(a, n, m) == FreeLayer(a, n) /\ FreeLayer(a, m) /\ MaskRep(a, n) = MaskRep(a, m)
SameLayer(a, n, m)  == Owner(a, n) = Owner(a, m)
Get(A, e) == IF e[1] = "a" THEN A.th[e[2]][e[3]] ELSE IF e[1] = "b" THEN A.tb[e[2]][e[3]] ELSE A.tg[e[2]][e[3]]
\* sh = ShareMap(a): the call sites written together with n (computed once per architecture): channel masks are
\* shared along the sharing component, time masks belong to the layer object (all its call sites)
ShareMap(a) == [al |-> [n \in SearchLayers(a) |-> {m \in SearchLayers(a) : m = n \/ SameMasker(a, n, m) \/ SameLayer(a, n, m)}],
                tm |-> [n \in TimeLayers(a)   |-> {m \in TimeLayers(a) : SameLayer(a, n, m)}]]
PutS(sh, A, e, v) ==
    CASE e[1] = "a" -> [A EXCEPT !.th = [m \in DOMAIN A.th |->
                            IF m \in sh.al[e[2]] THEN [A.th[m] EXCEPT ![e[3]] = v] ELSE A.th[m]]]
      [] e[1] = "b" -> [A EXCEPT !.tb = [m \in DOMAIN A.tb |->
                            IF m \in sh.tm[e[2]] THEN [A.tb[m] EXCEPT ![e[3]] = v] ELSE A.tb[m]]]
      [] OTHER      -> [A EXCEPT !.tg = [m \in DOMAIN A.tg |->
                            IF m \in sh.tm[e[2]] THEN [A.tg[m] EXCEPT ![e[3]] = v] ELSE A.tg[m]]]
Put(a, A, e, v) == PutS(ShareMap(a), A, e, v)
\* the elements PIT trains; the last one of every mask vector is the keep-alive element
Trainable(a, e) ==
    CASE e[1] = "a" -> e[2] \in SearchLayers(a) /\ FreeLayer(a, e[2]) /\ e[3] \in 1..Ch(a, e[2])
      [] e[1] = "b" -> e[2] \in TimeFree(a) /\ Owner(a, e[2]) = e[2] /\ e[3] \in 1..KOf(a, e[2])
      [] e[1] = "g" -> e[2] \in TimeFree(a) /\ Owner(a, e[2]) = e[2] /\ e[3] \in 1..GOf(a, e[2])
      [] OTHER      -> FALSE
VecLen(a, e) == IF e[1] = "a" THEN Ch(a, e[2]) ELSE IF e[1] = "b" THEN KOf(a, e[2]) ELSE GOf(a, e[2])
KeepAlive(a, e) == e[3] = VecLen(a, e)
\* one element per trainable PARAMETER entry: a shared channel mask is listed once, at its first call site
FirstSite(a, n) == \A m \in SearchLayers(a) : SameMasker(a, n, m) => n <= m
Elements(a) ==
    UNION {{<<"a", n, c>> : c \in 1..Ch(a, n)} : n \in {x \in SearchLayers(a) : FreeLayer(a, x) /\ FirstSite(a, x)}}
    \cup UNION {{<<"b", n, i>> : i \in 1..KOf(a, n)} \cup {<<"g", n, i>> : i \in 1..GOf(a, n)} :
                    n \in {x \in TimeFree(a) : Owner(a, x) = x}}

(***************************************************************************)
(* (c) PREDICTED GRADIENT SUPPORT.  A trainable element receives a         *)
(* non-zero gradient iff it is not a keep-alive element.  Justified at     *)
(* design level by CostDepsMC: raising a non-keep-alive element strictly   *)
(* raises every smooth continuous cost (StrictOffKeepAlive); the value of  *)
(* a keep-alive element never reaches the cost (KeepAliveIrrelevant).      *)
(***************************************************************************)
PredNonZero(a, e) == Trainable(a, e) /\ ~KeepAlive(a, e)

(***************************************************************************)
(* STRAIGHT-THROUGH GRADIENT OF THE DISCRETE COST.  In discrete mode the   *)
(* effective sizes are sums of BINARISED thetas,                           *)
(*     cout = sum_c B(theta_a[c]),   k = sum_j B(theta_b[j]) * B(theta_g[j])*)
(* and the backward pass of the binariser hands the incoming gradient to   *)
(* its input with a weight SteW(ste, x) that may depend on the input x:    *)
(*   "identity"   1            (PITBinarizer as written)                   *)
(*   "half"       1/2          (any positive constant: same support)       *)
(*   "clipped"    [|x| <= 1]   (the 'clipped' straight-through estimator)  *)
(*   "zeroabove"  [x <= 0.5]   (gradient only below the threshold)         *)
(* With the un-normalised cumulative sums of the time masks               *)
(*   d k / d|beta_i|  = sum_{j >= i} B(theta_g[j]) * SteW(theta_b[j])      *)
(*   d k / d|gamma_p| = sum_{j : 2^p | x(j)} B(theta_b[j]) * SteW(theta_g[j])*)
(*   d cout / d|alpha_c| = SteW(theta_a[c])            (0 for keep-alive)  *)
(* (weights are delivered times 2 to stay integral).  Every smooth metric  *)
(* has d cost / d size > 0 (all sizes >= 1 thanks to the keep-alive        *)
(* elements), so the discrete cost gives element e a NON-ZERO gradient iff *)
(* SteGrad(ste, a, A, e) > 0.  With "identity" tap K-1 (kept by both       *)
(* keep-alive elements, reached by every beta_i and every gamma_p) always  *)
(* contributes: the support is every non-keep-alive element, at EVERY      *)
(* parameter value (CostDepsMC: InvDiscSteSupport / InvTimeSteSupport).    *)
(***************************************************************************)
SteW(ste, x) == CASE ste = "half"      -> 1
                  [] ste = "clipped"   -> IF x <= MA!One THEN 2 ELSE 0
                  [] ste = "zeroabove" -> IF x <= MA!Thr THEN 2 ELSE 0
                  [] OTHER             -> 2                               \* "identity"
\* b, g: 1-based magnitude sequences; i, p: 1-based element index
SteGradBeta(ste, K, b, g, i) ==
    IF i = K THEN 0
    ELSE LET tb == MA!ThetaBeta(K, Z(b))  Bg == MA!BinGamma("last", K, Z(g)) IN
         MA!SumF([j \in 0..(K - 1) |-> IF j >= i - 1 /\ j \in Bg THEN SteW(ste, tb[j]) ELSE 0], 0..(K - 1))
SteGradGamma(ste, K, b, g, p) ==
    IF p = MA!GLen(K) THEN 0
    ELSE LET tg == MA!ThetaGamma("last", K, Z(g))  Bb == MA!BinBeta(K, Z(b)) IN
         MA!SumF([j \in 0..(K - 1) |-> IF MA!X("last", K, j) % (2^(p - 1)) = 0 /\ j \in Bb THEN SteW(ste, tg[j]) ELSE 0],
                 0..(K - 1))
SteGradAlpha(ste, s, c) == IF c = Len(s) THEN 0 ELSE SteW(ste, s[c])
SteGrad(ste, a, A, e) ==
    CASE e[1] = "a" -> SteGradAlpha(ste, A.th[e[2]], e[3])
      [] e[1] = "b" -> SteGradBeta(ste, KOf(a, e[2]), A.tb[e[2]], A.tg[e[2]], e[3])
      [] OTHER      -> SteGradGamma(ste, KOf(a, e[2]), A.tb[e[2]], A.tg[e[2]], e[3])
PredDiscNonZero(ste, a, A, e) == Trainable(a, e) /\ SteGrad(ste, a, A, e) > 0

(***************************************************************************)
(* WHICH ELEMENTS "RAISE THE DISCRETE METRIC".  The discrete cost is a     *)
(* step function: at one parameter value a finite increase of an element   *)
(* often changes nothing.  For the discrete cost the property's "element   *)
(* whose increase raises the metric" is therefore read ON THE LATTICE:     *)
(*   a time-mask element (beta_i / gamma_p) is RELEVANT iff there is a     *)
(*   value of the other elements of the two time-mask vectors - searched   *)
(*   over the four CORNER contexts  other betas all 0 | all 1  x  other    *)
(*   gammas all 0 | all 1 - at which lifting the element from 0 to 1       *)
(*   (across the threshold) changes MaskAlgebra!Kept;                      *)
(*   a channel-mask element alpha_c is relevant iff it is not the          *)
(*   keep-alive one (crossing always changes the alive set) and, for the   *)
(*   (time-mask elements of a layer the metric has no model for - Conv1d   *)
(*   under gap8_latency - are never relevant)                              *)
(*   rounded metric gap8_latency, lifting it from 0 to 1 raises the model's*)
(*   discrete Cost with every other free element at 0 or every one at 1.   *)
(* CostDepsMC checks that the corner contexts are complete (a change of    *)
(* Kept in ANY context of the value domain implies one in a corner), that  *)
(* relevant = non-keep-alive for every K <= 9, and that a changed kept /   *)
(* alive set strictly raises the smooth discrete costs.                    *)
(***************************************************************************)
Fill(n, v) == [i \in 1..n |-> v]
KeptOf(K, b, g) == MA!Kept("last", K, Z(b), Z(g))
\* does lifting element (kind, i) from 0 to 1 change the kept set in the context (b, g)?
TimeChangesAt(K, b, g, kind, i) ==
    IF kind = "b" THEN KeptOf(K, [b EXCEPT ![i] = MA!One], g) # KeptOf(K, [b EXCEPT ![i] = 0], g)
                  ELSE KeptOf(K, b, [g EXCEPT ![i] = MA!One]) # KeptOf(K, b, [g EXCEPT ![i] = 0])
TimeRelevant(K, kind, i) ==
    \E vb \in {0, MA!One}, vg \in {0, MA!One} : TimeChangesAt(K, Fill(K, vb), Fill(MA!GLen(K), vg), kind, i)
CornerState(a, v) ==
    [th |-> [n \in SearchLayers(a) |-> IF FreeLayer(a, n) THEN Fill(Ch(a, n), v) ELSE AllOne(Ch(a, n))],
     tb |-> [n \in TimeLayers(a) |-> IF n \in TimeFree(a) THEN Fill(KOf(a, n), v) ELSE AllOne(KOf(a, n))],
     tg |-> [n \in TimeLayers(a) |-> IF n \in TimeFree(a) THEN Fill(GOf(a, n), v) ELSE AllOne(GOf(a, n))]]
AlphaRaisesModel(metric, a, sh, e) ==
    \E v \in {0, MA!One} : LET X == CornerState(a, v) IN
        Cost(metric, a, PutS(sh, X, e, MA!One), TRUE) > Cost(metric, a, PutS(sh, X, e, 0), TRUE)
DiscRelevant(metric, a, sh, e) ==
    /\ Trainable(a, e)
    /\ IF e[1] = "a" THEN ~KeepAlive(a, e) /\ (Smooth(metric) \/ AlphaRaisesModel(metric, a, sh, e))
                      \* a layer the metric has no model for (gap8_latency / Conv1d) never charges its kernel size
                      ELSE ~NoModel(metric, a, e[2]) /\ TimeRelevant(KOf(a, e[2]), e[1], e[3])

(***************************************************************************)
(* DEPENDENCY MATRIX.  Dep(metric, a, e): does the reference formula of    *)
(* the metric (CostFormulas, through Cost) change when the alive count     *)
(* governed by channel-mask element e changes - with every other free      *)
(* element at 0 or every one at 1?  Evaluated on two-layer "producer ->    *)
(* consumer" architectures it is the matrix  metric x producer type x      *)
(* consumer type; a TRUE entry obliges the real model to back-propagate a  *)
(* non-zero gradient to that element (continuous and discrete cost), also  *)
(* when the only path runs through the CONSUMER's number of input features *)
(* (e.g. gap8_latency: Conv1d has no model of its own, the Linear layer it *)
(* feeds has).                                                             *)
(***************************************************************************)
Dep(metric, a, sh, e) == Trainable(a, e) /\ e[1] = "a" /\ ~KeepAlive(a, e) /\ AlphaRaisesModel(metric, a, sh, e)

(***************************************************************************)
(* HISTORY.  What may the cost depend on, and what not.                    *)
(*   PIT      cost = F(parameter VALUES, discrete_cost).  Nothing else:    *)
(*            not requires_grad (train_net_only / train_nas_only /         *)
(*            train_net_and_nas / train_features / train_rf /              *)
(*            train_dilation), not train()/eval(), not forward / export /  *)
(*            summary calls.                                               *)
(*   MPS, SuperNet  the cost is read from the coefficients theta sampled   *)
(*            by the LAST FORWARD pass (documented protocol: forward, then *)
(*            cost): cost = G(theta of the last forward).  MPS samples     *)
(*            soft in training and one-hot in eval mode, SuperNet (default *)
(*            sampler) soft in both.  Everything else is an OBSERVER:      *)
(*            export(), summary(), the requires_grad switches and          *)
(*            train()/eval() by themselves must leave the cost where it    *)
(*            was; changing a parameter without a forward pass gives no    *)
(*            obligation (the key below changes with the version).         *)
(* Reference: r = [ver, mode, fw]  (version of the parameter values, mode, *)
(* <<version, kind>> of the last forward).  RefKey is what the cost may    *)
(* depend on; two reads with the same RefKey must return the same cost.    *)
(* Implementation model: the coefficient tensors are CELLS, the attribute  *)
(* theta_alpha points to one of them (cur); a forward pass re-binds the    *)
(* attribute to a fresh cell; export() keeps a REFERENCE to the current    *)
(* cell, runs an eval-mode forward and re-binds the attribute to the kept  *)
(* reference.  impl variants:                                              *)
(*   "asis"        as described                                            *)
(*   "inplace"     the eval-mode sample is written INTO the current cell   *)
(*                 (the reference kept by export() then holds the one-hot  *)
(*                 sample: the restore is a no-op)                         *)
(*   "dropsfrozen" PIT: the continuous kernel size ignores the dilation    *)
(*                 mask while train_dilation is off                        *)
(*   "effmatch"    PIT: when the cost specification is assigned again      *)
(*                 ("respec") the pattern constraints that pick each       *)
(*                 layer's cost function (depthwise vs generic) are        *)
(*                 matched on the EFFECTIVE (mask-dependent) description:  *)
(*                 the cost then also depends on the parameter version at  *)
(*                 which the specification was last assigned               *)
(***************************************************************************)
SampleKind(method, mode) == IF method = "mps" /\ mode = "eval" THEN "hard" ELSE "soft"
AllOn   == [features |-> TRUE, rf |-> TRUE, dilation |-> TRUE, net |-> TRUE]
NetOnly == [features |-> FALSE, rf |-> FALSE, dilation |-> FALSE, net |-> TRUE]
NasOnly == [features |-> TRUE, rf |-> TRUE, dilation |-> TRUE, net |-> FALSE]
OnOff(b) == IF b THEN "on" ELSE "off"
Other(m) == IF m = "train" THEN "eval" ELSE "train"

RefInit(method) == [ver |-> 0, mode |-> "train", fw |-> <<0, SampleKind(method, "train")>>]
RefStep(method, r, act) ==
    CASE act[1] = "set"  -> [r EXCEPT !.ver = @ + 1]
      [] act[1] = "mode" -> [r EXCEPT !.mode = act[2]]
      [] act[1] = "fwd"  -> [r EXCEPT !.fw = <<r.ver, SampleKind(method, r.mode)>>]
      [] OTHER           -> r
RefKey(method, r, disc) == IF method = "pit" THEN <<r.ver, disc>> ELSE <<r.ver, r.fw>>

ImplInit(method) == [ver |-> 0, mode |-> "train", rg |-> AllOn, cells |-> <<<<0, SampleKind(method, "train")>>>>, cur |-> 1,
                     specver |-> -1]          \* -1: the function map built by the constructor (all masks open)
ImplSample(impl, method, h, mode) ==
    LET c == <<h.ver, SampleKind(method, mode)>> IN
    IF impl = "inplace" /\ method = "mps" /\ mode = "eval"
    THEN [h EXCEPT !.cells[h.cur] = c]
    ELSE [h EXCEPT !.cells = Append(@, c), !.cur = Len(h.cells) + 1]
ImplStep(impl, method, h, act) ==
    CASE act[1] = "set"         -> [h EXCEPT !.ver = @ + 1]
      [] act[1] = "mode"        -> [h EXCEPT !.mode = act[2]]
      [] act[1] = "fwd"         -> IF method = "pit" THEN h ELSE ImplSample(impl, method, h, h.mode)
      [] act[1] = "export"      -> IF method = "pit" THEN h
                                   ELSE LET kept == h.cur IN [ImplSample(impl, method, h, "eval") EXCEPT !.cur = kept]
      [] act[1] = "net_only"    -> [h EXCEPT !.rg = NetOnly]
      [] act[1] = "nas_only"    -> [h EXCEPT !.rg = NasOnly]
      [] act[1] = "net_and_nas" -> [h EXCEPT !.rg = AllOn]
      [] act[1] = "feat"        -> [h EXCEPT !.rg.features = (act[2] = "on")]
      [] act[1] = "rf"          -> [h EXCEPT !.rg.rf = (act[2] = "on")]
      [] act[1] = "dil"         -> [h EXCEPT !.rg.dilation = (act[2] = "on")]
      [] act[1] = "respec"      -> [h EXCEPT !.specver = h.ver]        \* cost_specification assigned again (same metrics)
      [] OTHER                  -> h                                   \* summary
ImplKey(impl, method, h, disc) ==
    IF method = "pit"
    THEN IF impl = "dropsfrozen" /\ ~disc /\ ~h.rg.dilation THEN <<h.ver, disc, "no dilation mask">>
         ELSE IF impl = "effmatch" /\ h.specver >= 0 THEN <<h.ver, disc, "functions matched at version", h.specver>>
         ELSE <<h.ver, disc>>
    ELSE <<h.ver, h.cells[h.cur]>>
\* the calls a history is made of (calls that change nothing the model tracks, e.g. train() in training mode, are left out)
HistActs(method, h) ==
    {<<"set", "">>, <<"fwd", "">>, <<"export", "">>, <<"summary", "">>, <<"mode", Other(h.mode)>>}
    \cup (IF h.rg # NetOnly THEN {<<"net_only", "">>} ELSE {})
    \cup (IF h.rg # NasOnly THEN {<<"nas_only", "">>} ELSE {})
    \cup (IF h.rg # AllOn THEN {<<"net_and_nas", "">>} ELSE {})
    \cup (IF method = "pit" THEN {<<"feat", OnOff(~h.rg.features)>>, <<"rf", OnOff(~h.rg.rf)>>, <<"dil", OnOff(~h.rg.dilation)>>,
                                   <<"respec", "">>}
          ELSE IF method = "sn" THEN {<<"feat", OnOff(~h.rg.features)>>} ELSE {})

(* ------------------------------ mixing (MPS / SuperNet) ----------------- *)
RECURSIVE SeqSum(_, _)
SeqSum(s, i) == IF i > Len(s) THEN 0 ELSE s[i] + SeqSum(s, i + 1)
Dot(t, C) == SeqSum([k \in 1..Len(t) |-> t[k] * C[k]], 1)
\* cost of a decision point with integer coefficients t (sum D): MixCost / D
MixCost(t, C) == Dot(t, C)
\* sign of d cost / d alpha_k  =  sign( theta_k * (C_k - sum_j theta_j C_j) )
MixGradNum(t, C, k) == t[k] * (SeqSum(t, 1) * C[k] - Dot(t, C))
\* alpha_k := alpha_k + T*ln(f): the odds of candidate k are multiplied by f; new cost = RaisedNum / RaisedDen
RaisedNum(t, C, k, f) == Dot(t, C) + (f - 1) * t[k] * C[k]
RaisedDen(t, k, f)    == SeqSum(t, 1) + (f - 1) * t[k]
\* -1 | 0 | 1 : does raising alpha_k lower / keep / raise the cost
Sign(x) == IF x > 0 THEN 1 ELSE IF x < 0 THEN -1 ELSE 0
RaiseEffect(t, C, k, f) == Sign(RaisedNum(t, C, k, f) * SeqSum(t, 1) - Dot(t, C) * RaisedDen(t, k, f))
\* prediction for a coefficient: non-zero gradient iff its candidate cost differs from the theta-weighted mean
PredMixNonZero(t, C, k) == t[k] > 0 /\ SeqSum(t, 1) * C[k] # Dot(t, C)

(* ------------------------------ clauses on observed integers ------------ *)
\* all observed costs of one trace are integers in one common unit, |value| < 2^30; Tol is the stated slack
Within(x, y, tol) == x - y <= tol /\ y - x <= tol
=============================================================================
