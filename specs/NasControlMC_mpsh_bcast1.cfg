SPECIFICATION Spec
CONSTANTS
  Impl = "bcast1"
  Kind = "mps"
  Temps = {1000, 2000}
  Hetero = TRUE
  Part = "opt"
  Dims = {"features", "rf", "dilation", "dc"}
  HOpts = {"temp", "hard"}
  Forking = FALSE
PROPERTY OthersKept
