------------------------------- MODULE MPSFeat -------------------------------
(***************************************************************************)
(* Channel pruning by the mixed-precision search (plinio.methods.mps):     *)
(* the MPS half of property C09 and the last sentence of C05.              *)
(*                                                                         *)
(* With  w_search_type = PER_CHANNEL  and the precision 0 among the weight *)
(* candidates, an output channel whose selected weight precision is 0 is   *)
(* PRUNED: its weights and its bias are quantised to exact zeros.  The     *)
(* alive outputs of a layer are the channels with a non-zero selected      *)
(* precision.  Consumers learn about it through the same features          *)
(* calculators as in PIT (plinio/graph/annotation.py,                      *)
(* features_calculation.py: FeatGraph!CalcM / SetByOf / ToldM) and hand    *)
(* the count to the cost functions as in_channels / in_features.           *)
(*                                                                         *)
(* What is specific to MPS (plinio/methods/mps/graph.py, transcribed here):*)
(*  * SHARING.  build_shared_mps_qtz_map removes the dataflow edges that   *)
(*    enter a features-defining node (placeholder, non-depthwise conv,     *)
(*    linear - also when excluded from the search) and gives every weakly  *)
(*    connected component ONE weight quantiser, i.e. one matrix of         *)
(*    per-channel coefficients: all searchable layers of a component       *)
(*    select the same precision for channel c.  Unlike PIT the edges into  *)
(*    a channel concat are NOT removed.                                    *)
(*  * The matrix is sized after the first features-defining node that the  *)
(*    iteration over the component (a Python set of fx nodes) meets - or   *)
(*    after the output node (MQWidths).                                    *)
(*  * A component that contains the fx output node gets the candidate      *)
(*    tuple with 0 removed: nothing output-connected can be pruned.        *)
(*    Nothing is done for components that contain the network input.       *)
(*  * export(): a per-channel layer becomes a QuantList with one           *)
(*    sub-layer per selected precision (the 0-bit class included), each    *)
(*    with the STATIC in_channels / groups of the layer and as many        *)
(*    outputs as the class has channels (ExportParts).                     *)
(*                                                                         *)
(* Variable-free operator library; MPSFeatMC / MPSFeatTrace use it.        *)
(***************************************************************************)
EXTENDS FeatGraph, CostFormulas

(* ------------------------- sharing components --------------------------- *)
MKeptEdge(a, p, n) == p \in SeqSet(Ins(a, n)) /\ ~Defining(a, n)
MAdj(a, x, y) == \/ (y >= 1 /\ y <= N(a) /\ MKeptEdge(a, x, y))
                 \/ (x >= 1 /\ x <= N(a) /\ MKeptEdge(a, y, x))
                 \/ (x = N(a) /\ y = N(a) + 1) \/ (y = N(a) /\ x = N(a) + 1)
MMin(S) == CHOOSE m \in S : \A x \in S : m <= x
\* label propagation: every node ends up labelled with the smallest node of its component
RECURSIVE MLabels(_, _, _)
MLabels(V, E, lab) ==
    LET nxt == [n \in V |-> MMin({lab[n]} \cup {lab[m] : m \in {y \in V : <<n, y>> \in E}})]
    IN  IF nxt = lab THEN lab ELSE MLabels(V, E, nxt)
\* rm : node (0..N+1) -> smallest node of its component; computed once per architecture and handed around
MRepMap(a) == LET V == AllNodes(a)
                  E == {e \in V \X V : MAdj(a, e[1], e[2])}
              IN  MLabels(V, E, [n \in V |-> n])
MMembers(a, rm, r)      == {n \in AllNodes(a) : rm[n] = r}
MOutConnected(a, rm, r) == rm[N(a) + 1] = r
MSearchIn(a, rm, r)     == {L \in SearchLayers(a) : rm[L] = r}
\* the smallest searchable layer of the component of layer L: key of a pattern assignment
MLayerRep(a, rm, L)     == MMin(MSearchIn(a, rm, rm[L]))
MCompDefining(a, rm, r) == {d \in MMembers(a, rm, r) : d <= N(a) /\ Defining(a, d)}

(* prune = the search can prune at all (PER_CHANNEL and 0 among the weight candidates) *)
Has0(p)  == \E i \in DOMAIN p : p[i] = 0
CanPrune(cfg) == cfg.wt = "pc" /\ Has0(cfg.pw)
\* may searchable layer L lose channels
MFree(a, rm, L, prune)   == prune /\ ~MOutConnected(a, rm, rm[L])
MFreeLayers(a, rm, prune) == {L \in SearchLayers(a) : MFree(a, rm, L, prune)}
MFreeKeys(a, rm, prune)  == {MLayerRep(a, rm, L) : L \in MFreeLayers(a, rm, prune)}

\* widths the coefficient matrix of component r may be created with (which one: Python set order)
MQWidths(a, rm, r) ==
    IF MOutConnected(a, rm, r) THEN {Ch(a, N(a))}
    ELSE {Ch(a, d) : d \in MCompDefining(a, rm, r)}

(* ------------------------------ patterns -------------------------------- *)
(* g maps every free key (layer representative) to the set of ALIVE channels of its component; *)
(* no keep-alive exists in MPS: the empty set (a layer pruned completely) is a legal choice.   *)
MMOf(a, rm, g, prune) ==
    [n \in SearchLayers(a) |->
        IF MFree(a, rm, n, prune) THEN [c \in 1..Ch(a, n) |-> c \in g[MLayerRep(a, rm, n)]]
        ELSE AllTrue(Ch(a, n))]
\* per-channel weight bits -> alive pattern (traces: summary()['w_precision'])
AlivePat(wb) == [c \in DOMAIN wb |-> wb[c] # 0]
\* pattern -> representative bits (design level: alive channels at 8 bit)
BitsOfPat(p) == [c \in DOMAIN p |-> IF p[c] THEN 8 ELSE 0]

(* what reaches / what is told: the operators of FeatGraph on the MPS patterns *)
MReach(a, m, n) == ActM(a, m, In1(a, n))
MTold(a, m, n)  == ToldM(a, m, n)

(* ----------------------- unsupported topologies ------------------------- *)
\* F60: one coefficient matrix for layers of different widths (or sized after a fixed tensor of another width)
KF_MPSMixedWidth(a, rm) ==
    \E L \in SearchLayers(a) : \E w \in MQWidths(a, rm, rm[L]) : w # Ch(a, L)

\* a tensor with a source that the search cannot prune (network input, layer excluded from the search)
RECURSIVE HasFixedSrc(_, _)
HasFixedSrc(a, p) ==
    IF p = 0 THEN TRUE
    ELSE CASE IsLayer(a, p) -> Excluded(a, p)
           [] Op(a, p) \in {"add", "catt", "cat"} -> \E i \in DOMAIN Ins(a, p) : HasFixedSrc(a, Ins(a, p)[i])
           [] OTHER -> HasFixedSrc(a, In1(a, p))
\* a tensor with a source that the search can prune
RECURSIVE HasFreeSrc(_, _, _, _)
HasFreeSrc(a, rm, prune, p) ==
    IF p = 0 THEN FALSE
    ELSE CASE IsLayer(a, p) -> Searchable(a, p) /\ MFree(a, rm, p, prune)
           [] Op(a, p) \in {"add", "catt", "cat"} -> \E i \in DOMAIN Ins(a, p) : HasFreeSrc(a, rm, prune, Ins(a, p)[i])
           [] OTHER -> HasFreeSrc(a, rm, prune, In1(a, p))
\* F61: a residual sum (or time concat) of a prunable tensor and one the search cannot prune; a layer excluded
\* from the search that propagates (depthwise) a prunable tensor.  Input-connected components are not frozen.
KF_MPSFixedAddend(a, rm, prune) ==
    \E n \in 1..N(a) : Op(a, n) \in {"add", "catt"} /\
        \E i, j \in DOMAIN Ins(a, n) : i # j /\ HasFixedSrc(a, Ins(a, n)[i]) /\ HasFreeSrc(a, rm, prune, Ins(a, n)[j])
KF_MPSExclDw(a, rm, prune) ==
    \E n \in 1..N(a) : IsDw(a, n) /\ Excluded(a, n) /\ HasFreeSrc(a, rm, prune, In1(a, n))
\* a searchable depthwise conv on a tensor the search cannot prune: it can lose channels, but its consumers are
\* handed the calculator of the fixed producer (associate_input_features skips features-propagating nodes)
KF_MPSDwOnFixed(a, rm, prune) ==
    \E n \in SearchLayers(a) : IsDw(a, n) /\ MFree(a, rm, n, prune) /\ HasFixedSrc(a, In1(a, n))
KF_MPSFixedInGroup(a, rm, prune) ==
    KF_MPSFixedAddend(a, rm, prune) \/ KF_MPSExclDw(a, rm, prune) \/ KF_MPSDwOnFixed(a, rm, prune)

MSupported(a, rm, prune) == ~KF_MPSMixedWidth(a, rm) /\ ~KF_MPSFixedInGroup(a, rm, prune)

(* ------------------------------ C09 ------------------------------------- *)
MToldIsActual(a, m) == \A n \in SearchLayers(a) : MTold(a, m, n) = MReach(a, m, n)
MAddAligned(a, m)   == \A n \in 1..N(a) : Op(a, n) \in {"add", "catt"} =>
                           ActM(a, m, Ins(a, n)[1]) = ActM(a, m, Ins(a, n)[2])
MOutputKept(a, m)   == ActM(a, m, N(a)) = AllTrue(Ch(a, N(a)))

(* ------------------------------ export ---------------------------------- *)
NWith(wb, b)  == Cardinality({c \in DOMAIN wb : wb[c] = b})
ClassesOf(wb) == {wb[c] : c \in DOMAIN wb}
\* zc = "kept": the 0-bit class is materialised like every other class (as implemented);
\* zc = "dropped": a hypothetical exporter that leaves the pruned channels out (sanity configs only)
ExportClasses(wb, zc) == IF zc = "kept" THEN ClassesOf(wb) ELSE ClassesOf(wb) \ {0}
ExportParts(a, wb, L, zc) ==
    [b \in ExportClasses(wb, zc) |->
        [out |-> NWith(wb, b), in |-> Ch(a, In1(a, L)), groups |-> IF IsDw(a, L) THEN Ch(a, In1(a, L)) ELSE 1]]
\* torch refuses a convolution whose channel counts are not multiples of its groups
PartValid(p) == p.out % p.groups = 0 /\ p.in % p.groups = 0
\* c1d = "pinned": MPSConv1d.export indexes its 3-D weight with four indices (finding F62); "fixed": repaired
ExportBuilds(a, wb, L, zc, c1d) ==
    /\ \A b \in ExportClasses(wb, zc) : PartValid(ExportParts(a, wb, L, zc)[b])
    /\ ((a.dim = 1 /\ Op(a, L) = "conv") => c1d = "fixed")
RECURSIVE SumOut(_, _)
SumOut(parts, S) == IF S = {} THEN 0 ELSE LET b == CHOOSE x \in S : TRUE IN parts[b].out + SumOut(parts, S \ {b})
ExportedOut(a, wb, L, zc) == SumOut(ExportParts(a, wb, L, zc), ExportClasses(wb, zc))
\* channels of tensor n in the exported network (wbm: searchable layer -> weight bits)
RECURSIVE ExpCh(_, _, _, _), ExpSumCh(_, _, _, _, _)
ExpCh(a, wbm, zc, n) ==
    IF n = 0 THEN a.c0
    ELSE LET nd == Nd(a, n) IN
         CASE nd.op \in {"conv", "lin"} -> IF Searchable(a, n) THEN ExportedOut(a, wbm[n], n, zc) ELSE Ch(a, n)
           [] nd.op = "flat" -> ExpCh(a, wbm, zc, nd.ins[1]) * Sp(a, nd.ins[1]) * SpW(a, nd.ins[1])
           [] nd.op = "cat"  -> ExpSumCh(a, wbm, zc, nd.ins, 1)
           [] OTHER          -> ExpCh(a, wbm, zc, nd.ins[1])
ExpSumCh(a, wbm, zc, ins, i) == IF i > Len(ins) THEN 0 ELSE ExpCh(a, wbm, zc, ins[i]) + ExpSumCh(a, wbm, zc, ins, i + 1)
\* every layer (searchable or not) is exported with its static input width: the exported network is
\* shape-consistent iff every tensor keeps its original width, the operands of every sum agree, and the
\* network output has its original width
ExportShapeConsistent(a, wbm, zc) ==
    /\ \A L \in Layers(a) : ExpCh(a, wbm, zc, In1(a, L)) = Ch(a, In1(a, L))
    /\ \A n \in 1..N(a) : Op(a, n) \in {"add", "catt"} =>
           ExpCh(a, wbm, zc, Ins(a, n)[1]) = ExpCh(a, wbm, zc, Ins(a, n)[2])
    /\ ExpCh(a, wbm, zc, N(a)) = Ch(a, N(a))
\* scenario predicates of the two export findings
KF_MPSDwExport(a, wbm)  == \E L \in SearchLayers(a) : IsDw(a, L) /\ Cardinality(ClassesOf(wbm[L])) > 1
KF_MPSConv1dExport(a)   == a.dim = 1 /\ \E L \in SearchLayers(a) : Op(a, L) = "conv"

(* ------------------------------ cost (C05) ------------------------------ *)
(* params_bit of layer L as implemented (MPS*.get_cost with one-hot coefficients):              *)
(*     sum_j  (n_j / C) * cost_fn(in = inn, out = alive outputs, w_j)                           *)
(* = PBNum / C,  C = number of output channels, n_j = channels at precision w_j.  The formula   *)
(* is linear in w_j, so sum_j n_j cost_fn(.., w_j) = cost_fn(.., 1) * (sum of the channel bits). *)
(* (The weighting n_j / C together with out = alive outputs is finding F05 of C05; here it is   *)
(* taken as implemented: the clauses below decide only the INPUT-feature factor.)               *)
RECURSIVE BitSumFrom(_, _)
BitSumFrom(wb, i) == IF i > Len(wb) THEN 0 ELSE wb[i] + BitSumFrom(wb, i + 1)
BitSum(wb)   == BitSumFrom(wb, 1)
KKOf(a, L)   == IF Op(a, L) = "lin" THEN 1 ELSE IF a.dim = 1 THEN Nd(a, L).k ELSE Nd(a, L).k * Nd(a, L).k
PBNum(a, L, inn, wb) ==
    IF IsDw(a, L) THEN ParamsBitDw(Count(AlivePat(wb)), KKOf(a, L), 1) * BitSum(wb)
    ELSE ParamsBitGen(inn, Count(AlivePat(wb)), KKOf(a, L), 1) * BitSum(wb)
\* numerator charged by the NAS model for pattern assignment m (told input features)
ChargedNum(a, m, L) == PBNum(a, L, Count(MTold(a, m, L)), BitsOfPat(m[L]))
\* C05, last sentence: pruning one more channel c of key r never raises the cost of any layer, and lowers the cost
\* of every layer (conv, linear, depthwise) that is left with fewer alive input features and had a cost at all
PruneLowers(a, rm, g, prune) ==
    \A r \in DOMAIN g : \A c \in g[r] :
        LET m1 == MMOf(a, rm, g, prune)
            m2 == MMOf(a, rm, [g EXCEPT ![r] = @ \ {c}], prune)
        IN  \A L \in SearchLayers(a) :
                /\ ChargedNum(a, m2, L) <= ChargedNum(a, m1, L)
                /\ (Count(MReach(a, m2, L)) < Count(MReach(a, m1, L)) /\ ChargedNum(a, m1, L) > 0)
                       => ChargedNum(a, m2, L) < ChargedNum(a, m1, L)
=============================================================================
