SPECIFICATION Spec
CONSTANTS
  Method = "mps"
  Impl = "asis"
  MaxLen = 4
INVARIANT KeyOk
INVARIANT Coherent
PROPERTY ObserversNeutral
