SPECIFICATION Spec
CONSTANTS
  Kind = "mps"
  Smp = "skipflag"
  SumSamples = FALSE
  ExpSamples = FALSE
  OptImpl = "fixed"
  Ctor = "bare"
  N = 2
  Chans = 1
  Temps = {"any"}
  Acts = {"temp", "hard", "gumbel", "disable", "mode", "fwd", "alpha", "load", "summary", "export"}
  Writes = {"copy", "data", "optim"}
  Ckpts = {"soft", "onehot"}
  Moves = "gen"
  InitAlpha = "ctor"
  CtorOpts = "all"
  AllowKF = FALSE
  Grads = {TRUE, FALSE}
  SelHows = {}
INVARIANT TypeOK
INVARIANT SampledIsProb
INVARIANT OneHotAtArgmax
INVARIANT GumbelTraining
INVARIANT SoftKeepsWinner
INVARIANT ReportIsArgmax
INVARIANT ExportIsArgmax
INVARIANT ReportIsExport
INVARIANT ForwardSamples
PROPERTY DisabledKeeps
PROPERTY ThetaOnlyBySampling
PROPERTY AlphaOnlyByWrites
