SPECIFICATION Spec
CONSTANTS
  Kind = "mps"
  Smp = "skipflag"
  SumSamples = FALSE
  ExpSamples = FALSE
  OptImpl = "fixed"
  Ctor = "bare"
  N = 2
  Chans = 1
  Temps = {"any"}
  Acts = {"temp", "hard", "gumbel", "disable", "mode", "fwd", "alpha", "load", "summary", "export"}
  Writes = {"copy", "data", "optim"}
  Ckpts = {"soft", "onehot"}
  Moves = "gen"
  InitAlpha = "ctor"
  AllowKF = FALSE
INVARIANT TypeOK
INVARIANT SampledIsProb
INVARIANT OneHotAtArgmax
INVARIANT GumbelTraining
INVARIANT SoftKeepsWinner
INVARIANT ReportIsArgmax
INVARIANT ExportIsArgmax
INVARIANT ReportIsExport
PROPERTY DisabledKeeps
PROPERTY ThetaOnlyBySampling
PROPERTY AlphaOnlyByWrites
