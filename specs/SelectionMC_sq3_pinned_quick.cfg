SPECIFICATION Spec
CONSTANTS
  Kind = "mps"
  Smp = "asis"
  SumSamples = FALSE
  ExpSamples = FALSE
  OptImpl = "pinned"
  Ctor = "bare"
  N = 3
  Chans = 3
  Temps = {"any"}
  Acts = {"mode", "fwd"}
  Writes = {"copy", "data", "optim"}
  Ckpts = {"soft"}
  Moves = "gen"
  InitAlpha = "any"
  CtorOpts = "default"
  AllowKF = FALSE
  Grads = {TRUE}
  SelHows = {}
INVARIANT TypeOK
INVARIANT SampledIsProb
INVARIANT OneHotAtArgmax
INVARIANT GumbelTraining
INVARIANT SoftKeepsWinner
INVARIANT ReportIsArgmax
INVARIANT ExportIsArgmax
INVARIANT ReportIsExport
INVARIANT ForwardSamples
PROPERTY DisabledKeeps
PROPERTY ThetaOnlyBySampling
PROPERTY AlphaOnlyByWrites
