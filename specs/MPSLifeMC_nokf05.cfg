SPECIFICATION Spec
CONSTANTS
  Dim = 2
  MaxNodes = 2
  MinNodes = 2
  Widths = {3}
  LinWidths = {2}
  Ks = {3}
  BNs = {FALSE}
  C0 = 2
  Sp0 = 4
  AllowRelu = FALSE
  AllowPool = FALSE
  AllowAdd = FALSE
  AllowDw = FALSE
  AllowReuse = FALSE
  PMs = {"zeros"}
  Ds = {1}
  Ss = {1}
  Biases = {TRUE}
  Batches = {1, 4}
  Alphabet = "classic"
  FwdImpl = "plain"
  ForkImpl = "own"
  ExpImpl = "fresh"
  TupMode = "pc1"
  WType = "pc"
  SelMode = "rot"
  MaxHist = 0
  Walk = "fixed"
  Lin = "fixed"
  GuardF40 = FALSE
  GuardF05 = FALSE
  GuardReuse = TRUE
INVARIANT InvCostExact
INVARIANT InvSpecKeys
INVARIANT InvPerInvocation
