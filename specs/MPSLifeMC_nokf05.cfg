SPECIFICATION Spec
CONSTANTS
  MaxNodes = 2
  MinNodes = 2
  Widths = {3}
  LinWidths = {2}
  Ks = {3}
  BNs = {FALSE}
  C0 = 2
  Sp0 = 4
  AllowRelu = FALSE
  AllowPool = FALSE
  AllowAdd = FALSE
  AllowDw = FALSE
  TupMode = "pc1"
  WType = "pc"
  SelMode = "rot"
  Lin = "fixed"
  GuardF40 = TRUE
  GuardF05 = FALSE
INVARIANT InvCostExact
INVARIANT InvSpecKeys
