SPECIFICATION Spec
CONSTANTS
  Dim = 2
  MaxNodes = 5
  MinNodes = 2
  Widths = {3}
  LinWidths = {2}
  Ks = {3}
  BNs = {FALSE}
  C0 = 3
  Sp0 = 4
  AllowRelu = FALSE
  AllowPool = TRUE
  AllowAdd = TRUE
  AllowDw = FALSE
  AllowReuse = TRUE
  PMs = {"zeros"}
  Ds = {1}
  Ss = {1}
  Biases = {TRUE}
  Batches = {1, 4}
  Alphabet = "classic"
  FwdImpl = "plain"
  ForkImpl = "own"
  ExpImpl = "fresh"
  TupMode = "one"
  WType = "pl"
  SelMode = "rot"
  MaxHist = 0
  Walk = "fixed"
  Lin = "fixed"
  GuardF40 = FALSE
  GuardF05 = TRUE
  GuardReuse = TRUE
INVARIANT InvRepIsRep
INVARIANT InvPlumb
INVARIANT InvPlumbGroups
INVARIANT InvAddSameGrid
INVARIANT InvOutputFloat
INVARIANT InvCostExact
INVARIANT InvSpecKeys
INVARIANT InvPerInvocation
INVARIANT InvExportGeom
INVARIANT InvBatchIndependent
