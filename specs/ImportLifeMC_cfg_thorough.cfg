SPECIFICATION Spec
CONSTANTS
  Impl = "asis"
  MaxNodes = 2
  Widths = {4}
  Dims = {1, 2}
  C0 = 4
  Sp0 = 4
  Methods = {"PIT", "SN"}
  Twos = {"no"}
  ConvVars = {"dflt", "same_refl", "same_circ_d2", "int_repl_s2", "valid", "grp2"}
  BnVars = {"dflt", "epsmom"}
  SnoVars = {1, 2, 3, 4}
  AllowPl = FALSE
  AllowExcl = FALSE
  AllowReuse = FALSE
  AllowLin3 = FALSE
  AllowDrop = FALSE
  AllowBnShare = FALSE
  PlainOps = {"relu", "pool", "flat", "add"}
  Biases = {TRUE, FALSE}
  AllowFindings = FALSE
  MaxHist = 1
VIEW ViewNoHist
INVARIANT InvConvertOk
INVARIANT InvFnPreserved
INVARIANT InvImportedConfig
INVARIANT InvUserParams
INVARIANT InvUserFn
INVARIANT InvUserOpts
INVARIANT InvModeKept
INVARIANT InvFlagsLast
INVARIANT InvExportIso
INVARIANT InvExportLiteral
INVARIANT InvBnAccount
INVARIANT InvNasConfig
INVARIANT InvWellFormed
