----------------------------- MODULE CostDepsMC -----------------------------
(***************************************************************************)
(* Design-level check for C12.                                             *)
(*                                                                         *)
(* Mode "lattice".  For every architecture of a small family (1-D chain    *)
(* with receptive-field / dilation masks, 2-D residual block + flatten +   *)
(* linear, concat + depthwise, strided Conv1d + pooling, K = 4 kernel) TLC *)
(* walks the WHOLE lattice of mask assignments over the value set Vals:    *)
(* the state starts at the bottom (every trainable magnitude minimal) and  *)
(* one Raise step lifts one non-keep-alive element to the next value.      *)
(* The model state also contains a weight version wv and an input version  *)
(* xv with their own actions (Perturb, NewInput): Cost is an operator of   *)
(* (arch, A) only, so those actions cannot change it (DepsOnly).           *)
(* Invariants, evaluated in every lattice state, for every applicable      *)
(* metric, continuous and discrete:                                        *)
(*   InvCvIsCost, InvNonNeg, StepMonotone (a Raise step never lowers any   *)
(*   cost), StepStrict + StepDiscCrossing + InvKeepAliveIrrelevant (the    *)
(*   predicted gradient support), InvOpenIsOriginal, InvDiscOpen,          *)
(*   InvDiscIntegral, InvDiscBounded.                                      *)
(*                                                                         *)
(* Mode "mix".  One-step enumeration of decision points (MPS weight        *)
(* precisions with the candidate costs of CostFormulas; SuperNet blocks    *)
(* with arbitrary branch costs) x every coefficient vector theta with      *)
(* denominator D: sign of the gradient = effect of raising alpha_k, the    *)
(* gradients sum to zero, non-zero exactly for candidates off the          *)
(* theta-weighted mean.                                                    *)
(*                                                                         *)
(* Mode "time".  One-step enumeration of ONE Conv1d time mask: kernel      *)
(* K <= KMax, every assignment of TVals to |beta|, |gamma| (K <= KFull;    *)
(* beyond, the two extreme values).  Checked against MaskAlgebra: the      *)
(* straight-through gradient of the discrete kernel size (SteGradBeta /    *)
(* SteGradGamma with the backward rule Ste) is positive for every          *)
(* non-keep-alive element at every parameter value and zero for the        *)
(* keep-alive ones, never hides a change of Kept, bounds its finite        *)
(* difference; the corner contexts that define "relevant on the lattice"   *)
(* are complete and relevant = non-keep-alive.  Ste = "clipped" and        *)
(* "zeroabove" are expected-to-fail configurations.                        *)
(***************************************************************************)
EXTENDS CostDeps

CONSTANTS Mode,        \* "lattice" | "mix" | "time"
          Vals,        \* lattice: magnitudes, units of 0.1
          Fams,        \* lattice: which members of Family
          AllowDeps,   \* lattice: BOOLEAN - Perturb / NewInput enabled
          D,           \* mix: denominator of theta
          Ste,         \* backward rule of the binariser: "identity" (as written) | "half" | "clipped" | "zeroabove"
          TVals,       \* time: magnitudes for kernels K <= KFull (every assignment)
          KFull, KMax  \* time: kernels KFull < K <= KMax over the two extreme values of TVals only

VARIABLES arch,   \* the architecture (constant along a behaviour)
          st,     \* structure derived ONCE from arch: elements, keep-alive elements, sharing map, original costs
          A,      \* architectural state (masks)
          cv,     \* cost vector of (arch, A): (metric, discrete?) -> cost; InvCvIsCost ties it to the operator
          wv, xv, \* weight / input version: NOT arguments of the cost
          mix

vars == <<arch, st, A, cv, wv, xv, mix>>

(* ------------------------------ the family ------------------------------ *)
Mk(dim, op, ins, out, k, s, bias, dw) ==
    [op |-> op, ins |-> ins, out |-> out, k |-> k, d |-> 1, s |-> s, bias |-> bias, bn |-> FALSE, dw |-> dw,
     excl |-> FALSE, causal |-> (dim = 1 /\ op = "conv"), reuse |-> 0]
Conv(dim, p, out, k, s, bias) == Mk(dim, "conv", <<p>>, out, k, s, bias, FALSE)
DwConv(dim, p, k, bias)       == Mk(dim, "conv", <<p>>, 0, k, 1, bias, TRUE)
Lin(dim, p, out, bias)        == Mk(dim, "lin", <<p>>, out, 1, 1, bias, FALSE)
Fun(dim, op, ins)             == Mk(dim, op, ins, 0, 1, 1, TRUE, FALSE)

Family == <<
    \* 1: 1-D chain, K = 3 then K = 2 (last layer output-connected: frozen width, trainable time masks)
    [dim |-> 1, c0 |-> 2, sp |-> 4, nodes |-> <<Conv(1, 0, 3, 3, 1, TRUE), Fun(1, "relu", <<1>>), Conv(1, 2, 2, 2, 1, FALSE)>>],
    \* 2: 2-D residual block (one shared masker) -> flatten -> linear
    [dim |-> 2, c0 |-> 2, sp |-> 2, nodes |-> <<Conv(2, 0, 3, 3, 1, TRUE), Conv(2, 1, 3, 3, 1, FALSE), Fun(2, "add", <<1, 2>>),
                                                Fun(2, "flat", <<3>>), Lin(2, 4, 2, TRUE)>>],
    \* 3: 2-D depthwise (shares the producer's masker) and channel concat
    [dim |-> 2, c0 |-> 2, sp |-> 2, nodes |-> <<Conv(2, 0, 2, 3, 1, TRUE), DwConv(2, 1, 3, TRUE), Conv(2, 0, 3, 1, 1, FALSE),
                                                Fun(2, "cat", <<2, 3>>), Conv(2, 4, 2, 1, 1, TRUE)>>],
    \* 4: strided Conv1d (frozen time masks) -> pool -> flatten -> linear -> relu -> linear
    [dim |-> 1, c0 |-> 2, sp |-> 8, nodes |-> <<Conv(1, 0, 3, 3, 2, TRUE), Fun(1, "pool", <<1>>), Fun(1, "flat", <<2>>),
                                                Lin(1, 3, 3, TRUE), Fun(1, "relu", <<4>>), Lin(1, 5, 2, FALSE)>>],
    \* 5: K = 4 (two dilation levels, comb and suffix interact)
    [dim |-> 1, c0 |-> 1, sp |-> 4, nodes |-> <<Conv(1, 0, 2, 4, 1, TRUE), Conv(1, 1, 2, 1, 1, TRUE)>>],
    \* 6: weight-shared residual block (layer 2 invoked again as node 5): shared metrics charge it once
    [dim |-> 2, c0 |-> 2, sp |-> 2, nodes |-> <<Conv(2, 0, 3, 3, 1, TRUE), Conv(2, 1, 3, 3, 1, TRUE), Fun(2, "relu", <<2>>),
                                                Fun(2, "add", <<3, 1>>), [Conv(2, 4, 3, 3, 1, TRUE) EXCEPT !.reuse = 2],
                                                Fun(2, "relu", <<5>>), Fun(2, "add", <<6, 4>>), Conv(2, 7, 2, 1, 1, TRUE)>>],
    \* 7: the chain of 1 with a narrower first layer (quick tier: 243 instead of 729 lattice states)
    [dim |-> 1, c0 |-> 2, sp |-> 4, nodes |-> <<Conv(1, 0, 2, 3, 1, TRUE), Fun(1, "relu", <<1>>), Conv(1, 2, 2, 2, 1, FALSE)>>],
    \* 8: a 2-D convolution consumed by a linear layer only: with gap8_latency every path from its mask to the cost
    \* goes through a rounding helper
    [dim |-> 2, c0 |-> 2, sp |-> 2, nodes |-> <<Conv(2, 0, 3, 3, 1, TRUE), Fun(2, "flat", <<1>>), Lin(2, 2, 2, TRUE)>>]
>>

(* ------------------------------ lattice machine ------------------------- *)
Lat == Mode = "lattice"
MinV == CHOOSE v \in Vals : \A u \in Vals : v <= u
MaxV == CHOOSE v \in Vals : \A u \in Vals : u <= v
NextVal(v, u) == u \in Vals /\ u > v /\ \A x \in Vals : x > v => u <= x

Bottom(a) ==
    [th |-> [n \in SearchLayers(a) |-> IF FreeLayer(a, n) THEN [c \in 1..Ch(a, n) |-> MinV] ELSE AllOne(Ch(a, n))],
     tb |-> [n \in TimeLayers(a) |-> IF n \in TimeFree(a) THEN [i \in 1..KOf(a, n) |-> MinV] ELSE AllOne(KOf(a, n))],
     tg |-> [n \in TimeLayers(a) |-> IF n \in TimeFree(a) THEN [i \in 1..GOf(a, n) |-> MinV] ELSE AllOne(GOf(a, n))]]

NoArch  == [dim |-> 2, c0 |-> 1, sp |-> 1, nodes |-> <<>>]
NoState == [th |-> <<>>, tb |-> <<>>, tg |-> <<>>]

Metrics(a) == {m \in PitMetrics : Applicable(m, a)}
Points(a)  == Metrics(a) \X BOOLEAN
CostAt(a, X) == [p \in Points(a) |-> Cost(p[1], a, X, p[2])]
Struct(a) == [els   |-> Elements(a),
              ka    |-> {e \in Elements(a) : KeepAlive(a, e)},
              share |-> ShareMap(a),
              orig  |-> [m \in Metrics(a) |-> Unit(m, a) * OrigCost(m, a)]]

(* ------------------------------ mix machine ----------------------------- *)
MixLayers == <<
    [fn |-> [l |-> "conv2d", pat |-> "U"],  q |-> [cin |-> 2, cout |-> 3, kx |-> 3, ky |-> 3, ox |-> 2, oy |-> 2, a |-> 8, b |-> 1, g |-> 1, td |-> 1]],
    [fn |-> [l |-> "conv2d", pat |-> "dw"], q |-> [cin |-> 3, cout |-> 3, kx |-> 3, ky |-> 3, ox |-> 2, oy |-> 2, a |-> 8, b |-> 0, g |-> 0, td |-> 1]],
    [fn |-> [l |-> "linear", pat |-> "U"],  q |-> [cin |-> 5, cout |-> 2, kx |-> 1, ky |-> 1, ox |-> 1, oy |-> 1, a |-> 8, b |-> 1, g |-> 1, td |-> 1]]
>>
MixMetrics == {"params_bit", "ops_bit", "mpic_latency"}       \* mpic_energy = mpic_latency * constant
PrecSets   == {<<2, 4, 8>>, <<0, 2, 4, 8>>, <<2, 8>>}
DenAll     == 25 * 23 * 21
\* candidate cost of precision w as an integer (common positive factor DenAll)
Cand(m, lay, w) ==
    LET fn == [m |-> m, l |-> lay.fn.l, pat |-> lay.fn.pat]
        q  == [cin |-> lay.q.cin, cout |-> lay.q.cout, kx |-> lay.q.kx, ky |-> lay.q.ky, ox |-> lay.q.ox, oy |-> lay.q.oy,
               w |-> w, a |-> 8, b |-> lay.q.b, g |-> lay.q.g, td |-> 1]
    IN  CF!CostCore(fn, q, 1) * CF!CostMult(fn, q) * (IF m = "mpic_latency" THEN CF!MpicNum(8, w) * (DenAll \div CF!MpicDen(8, w)) ELSE 1)
MpsCands == {[k \in 1..Len(P) |-> Cand(m, MixLayers[i], P[k])] : m \in MixMetrics, i \in 1..Len(MixLayers), P \in PrecSets}
SnCands  == UNION {[1..n -> {0, 3, 7}] : n \in 2..3}
Thetas(n) == {t \in [1..n -> 0..D] : SeqSum(t, 1) = D}

Time == Mode = "time"
TMin == CHOOSE v \in TVals : \A u \in TVals : v <= u
TMax == CHOOSE v \in TVals : \A u \in TVals : u <= v
\* K <= KFull: every assignment of TVals; beyond: step patterns (one switch between the two extreme values)
Step(n, cut, lo, hi) == [i \in 1..n |-> IF i >= cut THEN hi ELSE lo]
TVecs(K, n) == IF K <= KFull THEN [1..n -> TVals]
               ELSE {Step(n, cut, TMin, TMax) : cut \in 1..(n + 1)} \cup {Step(n, cut, TMax, TMin) : cut \in 1..(n + 1)}

Init ==
    IF Time
    THEN /\ arch = NoArch /\ st = <<>> /\ A = NoState /\ cv = <<>> /\ wv = 0 /\ xv = 0
         /\ \E K \in 1..KMax : mix = [ph |-> "k", K |-> K, b |-> <<>>, g |-> <<>>]
    ELSE IF Lat
    THEN /\ arch \in {Family[i] : i \in Fams} /\ st = Struct(arch) /\ A = Bottom(arch) /\ cv = CostAt(arch, A)
         /\ wv = 0 /\ xv = 0 /\ mix = <<>>
    ELSE /\ arch = NoArch /\ st = <<>> /\ A = NoState /\ cv = <<>> /\ wv = 0 /\ xv = 0
         /\ \E C \in MpsCands \cup SnCands : \E t \in Thetas(Len(C)) :
                mix = [C |-> C, t |-> t, mps |-> C \in MpsCands]

Raise(e) == /\ Lat /\ e \notin st.ka
            /\ \E u \in Vals : NextVal(Get(A, e), u) /\ A' = PutS(st.share, A, e, u)
            /\ cv' = CostAt(arch, A')
            /\ UNCHANGED <<arch, st, wv, xv, mix>>
\* the cost vector after these two steps is NOT recomputed: it cannot depend on what they change (InvCvIsCost checks it)
Perturb  == Lat /\ AllowDeps /\ wv' = 1 - wv /\ UNCHANGED <<arch, st, A, cv, xv, mix>>
NewInput == Lat /\ AllowDeps /\ xv' = 1 - xv /\ UNCHANGED <<arch, st, A, cv, wv, mix>>

RaiseAny == Lat /\ \E e \in st.els : Raise(e)

\* time mode: the mask is chosen in two steps (beta, then gamma) so that TLC's workers share the enumeration
ChooseB == /\ Time /\ mix.ph = "k" /\ \E b \in TVecs(mix.K, mix.K) : mix' = [mix EXCEPT !.ph = "b", !.b = b]
           /\ UNCHANGED <<arch, st, A, cv, wv, xv>>
ChooseG == /\ Time /\ mix.ph = "b" /\ \E g \in TVecs(mix.K, MA!GLen(mix.K)) : mix' = [mix EXCEPT !.ph = "done", !.g = g]
           /\ UNCHANGED <<arch, st, A, cv, wv, xv>>

Next == RaiseAny \/ Perturb \/ NewInput \/ ChooseB \/ ChooseG

Spec == Init /\ [][Next]_vars

(* ------------------------------ lattice invariants ---------------------- *)
InvWellFormed == Lat => /\ WellFormedState(arch, A) /\ ContExact(arch)
                        /\ \A n \in TimeLayers(arch) : KLDivides(KOf(arch, n))
\* (a) the cost is the operator applied to (arch, A) - whatever happened to weights and inputs
InvCvIsCost   == Lat => cv = CostAt(arch, A)
InvNonNeg     == Lat => \A p \in DOMAIN cv : cv[p] >= 0
\* (b) one Raise step (one element to the next larger value) never lowers any cost; every comparable pair of
\* the lattice is connected by such steps, so  A <= B  =>  Cost(A) <= Cost(B)  follows by transitivity
IsRaise == Lat /\ A' # A
StepMonotone == [][IsRaise => \A p \in DOMAIN cv : cv[p] <= cv'[p]]_vars
\* (c) ... and strictly raises every smooth continuous cost (the raised element is never a keep-alive one) ...
StepStrict   == [][IsRaise => \A m \in Metrics(arch) : Smooth(m) => cv[<<m, FALSE>>] < cv'[<<m, FALSE>>]]_vars
\* ... in discrete mode as soon as a channel magnitude crosses the threshold (gradient passed straight through) ...
Crossed == \E e \in st.els : e[1] = "a" /\ Get(A, e) <= MA!Thr /\ Get(A', e) > MA!Thr
StepDiscCrossing == [][(IsRaise /\ Crossed) => \A m \in Metrics(arch) : Smooth(m) => cv[<<m, TRUE>>] < cv'[<<m, TRUE>>]]_vars
\* ... while the value stored in a keep-alive slot never reaches an effective size (hence no cost)
InvKeepAliveIrrelevant ==
    Lat => \A e \in st.ka : \A disc \in BOOLEAN :
               Sizes(arch, PutS(st.share, A, e, MA!BIG), disc) = Sizes(arch, A, disc)
\* all masks fully open (magnitude 1): continuous = discrete = cost of the original network
OpenOffKA == \A e \in st.els \ st.ka : Get(A, e) = MA!One
AboveThr  == \A e \in st.els \ st.ka : Get(A, e) > MA!Thr
InvOpenIsOriginal == (Lat /\ OpenOffKA) => \A p \in DOMAIN cv : cv[p] = st.orig[p[1]]
InvDiscOpen       == (Lat /\ AboveThr) => \A m \in Metrics(arch) : cv[<<m, TRUE>>] = st.orig[m]
InvDiscIntegral   == Lat => \A m \in Metrics(arch) : cv[<<m, TRUE>>] % Unit(m, arch) = 0
\* nothing can be searched INTO existence
InvDiscBounded    == Lat => \A m \in Metrics(arch) : cv[<<m, TRUE>>] <= st.orig[m]

(* ---- straight-through gradient of the discrete cost (backward rule Ste) ---- *)
\* every non-keep-alive element gets a non-zero gradient from the discrete cost at EVERY lattice state ...
InvDiscSteSupport == Lat => \A e \in st.els \ st.ka : SteGrad(Ste, arch, A, e) > 0
\* ... a keep-alive element never
InvDiscSteKaZero  == Lat => \A e \in st.ka : SteGrad(Ste, arch, A, e) = 0
\* whenever lifting an element across the threshold changes an effective size HERE, the discrete cost strictly rises
\* (so "changes the kept / alive set" and "raises the discrete metric" coincide for the smooth metrics)
InvSizeChangeRaisesCost ==
    Lat => \A e \in st.els \ st.ka :
               LET A1 == PutS(st.share, A, e, MA!One)  A0 == PutS(st.share, A, e, 0) IN
               Sizes(arch, A1, TRUE) # Sizes(arch, A0, TRUE) => Cost("ops", arch, A1, TRUE) > Cost("ops", arch, A0, TRUE)
\* lattice relevance (CostDeps!DiscRelevant) = non-keep-alive, for every applicable metric incl. gap8 (family: widths <= 3)
InvDiscRelevant ==
    (Lat /\ A = Bottom(arch)) => \A e \in st.els, m \in Metrics(arch) :
        (Smooth(m) \/ arch.dim = 2) => (DiscRelevant(m, arch, st.share, e) <=> e \notin st.ka)

\* sanity (expected to FAIL): a keep-alive element is NOT strictly monotone - the predicted support is not "everything"
InvStrictEverywhere ==
    Lat => \A e \in st.els : Get(A, e) < MaxV =>
               Cost("params", arch, PutS(st.share, A, e, MaxV), FALSE) > cv[<<"params", FALSE>>]

(* ------------------------------ time invariants ------------------------- *)
TDone == Time /\ mix.ph = "done"
TK == mix.K
TG == MA!GLen(mix.K)
GradOf(kind, i) == IF kind = "b" THEN SteGradBeta(Ste, TK, mix.b, mix.g, i) ELSE SteGradGamma(Ste, TK, mix.b, mix.g, i)
LenOf(kind) == IF kind = "b" THEN TK ELSE TG
KeptWith(kind, i, v) == IF kind = "b" THEN KeptOf(TK, [mix.b EXCEPT ![i] = v], mix.g) ELSE KeptOf(TK, mix.b, [mix.g EXCEPT ![i] = v])
\* every non-keep-alive element gets a non-zero straight-through gradient at EVERY parameter value, a keep-alive one never
InvTimeSteSupport ==
    TDone => \A kind \in {"b", "g"} : \A i \in 1..LenOf(kind) : (GradOf(kind, i) > 0) <=> (i # LenOf(kind))
\* per element, with Kept of MaskAlgebra for the element at 0 and at 1 (other elements as they are):
\*  - the value in a keep-alive slot never changes the kept set;
\*  - the gradient never hides a change of the kept set at this parameter value;
\*  - such a change is found in one of the four corner contexts (TimeRelevant is complete);
\*  - identity backward: the gradient bounds the number of taps the element can switch on
InvTimeElements ==
    TDone => \A kind \in {"b", "g"} : \A i \in 1..LenOf(kind) :
        LET k1 == KeptWith(kind, i, MA!One)  k0 == KeptWith(kind, i, 0)  gr == GradOf(kind, i) IN
        /\ (i = LenOf(kind) => k1 = k0)
        /\ (k1 # k0 => gr > 0 /\ TimeRelevant(TK, kind, i))
        /\ (Ste = "identity" => 2 * (Cardinality(k1) - Cardinality(k0)) <= gr)
\* "relevant on the lattice" = not keep-alive (does not depend on the parameter values: checked once per kernel size)
InvTimeRelevantIffNotKA ==
    (Time /\ mix.ph = "k") => \A kind \in {"b", "g"} : \A i \in 1..LenOf(kind) : TimeRelevant(TK, kind, i) <=> i # LenOf(kind)

(* ------------------------------ mix invariants -------------------------- *)
Mix == Mode = "mix"
Ks  == 1..Len(mix.C)
InvMixNonNeg      == Mix => MixCost(mix.t, mix.C) >= 0
InvMixGradSumZero == Mix => SeqSum([k \in Ks |-> MixGradNum(mix.t, mix.C, k)], 1) = 0
\* the sign of the gradient tells what raising the coefficient does (any finite raise)
InvMixRaiseIffGrad ==
    Mix => \A k \in Ks, f \in {2, 5} : RaiseEffect(mix.t, mix.C, k, f) = Sign(MixGradNum(mix.t, mix.C, k))
InvMixPrediction ==
    Mix => \A k \in Ks : PredMixNonZero(mix.t, mix.C, k) <=> MixGradNum(mix.t, mix.C, k) # 0
\* candidate costs of the MPS metrics grow with the bit-width, so the top precision is never pulled up-hill
InvMixBitsMonotone ==
    (Mix /\ mix.mps) => /\ \A k \in 1..(Len(mix.C) - 1) : mix.C[k] <= mix.C[k + 1]
                        /\ MixGradNum(mix.t, mix.C, Len(mix.C)) >= 0
                        /\ MixGradNum(mix.t, mix.C, 1) <= 0
\* a one-hot coefficient vector (hard selection without straight-through) gives no gradient at all
InvMixOneHotFlat ==
    Mix => ((\E k \in Ks : mix.t[k] = D) => \A k \in Ks : MixGradNum(mix.t, mix.C, k) = 0)
=============================================================================
