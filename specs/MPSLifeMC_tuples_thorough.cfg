SPECIFICATION Spec
CONSTANTS
  MaxNodes = 3
  MinNodes = 2
  Widths = {3}
  LinWidths = {2}
  Ks = {3}
  BNs = {FALSE}
  C0 = 3
  Sp0 = 4
  AllowRelu = FALSE
  AllowPool = FALSE
  AllowAdd = TRUE
  AllowDw = TRUE
  TupMode = "pairs"
  WType = "pl"
  SelMode = "rot"
  Lin = "fixed"
  GuardF40 = TRUE
  GuardF05 = TRUE
INVARIANT InvRepIsRep
INVARIANT InvPlumb
INVARIANT InvPlumbGroups
INVARIANT InvAddSameGrid
INVARIANT InvOutputFloat
INVARIANT InvCostExact
INVARIANT InvSpecKeys
