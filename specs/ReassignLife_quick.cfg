SPECIFICATION Spec
CONSTANTS
  Impl = "explicit"
  MaxHist = 2
  KeepHist = TRUE
INVARIANT RefineSeesArgmax
INVARIANT HistOk
