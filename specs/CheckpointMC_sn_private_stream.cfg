SPECIFICATION Spec
VIEW View
CONSTANTS
    Impl = "private_stream"
    Kind = "sn"
    MaxV = 1
    Temps = {1, 2}
INVARIANT Resume
