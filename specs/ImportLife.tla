----------------------------- MODULE ImportLife -----------------------------
(***************************************************************************)
(* C07 - importing a model is behaviour-preserving and leaves the user's   *)
(* model intact.  Variable-free operator library (used by ImportLifeMC and *)
(* ImportLifeTrace).                                                       *)
(*                                                                         *)
(* Architectures are the node sequences of FeatGraph, extended by          *)
(*   a.two  : "no" | "add" | "cat"   two-input forward (tensor 0 = xa + xb *)
(*            or cat(xa, xb)),  a.ca = channels of xa                      *)
(*   node.pl : the conv/linear layer is a PIT layer placed by the user     *)
(*   node.sn : <<>> or a sequence of branch descriptors [k, bn]: the conv  *)
(*             node is a SuperNetModule (branch i = conv(k_i) [+ BN])      *)
(*   node.eps, node.mom : codes of the BatchNorm hyper-parameters          *)
(*   node.kind : "avg" | "max" for pooling nodes                           *)
(*                                                                         *)
(* Three things are modelled:                                              *)
(*  (1) the LAYER SEQUENCE of a network (what a reader of the fx graph     *)
(*      sees: one record per module call / functional op with its hyper-   *)
(*      parameters and the positions of its producers): Flat, OrigSeq;     *)
(*  (2) the OBJECT LEVEL of a conversion: a heap of layer objects (the     *)
(*      user's objects <<"u", o>> and converter-made copies <<"c", o>>),   *)
(*      the call-site table of the converted graph, the BatchNorm fusion   *)
(*      pass (one fusion_fn call per matched CALL SITE, as implemented, or *)
(*      once per layer object, reference), the mode flags; functions are   *)
(*      compared as TERMS: a call site computes the sequence of symbolic   *)
(*      operators <<W_o, B_o, ...>> (W = the layer's original affine map,  *)
(*      B = its BatchNorm).  For generic parameters two terms are equal as *)
(*      functions iff they are equal as sequences (B after B is not B);    *)
(*  (3) the export walk (one rewrite per layer OBJECT still in searchable  *)
(*      form; as implemented the BatchNorm is re-inserted after the call   *)
(*      site visited first only).                                          *)
(* Impl = "ref"  : intended behaviour (user-placed layers are adopted as   *)
(*                 copies, fusion once per object, BN after every site).   *)
(* Impl = "asis" : what plinio does; the deviations are the named known    *)
(*                 findings KF_PlacedBN (F50) and KF_ReuseBN (F51).        *)
(***************************************************************************)
EXTENDS FeatGraph

(* The two named deviations of the as-implemented model.  When plinio is repaired, set the switch to FALSE (the   *)
(* as-implemented model then coincides with the reference there), drop the finding from known_findings.json and *)
(* remove the corresponding expected-to-fail config (ImportLifeMC_f50.cfg / _f51.cfg) from harness/checks/c07.py *)
F50_OPEN == TRUE     \* user-placed PIT layers are adopted by reference and fused / folded in place
F51_OPEN == TRUE     \* fusion once per call site; re-created BatchNorm after one call site only
Dev(impl, open) == impl = "asis" /\ open

(* ------------------------------ layer records --------------------------- *)
\* field set of a layer record (documentation; the harness' REC0 in harness/import_gen.py has the same fields)
R0 == [t |-> "", dim |-> 0, i |-> 0, o |-> 0, k |-> 0, d |-> 0, s |-> 0, g |-> 0, b |-> FALSE, p |-> 0,
       eps |-> 0, mom |-> 0, aff |-> FALSE, trs |-> FALSE, pk |-> "", l |-> 0, r |-> 0, ins |-> <<>>]

EpsOf(c) == IF c = 0 THEN 10000 ELSE 1000000          \* eps * 10^9   (1e-5 | 1e-3)
MomOf(c) == IF c = 0 THEN 100000 ELSE 50000           \* momentum * 10^6  (0.1 | 0.05)
SamePad == 1000                                       \* code of padding = 'same'

\* (explicit constructors: cheaper for TLC than chains of EXCEPT on R0)
Rec(t, dim, i, o, k, d, s, g, b, p, eps, mom, aff, trs, pk, l, r, ins) ==
    [t |-> t, dim |-> dim, i |-> i, o |-> o, k |-> k, d |-> d, s |-> s, g |-> g, b |-> b, p |-> p,
     eps |-> eps, mom |-> mom, aff |-> aff, trs |-> trs, pk |-> pk, l |-> l, r |-> r, ins |-> ins]
RIn            == Rec("in", 0, 0, 0, 0, 0, 0, 0, FALSE, 0, 0, 0, FALSE, FALSE, "", 0, 0, <<>>)
RFun(t, ins)   == Rec(t, 0, 0, 0, 0, 0, 0, 0, FALSE, 0, 0, 0, FALSE, FALSE, "", 0, 0, ins)
RPad(l, ins)   == Rec("pad", 0, 0, 0, 0, 0, 0, 0, FALSE, 0, 0, 0, FALSE, FALSE, "", l, 0, ins)
RConv(dim, i, o, k, d, s, g, b, p, ins) ==
    Rec("conv", dim, i, o, k, d, s, g, b, p, 0, 0, FALSE, FALSE, "", 0, 0, ins)
RLin(i, o, b, ins) == Rec("lin", 0, i, o, 0, 0, 0, 0, b, 0, 0, 0, FALSE, FALSE, "", 0, 0, ins)
RBn(dim, o, e, m, ins) ==
    Rec("bn", dim, 0, o, 0, 0, 0, 0, FALSE, 0, EpsOf(e), MomOf(m), TRUE, TRUE, "", 0, 0, ins)
RPool(dim, kind, ins) == Rec("pool", dim, 0, 0, 2, 0, 0, 0, FALSE, 0, 0, 0, FALSE, FALSE, kind, 0, 0, ins)
RComb(nb, ins) == Rec("comb", 0, 0, nb, 0, 0, 0, 0, FALSE, 0, 0, 0, FALSE, FALSE, "", 0, 0, ins)

(* ------------------------------ flattening ------------------------------ *)
(* Flat(a, B, H, C): layer sequence of architecture a where call site n has bias B[n], is followed by a      *)
(* BatchNorm iff H[n], and SuperNet block n is kept whole (C[n] = 0) or replaced by its branch C[n].          *)
(* The accumulator is [s |-> records so far, p |-> position of every tensor so far (p[t+1] = tensor t)].      *)
LNode(a, n) == Nd(a, Owner(a, n))            \* the node that describes the layer object called at site n
IsSN(a, n)  == Op(a, n) = "conv" /\ Len(Nd(a, n).sn) > 0
ConvPad(a, nd, k) == IF a.dim = 1 THEN (IF nd.causal THEN 0 ELSE SamePad) ELSE k \div 2

Head0(a) == IF a.two = "no" THEN [s |-> <<RIn>>, p |-> <<1>>]
           ELSE [s |-> <<RIn, RIn, RFun(a.two, <<1, 2>>)>>, p |-> <<3>>]

PosOf(acc, t) == acc.p[t + 1]
Push(acc, rec) == [acc EXCEPT !.s = Append(@, rec)]
Last(acc) == Len(acc.s)
Close(acc) == [acc EXCEPT !.p = Append(@, Len(acc.s))]     \* the tensor of the current node is the last record

\* one SuperNet branch: conv(k_i) [+ BN]; returns the accumulator, the branch tail is its last record
Branch(acc, a, n, br, src) ==
    LET nd == Nd(a, n)
        c  == Push(acc, RConv(a.dim, Ch(a, nd.ins[1]), nd.out, br.k, 1, 1, 1, nd.bias,
                              IF a.dim = 1 THEN SamePad ELSE br.k \div 2, <<src>>))
    IN  IF br.bn THEN Push(c, RBn(a.dim, nd.out, nd.eps, nd.mom, <<Last(c)>>)) ELSE c

RECURSIVE Branches(_, _, _, _, _, _)
Branches(acc, a, n, i, src, tails) ==       \* all branches of block n, then the combiner
    IF i > Len(Nd(a, n).sn) THEN Push(acc, RComb(Len(Nd(a, n).sn), tails))
    ELSE LET b == Branch(acc, a, n, Nd(a, n).sn[i], src) IN Branches(b, a, n, i + 1, src, Append(tails, Last(b)))

Emit(acc, a, n, B, H, C) ==
    LET nd  == Nd(a, n)
        ld  == LNode(a, n)
        src == PosOf(acc, nd.ins[1])
        cin == Ch(a, nd.ins[1])
    IN Close(
       CASE nd.op = "conv" /\ IsSN(a, n) ->
                IF C[n] = 0 THEN Branches(acc, a, n, 1, src, <<>>)
                ELSE Branch(acc, a, n, nd.sn[C[n]], src)
         [] nd.op = "conv" /\ ~IsSN(a, n) ->
                LET a1 == IF a.dim = 1 /\ ld.causal THEN Push(acc, RPad((ld.k - 1) * ld.d, <<src>>)) ELSE acc
                    s1 == IF a.dim = 1 /\ ld.causal THEN Last(a1) ELSE src
                    a2 == Push(a1, RConv(a.dim, cin, Ch(a, n), ld.k, ld.d, ld.s, IF ld.dw THEN cin ELSE 1, B[n],
                                         ConvPad(a, ld, ld.k), <<s1>>))
                IN  IF H[n] THEN Push(a2, RBn(a.dim, Ch(a, n), ld.eps, ld.mom, <<Last(a2)>>)) ELSE a2
         [] nd.op = "lin" ->
                LET a2 == Push(acc, RLin(cin, ld.out, B[n], <<src>>))
                IN  IF H[n] THEN Push(a2, RBn(1, ld.out, ld.eps, ld.mom, <<Last(a2)>>)) ELSE a2
         [] nd.op = "pool" -> Push(acc, RPool(a.dim, nd.kind, <<src>>))
         [] nd.op \in {"add", "cat", "catt"} ->
                Push(acc, RFun(nd.op, [j \in 1..Len(nd.ins) |-> PosOf(acc, nd.ins[j])]))
         [] OTHER -> Push(acc, RFun(nd.op, <<src>>)))           \* relu, flat, id

RECURSIVE FlatFrom(_, _, _, _, _, _)
FlatFrom(acc, a, n, B, H, C) == IF n > N(a) THEN acc.s ELSE FlatFrom(Emit(acc, a, n, B, H, C), a, n + 1, B, H, C)
Flat(a, B, H, C) == FlatFrom(Head0(a), a, 1, B, H, C)

Sites(a)    == 1..N(a)
OrigBias(a) == [n \in Sites(a) |-> IsLayer(a, n) /\ LNode(a, n).bias]
OrigBn(a)   == [n \in Sites(a) |-> IsLayer(a, n) /\ ~IsSN(a, n) /\ LNode(a, n).bn]
NoChoice(a) == [n \in Sites(a) |-> 0]
OrigSeq(a)  == Flat(a, OrigBias(a), OrigBn(a), NoChoice(a))

(* ------------------------------ configurations -------------------------- *)
(* cfg = [method |-> "PIT"|"SN"|"MPS", mode |-> "train"|"eval", fold |-> BOOLEAN, auto |-> BOOLEAN]            *)
\* the converter turns the layer object of site n into (or adopts it as) a searchable PIT layer
Handled(a, cfg, n) ==
    /\ cfg.method = "PIT" /\ IsLayer(a, n) /\ ~IsSN(a, n)
    /\ (LNode(a, n).pl \/ (cfg.auto /\ ~Excluded(a, n)))
\* SuperNet blocks: which branch an immediate export selects (uniform coefficients: the first maximum)
FirstChoice(a) == [n \in Sites(a) |-> IF IsSN(a, n) THEN 1 ELSE 0]
SNSites(a) == {n \in Sites(a) : IsSN(a, n)}
Choices(a) == {[n \in Sites(a) |-> IF IsSN(a, n) THEN f[n] ELSE 0] :
                  f \in {g \in [SNSites(a) -> 1..3] : \A n \in SNSites(a) : g[n] <= Len(Nd(a, n).sn)}}

(* The property's reading of "the original architecture": the layer sequence of the user's network in which   *)
(* a folded BatchNorm is absorbed into a bias and every SuperNet block is replaced by one of its branches.    *)
ExpBias(a, cfg) == [n \in Sites(a) |-> OrigBias(a)[n] \/ (Handled(a, cfg, n) /\ cfg.fold /\ OrigBn(a)[n])]
ExpBn(a, cfg)   == [n \in Sites(a) |-> OrigBn(a)[n] /\ ~(Handled(a, cfg, n) /\ cfg.fold)]
ExpSeq(a, cfg, c) == Flat(a, ExpBias(a, cfg), ExpBn(a, cfg), c)

(* ------------------------------ object level ---------------------------- *)
W(o) == [s |-> "W", o |-> o]
B(o) == [s |-> "B", o |-> o]
Owners(a) == {Owner(a, n) : n \in Layers(a)}
UObj(o) == <<"u", o>>
CObj(o) == <<"c", o>>

\* the layer objects of the user's model, as written by the user
UserHeap(a, cfg) ==
    [o \in Owners(a) |->
        [pit |-> Nd(a, o).pl, w |-> <<W(o)>>, bias |-> Nd(a, o).bias, bnattr |-> FALSE,
         fold |-> Nd(a, o).pl /\ cfg.fold, buf |-> FALSE]]

OrigTerm(a, n) == <<W(Owner(a, n))>> \o (IF OrigBn(a)[n] THEN <<B(Owner(a, n))>> ELSE <<>>)
\* forward of one layer object: weights (with everything folded into them), then its fused BatchNorm attribute
ObjFwd(ob, o) == ob.w \o (IF ob.pit /\ ob.bnattr /\ ~ob.fold THEN <<B(o)>> ELSE <<>>)

(* Conversion.  Result: [uh: heap of the user's objects after the call, ch: heap of copies made by the        *)
(* converter (meaningful where copied[o]), ref: owner -> "u" | "c" (which object the converted graph calls), *)
(* bnode: site -> the converted graph still has a BatchNorm node after the site, wtrain, strain, utrain].     *)
Copied(impl, a, cfg, o) ==
    /\ cfg.method = "PIT"
    /\ \/ (cfg.auto /\ ~Nd(a, o).pl /\ ~Nd(a, o).excl /\ ~IsSN(a, o))        \* autoimport: a new PIT layer
       \/ (~Dev(impl, F50_OPEN) /\ Nd(a, o).pl)                             \* reference: adopt a copy

FuseOnce(ob, o, cfg) ==
    [ob EXCEPT !.bnattr = TRUE,
               !.w = IF cfg.fold THEN Append(@, B(o)) ELSE @,
               !.bias = IF cfg.fold THEN TRUE ELSE @]

\* BatchNorm fusion over the call sites n..N in graph order.  st = [uh, ch, bnode]
RECURSIVE FusePass(_, _, _, _, _, _)
FusePass(impl, a, cfg, copied, st, n) ==
    IF n > N(a) THEN st
    ELSE IF ~(IsLayer(a, n) /\ st.bnode[n] /\ Handled(a, cfg, n)) THEN FusePass(impl, a, cfg, copied, st, n + 1)
    ELSE LET o   == Owner(a, n)
             cur == IF copied[o] THEN st.ch[o] ELSE st.uh[o]
             new == IF ~Dev(impl, F51_OPEN) /\ cur.bnattr THEN cur ELSE FuseOnce(cur, o, cfg)
             st2 == IF copied[o] THEN [st EXCEPT !.ch[o] = new, !.bnode[n] = FALSE]
                    ELSE [st EXCEPT !.uh[o] = new, !.bnode[n] = FALSE]
         IN  FusePass(impl, a, cfg, copied, st2, n + 1)

\* MPS folds every Conv2d/Linear + BatchNorm pair into the CALLER's layer object, by design (recorded, not claimed)
MpsFolds(a, n) == IsLayer(a, n) /\ OrigBn(a)[n] /\ ~(Op(a, n) = "conv" /\ a.dim = 1)

Convert(impl, a, cfg) ==
    LET uh0    == UserHeap(a, cfg)
        copied == [o \in Owners(a) |-> Copied(impl, a, cfg, o)]
        ch0    == [o \in Owners(a) |-> [uh0[o] EXCEPT !.pit = TRUE, !.fold = cfg.fold]]
        st0    == [uh |-> uh0, ch |-> ch0, bnode |-> OrigBn(a)]
        st1    == IF cfg.method = "PIT" THEN FusePass(impl, a, cfg, copied, st0, 1) ELSE st0
        \* register_input_features: every searchable layer object receives the calculator buffers
        mark(h, which) == [o \in Owners(a) |->
                             IF cfg.method = "PIT" /\ h[o].pit /\ copied[o] = which /\ (\E n \in CallSites(a, o) : Handled(a, cfg, n))
                             THEN [h[o] EXCEPT !.buf = TRUE] ELSE h[o]]
        found  == cfg.mode = "train"
    IN [uh |-> mark(st1.uh, FALSE), ch |-> mark(st1.ch, TRUE), copied |-> copied, bnode |-> st1.bnode,
        wtrain |-> IF cfg.method = "SN" /\ impl = "asis" THEN TRUE ELSE found,
        strain |-> IF cfg.method = "SN" /\ impl = "asis" THEN FALSE ELSE found,
        utrain |-> IF impl = "asis" THEN FALSE ELSE found]

NasObj(cv, o)  == IF cv.copied[o] THEN cv.ch[o] ELSE cv.uh[o]
NasTerm(a, cv, n) ==
    LET o == Owner(a, n) IN ObjFwd(NasObj(cv, o), o) \o (IF cv.bnode[n] THEN <<B(o)>> ELSE <<>>)
\* the user's own forward after the conversion: his graph (Python code) is unchanged, his objects may not be
UserTerm(a, cv, n) ==
    LET o == Owner(a, n) IN ObjFwd(cv.uh[o], o) \o (IF OrigBn(a)[n] THEN <<B(o)>> ELSE <<>>)

PlainSites(a) == {n \in Layers(a) : ~IsSN(a, n)}       \* SuperNet blocks are shared by reference, nothing is rewritten

(* ------------------------------ the property ---------------------------- *)
FnPreserved(a, cv)    == \A n \in PlainSites(a) : NasTerm(a, cv, n) = OrigTerm(a, n)
UserParamsKept(a, cfg, cv) == \A o \in Owners(a) : cv.uh[o].w = <<W(o)>> /\ cv.uh[o].bias = Nd(a, o).bias
UserFnKept(a, cv)     == \A n \in PlainSites(a) : UserTerm(a, cv, n) = OrigTerm(a, n)
UserKeysKept(a, cv)   == \A o \in Owners(a) : ~cv.uh[o].buf /\ ~cv.uh[o].bnattr
ModeKept(cfg, cv)     == cv.wtrain = (cfg.mode = "train") /\ cv.strain = (cfg.mode = "train")

(* ------------------------------ export ---------------------------------- *)
(* One rewrite per layer OBJECT that is still searchable.  As implemented the walk (reverse BFS from the      *)
(* output) rewrites the object at the call site it meets first - for the grammar the LAST site - and inserts  *)
(* the re-created BatchNorm after that site only; the other sites then call a plain layer and are skipped.    *)
BnSite(a, o) == CHOOSE m \in CallSites(a, o) : \A x \in CallSites(a, o) : x <= m
ExportBn(impl, a, cfg, cv) ==
    [n \in Sites(a) |->
        IF ~IsLayer(a, n) \/ IsSN(a, n) THEN FALSE
        ELSE LET o == Owner(a, n) ob == NasObj(cv, o) IN
             \/ cv.bnode[n]
             \/ (Handled(a, cfg, n) /\ ob.bnattr /\ ~ob.fold /\ (~Dev(impl, F51_OPEN) \/ n = BnSite(a, o)))]
ExportBias(a, cv) == [n \in Sites(a) |-> IsLayer(a, n) /\ NasObj(cv, Owner(a, n)).bias]
ExportSeq(impl, a, cfg, cv) ==
    Flat(a, ExportBias(a, cv), ExportBn(impl, a, cfg, cv),
         IF cfg.method = "SN" THEN FirstChoice(a) ELSE NoChoice(a))
\* every way the as-implemented export can place the single re-created BatchNorm of a reused layer
MultiOwners(a) == {o \in Owners(a) : Cardinality(CallSites(a, o)) > 1}
AsisBnVariants(a, cfg, cv) ==
    {[n \in Sites(a) |->
        IF ~IsLayer(a, n) \/ IsSN(a, n) THEN FALSE
        ELSE LET o == Owner(a, n) ob == NasObj(cv, o) IN
             cv.bnode[n] \/ (Handled(a, cfg, n) /\ ob.bnattr /\ ~ob.fold
                                /\ n = (IF o \in MultiOwners(a) THEN pick[o] ELSE BnSite(a, o)))]
     : pick \in {f \in [MultiOwners(a) -> Sites(a)] : \A o \in MultiOwners(a) : f[o] \in CallSites(a, o)}}

ExportIso(impl, a, cfg, cv) ==
    ExportSeq(impl, a, cfg, cv) = ExpSeq(a, cfg, IF cfg.method = "SN" THEN FirstChoice(a) ELSE NoChoice(a))

(* ------------------------------ known findings -------------------------- *)
\* F50: a PIT layer placed by the user and followed by a BatchNorm is fused / folded IN the user's own object
KF_PlacedBN(a, cfg) == \E n \in PlainSites(a) : cfg.method = "PIT" /\ LNode(a, n).pl /\ OrigBn(a)[n]
\* F51: a conv/linear + BatchNorm pair invoked at several call sites that the converter makes searchable
KF_ReuseBN(a, cfg)  == \E n \in PlainSites(a) : Handled(a, cfg, n) /\ OrigBn(a)[n]
                                                 /\ Cardinality(CallSites(a, Owner(a, n))) > 1
\* Topologies that are findings of the graph pass itself (C09: F19 depthwise layer whose sharing component has no
\* features-defining node - here: directly on the concatenation of the two inputs; F24 producers of different widths in
\* one sharing component - conv -> flatten added to a linear output).  They are not C07's and are not generated.
KF_DwOrphanTwo(a) == a.two = "cat" /\ \E n \in Layers(a) : IsDw(a, n) /\ 0 \in Comp(a, n) /\ CompDefining(a, n) = {0}
KF_MixedWidth(a)  == \E n \in Layers(a) : \E m1, m2 \in CompDefining(a, n) : Ch(a, m1) # Ch(a, m2)
InDomain(a) == ~KF_DwOrphanTwo(a) /\ ~KF_MixedWidth(a)

SupportedImport(a, cfg) == ~KF_PlacedBN(a, cfg) /\ ~KF_ReuseBN(a, cfg)
=============================================================================
