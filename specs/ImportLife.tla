----------------------------- MODULE ImportLife -----------------------------
(***************************************************************************)
(* C07 - importing a model is behaviour-preserving and leaves the user's   *)
(* model intact.  Variable-free, self-contained operator library (used by  *)
(* ImportLifeMC and ImportLifeTrace).                                      *)
(*                                                                         *)
(* An architecture a = [dim, c0, sp, two, ca, nodes] is a sequence of node *)
(* records (harness/import_gen.py documents the fields); tensor 0 is the   *)
(* network input (a.two = "add" | "cat": two-input forward, tensor 0 =     *)
(* xa + xb / cat(xa, xb)), tensor n the output of node n.  Node fields:    *)
(*   op : conv | lin | lin3 | relu | drop | pool | flat | add              *)
(*   conv configuration: k, d, s, dw, grp, bias, pad (same | int | valid | *)
(*        causal), pm (zeros | reflect | replicate | circular)             *)
(*   bn, eps, mom, aff, trs : BatchNorm after the layer and its options    *)
(*   bn2 : a SECOND BatchNorm object in a row (conv -> bn -> bn)           *)
(*   bnref = m > 0 : the (first) BatchNorm of this call site is the        *)
(*        BatchNorm OBJECT owned by site m (one BN after two layers)       *)
(*   bnown : a reuse site followed by its OWN BatchNorm object instead of  *)
(*        the owner's (one layer, different BNs at different call sites)   *)
(*   op "in2" : the second input of a two-stream forward (a.two = "sep")   *)
(*   excl, reuse, pl (PIT layer placed by the user)                        *)
(*   sn (SuperNet branches [k, bn]), sno (options the user set on the      *)
(*        block: hard, gum, temp*10, fav = favoured branch or 0)           *)
(*                                                                         *)
(* Modelled:                                                               *)
(*  (1) the LAYER SEQUENCE of a network (one record per module call /      *)
(*      functional op with hyper-parameters and producer positions): Flat; *)
(*  (2) the OBJECT LEVEL of a conversion: a heap of layer objects (user's  *)
(*      objects and converter-made copies) each carrying a CONFIGURATION   *)
(*      record, the call-site table of the converted graph, BatchNorm      *)
(*      fusion (per call site as implemented / per object), SuperNet block *)
(*      options, mode flags.  Functions are compared as TERMS: a call site *)
(*      computes <<W(o, config), B_o, ...>>; for generic parameters two    *)
(*      terms are equal as functions iff they are equal as sequences;      *)
(*  (3) the export walk.                                                   *)
(* Impl = "ref"   intended behaviour                                       *)
(* Impl = "asis"  what plinio does; deviations = the named known findings  *)
(* Impl = "droppm" | "snreset" | "stalemode" | "nobnstick" | "fusebybn"    *)
(*        sanity variants of "asis" (the copy of a layer loses its         *)
(*        padding_mode / SuperNet(...) resets the options of the user's    *)
(*        blocks / export() restores the mode found at import /            *)
(*        export(add_bn=False) strips the fused BatchNorm off the layers   *)
(*        of the search model / a BatchNorm object is fused only at its    *)
(*        first call site, later sites only lose their node): every one    *)
(*        must VIOLATE an invariant.                                       *)
(***************************************************************************)
EXTENDS Naturals, Integers, Sequences, FiniteSets

(* Named deviations of the as-implemented model.  When plinio is repaired, set the switch to FALSE (the as-implemented    *)
(* model then coincides with the reference there), drop the finding from known_findings.json and remove the               *)
(* corresponding expected-to-fail config (ImportLifeMC_f5x.cfg) from harness/checks/c07.py                                *)
F50_OPEN == TRUE     \* user-placed PIT layers are adopted by reference and fused / folded in place
F51_OPEN == TRUE     \* fusion once per call site; re-created BatchNorm after one call site only
F52_OPEN == TRUE     \* nn.Linear on a 3-D tensor: masks are sized after dimension 1, forward / export raise
F73_OPEN == TRUE     \* conv -> bn -> bn, fold_bn=False: the second fusion overwrites layer.bn, the first BatchNorm is lost
F53_OPEN == FALSE    \* BatchNorm(affine=False): PITBatchNorm copies weight / bias unconditionally, PIT(...) raises
Dev(impl, open) == impl = "pinned" \/ (impl # "ref" /\ open)      \* "pinned": every deviation of the pinned commit, repaired or not

(* ------------------------------ accessors ------------------------------- *)
N(a)        == Len(a.nodes)
Nd(a, n)    == a.nodes[n]
Ins(a, n)   == IF n = 0 THEN <<>> ELSE Nd(a, n).ins          \* (<<>> for the second input "in2")
In1(a, n)   == Ins(a, n)[1]
Op(a, n)    == IF n = 0 THEN "in" ELSE Nd(a, n).op
SeqSet(s)   == {s[i] : i \in DOMAIN s}
IsLayer(a, n)    == Op(a, n) \in {"conv", "lin", "lin3"}
IsDw(a, n)       == Op(a, n) = "conv" /\ Nd(a, n).dw
Owner(a, n)      == IF IsLayer(a, n) /\ Nd(a, n).reuse > 0 THEN Nd(a, n).reuse ELSE n
Excluded(a, n)   == IsLayer(a, n) /\ Nd(a, Owner(a, n)).excl
Layers(a)        == {n \in 1..N(a) : IsLayer(a, n)}
CallSites(a, m)  == {n \in 1..N(a) : IsLayer(a, n) /\ Owner(a, n) = m}
Sites(a)         == 1..N(a)
LNode(a, n)      == Nd(a, Owner(a, n))            \* the node that describes the layer object called at site n
IsSN(a, n)       == Op(a, n) = "conv" /\ Len(Nd(a, n).sn) > 0
PlainSites(a)    == {n \in Layers(a) : ~IsSN(a, n)}
SNSites(a)       == {n \in Sites(a) : IsSN(a, n)}
Owners(a)        == {Owner(a, n) : n \in Layers(a)}

(* ------------------------------ static shapes --------------------------- *)
(* tensors stay square in 2-D; padded convolutions (same / int = d*(k div 2) / causal) change the size by the stride only *)
RECURSIVE Ch(_, _), Sp(_, _)
Pow(x, e) == IF e = 1 THEN x ELSE x * x
Ch(a, n) ==
    IF n = 0 THEN a.c0
    ELSE LET nd == Nd(a, n) IN
         CASE nd.op = "conv" -> IF nd.dw THEN Ch(a, nd.ins[1]) ELSE nd.out
           [] nd.op = "in2"  -> a.c0
           [] nd.op = "lin"  -> nd.out
           [] nd.op = "flat" -> Ch(a, nd.ins[1]) * Pow(Sp(a, nd.ins[1]), a.dim)
           [] OTHER          -> Ch(a, nd.ins[1])
Sp(a, n) ==
    IF n = 0 THEN a.sp
    ELSE LET nd == Nd(a, n) IN
         CASE nd.op = "conv" -> IF nd.pad = "valid" THEN ((Sp(a, nd.ins[1]) - nd.d * (nd.k - 1) - 1) \div nd.s) + 1
                                ELSE ((Sp(a, nd.ins[1]) - 1) \div nd.s) + 1
           [] nd.op = "lin"  -> 1
           [] nd.op = "in2"  -> a.sp
           [] nd.op = "lin3" -> nd.out
           [] nd.op = "flat" -> 1
           [] nd.op = "pool" -> Sp(a, nd.ins[1]) \div 2
           [] OTHER          -> Sp(a, nd.ins[1])
RECURSIVE IsFlat(_, _)
IsFlat(a, n) == IF n = 0 THEN FALSE
                ELSE CASE Op(a, n) \in {"flat", "lin"} -> TRUE
                       [] Op(a, n) \in {"conv", "lin3", "in2"} -> FALSE
                       [] OTHER -> IsFlat(a, In1(a, n))

(* ---------- sharing components of plinio's graph pass (only used to delimit the domain, see InDomain) ---------- *)
Defining(a, n) == n = 0 \/ Op(a, n) = "in2" \/ (IsLayer(a, n) /\ ~IsDw(a, n))
KeptEdge(a, p, n) == p \in SeqSet(Ins(a, n)) /\ ~Defining(a, n)
AllNodes(a) == 0..(N(a) + 1)
Adj(a, x, y) == \/ (y <= N(a) /\ KeptEdge(a, x, y)) \/ (x <= N(a) /\ KeptEdge(a, y, x))
                \/ (x = N(a) /\ y = N(a) + 1) \/ (y = N(a) /\ x = N(a) + 1)
RECURSIVE Reach(_, _)
Reach(a, S) == LET T == S \cup {y \in AllNodes(a) : \E x \in S : Adj(a, x, y)}
               IN IF T = S THEN S ELSE Reach(a, T)
Comp(a, n)         == Reach(a, {n})
CompDefining(a, n) == {m \in Comp(a, n) : m <= N(a) /\ Defining(a, m)}

(* ------------------------------ layer records --------------------------- *)
EpsOf(c) == IF c = 0 THEN 10000 ELSE 1000000          \* eps * 10^9   (1e-5 | 1e-3)
MomOf(c) == IF c = 0 THEN 100000 ELSE 50000           \* momentum * 10^6  (0.1 | 0.05)
SamePad == 1000                                       \* code of padding = 'same'

\* (explicit constructor; the harness' REC0 in harness/import_gen.py has the same fields)
Rec(t, dim, i, o, k, d, s, g, b, p, pm, eps, mom, aff, trs, pk, l, r, ins) ==
    [t |-> t, dim |-> dim, i |-> i, o |-> o, k |-> k, d |-> d, s |-> s, g |-> g, b |-> b, p |-> p, pm |-> pm,
     eps |-> eps, mom |-> mom, aff |-> aff, trs |-> trs, pk |-> pk, l |-> l, r |-> r, ins |-> ins]
RIn            == Rec("in", 0, 0, 0, 0, 0, 0, 0, FALSE, 0, "", 0, 0, FALSE, FALSE, "", 0, 0, <<>>)
RFun(t, ins)   == Rec(t, 0, 0, 0, 0, 0, 0, 0, FALSE, 0, "", 0, 0, FALSE, FALSE, "", 0, 0, ins)
RPad(l, ins)   == Rec("pad", 0, 0, 0, 0, 0, 0, 0, FALSE, 0, "", 0, 0, FALSE, FALSE, "", l, 0, ins)
RConv(dim, i, o, k, d, s, g, b, p, pm, ins) ==
    Rec("conv", dim, i, o, k, d, s, g, b, p, pm, 0, 0, FALSE, FALSE, "", 0, 0, ins)
RLin(i, o, b, ins) == Rec("lin", 0, i, o, 0, 0, 0, 0, b, 0, "", 0, 0, FALSE, FALSE, "", 0, 0, ins)
RBn(dim, o, e, m, aff, trs, ins) ==
    Rec("bn", dim, 0, o, 0, 0, 0, 0, FALSE, 0, "", EpsOf(e), MomOf(m), aff, trs, "", 0, 0, ins)
RPool(dim, kind, ins) == Rec("pool", dim, 0, 0, 2, 0, 0, 0, FALSE, 0, "", 0, 0, FALSE, FALSE, kind, 0, 0, ins)
RComb(nb, ins) == Rec("comb", 0, 0, nb, 0, 0, 0, 0, FALSE, 0, "", 0, 0, FALSE, FALSE, "", 0, 0, ins)

(* ------------------------------ BatchNorm objects ----------------------- *)
(* BatchNorm objects have identities: 10*m+1 = the first, 10*m+2 = the second BatchNorm object owned by call site m. *)
(* BnSeq(a, n) = the BatchNorm objects applied, in this order, right after the layer at call site n.                *)
RECURSIVE BnSeq(_, _)
BnSeq(a, n) ==
    IF ~IsLayer(a, n) \/ IsSN(a, n) \/ Op(a, n) = "lin3" THEN <<>>
    ELSE LET nd == Nd(a, n) IN
         IF nd.reuse > 0 /\ ~nd.bnown /\ nd.bnref = 0 THEN BnSeq(a, nd.reuse)          \* the whole conv+BN block is re-invoked
         ELSE LET first == IF nd.bnref > 0 THEN 10 * nd.bnref + 1 ELSE IF nd.bn THEN 10 * n + 1 ELSE 0
              IN  IF first = 0 THEN <<>> ELSE <<first>> \o (IF nd.bn2 THEN <<10 * n + 2>> ELSE <<>>)
BnOpts(a, id) == LET nd == Nd(a, id \div 10) IN
                 [eps |-> IF id % 10 = 2 THEN 1 - nd.eps ELSE nd.eps, mom |-> nd.mom, aff |-> nd.aff, trs |-> nd.trs]
HasBn(a, n)   == BnSeq(a, n) # <<>>
BnIds(a, n)   == SeqSet(BnSeq(a, n))

(* ------------------------------ layer configuration --------------------- *)
(* The configuration of the layer object of owner node o: everything the constructor of the layer was given *)
(* besides the channel counts and the bias (those are tracked separately).                                  *)
CfgOf(a, o) ==
    LET nd == Nd(a, o) IN
    IF nd.op = "conv"
    THEN [t |-> "conv", k |-> nd.k, d |-> nd.d, s |-> nd.s, dw |-> nd.dw, grp |-> nd.grp, pad |-> nd.pad, pm |-> nd.pm]
    ELSE [t |-> nd.op, k |-> 0, d |-> 0, s |-> 0, dw |-> FALSE, grp |-> 1, pad |-> "", pm |-> ""]
CopyCfg(impl, c) == IF impl = "droppm" /\ c.t = "conv" THEN [c EXCEPT !.pm = "zeros"] ELSE c
OrigCfg(a) == [n \in Sites(a) |-> IF IsLayer(a, n) THEN CfgOf(a, Owner(a, n)) ELSE <<>>]

(* ------------------------------ flattening ------------------------------ *)
(* Flat(a, K, B, H, C): layer sequence of architecture a where the layer called at site n has configuration K[n] *)
(* and bias B[n], is followed by the BatchNorm objects H[n] (a sequence), SuperNet block n is kept whole (C[n] = 0) or replaced *)
(* by its branch C[n].  Accumulator [s |-> records so far, p |-> position of every tensor (p[t+1] = tensor t)].  *)
Head0(a) == CASE a.two = "no"  -> [s |-> <<RIn>>, p |-> <<1>>]
              [] a.two = "sep" -> [s |-> <<RIn, RIn>>, p |-> <<1>>]           \* the second input is tensor "in2"
              [] OTHER         -> [s |-> <<RIn, RIn, RFun(a.two, <<1, 2>>)>>, p |-> <<3>>]
PosOf(acc, t) == acc.p[t + 1]
Push(acc, rec) == [acc EXCEPT !.s = Append(@, rec)]
Last(acc) == Len(acc.s)
Close(acc) == [acc EXCEPT !.p = Append(@, Len(acc.s))]     \* the tensor of the current node is the last record

\* one SuperNet branch: conv(k_i) [+ BN]; the branch tail is the last record
Branch(acc, a, n, br, src) ==
    LET nd == Nd(a, n)
        c  == Push(acc, RConv(a.dim, Ch(a, nd.ins[1]), nd.out, br.k, 1, 1, 1, nd.bias,
                              IF a.dim = 1 THEN SamePad ELSE br.k \div 2, "zeros", <<src>>))
    IN  IF br.bn THEN Push(c, RBn(a.dim, nd.out, nd.eps, nd.mom, TRUE, TRUE, <<Last(c)>>)) ELSE c
RECURSIVE Branches(_, _, _, _, _, _)
Branches(acc, a, n, i, src, tails) ==       \* all branches of block n, then the combiner
    IF i > Len(Nd(a, n).sn) THEN Push(acc, RComb(Len(Nd(a, n).sn), tails))
    ELSE LET b == Branch(acc, a, n, Nd(a, n).sn[i], src) IN Branches(b, a, n, i + 1, src, Append(tails, Last(b)))

ConvPadCode(c) == CASE c.pad = "same" -> SamePad
                    [] c.pad = "int"  -> c.d * (c.k \div 2)
                    [] OTHER          -> 0                        \* valid, causal
ConvPm(c) == IF c.pad \in {"same", "int"} THEN c.pm ELSE "zeros"  \* un-padded layers are built with the default mode

RECURSIVE PushBns(_, _, _, _, _, _)
PushBns(acc, a, dim, w, ids, i) ==        \* the BatchNorm calls ids[i..] behind the last record
    IF i > Len(ids) THEN acc
    ELSE LET o == BnOpts(a, ids[i]) IN
         PushBns(Push(acc, RBn(dim, w, o.eps, o.mom, o.aff, o.trs, <<Last(acc)>>)), a, dim, w, ids, i + 1)

Emit(acc, a, n, K, B, H, C) ==
    LET nd  == Nd(a, n)
        ld  == LNode(a, n)
        src == PosOf(acc, nd.ins[1])
        cin == Ch(a, nd.ins[1])
        c   == K[n]
    IN IF nd.op = "in2" THEN [acc EXCEPT !.p = Append(@, 2)] ELSE
       Close(
       CASE nd.op = "conv" /\ IsSN(a, n) ->
                IF C[n] = 0 THEN Branches(acc, a, n, 1, src, <<>>)
                ELSE Branch(acc, a, n, nd.sn[C[n]], src)
         [] nd.op = "conv" /\ ~IsSN(a, n) ->
                LET a1 == IF c.pad = "causal" THEN Push(acc, RPad((c.k - 1) * c.d, <<src>>)) ELSE acc
                    s1 == IF c.pad = "causal" THEN Last(a1) ELSE src
                    a2 == Push(a1, RConv(a.dim, cin, Ch(a, n), c.k, c.d, c.s, IF c.dw THEN cin ELSE c.grp, B[n],
                                         ConvPadCode(c), ConvPm(c), <<s1>>))
                IN  PushBns(a2, a, a.dim, Ch(a, n), H[n], 1)
         [] nd.op = "lin" ->
                PushBns(Push(acc, RLin(cin, ld.out, B[n], <<src>>)), a, 1, ld.out, H[n], 1)
         [] nd.op = "lin3" -> Push(acc, RLin(Sp(a, nd.ins[1]), ld.out, B[n], <<src>>))
         [] nd.op = "pool" -> Push(acc, RPool(a.dim, nd.kind, <<src>>))
         [] nd.op = "add"  -> Push(acc, RFun("add", <<PosOf(acc, nd.ins[1]), PosOf(acc, nd.ins[2])>>))
         [] OTHER -> Push(acc, RFun(nd.op, <<src>>)))           \* relu, drop, flat

RECURSIVE FlatFrom(_, _, _, _, _, _, _)
FlatFrom(acc, a, n, K, B, H, C) ==
    IF n > N(a) THEN acc.s ELSE FlatFrom(Emit(acc, a, n, K, B, H, C), a, n + 1, K, B, H, C)
Flat(a, K, B, H, C) == FlatFrom(Head0(a), a, 1, K, B, H, C)

OrigBias(a) == [n \in Sites(a) |-> IsLayer(a, n) /\ LNode(a, n).bias]
OrigBn(a)   == [n \in Sites(a) |-> BnSeq(a, n)]
NoChoice(a) == [n \in Sites(a) |-> 0]
OrigSeq(a)  == Flat(a, OrigCfg(a), OrigBias(a), OrigBn(a), NoChoice(a))

(* ------------------------------ configurations -------------------------- *)
(* cfg = [method |-> "PIT"|"SN"|"MPS", mode |-> "train"|"eval", fold |-> BOOLEAN, auto |-> BOOLEAN]            *)
\* the converter turns the layer object of site n into (or adopts it as) a searchable PIT layer
Handled(a, cfg, n) ==
    /\ cfg.method = "PIT" /\ IsLayer(a, n) /\ ~IsSN(a, n)
    /\ (LNode(a, n).pl \/ (cfg.auto /\ ~Excluded(a, n)))
\* SuperNet blocks: the branch an immediate export selects = first maximum of the coefficients the user left
FavChoice(a) == [n \in Sites(a) |-> IF IsSN(a, n) THEN (IF Nd(a, n).sno.fav > 0 THEN Nd(a, n).sno.fav ELSE 1) ELSE 0]
Choices(a) == {[n \in Sites(a) |-> IF IsSN(a, n) THEN f[n] ELSE 0] :
                  f \in {g \in [SNSites(a) -> 1..3] : \A n \in SNSites(a) : g[n] <= Len(Nd(a, n).sn)}}

(* The property's reading of "the original architecture": the layer sequence of the user's network in which   *)
(* a folded BatchNorm is absorbed into a bias and every SuperNet block is replaced by one of its branches.    *)
\* a layer object can carry its BatchNorm (fused as an attribute, or folded into its weights) only if every call site of the
\* object is followed by the same BatchNorm objects, and more than one only folded; otherwise the BatchNorm calls must stay
Fusable(a, cfg, o) == /\ \A n \in CallSites(a, o) : BnSeq(a, n) = BnSeq(a, o)
                      /\ (Len(BnSeq(a, o)) <= 1 \/ cfg.fold)
Fused(a, cfg, n)   == Handled(a, cfg, n) /\ HasBn(a, n) /\ Fusable(a, cfg, Owner(a, n))
ExpBias(a, cfg) == [n \in Sites(a) |-> OrigBias(a)[n] \/ (Fused(a, cfg, n) /\ cfg.fold)]
ExpBn(a, cfg)   == [n \in Sites(a) |-> IF Fused(a, cfg, n) /\ cfg.fold THEN <<>> ELSE BnSeq(a, n)]
ExpSeq(a, cfg, c) == Flat(a, OrigCfg(a), ExpBias(a, cfg), ExpBn(a, cfg), c)
(* ... and of the converted (searchable) graph: same layers with the same configuration; the BatchNorm of a   *)
(* searchable layer lives inside the layer (fused) or in its weights (folded)                                 *)
NasBn(a, cfg)   == [n \in Sites(a) |-> IF Fused(a, cfg, n) THEN <<>> ELSE BnSeq(a, n)]
NasSeq(a, cfg)  == Flat(a, OrigCfg(a), ExpBias(a, cfg), NasBn(a, cfg), NoChoice(a))
\* the configuration part of a layer sequence: conv / linear records without their wiring
CfgOnly(s) == LET idx == {i \in DOMAIN s : s[i].t \in {"conv", "lin"}}
                  RECURSIVE Take(_)
                  Take(i) == IF i > Len(s) THEN <<>>
                             ELSE IF i \in idx THEN <<[s[i] EXCEPT !.ins = <<>>]>> \o Take(i + 1) ELSE Take(i + 1)
              IN  Take(1)

(* ------------------------------ object level ---------------------------- *)
WSym(o, c) == [s |-> "W", o |-> o, c |-> c]
B(id)      == [s |-> "B", o |-> id]
Bs(ids)    == [i \in 1..Len(ids) |-> B(ids[i])]

\* the layer objects of the user's model, as written by the user
UserHeap(a, cfg) ==
    [o \in Owners(a) |->
        [pit |-> Nd(a, o).pl, cfg |-> CfgOf(a, o), folded |-> <<>>, bias |-> Nd(a, o).bias, bn |-> 0, fusedset |-> {},
         fold |-> Nd(a, o).pl /\ cfg.fold, buf |-> FALSE]]
DefaultOpt(o) == [hard |-> FALSE, gum |-> o.gum, temp |-> 10, fav |-> o.fav]
UserOpts(a) == [n \in SNSites(a) |-> Nd(a, n).sno]

OrigTerm(a, n) ==
    IF IsSN(a, n) THEN <<[s |-> "SN", o |-> n, opt |-> Nd(a, n).sno]>>
    ELSE <<WSym(Owner(a, n), CfgOf(a, Owner(a, n)))>> \o Bs(BnSeq(a, n))
\* forward of one layer object: its weights (configuration; everything folded into them), then its fused BatchNorm attribute
ObjFwd(ob, o) == <<WSym(o, ob.cfg)>> \o Bs(ob.folded) \o (IF ob.pit /\ ob.bn # 0 /\ ~ob.fold THEN <<B(ob.bn)>> ELSE <<>>)

(* Conversion.  Result: [ok, uh: heap of the user's objects after the call, ch: heap of copies made by the    *)
(* converter (meaningful where copied[o]), bnode: site -> the converted graph still has a BatchNorm node after *)
(* the site, sopt: options of the (shared) SuperNet combiners after the call, wtrain, strain, utrain].        *)
Copied(impl, a, cfg, o) ==
    /\ cfg.method = "PIT"
    /\ \/ (cfg.auto /\ ~Nd(a, o).pl /\ ~Nd(a, o).excl /\ ~IsSN(a, o))        \* autoimport: a new PIT layer
       \/ (~Dev(impl, F50_OPEN) /\ Nd(a, o).pl)                             \* reference: adopt a copy

\* fusion_fn(layer, bn): layer.bn = copy of bn (overwriting what was there); with fold_bn also folded into weights and bias
FuseOnce(ob, cfg, id) ==
    [ob EXCEPT !.bn = id, !.fusedset = @ \cup {id},
               !.folded = IF cfg.fold THEN Append(@, id) ELSE @,
               !.bias = IF cfg.fold THEN TRUE ELSE @]
RECURSIVE FuseIds(_, _, _, _, _, _)
FuseIds(impl, ob, cfg, ids, i, seen) ==        \* as implemented: every BatchNorm node behind the layer call, in order
    IF i > Len(ids) THEN ob
    ELSE IF (~Dev(impl, F51_OPEN) /\ ids[i] \in ob.fusedset)       \* (repaired F51: a (layer, BatchNorm) pair is fused once)
            \/ (impl = "fusebybn" /\ ids[i] \in seen)              \* sanity variant: "this BatchNorm has been fused already"
         THEN FuseIds(impl, ob, cfg, ids, i + 1, seen)
         ELSE FuseIds(impl, FuseOnce(ob, cfg, ids[i]), cfg, ids, i + 1, seen)

\* BatchNorm fusion over the call sites n..N in graph order.  st = [uh, ch, bnode, seen (BatchNorm objects met so far)]
RECURSIVE FusePass(_, _, _, _, _, _)
FusePass(impl, a, cfg, copied, st, n) ==
    IF n > N(a) THEN st
    ELSE IF ~(IsLayer(a, n) /\ st.bnode[n] # <<>> /\ Handled(a, cfg, n)) THEN FusePass(impl, a, cfg, copied, st, n + 1)
    ELSE LET o   == Owner(a, n)
             cur == IF copied[o] THEN st.ch[o] ELSE st.uh[o]
             ids == st.bnode[n]
             \* reference (and repaired F73): BatchNorm calls a layer object cannot carry stay in the graph
             keep == (impl = "ref" /\ ~Fusable(a, cfg, o)) \/ (~Dev(impl, F73_OPEN) /\ Len(ids) > 1 /\ ~cfg.fold)
             new == IF keep THEN cur
                    ELSE IF impl = "ref" /\ cur.bn # 0 THEN cur               \* reference: once per layer object
                    ELSE FuseIds(impl, cur, cfg, ids, 1, st.seen)
             nb  == IF keep THEN ids ELSE <<>>
             st2 == IF copied[o] THEN [st EXCEPT !.ch[o] = new, !.bnode[n] = nb, !.seen = @ \cup SeqSet(ids)]
                    ELSE [st EXCEPT !.uh[o] = new, !.bnode[n] = nb, !.seen = @ \cup SeqSet(ids)]
         IN  FusePass(impl, a, cfg, copied, st2, n + 1)

\* MPS folds every Conv2d/Linear + BatchNorm pair into the CALLER's layer object, by design (recorded, not claimed)
MpsFolds(a, n) == IsLayer(a, n) /\ HasBn(a, n) /\ ~(Op(a, n) = "conv" /\ a.dim = 1)

(* ------------------------------ known findings / documented rejections -- *)
\* F50: a PIT layer placed by the user and followed by a BatchNorm is fused / folded IN the user's own object
KF_PlacedBN(a, cfg) == \E n \in PlainSites(a) : cfg.method = "PIT" /\ LNode(a, n).pl /\ HasBn(a, n)
\* F51: a conv/linear + BatchNorm pair invoked at several call sites that the converter makes searchable
KF_ReuseBN(a, cfg)  == \E n \in PlainSites(a) : Handled(a, cfg, n) /\ Cardinality(CallSites(a, Owner(a, n))) > 1
                                                 /\ \E m \in CallSites(a, Owner(a, n)) : HasBn(a, m)
\* F73: two BatchNorm objects in a row behind a searchable layer, not folded: the second fusion overwrites layer.bn
KF_DoubleBN(a, cfg) == \E n \in PlainSites(a) : Handled(a, cfg, n) /\ Len(BnSeq(a, n)) > 1 /\ ~cfg.fold
\* F52: a searchable nn.Linear applied to a 3-D tensor (features on the last axis, masks sized after axis 1)
KF_Lin3(a, cfg)     == \E n \in PlainSites(a) : Op(a, n) = "lin3" /\ Handled(a, cfg, n)
\* F53: autoconversion of a BatchNorm without affine parameters (every BatchNorm of the traced graph is rewritten)
KF_BnNoAffine(a, cfg) == cfg.method = "PIT" /\ cfg.auto /\ \E n \in PlainSites(a) : \E id \in BnIds(a, n) : ~BnOpts(a, id).aff
\* documented rejections (plinio raises an error that says so): skipped and counted, never reported
Rej_Trs(a, cfg)    == \E n \in PlainSites(a) : Handled(a, cfg, n) /\ \E id \in BnIds(a, n) : ~BnOpts(a, id).trs
Rej_Groups(a, cfg) == \E n \in PlainSites(a) : Handled(a, cfg, n) /\ Op(a, n) = "conv" /\ ~LNode(a, n).dw /\ LNode(a, n).grp > 1
Rejected(a, cfg)   == Rej_Trs(a, cfg) \/ Rej_Groups(a, cfg)
SupportedImport(a, cfg) == ~KF_PlacedBN(a, cfg) /\ ~KF_ReuseBN(a, cfg) /\ ~KF_Lin3(a, cfg) /\ ~KF_BnNoAffine(a, cfg)
                           /\ ~KF_DoubleBN(a, cfg)

\* Topologies that are findings of the graph pass itself (C09: F19 depthwise layer whose sharing component has no
\* features-defining node - here: directly on the concatenation of the two inputs; F24 producers of different widths in
\* one sharing component - conv -> flatten added to a linear output).  They are not C07's and are not generated.
KF_DwOrphanTwo(a) == a.two = "cat" /\ \E n \in Layers(a) : IsDw(a, n) /\ 0 \in Comp(a, n) /\ CompDefining(a, n) = {0}
KF_MixedWidth(a)  == \E n \in Layers(a) : \E m1, m2 \in CompDefining(a, n) : Ch(a, m1) # Ch(a, m2)
InDomain(a) == ~KF_DwOrphanTwo(a) /\ ~KF_MixedWidth(a)

Convert(impl, a, cfg) ==
    LET uh0    == UserHeap(a, cfg)
        copied == [o \in Owners(a) |-> Copied(impl, a, cfg, o)]
        ch0    == [o \in Owners(a) |-> [uh0[o] EXCEPT !.pit = TRUE, !.fold = cfg.fold, !.cfg = CopyCfg(impl, @)]]
        st0    == [uh |-> uh0, ch |-> ch0, bnode |-> OrigBn(a), seen |-> {}]
        st1    == IF cfg.method = "PIT" THEN FusePass(impl, a, cfg, copied, st0, 1) ELSE st0
        \* register_input_features: every searchable layer object receives the calculator buffers
        mark(h, which) == [o \in Owners(a) |->
                             IF cfg.method = "PIT" /\ h[o].pit /\ copied[o] = which /\ (\E n \in CallSites(a, o) : Handled(a, cfg, n))
                             THEN [h[o] EXCEPT !.buf = TRUE] ELSE h[o]]
        found  == cfg.mode = "train"
        snasis == cfg.method = "SN" /\ impl # "ref"
    IN [ok |-> ~(Dev(impl, F52_OPEN) /\ KF_Lin3(a, cfg)) /\ ~(Dev(impl, F53_OPEN) /\ KF_BnNoAffine(a, cfg)),
        uh |-> mark(st1.uh, FALSE), ch |-> mark(st1.ch, TRUE), copied |-> copied, bnode |-> st1.bnode,
        sopt |-> [n \in SNSites(a) |-> IF impl = "snreset" /\ cfg.method = "SN" THEN DefaultOpt(Nd(a, n).sno) ELSE Nd(a, n).sno],
        wtrain |-> IF snasis THEN TRUE ELSE found,
        strain |-> IF snasis THEN FALSE ELSE found,
        utrain |-> IF impl # "ref" THEN FALSE ELSE found]

NasObj(cv, o)  == IF cv.copied[o] THEN cv.ch[o] ELSE cv.uh[o]
NasTerm(a, cv, n) ==
    IF IsSN(a, n) THEN <<[s |-> "SN", o |-> n, opt |-> cv.sopt[n]]>>           \* the combiners ARE the user's objects
    ELSE LET o == Owner(a, n) IN ObjFwd(NasObj(cv, o), o) \o Bs(cv.bnode[n])
\* the user's own forward after the conversion: his graph (Python code) is unchanged, his objects may not be
UserTerm(a, cv, n) ==
    IF IsSN(a, n) THEN <<[s |-> "SN", o |-> n, opt |-> cv.sopt[n]]>>
    ELSE LET o == Owner(a, n) IN ObjFwd(cv.uh[o], o) \o Bs(BnSeq(a, n))

(* ------------------------------ the property ---------------------------- *)
FnPreserved(a, cv)    == \A n \in Layers(a) : NasTerm(a, cv, n) = OrigTerm(a, n)
UserParamsKept(a, cfg, cv) == \A o \in Owners(a) : cv.uh[o].folded = <<>> /\ cv.uh[o].bias = Nd(a, o).bias
UserFnKept(a, cv)     == \A n \in Layers(a) : UserTerm(a, cv, n) = OrigTerm(a, n)
UserOptsKept(a, cv)   == cv.sopt = UserOpts(a)
UserKeysKept(a, cv)   == \A o \in Owners(a) : ~cv.uh[o].buf /\ cv.uh[o].bn = 0
\* field by field: the layer object the search works on has the configuration of the layer it replaces
ImportedConfig(a, cfg, cv) == \A n \in PlainSites(a) : NasObj(cv, Owner(a, n)).cfg = CfgOf(a, Owner(a, n))
ModeKept(cfg, cv)     == cv.wtrain = (cfg.mode = "train") /\ cv.strain = (cfg.mode = "train")

(* ------------------------------ export ---------------------------------- *)
(* One rewrite per layer OBJECT that is still searchable.  As implemented the walk (reverse BFS from the      *)
(* output) rewrites the object at the call site it meets first - for the grammar the LAST site - and inserts  *)
(* the re-created BatchNorm after that site only; the other sites then call a plain layer and are skipped.    *)
(* The exported layer is constructed from the attributes of the searchable layer object.                      *)
BnSite(a, o) == CHOOSE m \in CallSites(a, o) : \A x \in CallSites(a, o) : x <= m
\* the BatchNorm calls behind call site n of the exported graph: the one re-created from the layer's fused attribute, then
\* the calls that were never fused
ExportBn(impl, a, cfg, cv) ==
    [n \in Sites(a) |->
        IF ~IsLayer(a, n) \/ IsSN(a, n) THEN <<>>
        ELSE LET o == Owner(a, n) ob == NasObj(cv, o) IN
             (IF Handled(a, cfg, n) /\ ob.bn # 0 /\ ~ob.fold /\ (~Dev(impl, F51_OPEN) \/ n = BnSite(a, o)) THEN <<ob.bn>> ELSE <<>>)
             \o cv.bnode[n]]
ExportBias(a, cv) == [n \in Sites(a) |-> IsLayer(a, n) /\ NasObj(cv, Owner(a, n)).bias]
ExportCfg(a, cv)  == [n \in Sites(a) |-> IF IsLayer(a, n) THEN NasObj(cv, Owner(a, n)).cfg ELSE <<>>]
ExportChoice(a, cfg) == IF cfg.method = "SN" THEN FavChoice(a) ELSE NoChoice(a)
ExportSeq(impl, a, cfg, cv) ==
    Flat(a, ExportCfg(a, cv), ExportBias(a, cv), ExportBn(impl, a, cfg, cv), ExportChoice(a, cfg))
\* every way the as-implemented export can place the single re-created BatchNorm of a reused layer
MultiOwners(a) == {o \in Owners(a) : Cardinality(CallSites(a, o)) > 1}
AsisBnVariants(a, cfg, cv) ==
    {[n \in Sites(a) |->
        IF ~IsLayer(a, n) \/ IsSN(a, n) THEN <<>>
        ELSE LET o == Owner(a, n) ob == NasObj(cv, o) IN
             (IF Handled(a, cfg, n) /\ ob.bn # 0 /\ ~ob.fold
                    /\ n = (IF o \in MultiOwners(a) THEN pick[o] ELSE BnSite(a, o)) THEN <<ob.bn>> ELSE <<>>)
             \o cv.bnode[n]]
     : pick \in {f \in [MultiOwners(a) -> Sites(a)] : \A o \in MultiOwners(a) : f[o] \in CallSites(a, o)}}

\* export(add_bn=False) as the sanity variant "nobnstick" performs it: the fused BatchNorm is taken off the SEARCH model's layers
StripBn(cv) == [cv EXCEPT !.uh = [o \in DOMAIN cv.uh |-> [cv.uh[o] EXCEPT !.bn = 0]],
                          !.ch = [o \in DOMAIN cv.ch |-> [cv.ch[o] EXCEPT !.bn = 0]]]

ExportIso(impl, a, cfg, cv) == ExportSeq(impl, a, cfg, cv) = ExpSeq(a, cfg, ExportChoice(a, cfg))
=============================================================================
