SPECIFICATION Spec
CONSTANTS
  Impl = "asis"
  MaxNodes = 3
  Widths = {2}
  Dims = {1, 2}
  C0 = 2
  Sp0 = 2
  Methods = {"PIT"}
  Twos = {"no", "cat"}
  AllowPl = TRUE
  AllowExcl = TRUE
  AllowReuse = TRUE
  AllowFindings = FALSE
INVARIANT InvFnPreserved
INVARIANT InvUserParams
INVARIANT InvUserFn
INVARIANT InvModeKept
INVARIANT InvExportIso
INVARIANT InvExportLiteral
INVARIANT InvBnAccount
INVARIANT InvWellFormed
