SPECIFICATION SpecGC
CONSTANTS
  Impl = "ref"
  MaxNodes = 2
  Widths = {2}
  Dims = {1, 2}
  C0 = 2
  Sp0 = 2
  Methods = {"PIT", "MPS"}
  Twos = {"no"}
  ConvVars = {"dflt"}
  BnVars = {"dflt"}
  SnoVars = {1}
  AllowPl = FALSE
  AllowExcl = FALSE
  AllowReuse = TRUE
  AllowLin3 = FALSE
  AllowDrop = FALSE
  AllowBnShare = TRUE
  PlainOps = {"add", "flat"}
  Biases = {TRUE, FALSE}
  AllowFindings = TRUE
  MaxHist = 0
