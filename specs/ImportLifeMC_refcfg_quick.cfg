SPECIFICATION Spec
CONSTANTS
  Impl = "ref"
  MaxNodes = 1
  Widths = {4}
  Dims = {1, 2}
  C0 = 4
  Sp0 = 4
  Methods = {"PIT", "SN", "MPS"}
  Twos = {"no"}
  ConvVars = {"dflt", "same_refl", "same_circ_d2", "int_repl_s2", "valid", "grp2"}
  BnVars = {"dflt", "noaff", "notrs", "epsmom"}
  SnoVars = {1, 2, 3, 4}
  AllowPl = TRUE
  AllowExcl = TRUE
  AllowReuse = FALSE
  AllowLin3 = TRUE
  AllowDrop = FALSE
  AllowBnShare = FALSE
  PlainOps = {"relu", "pool", "flat", "add"}
  Biases = {TRUE, FALSE}
  AllowFindings = TRUE
  MaxHist = 1
VIEW ViewNoHist
INVARIANT InvConvertOk
INVARIANT InvFnPreserved
INVARIANT InvImportedConfig
INVARIANT InvUserParams
INVARIANT InvUserFn
INVARIANT InvUserOpts
INVARIANT InvModeKept
INVARIANT InvFlagsLast
INVARIANT InvExportIso
INVARIANT InvExportLiteral
INVARIANT InvBnAccount
INVARIANT InvNasConfig
INVARIANT InvWellFormed
