SPECIFICATION Spec
CONSTANTS
    Impl = "ref"
    Kind = "sn"
    Half = "options"
    Temps = {1000, 500, 2000}
    MaxBn = 0
    TrackHist = FALSE
    MaxLen = 0
INVARIANT TypeOK
INVARIANT NoNewKeys
INVARIANT SamplerConsistent
INVARIANT ModesAgree
PROPERTY ObserversNeutral
PROPERTY SetterFrame
PROPERTY OptionFrame
PROPERTY ModeFrame
