---------------------------- MODULE CostLookupMC ----------------------------
(***************************************************************************)
(* Exhaustive design check for C15: every registration history (sequences  *)
(* without repetition over Types x Patterns, bounded length) x every layer  *)
(* description (type, satisfied-constraint set) x both defaults.           *)
(* The history is BUILT by Register steps (one action per __setitem__),    *)
(* Lookup is a derived operator evaluated in every state, so the           *)
(* invariants hold for every prefix of every history.                      *)
(***************************************************************************)
EXTENDS CostLookup, TLC

CONSTANTS Impl,          \* "pinned" | "fixed" : which transcription of __getitem__
          MaxA, MaxB     \* max registrations for type A / B

VARIABLES reg, dflt

vars == <<reg, dflt>>

Init == reg = <<>> /\ dflt \in Defaults

CanRegister(ty, p) ==
    /\ <<ty, p>> \notin Range(reg)
    /\ Len(OfType(reg, ty)) < (IF ty = "A" THEN MaxA ELSE MaxB)
    /\ (ty = "B" => p \in {"U", "dw"})

Register(ty, p) == CanRegister(ty, p) /\ reg' = Append(reg, <<ty, p>>) /\ UNCHANGED dflt

Next == \E ty \in Types, p \in Patterns : Register(ty, p)

Spec == Init /\ [][Next]_vars

Queries == Types \X SUBSET Constrained

\* C15, first sentence: the implementation returns what the reference semantics prescribes
ImplMatchesRef ==
    \A q \in Queries : Scan(Impl, reg, q[1], q[2], dflt) = RefLookup(reg, q[1], q[2], dflt)

\* C15, "the answer is the same for every order in which the patterns were registered"
OrderIndependent ==
    \A q \in Queries : \A pr \in Perms(reg) :
        Scan(Impl, pr, q[1], q[2], dflt) = Scan(Impl, reg, q[1], q[2], dflt)

\* C15, last sentence: conflict only when two different constrained patterns both match
ConflictOnlyIfTwo ==
    \A q \in Queries :
        Scan(Impl, reg, q[1], q[2], dflt) = <<"conflict">>
            <=> Cardinality(Pats(reg, q[1]) \cap q[2]) >= 2

\* registrations for one type never influence lookups of the other type
NoCrossTalk ==
    \A q \in Queries :
        Scan(Impl, reg, q[1], q[2], dflt) = Scan(Impl, OfType(reg, q[1]), q[1], q[2], dflt)

\* non-vacuity: some state has a conflict, some a constrained hit, some a default
=============================================================================
