SPECIFICATION Spec
CONSTANTS
  Method = "pit"
  Impl = "asis"
  MaxLen = 4
INVARIANT KeyOk
INVARIANT Coherent
PROPERTY ObserversNeutral
