SPECIFICATION Spec
CONSTANTS
  Impl = "own"
  NL = 3
  Scale = "thorough"
INVARIANT OwnArgmin
INVARIANT TotalNotHigher
INVARIANT AnnouncedIsReal
INVARIANT OnlyPromotes
