SPECIFICATION Spec
CONSTANTS
  Dim = 1
  MaxNodes = 3
  MinNodes = 2
  Widths = {2}
  LinWidths = {2}
  Ks = {3}
  BNs = {FALSE}
  C0 = 3
  Sp0 = 8
  AllowRelu = FALSE
  AllowPool = FALSE
  AllowAdd = TRUE
  AllowDw = TRUE
  AllowReuse = FALSE
  PMs = {"zeros"}
  Ds = {1}
  Ss = {1}
  Biases = {TRUE}
  Batches = {1, 4}
  Alphabet = "classic"
  FwdImpl = "plain"
  ForkImpl = "own"
  ExpImpl = "fresh"
  TupMode = "pc1"
  WType = "pc"
  SelMode = "rot"
  MaxHist = 0
  Walk = "fixed"
  Lin = "fixed"
  GuardF40 = FALSE
  GuardF05 = TRUE
  GuardReuse = TRUE
INVARIANT InvRepIsRep
INVARIANT InvPlumb
INVARIANT InvPlumbGroups
INVARIANT InvAddSameGrid
INVARIANT InvOutputFloat
INVARIANT InvCostExact
INVARIANT InvSpecKeys
INVARIANT InvPerInvocation
INVARIANT InvPruneLowers
INVARIANT InvExportGeom
INVARIANT InvBatchIndependent
