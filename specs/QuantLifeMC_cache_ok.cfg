SPECIFICATION Spec
CONSTANTS
  Impl = "cache_ok"
  NPrec = 2
INVARIANT HistoryIndependent
INVARIANT LastIsPrevCall
