SPECIFICATION Spec
CONSTANTS
  Impl = "nomask"
  Bits = {0, 2}
  DMuls = {1}
  DOffs = {0}
  Deltas = {1}
  BScales = {0, 1, 3}
  BSpan = 8
  ZT = 2
INVARIANT BFin
