SPECIFICATION Spec
CONSTANTS
  Impl = "explicit"
  MaxHist = 0
  KeepHist = FALSE
INVARIANT NeverNeeded
