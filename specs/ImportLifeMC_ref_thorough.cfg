SPECIFICATION Spec
CONSTANTS
  Impl = "ref"
  MaxNodes = 3
  Widths = {2}
  Dims = {1, 2}
  C0 = 2
  Sp0 = 2
  Methods = {"PIT"}
  Twos = {"no"}
  ConvVars = {"dflt"}
  BnVars = {"dflt"}
  SnoVars = {1}
  AllowPl = TRUE
  AllowExcl = TRUE
  AllowReuse = TRUE
  AllowLin3 = FALSE
  AllowDrop = FALSE
  AllowBnShare = FALSE
  PlainOps = {"relu", "pool", "flat", "add"}
  Biases = {TRUE, FALSE}
  AllowFindings = TRUE
  MaxHist = 1
VIEW ViewNoHist
INVARIANT InvConvertOk
INVARIANT InvFnPreserved
INVARIANT InvImportedConfig
INVARIANT InvUserParams
INVARIANT InvUserFn
INVARIANT InvUserOpts
INVARIANT InvModeKept
INVARIANT InvFlagsLast
INVARIANT InvExportIso
INVARIANT InvExportLiteral
INVARIANT InvBnAccount
INVARIANT InvNasConfig
INVARIANT InvWellFormed
