SPECIFICATION Spec
CONSTANTS
  Impl = "ref"
  MaxNodes = 3
  Widths = {2}
  Dims = {2}
  C0 = 2
  Sp0 = 2
  Methods = {"PIT"}
  Twos = {"sep"}
  ConvVars = {"dflt"}
  BnVars = {"dflt"}
  SnoVars = {1}
  AllowPl = FALSE
  AllowExcl = FALSE
  AllowReuse = TRUE
  AllowLin3 = FALSE
  AllowDrop = FALSE
  AllowBnShare = TRUE
  PlainOps = {"add"}
  Biases = {TRUE}
  AllowFindings = TRUE
  MaxHist = 1
VIEW ViewNoHist
INVARIANT InvConvertOk
INVARIANT InvFnPreserved
INVARIANT InvImportedConfig
INVARIANT InvUserParams
INVARIANT InvUserFn
INVARIANT InvUserOpts
INVARIANT InvModeKept
INVARIANT InvFlagsLast
INVARIANT InvExportIso
INVARIANT InvBnAccount
