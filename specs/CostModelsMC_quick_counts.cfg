SPECIFICATION Spec
CONSTANTS
  Models = {"params", "params_no_bias", "params_bit", "ops", "ops_no_bias", "ops_bit", "mpic_latency", "mpic_energy"}
  CinLo = 4
  CinHi = 4
  CinStep = 1
  CinExtra = {5, 520}
  CoutLo = 4
  CoutHi = 4
  CoutStep = 1
  CoutExtra = {6, 520}
  KSet = {1, 3}
  OSet = {1, 33}
  WSet = {0, 2, 4, 8}
  ASet = {2, 4, 8}
INVARIANT AllDefined
INVARIANT NonNegative
INVARIANT PositiveNonEmpty
INVARIANT DwIsGenericPerGroup
INVARIANT HelpersExact
INVARIANT RejectsUnsupported
INVARIANT BigSound
PROPERTY Monotone
PROPERTY HelpersMonotone
