---------------------------- MODULE ImportLifeMC ----------------------------
(***************************************************************************)
(* Exhaustive design check for C07.  State machine                         *)
(*   User (Grow: TLC grows every architecture of the bounded grammar node  *)
(*         by node: conv / depthwise / linear with bias on/off, BatchNorm   *)
(*         on/off, user-placed PIT layer on/off, excluded on/off, layer    *)
(*         reuse, SuperNet choice blocks, relu, pooling, flatten, residual *)
(*         add; one- or two-input forward)                                 *)
(*   -> Convert(method, mode found, fold_bn, autoconvert)                  *)
(*   -> [SetMode(b)] -> Export.                                            *)
(* Invariants = the clauses of C07 on the object-level model of ImportLife.*)
(***************************************************************************)
EXTENDS ImportLife, TLC

CONSTANTS Impl,            \* "ref" | "asis"
          MaxNodes, Widths, Dims, C0, Sp0,
          Methods,         \* subset of {"PIT", "SN", "MPS"}
          Twos,            \* subset of {"no", "add", "cat"}
          AllowPl, AllowExcl, AllowReuse,
          AllowFindings    \* FALSE: Convert is only taken on SupportedImport(arch, cfg)

VARIABLES arch, method, phase, cfg, cv, wmode, smode, exported

vars == <<arch, method, phase, cfg, cv, wmode, smode, exported>>

NoCfg == [method |-> "none", mode |-> "none", fold |-> FALSE, auto |-> FALSE]

Node(dm, op, ins, out, dw, bias, bn, pl, excl, reuse, sn, kind) ==
    [op |-> op, ins |-> ins, out |-> out, k |-> IF op = "conv" THEN (IF Len(sn) > 0 THEN sn[1].k ELSE 3) ELSE 1,
     d |-> 1, s |-> 1, bias |-> bias, bn |-> bn, dw |-> dw, excl |-> excl, causal |-> (dm = 1 /\ op = "conv" /\ Len(sn) = 0),
     reuse |-> reuse, pl |-> pl, sn |-> sn, eps |-> 0, mom |-> 0, kind |-> kind]

Init == /\ \E tw \in Twos, dm \in Dims :
             arch = [dim |-> dm, c0 |-> C0, sp |-> Sp0, two |-> tw, ca |-> IF tw = "cat" THEN 1 ELSE 0, nodes |-> <<>>]
        /\ method \in Methods
        /\ phase = "grow" /\ cfg = NoCfg /\ cv = <<>> /\ wmode = FALSE /\ smode = FALSE /\ exported = <<>>

T(a)  == 0..N(a)
NF(a) == {t \in T(a) : ~IsFlat(a, t)}
Compatible(a, p, q) == Ch(a, p) = Ch(a, q) /\ Sp(a, p) = Sp(a, q) /\ IsFlat(a, p) = IsFlat(a, q)
Pl(m)   == IF m = "PIT" /\ AllowPl THEN BOOLEAN ELSE {FALSE}
Ex(m)   == IF m # "SN" /\ AllowExcl THEN BOOLEAN ELSE {FALSE}
SNVariants == { << [k |-> 3, bn |-> TRUE], [k |-> 1, bn |-> FALSE] >>,
                << [k |-> 1, bn |-> FALSE], [k |-> 3, bn |-> FALSE], [k |-> 3, bn |-> TRUE] >> }
\* layer objects that may be invoked a second time: plain (non-SuperNet) conv / linear owners
Reusable(a) == {m \in Layers(a) : Nd(a, m).reuse = 0 /\ ~IsSN(a, m)}

PlEx(m) == {x \in Pl(m) \X Ex(m) : ~(x[1] /\ x[2])}
Candidates(a, m) ==
    {Node(a.dim, "conv", <<p>>, w, FALSE, b, bn, px[1], px[2], 0, <<>>, "") :
        p \in NF(a), w \in Widths, b \in BOOLEAN, bn \in BOOLEAN, px \in PlEx(m)}
    \cup {Node(a.dim, "conv", <<p>>, 0, TRUE, b, bn, pl, FALSE, 0, <<>>, "") :
        p \in NF(a), b \in BOOLEAN, bn \in BOOLEAN, pl \in Pl(m)}
    \cup {Node(a.dim, "lin", <<p>>, w, FALSE, b, bn, px[1], px[2], 0, <<>>, "") :
        p \in T(a) \ NF(a), w \in Widths, b \in BOOLEAN, bn \in BOOLEAN, px \in PlEx(m)}
    \cup (IF m = "SN" THEN {Node(a.dim, "conv", <<p>>, w, FALSE, b, FALSE, FALSE, FALSE, 0, sn, "") :
                               p \in NF(a), w \in Widths, b \in BOOLEAN, sn \in SNVariants}
          ELSE {})
    \cup (IF AllowReuse
          THEN UNION {{[Nd(a, o) EXCEPT !.ins = <<p>>, !.reuse = o] :
                          p \in {t \in T(a) : Compatible(a, t, In1(a, o)) /\ t # In1(a, o)}} : o \in Reusable(a)}
          ELSE {})
    \cup {Node(a.dim, "relu", <<p>>, 0, FALSE, FALSE, FALSE, FALSE, FALSE, 0, <<>>, "") : p \in T(a) \ {0}}
    \cup {Node(a.dim, "pool", <<p>>, 0, FALSE, FALSE, FALSE, FALSE, FALSE, 0, <<>>, kd) :
            p \in {t \in NF(a) \ {0} : Sp(a, t) >= 2}, kd \in {"avg", "max"}}
    \cup {Node(a.dim, "flat", <<p>>, 0, FALSE, FALSE, FALSE, FALSE, FALSE, 0, <<>>, "") : p \in NF(a)}
    \cup {Node(a.dim, "add", <<pq[1], pq[2]>>, 0, FALSE, FALSE, FALSE, FALSE, FALSE, 0, <<>>, "") :
            pq \in {x \in T(a) \X T(a) : x[1] < x[2] /\ Compatible(a, x[1], x[2])}}

Grow == /\ phase = "grow" /\ N(arch) < MaxNodes
        /\ \E nd \in Candidates(arch, method) : arch' = [arch EXCEPT !.nodes = Append(@, nd)]
        /\ UNCHANGED <<method, phase, cfg, cv, wmode, smode, exported>>

Used(a, t) == \E n \in 1..N(a) : t \in SeqSet(Ins(a, n))
Sealable(a) == /\ N(a) >= 1
               /\ \A t \in 0..(N(a) - 1) : Used(a, t)
               /\ Layers(a) # {}
               /\ InDomain(a)

Cfgs(m) == IF m = "PIT" THEN {[method |-> m, mode |-> md, fold |-> fo, auto |-> au] :
                                 md \in {"train", "eval"}, fo \in BOOLEAN, au \in BOOLEAN}
           ELSE {[method |-> m, mode |-> md, fold |-> FALSE, auto |-> TRUE] : md \in {"train", "eval"}}

Conv == /\ phase = "grow" /\ Sealable(arch)
        /\ \E c \in Cfgs(method) :
              /\ AllowFindings \/ SupportedImport(arch, c)
              /\ LET r == Convert(Impl, arch, c) IN
                    /\ cfg' = c
                    /\ cv' = r
                    /\ wmode' = r.wtrain
                    /\ smode' = r.strain
        /\ phase' = "converted"
        /\ UNCHANGED <<arch, method, exported>>

SetMode == /\ phase = "converted"
           /\ wmode' = ~wmode /\ smode' = ~wmode          \* wrapper.train(b) sets the wrapper and everything below it
           /\ phase' = "moded"
           /\ UNCHANGED <<arch, method, cfg, cv, exported>>

Export == /\ phase \in {"converted", "moded"} /\ method \in {"PIT", "SN"}
          /\ exported' = ExportSeq(Impl, arch, cfg, cv)
          /\ phase' = "exported"
          /\ UNCHANGED <<arch, method, cfg, cv, wmode, smode>>

Next == Grow \/ Conv \/ SetMode \/ Export

Spec == Init /\ [][Next]_vars
\* enumeration of the scenarios only (what the harness builds for real): architectures and configurations
SpecGC == Init /\ [][Grow \/ Conv]_vars

Converted == phase # "grow"
Claimed   == method \in {"PIT", "SN"}

\* every record refers to earlier records only, the sequence starts with the placeholders
WellFormed(s) == \A i \in DOMAIN s : \A j \in DOMAIN s[i].ins : s[i].ins[j] < i /\ s[i].ins[j] >= 1

(* ---- C07: "does not change the function it computes" ---- *)
InvFnPreserved == Converted /\ Claimed => FnPreserved(arch, cv)
(* ---- C07: "do not alter the parameters or outputs of the model object the user passed in" ---- *)
InvUserParams  == Converted /\ Claimed => UserParamsKept(arch, cfg, cv)
InvUserFn      == Converted /\ Claimed => UserFnKept(arch, cv)
(* ---- C07: "PIT and MPS conversion keep the training/eval mode they found" ---- *)
InvModeKept    == phase = "converted" /\ method \in {"PIT", "MPS"} => ModeKept(cfg, cv) /\ wmode = cv.wtrain /\ smode = cv.strain
(* ---- C07: "exporting immediately returns a network with the original architecture" ---- *)
InvExportIso   == phase = "exported" =>
                     exported = ExpSeq(arch, cfg, IF method = "SN" THEN FirstChoice(arch) ELSE NoChoice(arch))
\* without folding and without SuperNet blocks the exported sequence is literally the original one
InvExportLiteral == phase = "exported" /\ method = "PIT" /\ ~cfg.fold => exported = OrigSeq(arch)
\* a folded BatchNorm never reappears, an unfolded one always does (count of BN records)
BnCount(s) == Cardinality({i \in DOMAIN s : s[i].t = "bn"})
InvBnAccount == phase = "exported" /\ method = "PIT" =>
                   BnCount(exported) = Cardinality({n \in Sites(arch) : OrigBn(arch)[n] /\ ~(Handled(arch, cfg, n) /\ cfg.fold)})
InvWellFormed == phase = "exported" => WellFormed(OrigSeq(arch)) /\ WellFormed(exported)
=============================================================================
