---------------------------- MODULE ImportLifeMC ----------------------------
(***************************************************************************)
(* Exhaustive design check for C07.  State machine                         *)
(*   User (Grow: TLC grows every architecture of the bounded grammar node  *)
(*         by node: conv / depthwise / linear / linear-on-3-D with a       *)
(*         configuration preset (padding kind and mode, dilation, stride,  *)
(*         groups), bias on/off, BatchNorm preset (none / default / no     *)
(*         affine / no running stats / other eps+momentum), user-placed    *)
(*         PIT layer, excluded layer, layer reuse, SuperNet blocks with    *)
(*         user-set options, relu, dropout, pooling, flatten, residual     *)
(*         add; one- or two-input forward)                                 *)
(*   -> Conv(method, mode found, fold_bn, autoconvert)                     *)
(*   -> any history (length <= MaxHist) of Train / Eval / Export /         *)
(*      Summary / Cost / Forward on the wrapper.                           *)
(* Invariants = the clauses of C07 on the object-level model of ImportLife.*)
(***************************************************************************)
EXTENDS ImportLife, TLC

CONSTANTS Impl,            \* "ref" | "asis" | sanity variants "droppm" | "snreset" | "stalemode"
          MaxNodes, Widths, Dims, C0, Sp0,
          Methods,         \* subset of {"PIT", "SN", "MPS"}
          Twos,            \* subset of {"no", "add", "cat"}
          ConvVars,        \* subset of the configuration presets of ConvPreset
          BnVars,          \* subset of {"dflt", "noaff", "notrs", "epsmom"}  ("none" is always offered)
          SnoVars,         \* subset of 1..4: option presets of SuperNet blocks
          AllowPl, AllowExcl, AllowReuse, AllowLin3, AllowDrop,
          AllowBnShare,    \* BatchNorm sharing patterns: one BN object after two layers, own BN at a reuse site, two BNs in a row
          PlainOps,        \* subset of {"relu", "pool", "flat", "add"} offered by Grow
          Biases,          \* subset of BOOLEAN: bias options of conv / linear layers
          AllowFindings,   \* FALSE: Conv is only taken on SupportedImport(arch, cfg)
          MaxHist          \* length of the call history after the conversion

VARIABLES arch, method, phase, cfg, cv, wmode, smode, last, setseen, hist, exported

vars == <<arch, method, phase, cfg, cv, wmode, smode, last, setseen, hist, exported>>
\* fingerprint for the large configurations: the history only through its length
ViewNoHist == <<arch, method, phase, cfg, cv, wmode, smode, last, setseen, Len(hist), exported>>

NoCfg == [method |-> "none", mode |-> "none", fold |-> FALSE, auto |-> FALSE]
NoSno == [hard |-> FALSE, gum |-> FALSE, temp |-> 10, fav |-> 0]

ConvPreset(name, dm) ==
    CASE name = "dflt"         -> [k |-> 3, d |-> 1, s |-> 1, grp |-> 1, pad |-> IF dm = 1 THEN "causal" ELSE "int", pm |-> "zeros"]
      [] name = "same_refl"    -> [k |-> 3, d |-> 1, s |-> 1, grp |-> 1, pad |-> "same", pm |-> "reflect"]
      [] name = "same_circ_d2" -> [k |-> 3, d |-> 2, s |-> 1, grp |-> 1, pad |-> "same", pm |-> "circular"]
      [] name = "int_repl_s2"  -> [k |-> 3, d |-> 1, s |-> 2, grp |-> 1, pad |-> "int", pm |-> "replicate"]
      [] name = "valid"        -> [k |-> 3, d |-> 1, s |-> 1, grp |-> 1, pad |-> "valid", pm |-> "zeros"]
      [] name = "grp2"         -> [k |-> 3, d |-> 1, s |-> 1, grp |-> 2, pad |-> "int", pm |-> "zeros"]
BnPreset(name) ==
    CASE name = "none"   -> [bn |-> FALSE, eps |-> 0, mom |-> 0, aff |-> TRUE, trs |-> TRUE]
      [] name = "dflt"   -> [bn |-> TRUE, eps |-> 0, mom |-> 0, aff |-> TRUE, trs |-> TRUE]
      [] name = "noaff"  -> [bn |-> TRUE, eps |-> 0, mom |-> 0, aff |-> FALSE, trs |-> TRUE]
      [] name = "notrs"  -> [bn |-> TRUE, eps |-> 0, mom |-> 0, aff |-> TRUE, trs |-> FALSE]
      [] name = "epsmom" -> [bn |-> TRUE, eps |-> 1, mom |-> 1, aff |-> TRUE, trs |-> TRUE]
SnoPreset(i) ==
    CASE i = 1 -> NoSno
      [] i = 2 -> [hard |-> TRUE, gum |-> FALSE, temp |-> 10, fav |-> 0]
      [] i = 3 -> [hard |-> FALSE, gum |-> TRUE, temp |-> 5, fav |-> 2]
      [] i = 4 -> [hard |-> FALSE, gum |-> FALSE, temp |-> 20, fav |-> 1]

Node(op, ins, out, dw, cp, bias, bp, pl, excl, reuse, sn, sno, kind) ==
    [op |-> op, ins |-> ins, out |-> out, k |-> cp.k, d |-> cp.d, s |-> cp.s, dw |-> dw, grp |-> cp.grp, bias |-> bias,
     pad |-> cp.pad, pm |-> cp.pm, bn |-> bp.bn, eps |-> bp.eps, mom |-> bp.mom, aff |-> bp.aff, trs |-> bp.trs,
     excl |-> excl, reuse |-> reuse, pl |-> pl, sn |-> sn, sno |-> sno, kind |-> kind,
     bnref |-> 0, bn2 |-> FALSE, bnown |-> FALSE]
NoConv == [k |-> 1, d |-> 1, s |-> 1, grp |-> 1, pad |-> "same", pm |-> "zeros"]
Plain(op, ins, kind) == Node(op, ins, 0, FALSE, NoConv, TRUE, BnPreset("none"), FALSE, FALSE, 0, <<>>, NoSno, kind)

\* two-stream forward: the second input is a tensor of its own (node 1)
Init == /\ \E tw \in Twos, dm \in Dims :
             arch = [dim |-> dm, c0 |-> C0, sp |-> Sp0, two |-> tw, ca |-> IF tw = "cat" THEN 1 ELSE 0,
                     nodes |-> IF tw = "sep" THEN <<Plain("in2", <<>>, "")>> ELSE <<>>]
        /\ method \in Methods
        /\ phase = "grow" /\ cfg = NoCfg /\ cv = <<>> /\ wmode = FALSE /\ smode = FALSE /\ last = FALSE
        /\ setseen = FALSE /\ hist = <<>> /\ exported = <<>>

T(a)  == 0..N(a)
NF(a) == {t \in T(a) : ~IsFlat(a, t)}
Compatible(a, p, q) == Ch(a, p) = Ch(a, q) /\ Sp(a, p) = Sp(a, q) /\ IsFlat(a, p) = IsFlat(a, q)
Pl(m)   == IF m = "PIT" /\ AllowPl THEN BOOLEAN ELSE {FALSE}
Ex(m)   == IF m # "SN" /\ AllowExcl THEN BOOLEAN ELSE {FALSE}
PlEx(m) == {x \in Pl(m) \X Ex(m) : ~(x[1] /\ x[2])}
Bns     == {"none"} \cup BnVars
SNVariants == { << [k |-> 3, bn |-> TRUE], [k |-> 1, bn |-> FALSE] >>,
                << [k |-> 1, bn |-> FALSE], [k |-> 3, bn |-> FALSE], [k |-> 3, bn |-> TRUE] >> }
\* a configuration preset fits on producer tensor p (torch accepts it and the shapes stay positive)
Fits(a, p, name, w, dwc) ==
    LET cp == ConvPreset(name, a.dim) IN
    /\ (cp.pad \in {"same", "int"} /\ cp.pm # "zeros" => cp.d * (cp.k \div 2) < Sp(a, p))
    /\ (cp.pad = "valid" => Sp(a, p) - cp.d * (cp.k - 1) >= 1)
    /\ (cp.pad = "causal" => a.dim = 1)
    /\ (cp.grp > 1 => ~dwc /\ Ch(a, p) >= 2 * cp.grp /\ Ch(a, p) % cp.grp = 0 /\ w % cp.grp = 0)
\* layer objects that may be invoked a second time: plain (non-SuperNet) conv / linear owners
Reusable(a) == {m \in Layers(a) : Nd(a, m).reuse = 0 /\ ~IsSN(a, m) /\ Op(a, m) # "lin3"}
\* BatchNorm sharing patterns derived from a candidate layer node nd (on the architecture a it would be appended to)
BnClass(a, op) == IF op = "lin" THEN 1 ELSE a.dim
OwnsBn(a, m)   == IsLayer(a, m) /\ ~IsSN(a, m) /\ Nd(a, m).bn /\ Nd(a, m).bnref = 0 /\ (Nd(a, m).reuse = 0 \/ Nd(a, m).bnown)
OutCh(a, nd)   == IF nd.op = "conv" /\ nd.dw THEN Ch(a, nd.ins[1]) ELSE nd.out
BnShareVariants(a, nd) ==
    IF ~AllowBnShare \/ nd.op \notin {"conv", "lin"} \/ Len(nd.sn) > 0 THEN {}
    ELSE    \* (a) the BatchNorm object of an earlier call site of ANOTHER layer (same class and width) instead of an own one
            {[nd EXCEPT !.bn = FALSE, !.bnref = m] :
                m \in {x \in Layers(a) : OwnsBn(a, x) /\ BnClass(a, Op(a, x)) = BnClass(a, nd.op) /\ Ch(a, x) = OutCh(a, nd)
                                          /\ nd.reuse = 0}}
       \cup \* (c) two BatchNorm objects in a row
            (IF nd.bn /\ nd.reuse = 0 THEN {[nd EXCEPT !.bn2 = TRUE]} ELSE {})
       \cup \* (b) a reuse site with its own BatchNorm object (or none) instead of the owner's
            (IF nd.reuse > 0 THEN {[nd EXCEPT !.bnown = TRUE, !.bn = b] : b \in BOOLEAN} ELSE {})

FitP(a, cn, w, dwc) == {p \in NF(a) : Fits(a, p, cn, w, dwc)}
BaseCandidates(a, m) ==
    UNION {UNION {{Node("conv", <<p>>, w, FALSE, ConvPreset(cn, a.dim), b, BnPreset(bn), px[1], px[2], 0, <<>>, NoSno, "") :
                      p \in FitP(a, cn, w, FALSE), b \in Biases, bn \in Bns,
                      px \in {x \in PlEx(m) : ~(x[1] /\ ConvPreset(cn, a.dim).grp > 1)}} : w \in Widths} : cn \in ConvVars}
    \cup UNION {{Node("conv", <<p>>, 0, TRUE, ConvPreset(cn, a.dim), b, BnPreset(bn), pl, FALSE, 0, <<>>, NoSno, "") :
                      p \in FitP(a, cn, 0, TRUE), b \in Biases, bn \in Bns, pl \in Pl(m)} : cn \in ConvVars \ {"grp2"}}
    \cup {Node("lin", <<p>>, w, FALSE, NoConv, b, BnPreset(bn), px[1], px[2], 0, <<>>, NoSno, "") :
        p \in T(a) \ NF(a), w \in Widths, b \in Biases, bn \in Bns, px \in PlEx(m)}
    \cup (IF AllowLin3 /\ a.dim = 1
          THEN {Node("lin3", <<p>>, w, FALSE, NoConv, b, BnPreset("none"), FALSE, ex, 0, <<>>, NoSno, "") :
                   p \in NF(a), w \in Widths, b \in Biases, ex \in Ex(m)}
          ELSE {})
    \cup (IF m = "SN" THEN {Node("conv", <<p>>, w, FALSE, [NoConv EXCEPT !.k = sn[1].k, !.pad = IF a.dim = 1 THEN "same" ELSE "int"],
                                 b, BnPreset("none"), FALSE, FALSE, 0, sn, SnoPreset(so), "") :
                               p \in NF(a), w \in Widths, b \in Biases, sn \in SNVariants,
                               so \in SnoVars}
          ELSE {})
    \cup (IF AllowReuse
          THEN UNION {{[Nd(a, o) EXCEPT !.ins = <<p>>, !.reuse = o] :
                          p \in {t \in T(a) : Compatible(a, t, In1(a, o)) /\ t # In1(a, o)}} : o \in Reusable(a)}
          ELSE {})
    \cup (IF "relu" \in PlainOps THEN {Plain("relu", <<p>>, "") : p \in {t \in T(a) \ {0} : Op(a, t) # "in2"}} ELSE {})
    \cup (IF AllowDrop THEN {Plain("drop", <<p>>, "") : p \in {t \in T(a) \ {0} : Op(a, t) # "in2"}} ELSE {})
    \cup (IF "pool" \in PlainOps
          THEN {Plain("pool", <<p>>, kd) : p \in {t \in NF(a) \ {0} : Sp(a, t) >= 2 /\ Op(a, t) # "in2"}, kd \in {"avg", "max"}}
          ELSE {})
    \cup (IF "flat" \in PlainOps THEN {Plain("flat", <<p>>, "") : p \in NF(a)} ELSE {})
    \cup (IF "add" \in PlainOps
          THEN {Plain("add", <<pq[1], pq[2]>>, "") : pq \in {x \in T(a) \X T(a) : x[1] < x[2] /\ Compatible(a, x[1], x[2])}}
          ELSE {})
Candidates(a, m) == BaseCandidates(a, m) \cup UNION {BnShareVariants(a, nd) : nd \in BaseCandidates(a, m)}

Grow == /\ phase = "grow" /\ N(arch) < MaxNodes + (IF arch.two = "sep" THEN 1 ELSE 0)
        /\ \E nd \in Candidates(arch, method) : arch' = [arch EXCEPT !.nodes = Append(@, nd)]
        /\ UNCHANGED <<method, phase, cfg, cv, wmode, smode, last, setseen, hist, exported>>

Used(a, t) == \E n \in 1..N(a) : t \in SeqSet(Ins(a, n))
Sealable(a) == /\ N(a) >= 1 /\ Op(a, N(a)) # "in2"
               /\ \A t \in 0..(N(a) - 1) : Used(a, t)
               /\ Layers(a) # {}
               /\ InDomain(a)

Cfgs(m) == IF m = "PIT" THEN {[method |-> m, mode |-> md, fold |-> fo, auto |-> au] :
                                 md \in {"train", "eval"}, fo \in BOOLEAN, au \in BOOLEAN}
           ELSE {[method |-> m, mode |-> md, fold |-> FALSE, auto |-> TRUE] : md \in {"train", "eval"}}

Conv == /\ phase = "grow" /\ Sealable(arch)
        /\ \E c \in Cfgs(method) :
              /\ ~Rejected(arch, c)                              \* plinio refuses these with a documented error
              /\ AllowFindings \/ SupportedImport(arch, c)
              /\ LET r == Convert(Impl, arch, c) IN
                    /\ cfg' = c
                    /\ cv' = r
                    /\ wmode' = r.wtrain
                    /\ smode' = r.strain
                    /\ last' = (c.mode = "train")
        /\ phase' = "converted"
        /\ UNCHANGED <<arch, method, setseen, hist, exported>>

CanAct == phase = "converted" /\ cv.ok /\ Len(hist) < MaxHist

\* wrapper.train(b) sets the wrapper and everything below it
HSet(b) == /\ CanAct
           /\ wmode' = b /\ smode' = b /\ last' = b /\ setseen' = TRUE
           /\ hist' = Append(hist, IF b THEN "train" ELSE "eval")
           /\ UNCHANGED <<arch, method, phase, cfg, cv, exported>>
\* export(): the seed is converted in eval mode and put back into the mode it had at the call
HExport == /\ CanAct
           /\ exported' = IF method \in {"PIT", "SN"} THEN ExportSeq(Impl, arch, cfg, cv) ELSE exported
           /\ smode' = IF Impl = "stalemode" THEN (cfg.mode = "train") ELSE smode
           /\ hist' = Append(hist, "export")
           /\ UNCHANGED <<arch, method, phase, cfg, cv, wmode, last, setseen>>
\* export(add_bn=False): as implemented the option has no effect on the search model (sanity variant "nobnstick": it strips
\* the fused BatchNorm off the layers of the SEARCH model, for good)
HExportNoBn == /\ CanAct /\ method = "PIT"
               /\ cv' = IF Impl = "nobnstick" THEN StripBn(cv) ELSE cv
               /\ smode' = IF Impl = "stalemode" THEN (cfg.mode = "train") ELSE smode
               /\ hist' = Append(hist, "export_nobn")
               /\ UNCHANGED <<arch, method, phase, cfg, wmode, last, setseen, exported>>
\* observers; a forward pass is an observer in eval mode only (in training mode it updates BatchNorm statistics by design)
ObsOf(m) == {"summary", "cost", "forward"} \cup (IF m = "SN" THEN {"icv"} ELSE IF m = "MPS" THEN {"nassum"} ELSE {})
HObs(what) == /\ CanAct /\ what \in ObsOf(method)
              /\ (what = "forward" => ~wmode)
              /\ hist' = Append(hist, what)
              /\ UNCHANGED <<arch, method, phase, cfg, cv, wmode, smode, last, setseen, exported>>

Next == Grow \/ Conv \/ HSet(TRUE) \/ HSet(FALSE) \/ HExport \/ HExportNoBn
        \/ \E w \in {"summary", "cost", "forward", "icv", "nassum"} : HObs(w)

Spec == Init /\ [][Next]_vars
\* enumeration of the scenarios only (what the harness builds for real): architectures and configurations
SpecGC == Init /\ [][Grow \/ Conv]_vars

Converted == phase # "grow"
Live      == Converted /\ cv.ok
Claimed   == method \in {"PIT", "SN"}

\* every record refers to earlier records only
WellFormed(s) == \A i \in DOMAIN s : \A j \in DOMAIN s[i].ins : s[i].ins[j] < i /\ s[i].ins[j] >= 1

(* ---- the constructor returns (as implemented it raises on the F52 / F53 topologies) ---- *)
InvConvertOk   == Converted => cv.ok
(* ---- C07: "does not change the function it computes" ---- *)
InvFnPreserved == Live /\ Claimed => FnPreserved(arch, cv)
InvImportedConfig == Live /\ Claimed => ImportedConfig(arch, cfg, cv)
(* ---- C07: "do not alter the parameters or outputs of the model object the user passed in" ---- *)
InvUserParams  == Live /\ Claimed => UserParamsKept(arch, cfg, cv)
InvUserFn      == Live /\ Claimed => UserFnKept(arch, cv)
InvUserOpts    == Live /\ Claimed => UserOptsKept(arch, cv)
(* ---- C07: "PIT and MPS conversion keep the training/eval mode they found" ... ---- *)
InvModeKept    == Live /\ hist = <<>> /\ method \in {"PIT", "MPS"} => ModeKept(cfg, cv) /\ wmode = cv.wtrain /\ smode = cv.strain
(* ... and after any history every flag equals the last mode the user set (SuperNet: from the first explicit call on) ---- *)
InvFlagsLast   == Live /\ (setseen \/ method \in {"PIT", "MPS"}) => wmode = last /\ smode = last
(* ---- C07: "exporting immediately returns a network with the original architecture" (whatever the history) ---- *)
InvExportIso   == Live /\ exported # <<>> => exported = ExpSeq(arch, cfg, ExportChoice(arch, cfg))
\* without folding and without SuperNet blocks the exported sequence is literally the original one
InvExportLiteral == Live /\ exported # <<>> /\ method = "PIT" /\ ~cfg.fold => exported = OrigSeq(arch)
\* a folded BatchNorm never reappears, an unfolded one always does (count of BN records)
BnCount(s) == Cardinality({i \in DOMAIN s : s[i].t = "bn"})
RECURSIVE SumLen(_, _)
SumLen(f, n) == IF n = 0 THEN 0 ELSE Len(f[n]) + SumLen(f, n - 1)
InvBnAccount == Live /\ exported # <<>> /\ method = "PIT" =>
                   BnCount(exported) = SumLen(ExpBn(arch, cfg), N(arch))
\* the converted graph has the layers of the original with their configuration
InvNasConfig == Live /\ method = "PIT" => CfgOnly(Flat(arch, ExportCfg(arch, cv), ExportBias(arch, cv), cv.bnode, NoChoice(arch)))
                                           = CfgOnly(NasSeq(arch, cfg))
InvWellFormed == Live /\ exported # <<>> => WellFormed(OrigSeq(arch)) /\ WellFormed(exported)
=============================================================================
