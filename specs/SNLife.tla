------------------------------- MODULE SNLife -------------------------------
(***************************************************************************)
(* SuperNet (plinio.methods.supernet) : choice blocks, export, cost.        *)
(* Properties C03 (export keeps exactly the arg-max branch) and C06 (cost   *)
(* is the coefficient-weighted mix of branch costs).                        *)
(*                                                                         *)
(* Variable-free operator library; SNLifeMC (design level) and SNLifeTrace  *)
(* (validation of executions of the real library) use the SAME operators.   *)
(*                                                                         *)
(* A network is a record                                                    *)
(*   [gumbel, hard0 : BOOLEAN,                                              *)
(*    fixedl : Seq([name, par, ops]),    \* layers outside choice blocks    *)
(*    names  : Seq(name),                \* qualified name of every block   *)
(*    blocks : Seq([kinds : Seq(Kinds), uses : 1..2, pool : BOOLEAN,        *)
(*                  ct : Seq([par, ops : Seq(Nat), uops : Seq(Nat),         *)
(*                            leafs, reuse])])]                             *)
(* kinds[i+1] is the kind of branch i (branches are numbered from 0, as in  *)
(* the code: sn_branches.0, sn_branches.1, ...).  `uses` = number of call   *)
(* sites of the block in forward; `pool` = the second call site works at a  *)
(* lower resolution.  ct is the COST TABLE of the block: per branch         *)
(*   par    = parameters of the branch's layers (each layer once),          *)
(*   ops[s] = operations at call site s, every invocation of every layer,   *)
(*   uops[s]= operations at call site s, every layer counted once,          *)
(*   leafs  = number of leaf modules, reuse = some layer is invoked twice.  *)
(* At design level the table is derived from the kinds (AbstractCT); in a   *)
(* trace it is measured on the real modules by the harness (forward hooks,  *)
(* numel x output positions; plinio's cost code is not involved).           *)
(***************************************************************************)
EXTENDS Naturals, Integers, Sequences, FiniteSets

Kinds == {"layer", "seq", "ubm", "ubf", "id", "ubr"}
    \* layer  one torch.nn layer                  -> output node: call_module  X.sn_branches.i
    \* seq    nn.Sequential (exploded by tracer)  -> call_module  X.sn_branches.i.<last>
    \* ubm    user block, last op a sub-module    -> call_module  X.sn_branches.i.<name>
    \* ubf    user block, last op functional      -> call_function / call_method (no module name)
    \* id     nn.Identity                         -> call_module  X.sn_branches.i
    \* ubr    user block invoking one layer twice -> call_module  X.sn_branches.i.<name>
ModuleTail(k) == k # "ubf"

Metrics == {"params", "ops"}          \* shared metric / per-invocation metric
Shared(m) == m = "params"

MinOf(S) == CHOOSE x \in S : \A y \in S : x <= y
MaxOf(S) == CHOOSE x \in S : \A y \in S : x >= y

RECURSIVE SumIdx(_, _)                \* f[1] + ... + f[n]
SumIdx(f, n) == IF n = 0 THEN 0 ELSE f[n] + SumIdx(f, n - 1)
SumSeq(s) == SumIdx(s, Len(s))

NB(net)  == Len(net.blocks)
NBr(blk) == Len(blk.kinds)
Br(blk)  == 0 .. (NBr(blk) - 1)       \* branch numbers (0-based)

(***************************************************************************)
(* Names.  export_graph recognises the winning branch by                    *)
(*     ('sn_branches.' + str(best)) in str(node.target)                     *)
(* For a call_module node of branch i the target is                         *)
(* '<prefix>.sn_branches.<i>[.<rest>]', so the test succeeds iff the decimal *)
(* digits of best are a prefix of the decimal digits of i.                  *)
(***************************************************************************)
Digits(i) == IF i < 10 THEN <<i>>
             ELSE IF i < 100 THEN <<i \div 10, i % 10>>
             ELSE <<i \div 100, (i \div 10) % 10, i % 10>>
IsPrefix(s, t) == Len(s) <= Len(t) /\ \A k \in 1..Len(s) : s[k] = t[k]
NameMatches(w, i) == IsPrefix(Digits(w), Digits(i))

(***************************************************************************)
(* Winner: arg-max of the raw coefficients (a sequence of integers).        *)
(***************************************************************************)
ArgMaxSet(a) == {i \in 0..(Len(a) - 1) : \A j \in 1..Len(a) : a[i + 1] >= a[j]}
FirstArgMax(a) == MinOf(ArgMaxSet(a))          \* what torch.argmax returns on ties

(***************************************************************************)
(* Export.  Result per block: the branch that replaces the block, or -1 if  *)
(* the export fails.                                                        *)
(*  "ref" : the branch with the largest coefficient.                        *)
(*  "pinned": transcription of export_graph of the pinned tree: the inputs  *)
(*          the combiner are scanned in argument order; an input whose      *)
(*          target string contains 'sn_branches.<best>' takes over the uses *)
(*          of the combiner (the first such input takes them all), every    *)
(*          other input is erased; if no input matches, the combiner still  *)
(*          has users when it is erased -> RuntimeError.                    *)
(***************************************************************************)
PinnedBranch(blk, w) ==
    LET M == {i \in Br(blk) : ModuleTail(blk.kinds[i + 1]) /\ NameMatches(w, i)}
    IN  IF M = {} THEN -1 ELSE MinOf(M)

\* "pinned": export_graph before plinio commit 3afbd30 (name-substring matching, text above);
\* "asis" (current code: the combiner's argument list is indexed by position) and "ref" coincide.
ExportBranch(impl, blk, w) == IF impl = "pinned" THEN PinnedBranch(blk, w) ELSE w
Export(impl, net, win) == [b \in 1..NB(net) |-> ExportBranch(impl, net.blocks[b], win[b])]
ExportFails(e) == \E b \in DOMAIN e : e[b] = -1

\* leaf modules that remain registered under each branch after the export
KeptRow(blk, w) == [i \in 1..NBr(blk) |-> IF i - 1 = w THEN blk.ct[i].leafs ELSE 0]
KeptCounts(net, e) == [b \in 1..NB(net) |-> KeptRow(net.blocks[b], e[b])]

\* Signature of finding F03: a winning branch is a user block whose last operation is functional
F03Sig(net, win) == \E b \in 1..NB(net) : net.blocks[b].kinds[win[b] + 1] = "ubf"

(***************************************************************************)
(* Cost.  theta[b][i] = sampled coefficient of branch i-1 of block b in     *)
(* units of 1/D.  All results are in units of 1/D as well.                  *)
(*  "ref" : per branch, a shared metric counts every layer once; a          *)
(*          per-invocation metric counts every invocation at every call     *)
(*          site of the block.                                              *)
(*  "asis": SuperNetCombiner.get_cost walks the UNIQUIFIED leaf list of the *)
(*          branch recorded at import time (nodes of the first call site)   *)
(*          and SuperNet._get_single_cost calls it once per call site of    *)
(*          the combiner when the metric is not shared.                     *)
(***************************************************************************)
BranchCost(impl, metric, blk, i) ==            \* i : 1-based position
    LET c == blk.ct[i] IN
    IF Shared(metric) THEN c.par
    ELSE IF impl = "asis" THEN blk.uses * c.uops[1]
    ELSE SumSeq(c.ops)

BlockMix(impl, metric, blk, th) ==
    SumIdx([i \in 1..NBr(blk) |-> th[i] * BranchCost(impl, metric, blk, i)], NBr(blk))

LayerCost(metric, l) == IF Shared(metric) THEN l.par ELSE l.ops
\* cost of ALL the layers outside choice blocks, whatever their names
FixedCost(metric, net) ==
    SumIdx([k \in 1..Len(net.fixedl) |-> LayerCost(metric, net.fixedl[k])], Len(net.fixedl))

Mix(impl, metric, net, theta, full, D) ==
    SumIdx([b \in 1..NB(net) |-> BlockMix(impl, metric, net.blocks[b], theta[b])], NB(net))
    + (IF full THEN D * FixedCost(metric, net) ELSE 0)

BranchCosts(metric, blk) == {BranchCost("ref", metric, blk, i) : i \in 1..NBr(blk)}
MinCost(metric, net, full) ==
    SumIdx([b \in 1..NB(net) |-> MinOf(BranchCosts(metric, net.blocks[b]))], NB(net))
    + (IF full THEN FixedCost(metric, net) ELSE 0)
MaxCost(metric, net, full) ==
    SumIdx([b \in 1..NB(net) |-> MaxOf(BranchCosts(metric, net.blocks[b]))], NB(net))
    + (IF full THEN FixedCost(metric, net) ELSE 0)
\* used for tolerances only
SumBranchCosts(impl, metric, net) ==
    SumIdx([b \in 1..NB(net) |->
              SumIdx([i \in 1..NBr(net.blocks[b]) |-> BranchCost(impl, metric, net.blocks[b], i)],
                     NBr(net.blocks[b]))], NB(net))
MaxCostOf(impl, metric, net) ==
    SumIdx([b \in 1..NB(net) |->
              MaxOf({BranchCost(impl, metric, net.blocks[b], i) : i \in 1..NBr(net.blocks[b])})], NB(net))
    + FixedCost(metric, net)

\* the metric evaluated on the exported network e (a vector of kept branches, none -1)
ExportCost(metric, net, e, full) ==
    SumIdx([b \in 1..NB(net) |-> BranchCost("ref", metric, net.blocks[b], e[b] + 1)], NB(net))
    + (IF full THEN FixedCost(metric, net) ELSE 0)

OneHot(n, w, D) == [i \in 1..n |-> IF i = w + 1 THEN D ELSE 0]
HotTheta(net, win, D) == [b \in 1..NB(net) |-> OneHot(NBr(net.blocks[b]), win[b], D)]

\* Signature of finding F23 (scenario predicate): a branch with layers whose per-invocation cost the
\* uniquified first-call-site list cannot represent
F23Branch(blk, i) ==
    /\ blk.ct[i].par > 0
    /\ (blk.ct[i].reuse \/ (blk.uses = 2 /\ blk.pool))
F23Net(net) == \E b \in 1..NB(net) : \E i \in 1..NBr(net.blocks[b]) : F23Branch(net.blocks[b], i)
F23Sig(metric, net, theta) ==
    /\ ~Shared(metric)
    /\ \E b \in 1..NB(net) : \E i \in 1..NBr(net.blocks[b]) :
           theta[b][i] # 0 /\ F23Branch(net.blocks[b], i)

(***************************************************************************)
(* Sampling of the coefficients (SuperNetCombiner.sample_alpha_sm / _gs).   *)
(* Class of the vector stored in theta_alpha after a sampling event:        *)
(*   hot(w)  one-hot at w        soft(w)  positive, strict maximum at w     *)
(*   prob    any probability vector (Gumbel noise)                          *)
(*   hotany  one-hot at an arbitrary index (hard Gumbel sample)             *)
(***************************************************************************)
SampleClass(gumbel, hard, training, w) ==
    IF gumbel /\ training
    THEN (IF hard THEN [c |-> "hotany", at |-> 0] ELSE [c |-> "prob", at |-> 0])
    ELSE (IF hard THEN [c |-> "hot", at |-> w] ELSE [c |-> "soft", at |-> w])

\* SampleImpl = "ref": every block samples, so a block with ONE branch always stores <<1>> whatever its
\* coefficient; "nosample1": combiner.forward returns the only branch output before sampling
SampleClassI(simpl, n, gumbel, hard, training, w) ==
    IF simpl = "nosample1" /\ n = 1 THEN [c |-> "raw", at |-> 0] ELSE SampleClass(gumbel, hard, training, w)

\* "hard selection" in the sense of C06: the stored vector is the one-hot of the arg-max
HardSelection(gumbel, hard, training) == hard /\ ~(gumbel /\ training)

RECURSIVE Comps(_, _)                  \* all vectors of n naturals summing to D
Comps(n, D) == IF n = 1 THEN {<<D>>}
               ELSE UNION {{<<k>> \o t : t \in Comps(n - 1, D - k)} : k \in 0..D}

ThetaSet(cls, n, D) ==
    CASE cls.c = "hot"    -> {OneHot(n, cls.at, D)}
      [] cls.c = "hotany" -> {OneHot(n, w, D) : w \in 0..(n - 1)}
      [] cls.c = "soft"   -> {t \in Comps(n, D) : \A j \in 1..n : j # cls.at + 1 => t[cls.at + 1] > t[j]}
      [] cls.c = "prob"   -> Comps(n, D)
      \* defective variant only (SampleImpl = "nosample1"): a one-branch block that never samples keeps the
      \* raw coefficient as its weight
      [] cls.c = "raw"    -> {[i \in 1..n |-> k] : k \in 0..(2 * D)}

RECURSIVE Prod(_, _)                   \* cartesian product of sets[1..k] as sequences
Prod(sets, k) == IF k = 0 THEN {<<>>}
                 ELSE {Append(p, x) : p \in Prod(sets, k - 1), x \in sets[k]}

(***************************************************************************)
(* Names.  A qualified module name is a sequence of characters, e.g.        *)
(* <<"c","1">>, <<"c","1","0">>, <<"f",".","1","0">>.  Whether a leaf layer  *)
(* is charged at top level (full_cost) must depend on the STRUCTURE (it is   *)
(* outside every choice block), never on what its name looks like.           *)
(* Inside(impl, ...) = "the code treats the layer as internal to a block":   *)
(*  "asis"      'sn_branches' in str(node.target)        (current code)      *)
(*  "prefixdot" name.startswith(block + '.') for some block   (also correct) *)
(*  "prefix"    name.startswith(block)  - no trailing dot     (defective)    *)
(*  "sn"        'sn_' in name                                 (defective)    *)
(*  "leafset"   last atom of the name is the last atom of some block-internal *)
(*              layer (a set built from leaf names)           (defective)    *)
(***************************************************************************)
DOT == "."
RES == <<"s","n","_","b","r","a","n","c","h","e","s">>      \* the reserved attribute name
SNU == <<"s","n","_">>
HasSub(s, sub) == \E k \in 1..(Len(s) - Len(sub) + 1) : SubSeq(s, k, k + Len(sub) - 1) = sub
LastDot(s) == IF \E k \in 1..Len(s) : s[k] = DOT THEN MaxOf({k \in 1..Len(s) : s[k] = DOT}) ELSE 0
LastAtom(s) == SubSeq(s, LastDot(s) + 1, Len(s))

Inside(impl, bnames, internals, lname) ==
    CASE impl = "asis"      -> HasSub(lname, RES)
      [] impl = "prefixdot" -> \E b \in 1..Len(bnames) : IsPrefix(bnames[b] \o <<DOT>>, lname)
      [] impl = "prefix"    -> \E b \in 1..Len(bnames) : IsPrefix(bnames[b], lname)
      [] impl = "sn"        -> HasSub(lname, SNU)
      [] impl = "leafset"   -> LastAtom(lname) \in {LastAtom(x) : x \in internals}

\* scenario predicates
PrefixCollision(bnames, fnames) ==          \* a fixed layer's name starts like a block's name
    \E b \in 1..Len(bnames) : \E k \in 1..Len(fnames) : IsPrefix(bnames[b], fnames[k])
ReservedClash(fnames) ==                    \* a fixed layer's name contains the reserved attribute name:
    \E k \in 1..Len(fnames) : HasSub(fnames[k], RES)      \* SuperNet(...) rejects the model (ValueError)

FixedNames(net) == [k \in 1..Len(net.fixedl) |-> net.fixedl[k].name]

\* what the top-level loop of _get_single_cost charges under full_cost, per naming rule
FixedChargedCost(impl, metric, net, internals) ==
    SumIdx([k \in 1..Len(net.fixedl) |->
              IF Inside(impl, net.names, internals, net.fixedl[k].name) THEN 0
              ELSE LayerCost(metric, net.fixedl[k])], Len(net.fixedl))

\* design level: names of the leaf layers inside the branches of a block
Digit(i) == <<"0","1","2","3","4","5","6","7","8","9">>[i + 1]
NumStr(i) == IF i < 10 THEN <<Digit(i)>> ELSE <<Digit(i \div 10), Digit(i % 10)>>
LeafNames(k) == CASE k = "layer" -> {<<>>}
                  [] k = "seq"   -> {<<DOT,"0">>, <<DOT,"3">>}
                  [] k = "ubm"   -> {<<DOT,"c","o","n","v","1">>, <<DOT,"c","o","n","v","2">>}
                  [] k = "ubf"   -> {<<DOT,"c","o","n","v">>}
                  [] k = "id"    -> {<<>>}
                  [] k = "ubr"   -> {<<DOT,"c">>}
InternalNames(net) ==
    UNION {UNION {{net.names[b] \o <<DOT>> \o RES \o <<DOT>> \o NumStr(i - 1) \o lf :
                        lf \in LeafNames(net.blocks[b].kinds[i])} : i \in 1..NBr(net.blocks[b])}
              : b \in 1..NB(net)}

\* name alphabets of the design-level families (block names / names of the fixed layers, in role order:
\* stem, batch-norm, one 1x1 conv per block, head, classifier, then extra 1x1 convs)
BlockNamePool ==
    {<<"c","1">>, <<"c","2">>, <<"f",DOT,"1">>, <<"g",DOT,"c","1">>}
CollidingFixedNames ==
    << <<"c">>,                       \* a PREFIX of the block names c1, c2
       <<"f",DOT,"0">>,
       <<"c","1","0">>, <<"c","2","_","p">>,
       <<"f",DOT,"1","0">>, <<"g",DOT,"c","1","0">>,
       <<"c","1","_","p","w">>, <<"f",DOT,"1","1">>, <<"h",DOT,"c","1">>,
       <<"h",DOT,"c","o","n","v","1">>, <<"h",DOT,"0">>, <<"h",DOT,"c">>,
       <<"s","n","_","h">>, <<"k",DOT,"d","s","n","_","c">> >>
PlainBlockName(b) == <<"b", Digit(b - 1)>>
PlainFixedNames(nb) ==
    << <<"s","t","e","m">>, <<"b","n","0">> >> \o [b \in 1..nb |-> <<"m","i","d", Digit(b - 1)>>]
    \o << <<"h","e","a","d">>, <<"f","c">> >>

(***************************************************************************)
(* Design-level cost table derived from the kinds: the layers a branch      *)
(* invokes (in order), abstract parameter counts that depend on the         *)
(* position so that no two branches cost the same by accident, and the      *)
(* number of output positions per call site.                                *)
(***************************************************************************)
LayerSeq(k) == CASE k = "layer" -> <<1>>
                 [] k = "seq"   -> <<1, 2>>
                 [] k = "ubm"   -> <<1, 2>>
                 [] k = "ubf"   -> <<1>>
                 [] k = "id"    -> <<>>
                 [] k = "ubr"   -> <<1, 1>>
NLeaf(k) == CASE k = "layer" -> 1 [] k = "seq" -> 3 [] k = "ubm" -> 2
              [] k = "ubf" -> 1 [] k = "id" -> 1 [] k = "ubr" -> 1
P(b, i, l) == 1 + ((2 * b + 3 * i + 5 * l) % 7)
Res(pool, s) == IF s = 2 /\ pool THEN 1 ELSE 4

AbstractCT(b, skel) ==                 \* skel = [kinds, uses, pool]
    [i \in 1..Len(skel.kinds) |->
        LET ls == LayerSeq(skel.kinds[i])
            us == {ls[j] : j \in 1..Len(ls)}
            pu == [l \in 1..2 |-> IF l \in us THEN P(b, i, l) ELSE 0]
        IN  [par   |-> pu[1] + pu[2],
             ops   |-> [s \in 1..skel.uses |->
                          SumIdx([j \in 1..Len(ls) |-> P(b, i, ls[j]) * Res(skel.pool, s)], Len(ls))],
             uops  |-> [s \in 1..skel.uses |-> (pu[1] + pu[2]) * Res(skel.pool, s)],
             leafs |-> NLeaf(skel.kinds[i]),
             reuse |-> skel.kinds[i] = "ubr"]]

AbstractFixed(fnames) ==                \* abstract costs: position dependent, the batch-norm costs nothing
    [k \in 1..Len(fnames) |-> [name |-> fnames[k],
                               par |-> IF k = 2 THEN 0 ELSE 1 + (k % 4),
                               ops |-> IF k = 2 THEN 0 ELSE 4 * (1 + (k % 4))]]

WithCT(skel) ==                        \* skeleton of a network -> network with cost tables
    [gumbel |-> skel.gumbel, hard0 |-> skel.hard0,
     \* skel.naming = <<>> : plain names;  otherwise the chosen block names, the fixed layers then
     \* carry the colliding names
     names  |-> IF skel.naming = <<>> THEN [b \in 1..Len(skel.blocks) |-> PlainBlockName(b)] ELSE skel.naming,
     fixedl |-> AbstractFixed(IF skel.naming = <<>> THEN PlainFixedNames(Len(skel.blocks))
                              ELSE CollidingFixedNames),
     blocks |-> [b \in 1..Len(skel.blocks) |->
                    [kinds |-> skel.blocks[b].kinds, uses |-> skel.blocks[b].uses,
                     pool |-> skel.blocks[b].pool, ct |-> AbstractCT(b, skel.blocks[b])]]]
=============================================================================
