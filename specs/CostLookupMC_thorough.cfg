SPECIFICATION Spec
CONSTANTS
  Impl = "fixed"
  MaxA = 4
  MaxB = 2
INVARIANT ImplMatchesRef
INVARIANT ConflictOnlyIfTwo
INVARIANT NoCrossTalk
INVARIANT OrderIndependent
