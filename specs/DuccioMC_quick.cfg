SPECIFICATION Spec
CONSTANTS
  NMax = 50
  NSmall = 8
  MaxMet = 3
  Impl = "fixed"
INVARIANT RampStart
INVARIANT RampMonotone
INVARIANT RampReaches
INVARIANT RampNotBefore
INVARIANT RampNeverAbove
INVARIANT ValueFinite
INVARIANT ZeroIffWithin
INVARIANT ZeroIfWithin
INVARIANT GrowsWithExcess
INVARIANT DerivedPositive
INVARIANT ReducedOk
