SPECIFICATION Spec
CONSTANTS
  Impl = "asis"
  MaxNodes = 1
  Widths = {2}
  Dims = {2}
  C0 = 2
  Sp0 = 2
  Methods = {"PIT", "SN", "MPS"}
  Twos = {"no"}
  ConvVars = {"dflt"}
  BnVars = {"dflt"}
  SnoVars = {1}
  AllowPl = FALSE
  AllowExcl = FALSE
  AllowReuse = FALSE
  AllowLin3 = FALSE
  AllowDrop = FALSE
  AllowBnShare = FALSE
  PlainOps = {"relu", "pool", "flat", "add"}
  Biases = {TRUE, FALSE}
  AllowFindings = FALSE
  MaxHist = 4
INVARIANT InvConvertOk
INVARIANT InvFnPreserved
INVARIANT InvImportedConfig
INVARIANT InvUserParams
INVARIANT InvUserFn
INVARIANT InvUserOpts
INVARIANT InvModeKept
INVARIANT InvFlagsLast
INVARIANT InvExportIso
INVARIANT InvExportLiteral
INVARIANT InvBnAccount
INVARIANT InvNasConfig
INVARIANT InvWellFormed
