SPECIFICATION Spec
CONSTANTS
  Impl = "flatnames"
  MaxLen = 2
  UpdKinds = {"load"}
  Nests = {"flat", "seq", "blocks", "dict", "alias"}
  MatchOpts <- Opts_q3
INVARIANT AllReplaced
