SPECIFICATION Spec
CONSTANTS
  Impl = "cache_noversion"
  NPrec = 2
INVARIANT HistoryIndependent
INVARIANT LastIsPrevCall
