--------------------------- MODULE CostDepsHistMC ---------------------------
(***************************************************************************)
(* C12, history dimension: the cost is a function of the parameter VALUES  *)
(* (PIT) / of the coefficients sampled by the last forward pass (MPS,      *)
(* SuperNet) - not of requires_grad switches, train()/eval(), export(),    *)
(* summary() or the call history (operators: CostDeps, section HISTORY).   *)
(* TLC enumerates EVERY history of at most MaxLen calls (the history is    *)
(* part of the state); the implementation model (cells / references) and   *)
(* the reference run side by side and KeyOk compares, after every call,    *)
(* what the implementation's cost depends on with what it may depend on.   *)
(* Impl = "asis" must pass for every method; "inplace" (MPS),              *)
(* "dropsfrozen" and "effmatch" (PIT) are expected-to-fail variants.  The dumped          *)
(* histories are replayed on real PIT / MPS / SuperNet models.             *)
(***************************************************************************)
EXTENDS CostDeps

CONSTANTS Method,    \* "pit" | "mps" | "sn"
          Impl,      \* "asis" | "inplace" | "dropsfrozen" | "effmatch"
          MaxLen

VARIABLES h, r, hist
vars == <<h, r, hist>>

Init == h = ImplInit(Method) /\ r = RefInit(Method) /\ hist = <<>>
Call(act) == /\ Len(hist) < MaxLen
             /\ h' = ImplStep(Impl, Method, h, act) /\ r' = RefStep(Method, r, act) /\ hist' = Append(hist, act)
Next == \E act \in HistActs(Method, h) : Call(act)
Spec == Init /\ [][Next]_vars

\* after every call: the implementation's cost depends on exactly what the reference allows
KeyOk == \A disc \in BOOLEAN : ImplKey(Impl, Method, h, disc) = RefKey(Method, r, disc)
\* the model's own bookkeeping: version, mode and switches of the two runs agree; the attribute points to a cell
Coherent == h.ver = r.ver /\ h.mode = r.mode /\ h.cur \in 1..Len(h.cells)
\* an observer call never changes the key (action form of the same claim)
Observer(act) == act[1] \notin {"set", "fwd", "mode"}
ObserversNeutral == [][\A disc \in BOOLEAN :
                          (hist' # hist /\ Observer(hist'[Len(hist')])) =>
                              ImplKey(Impl, Method, h', disc) = ImplKey(Impl, Method, h, disc)]_vars
=============================================================================
