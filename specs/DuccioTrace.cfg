SPECIFICATION Spec
INVARIANT VerdictOk
