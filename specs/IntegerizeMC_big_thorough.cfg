SPECIFICATION Spec
CONSTANTS
  Impl = "ref"
  Mode = "big"
  InBits = {0}
  OutBits = {0}
  WVals <- None1
  BVals <- None1
  Targets <- T_none
  ScaleBits = {0}
  ShiftPoss = {0}
  BigVals <- Big_thorough
  BigShifts = {0, 1, 5, 13, 14, 15, 27, 28, 29, 30}
INVARIANT BigRoundTrip
INVARIANT BigAddOK
INVARIANT BigCmpOK
INVARIANT BigMulOK
INVARIANT BigShiftOK
