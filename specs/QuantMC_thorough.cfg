SPECIFICATION Spec
CONSTANTS
  Impl = "ref"
  Bits = {0, 2, 3, 4, 5, 6, 7, 8}
  DMuls = {1, 2, 3, 5}
  DOffs = {0, 1, 3, 5, 7, 11}
  Deltas = {1, 2, 3, 7, 8, 9, 16, 30, 100}
  BScales = {0, 1, 2, 3, 4, 5, 6, 7, 8, 9, 15, 16, 17, 64, 255}
  BSpan = 2000
  ZT = 2
INVARIANT WRange
INVARIANT WMono
INVARIANT WErr
INVARIANT WZero
INVARIANT WEnds
INVARIANT WTies
INVARIANT ARange
INVARIANT AZero
INVARIANT ATopCommon
INVARIANT ATopIsMax
INVARIANT AMono
INVARIANT ATrunc
INVARIANT ATruncRep
INVARIANT AErr
INVARIANT AScale
INVARIANT BFin
INVARIANT BZero
INVARIANT BMono
INVARIANT BErr
INVARIANT DIdent
