SPECIFICATION Spec
CONSTANTS
  Impl = "ref"
  ExcludeKF = FALSE
  KindSet = {"layer", "seq", "ubm", "ubf", "id", "ubr"}
  NBrSet = {1, 2, 3}
  MaxBlocks = 1
  UseSet = {1, 2}
  PoolSet = {FALSE, TRUE}
  GumbelSet = {FALSE}
  HardSet = {FALSE, TRUE}
  BigN = 0
  Acts = {"SetAlpha"}
  D = 6
  NameFamily = "plain"
  NameImpl = "asis"
  SampleImpl = "ref"
  ForkImpl = "ref"
INVARIANT TypeOK
INVARIANT C03_ExportSucceeds
INVARIANT C03_ExportIsWinner
INVARIANT C03_KeptModules
INVARIANT C06_Bounds
INVARIANT C06_HardIsExport
INVARIANT C06_StoredHot
