------------------------------- MODULE Duccio -------------------------------
(***************************************************************************)
(* Regularisers of plinio.regularizers (property C19), exact arithmetic.   *)
(*                                                                         *)
(* DUCCIO.__call__(model, epoch e, n_epochs n):                            *)
(*   eff_i = min( s_i/100 + e * (s_i*99/100) / (n/2) , s_i )               *)
(*   value = sum_i eff_i * max(0, cost_i - target_i)                       *)
(* All strengths are integers in some unit u; since                        *)
(*   s/100 + e*(99 s/100)/(n/2) = s*(n + 198 e) / (100 n)                  *)
(* every quantity is kept as a NUMERATOR over the common denominator       *)
(* 100*n:   EffNum(s,e,n) = min(s*(n+198e), s*100n).                        *)
(* Lazy initialisation (first call, task_loss L given):                    *)
(*   s_i = L / (cost_i - target_i) if cost_i > target_i, else 0            *)
(* (DerivedStrength).  The pinned tree computed max(0, L/(cost-target)),   *)
(* i.e. +inf when cost_i = target_i and then inf * 0 = NaN in the value    *)
(* (DerivedStrengthPinned; defect F17, repaired in the repository).        *)
(* A strength is a record [fin |-> TRUE, v |-> Nat] or [fin |-> FALSE].    *)
(* Variable-free operator library.                                         *)
(***************************************************************************)
EXTENDS Integers, Sequences, FiniteSets

DMin(a, b) == IF a <= b THEN a ELSE b
DMax(a, b) == IF a >= b THEN a ELSE b

RampNum(s, e, n)  == s * (n + 198 * e)          \* un-clamped ramp, over 100 n
FinalNum(s, n)    == s * 100 * n                \* the final strength, over 100 n
EffNum(s, e, n)   == DMin(RampNum(s, e, n), FinalNum(s, n))

\* For a strength of the form s = 100*n*m (m a positive integer; this is the family the
\* conformance runs use because float32 then evaluates the ramp without rounding) the
\* effective strength is an integer number of units:  EffNum(100 n m, e, n) = 100 n * EffRed(m, e, n)
\* (lemma checked by DuccioMC!ReducedOk).
EffRed(m, e, n)   == m * DMin(n + 198 * e, 100 * n)

Excess(c, t) == DMax(0, c - t)

Fin(v) == [fin |-> TRUE, v |-> v]
Inf    == [fin |-> FALSE, v |-> 0]

\* final strength derived from the task loss L at the first call
DerivedStrength(L, c, t) ==
    IF c > t THEN Fin(L \div (c - t))             \* callers keep L divisible by the excess
    ELSE Fin(0)
\* the same on the pinned tree (before the repair of F17)
DerivedStrengthPinned(L, c, t) ==
    IF c > t THEN Fin(L \div (c - t))
    ELSE IF c = t THEN Inf                        \* L / 0 = +inf
    ELSE Fin(0)                                   \* max(0, negative)
DerivedExact(L, c, t) == c > t => L % (c - t) = 0

\* value of the regulariser, as a class and a numerator over 100 n
\* str: sequence of strengths, c / t: sequences of costs / targets
RECURSIVE PenNumFrom(_, _, _, _, _, _)
PenNumFrom(str, c, t, e, n, i) ==
    IF i > Len(str) THEN 0
    ELSE (IF str[i].fin THEN EffNum(str[i].v, e, n) * Excess(c[i], t[i]) ELSE 0)
         + PenNumFrom(str, c, t, e, n, i + 1)
PenNum(str, c, t, e, n) == PenNumFrom(str, c, t, e, n, 1)

\* the same with strengths given as multipliers m (s = 100 n m): value in units
RECURSIVE PenRedFrom(_, _, _, _, _, _)
PenRedFrom(str, c, t, e, n, i) ==
    IF i > Len(str) THEN 0
    ELSE (IF str[i].fin THEN EffRed(str[i].v, e, n) * Excess(c[i], t[i]) ELSE 0)
         + PenRedFrom(str, c, t, e, n, i + 1)
PenRed(str, c, t, e, n) == PenRedFrom(str, c, t, e, n, 1)

\* general strengths s (integer units) when the effective strength is an integer number of
\* units, i.e. 100 n divides EffNum (EffExact); used for call sequences in which n_epochs varies:
\* with s = 10^4 m and n a divisor of 19800 the ramp is exact, also in float32
EffExact(s, e, n) == EffNum(s, e, n) % (100 * n) = 0
EffU(s, e, n)     == EffNum(s, e, n) \div (100 * n)
RECURSIVE PenUFrom(_, _, _, _, _, _)
PenUFrom(str, c, t, e, n, i) ==
    IF i > Len(str) THEN 0
    ELSE (IF str[i].fin THEN EffU(str[i].v, e, n) * Excess(c[i], t[i]) ELSE 0)
         + PenUFrom(str, c, t, e, n, i + 1)
PenU(str, c, t, e, n) == PenUFrom(str, c, t, e, n, 1)
PenExact(str, e, n)   == \A i \in DOMAIN str : str[i].fin => EffExact(str[i].v, e, n)

\* IEEE: inf * 0 = NaN (excess 0, or epoch 0 inside the ramp), inf * positive = inf
PenClass(str, c, t, e) ==
    IF \E i \in DOMAIN str : ~str[i].fin /\ (Excess(c[i], t[i]) = 0 \/ e = 0) THEN "nan"
    ELSE IF \E i \in DOMAIN str : ~str[i].fin THEN "inf"
    ELSE "fin"

AllPositive(str) == \A i \in DOMAIN str : str[i].fin /\ str[i].v > 0
AllWithin(c, t)  == \A i \in DOMAIN c : c[i] <= t[i]

(***************************************************************************)
(* Life cycle of ONE DUCCIO object.  The only state a regulariser may keep *)
(* between calls is the documented lazy initialisation: the final          *)
(* strengths, fixed at the first call when they are derived from the task  *)
(* loss.  life = [inited, str, last, cnt]; a call is [e, n, c] (epoch,     *)
(* n_epochs, costs reported by the model at that call).                    *)
(***************************************************************************)
LifeNew(mode, given) ==
    [inited |-> mode = "given", str |-> IF mode = "given" THEN given ELSE <<>>,
     last |-> <<>>, cnt |-> 0]
\* strengths in force for a call with costs c (lazy initialisation if still missing)
LifeStr(life, L, c, t) ==
    IF life.inited THEN life.str ELSE [i \in DOMAIN t |-> DerivedStrength(L, c[i], t[i])]
LifeCall(life, L, t, call) ==
    [inited |-> TRUE, str |-> LifeStr(life, L, call.c, t), last |-> <<call.e, call.n>>, cnt |-> life.cnt + 1]
\* the value a FRESH regulariser with the same final strengths returns for the call:
\* what every call of a used object must return as well (history independence)
FreshVal(str, t, call) == PenU(str, call.c, t, call.e, call.n)

\* BaseRegularizer: strength * cost
BaseVal(s, c) == s * c

(***************************************************************************)
(* Attribute life cycle of BOTH regulariser classes.  A regulariser keeps  *)
(* its configuration in public attributes (BaseRegularizer: cost_name,     *)
(* strength; DUCCIO: targets, final_strengths) which user code re-assigns  *)
(* or updates in place between applications (strength schedules, switching *)
(* a term off with 0, moving a target).  Every application must be the     *)
(* formula over the CURRENT public attributes and the CURRENT cost the     *)
(* model reports - nothing captured at construction, nothing remembered    *)
(* from an earlier application.                                            *)
(* An action is a record [op, k, v] (k a string, v an integer):            *)
(*  base   : setS/float|int|zero|tensor v   reg.strength = v (units; a new *)
(*                                           0-d tensor for "tensor")      *)
(*           inplace/fill v                  reg.strength.fill_(v)  (only  *)
(*                                           if the attribute is a tensor) *)
(*           inplace/ext v                   the caller updates in place   *)
(*                                           the tensor it passed to the   *)
(*                                           constructor (only while the   *)
(*                                           attribute still is that one)  *)
(*           name/m0|m1                      reg.cost_name = ...           *)
(*  duccio : setT/new k     reg.targets = a new dict (target set k)        *)
(*           mutT/m0|m1 v   reg.targets[name] = tensor(v)  (dict mutated)  *)
(*           fillT/m0|m1 v  reg.targets[name].fill_(v)     (tensor updated)*)
(*           setF/new k     reg.final_strengths = a new tuple (set k)      *)
(*           setF/m0|m1 v   ... = the tuple with one entry replaced        *)
(*           fillF/m0|m1 v  reg.final_strengths[i].fill_(v)                *)
(*  both   : apply/dflt|e1n4   reg(model) / reg(model, 1, 4) (base: plain) *)
(*           cost/A|B          the model now reports cost vector A / B     *)
(* State: [kind, name, s, isT, ctor, t, f, cost, n, val, c0 (attributes at *)
(* construction), lc (cost seen by the first application)].                *)
(***************************************************************************)
A(op, k, v) == [op |-> op, k |-> k, v |-> v]
CostVec(k)  == IF k = "A" THEN <<7, 20>> ELSE <<12, 5>>
TargetSet(k) == IF k = 1 THEN <<10, 20>> ELSE <<6, 30>>
StrengthSet(k) == IF k = 1 THEN <<10000, 20000>> ELSE <<20000, 10000>>
Idx(nm) == IF nm = "m0" THEN 1 ELSE 2

BaseActions ==
    {A("setS", "float", 3), A("setS", "float", 1024), A("setS", "int", 0), A("setS", "int", 2048),
     A("setS", "zero", 0), A("setS", "tensor", 5), A("inplace", "fill", 7), A("inplace", "ext", 9),
     A("name", "m0", 0), A("name", "m1", 0), A("apply", "dflt", 0), A("cost", "A", 0), A("cost", "B", 0)}
DuccioActions ==
    {A("setT", "new", 2), A("mutT", "m0", 5), A("mutT", "m1", 3), A("fillT", "m0", 11),
     A("setF", "new", 2), A("setF", "m0", 40000), A("fillF", "m1", 10000),
     A("apply", "dflt", 0), A("apply", "e1n4", 0), A("cost", "A", 0), A("cost", "B", 0),
     A("setT", "new", 1), A("fillF", "m0", 30000)}

\* variant: "float" | "tensor" (how the strength was passed to BaseRegularizer) | "duccio"
AttrInit(variant) ==
    LET base == variant # "duccio"
        s0   == IF variant = "tensor" THEN 5 ELSE 3
    IN  [kind |-> IF base THEN "base" ELSE "duccio", name |-> "m0", s |-> s0,
         isT |-> variant = "tensor", ctor |-> variant = "tensor",
         t |-> TargetSet(1), f |-> StrengthSet(1), cost |-> CostVec("A"), n |-> 0, val |-> 0,
         c0 |-> [s |-> s0, name |-> "m0", t |-> TargetSet(1), f |-> StrengthSet(1)], lc |-> <<>>]

AttrEnabled(st, a) ==
    /\ (st.kind = "base" => a \in BaseActions) /\ (st.kind = "duccio" => a \in DuccioActions)
    /\ (a.op = "inplace" /\ a.k = "fill" => st.isT)
    /\ (a.op = "inplace" /\ a.k = "ext" => st.ctor)

Sched(k) == IF k = "e1n4" THEN <<1, 4>> ELSE <<1, 1>>

\* the value an application returns: impl "live" (as specified), "captured" (configuration captured
\* at construction), "lastcost" (model cost remembered from the first application)
AttrValue(impl, st, k) ==
    LET cost == IF impl = "lastcost" /\ st.lc # <<>> THEN st.lc ELSE st.cost
        s    == IF impl = "captured" THEN st.c0.s ELSE st.s
        nm   == IF impl = "captured" THEN st.c0.name ELSE st.name
        t    == IF impl = "captured" THEN st.c0.t ELSE st.t
        f    == IF impl = "captured" THEN st.c0.f ELSE st.f
    IN  IF st.kind = "base" THEN BaseVal(s, cost[Idx(nm)])
        ELSE PenU([i \in 1..2 |-> Fin(f[i])], cost, t, Sched(k)[1], Sched(k)[2])

AttrStep(impl, st, a) ==
    CASE a.op = "setS"    -> [st EXCEPT !.s = a.v, !.isT = (a.k = "tensor"), !.ctor = FALSE]
      [] a.op = "inplace" -> [st EXCEPT !.s = a.v]
      [] a.op = "name"    -> [st EXCEPT !.name = a.k]
      [] a.op = "setT"    -> [st EXCEPT !.t = TargetSet(a.v)]
      [] a.op = "mutT"    -> [st EXCEPT !.t[Idx(a.k)] = a.v]
      [] a.op = "fillT"   -> [st EXCEPT !.t[Idx(a.k)] = a.v]
      [] a.op = "setF"    -> IF a.k = "new" THEN [st EXCEPT !.f = StrengthSet(a.v)]
                             ELSE [st EXCEPT !.f[Idx(a.k)] = a.v]
      [] a.op = "fillF"   -> [st EXCEPT !.f[Idx(a.k)] = a.v]
      [] a.op = "cost"    -> [st EXCEPT !.cost = CostVec(a.k)]
      [] a.op = "apply"   -> [st EXCEPT !.val = AttrValue(impl, st, a.k), !.n = @ + 1,
                                        !.lc = IF st.lc = <<>> THEN st.cost ELSE st.lc]

RECURSIVE AttrRun(_, _, _, _)
AttrRun(impl, st, hist, i) ==
    IF i > Len(hist) THEN st ELSE AttrRun(impl, AttrStep(impl, st, hist[i]), hist, i + 1)

(***************************************************************************)
(* Pairing of the POSITIONAL final_strengths with the NAMED targets.       *)
(* final_strengths[i] belongs to the i-th metric of the targets dict in    *)
(* the order in which the CALLER built it.  rank[i] = alphabetical rank of *)
(* the name of the caller's i-th metric (a permutation of 1..k); s, c, t   *)
(* are all in caller order.                                                *)
(*   "position": strength i goes with the caller's i-th metric             *)
(*   "sorted"  : the metrics are re-ordered alphabetically first, so the   *)
(*               caller's i-th metric is weighted with strength rank[i]    *)
(*   "dropinf" : metrics whose target is infinite (INF: "unconstrained",   *)
(*               excess always 0) are dropped from the dict while the      *)
(*               strengths stay positional, so every metric after one is   *)
(*               weighted with its predecessor's strength                  *)
(***************************************************************************)
INF == 1000000          \* stands for float('inf') as a target (the harness passes the real infinity)
StrengthIdx(impl, rank, t, i) ==
    IF impl = "sorted" THEN rank[i]
    ELSE IF impl = "dropinf" THEN Cardinality({j \in 1..i : t[j] # INF})
    ELSE i
RECURSIVE PairedFrom(_, _, _, _, _, _, _, _)
PairedFrom(impl, rank, s, c, t, e, n, i) ==
    IF i > Len(s) THEN 0
    ELSE (IF t[i] = INF THEN 0 ELSE EffU(s[StrengthIdx(impl, rank, t, i)], e, n) * Excess(c[i], t[i]))
         + PairedFrom(impl, rank, s, c, t, e, n, i + 1)
PairedPen(impl, rank, s, c, t, e, n) == PairedFrom(impl, rank, s, c, t, e, n, 1)
IsPermutation(rank) == {rank[i] : i \in DOMAIN rank} = 1..Len(rank)
=============================================================================
