SPECIFICATION Spec
CONSTANTS
  Models = {"gap8_latency", "ne16_latency", "diana_latency"}
  CinLo = 4
  CinHi = 4
  CinStep = 1
  CinExtra = {132}
  CoutLo = 4
  CoutHi = 520
  CoutStep = 1
  CoutExtra = {}
  KSet = {1, 3}
  OSet = {4}
  WSet = {2, 8}
  ASet = {8}
INVARIANT AllDefined
INVARIANT NonNegative
INVARIANT PositiveNonEmpty
INVARIANT DwIsGenericPerGroup
INVARIANT HelpersExact
INVARIANT RejectsUnsupported
INVARIANT BigSound
PROPERTY Monotone
PROPERTY HelpersMonotone
