SPECIFICATION Spec
CONSTANTS
  Impl = "live"
  MaxHist = 3
INVARIANT ApplyIsCurrent
INVARIANT HistOk
INVARIANT BaseLinear
INVARIANT ExactAttr
