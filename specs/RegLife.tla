------------------------------ MODULE RegLife ------------------------------
(***************************************************************************)
(* C19, attribute life cycle of BaseRegularizer and DUCCIO (operators in   *)
(* Duccio.tla, "Attribute life cycle").  TLC enumerates every history of   *)
(* at most MaxHist attribute writes / model-cost changes / applications    *)
(* for three objects (BaseRegularizer built with a float strength, with a  *)
(* 0-d tensor strength, DUCCIO with given strengths); the harness replays  *)
(* each history on the real classes.                                       *)
(* Invariant: in every reachable state an application (with either         *)
(* schedule) returns the formula over the CURRENT attributes and the       *)
(* CURRENT model cost.  Impl = "live" must satisfy it; "captured"          *)
(* (configuration captured at construction) and "lastcost" (model cost     *)
(* remembered from the first application) must violate it.                 *)
(***************************************************************************)
EXTENDS Duccio, TLC

CONSTANTS Impl, MaxHist

VARIABLES variant, st, hist

Init == variant \in {"float", "tensor", "duccio"} /\ st = AttrInit(variant) /\ hist = <<>>

Do(a) == /\ Len(hist) < MaxHist
         /\ AttrEnabled(st, a)
         /\ st' = AttrStep(Impl, st, a)
         /\ hist' = Append(hist, a)
         /\ UNCHANGED variant

Next == \E a \in BaseActions \cup DuccioActions : Do(a)
Spec == Init /\ [][Next]_<<variant, st, hist>>

\* what the application must return: the formula over current attributes and current cost
ApplyIsCurrent ==
    \A k \in {"dflt", "e1n4"} : AttrValue(Impl, st, k) = AttrValue("live", [st EXCEPT !.lc = <<>>], k)
\* the value recorded by the last application was right when it was made (checked at every step,
\* so for every application of every history)
HistOk == st = AttrRun(Impl, AttrInit(variant), hist, 1)
\* gradient of the base regulariser w.r.t. the cost = the current strength (value is linear in cost)
BaseLinear ==
    st.kind = "base" =>
        AttrValue("live", [st EXCEPT !.cost[Idx(st.name)] = @ + 1], "dflt") - AttrValue("live", st, "dflt") = st.s
ExactAttr == st.kind = "duccio" => \A k \in {"dflt", "e1n4"} :
                 PenExact([i \in 1..2 |-> Fin(st.f[i])], Sched(k)[1], Sched(k)[2])
=============================================================================
