SPECIFICATION Spec
CONSTANTS
  Models = {"gap8_latency", "ne16_latency", "diana_latency"}
  CinLo = 4
  CinHi = 4
  CinStep = 1
  CinExtra = {5, 8, 9, 60, 64, 65, 68, 128, 132, 256, 257, 508, 512, 516, 520}
  CoutLo = 4
  CoutHi = 4
  CoutStep = 1
  CoutExtra = {7, 8, 9, 16, 17, 64, 65, 128, 129, 132, 256, 260, 512, 513, 520}
  KSet = {1, 3, 5, 7}
  OSet = {1, 3, 4, 16, 17, 33}
  WSet = {0, 2, 4, 8}
  ASet = {2, 4, 8}
INVARIANT AllDefined
INVARIANT NonNegative
INVARIANT PositiveNonEmpty
INVARIANT DwIsGenericPerGroup
INVARIANT HelpersExact
INVARIANT RejectsUnsupported
INVARIANT BigSound
PROPERTY Monotone
PROPERTY HelpersMonotone
