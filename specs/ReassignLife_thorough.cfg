SPECIFICATION Spec
CONSTANTS
  Impl = "explicit"
  MaxHist = 3
  KeepHist = TRUE
INVARIANT RefineSeesArgmax
INVARIANT HistOk
