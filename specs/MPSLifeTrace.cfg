SPECIFICATION Spec
INVARIANT VerdictOk
