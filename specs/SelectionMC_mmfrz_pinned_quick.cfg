SPECIFICATION Spec
CONSTANTS
  Kind = "mps"
  Smp = "asis"
  SumSamples = FALSE
  ExpSamples = FALSE
  OptImpl = "pinned"
  Ctor = "model"
  N = 2
  Chans = 1
  Temps = {"any"}
  Acts = {"hard", "mode", "fwd", "alpha", "freeze"}
  Writes = {"copy"}
  Ckpts = {"soft"}
  Moves = "gen"
  InitAlpha = "ctor"
  CtorOpts = "all"
  AllowKF = FALSE
  Grads = {TRUE}
  SelHows = {"net_only", "nas_only", "net_and_nas"}
INVARIANT TypeOK
INVARIANT SampledIsProb
INVARIANT OneHotAtArgmax
INVARIANT GumbelTraining
INVARIANT SoftKeepsWinner
INVARIANT ReportIsArgmax
INVARIANT ExportIsArgmax
INVARIANT ReportIsExport
INVARIANT ForwardSamples
PROPERTY DisabledKeeps
PROPERTY ThetaOnlyBySampling
PROPERTY AlphaOnlyByWrites
