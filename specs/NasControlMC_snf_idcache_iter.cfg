SPECIFICATION Spec
CONSTANTS
  Impl = "idcache"
  Kind = "sn"
  Temps = {1000}
  Hetero = FALSE
  Part = "ctl"
  Dims = {"features", "rf", "dilation", "dc"}
  HOpts = {}
  Forking = TRUE
INVARIANT IteratorsAgree
