----------------------------- MODULE FeatGraphMC -----------------------------
(***************************************************************************)
(* Exhaustive design check of the graph model (C09, C01 channel axis, C04, *)
(* C08 architecture part).  TLC GROWS every architecture of the bounded    *)
(* grammar node by node (one Grow step per operator node), SEALS it, and   *)
(* then chooses every alive assignment of every free masker (SetMasks).    *)
(* The invariants are evaluated in every masked state.                     *)
(***************************************************************************)
EXTENDS FeatGraph, TLC

CONSTANTS MaxNodes,     \* operator nodes per architecture
          Widths,       \* channel widths of defining layers
          Dim, C0, Sp0, \* 1|2, input channels, input spatial size
          AllowExcl, AllowCat3, AllowReuse, Extras, AllowFindings   \* BOOLEAN switches (Extras: "no" | "yes" = squeeze variants, negative concat axes, sigmoid, un-padded convs | "pit" = TRUE plus the PIT-only ops standalone BatchNorm and log_softmax) of the grammar / of the Supported() guard

VARIABLES arch, phase, f

vars == <<arch, phase, f>>

Node(op, ins, out, dw, excl) ==
    [op |-> op, ins |-> ins, out |-> out, k |-> IF op = "conv" THEN 3 ELSE 1, d |-> 1, s |-> 1,
     bias |-> TRUE, bn |-> FALSE, dw |-> dw, excl |-> excl, causal |-> (Dim = 1 /\ op = "conv"), reuse |-> 0,
     valid |-> FALSE]

Init == /\ arch = [dim |-> Dim, c0 |-> C0, sp |-> Sp0, nodes |-> <<>>]
        /\ phase = "grow"
        /\ f = <<>>

T(a) == 0..N(a)          \* tensors
SameSpatial(a, p, q) == Sp(a, p) = Sp(a, q) /\ SpW(a, p) = SpW(a, q)
Compatible(a, p, q) == Ch(a, p) = Ch(a, q) /\ SameSpatial(a, p, q) /\ IsFlat(a, p) = IsFlat(a, q)

NF(a) == {t \in T(a) : ~IsFlat(a, t)}
Pairs(a)   == {pq \in T(a) \X T(a) : pq[1] # pq[2]}
AddPairs(a) == {pq \in Pairs(a) : Compatible(a, pq[1], pq[2])}
CatPairs(a) == {pq \in Pairs(a) : SameSpatial(a, pq[1], pq[2]) /\ IsFlat(a, pq[1]) = IsFlat(a, pq[2])}
CatTriples(a) == {t \in T(a) \X T(a) \X T(a) :
                    /\ t[1] < t[2] /\ t[3] # t[1]
                    /\ SameSpatial(a, t[1], t[2]) /\ SameSpatial(a, t[1], t[3])
                    /\ IsFlat(a, t[1]) = IsFlat(a, t[2]) /\ IsFlat(a, t[1]) = IsFlat(a, t[3])}
CattPairs(a) == {pq \in Pairs(a) : pq[1] < pq[2] /\ Ch(a, pq[1]) = Ch(a, pq[2]) /\ SpW(a, pq[1]) = SpW(a, pq[2])
                                      /\ ~IsFlat(a, pq[1]) /\ ~IsFlat(a, pq[2])}
Excl == IF AllowExcl THEN BOOLEAN ELSE {FALSE}

\* call an earlier searchable, non-depthwise conv again on another tensor of the same input shape
ReuseCands(a) ==
    {[a.nodes[m] EXCEPT !.ins = <<p>>, !.reuse = m] :
        m \in {x \in 1..N(a) : Op(a, x) = "conv" /\ ~a.nodes[x].dw /\ ~a.nodes[x].excl /\ a.nodes[x].reuse = 0},
        p \in NF(a)} 
ValidReuse(a, nd) == nd.ins[1] # a.nodes[nd.reuse].ins[1] /\ Ch(a, nd.ins[1]) = Ch(a, a.nodes[nd.reuse].ins[1])

Candidates(a) ==
    (IF AllowReuse THEN {nd \in ReuseCands(a) : ValidReuse(a, nd)} ELSE {}) \cup
    {Node("conv", <<p>>, w, FALSE, e) : p \in NF(a), w \in Widths, e \in Excl}
    \cup {Node("conv", <<p>>, 0, TRUE, FALSE) : p \in NF(a)}
    \* un-padded 1x1... no: un-padded convolutions with kernel 1 (size preserved) and, where the tensor is large
    \* enough, kernel 3 (size shrinks by 2)
    \cup (IF Extras # "no" THEN {[Node("conv", <<p>>, w, FALSE, FALSE) EXCEPT !.valid = TRUE, !.causal = FALSE] :
                              p \in {t \in NF(a) : Sp(a, t) >= 3 /\ (Dim = 1 \/ SpW(a, t) >= 3)}, w \in Widths} ELSE {})
    \cup {Node("lin", <<p>>, w, FALSE, e) : p \in T(a) \ NF(a), w \in Widths, e \in Excl}
    \cup {Node("relu", <<p>>, 0, FALSE, FALSE) : p \in T(a) \ {0}}
    \cup (IF Extras # "no" THEN {Node("sig", <<p>>, 0, FALSE, FALSE) : p \in T(a) \ {0}} ELSE {})
    \cup (IF Extras = "pit" THEN {Node("bns", <<p>>, 0, FALSE, FALSE) : p \in T(a) \ {0}} ELSE {})      \* standalone BatchNorm
    \cup (IF Extras = "pit" THEN {Node("lsm", <<p>>, 0, FALSE, FALSE) : p \in T(a) \ {0}} ELSE {})      \* log_softmax over the features
    \cup {Node("pool", <<p>>, 0, FALSE, FALSE) : p \in {t \in NF(a) \ {0} : Sp(a, t) >= 2 /\ (Dim = 1 \/ SpW(a, t) >= 2)}}
    \cup {Node("flat", <<p>>, 0, FALSE, FALSE) : p \in NF(a)}
    \cup (IF Dim = 1 /\ Extras # "no" THEN {[Node("gsq", <<p>>, 0, FALSE, FALSE) EXCEPT !.d = dd] : p \in NF(a) \ {0}, dd \in {2, -1}} ELSE {})
    \cup {Node("add", <<pq[1], pq[2]>>, 0, FALSE, FALSE) : pq \in AddPairs(a)}
    \cup {Node("cat", <<pq[1], pq[2]>>, 0, FALSE, FALSE) : pq \in CatPairs(a)}
    \cup (IF AllowCat3 THEN {Node("cat", <<t[1], t[2], t[3]>>, 0, FALSE, FALSE) : t \in CatTriples(a)} ELSE {})
    \cup {[Node("catt", <<pq[1], pq[2]>>, 0, FALSE, FALSE) EXCEPT !.d = dd] : pq \in CattPairs(a), dd \in (IF Extras # "no" THEN {1, -1} ELSE {1})}

Grow == /\ phase = "grow" /\ N(arch) < MaxNodes
        /\ \E nd \in Candidates(arch) : arch' = [arch EXCEPT !.nodes = Append(@, nd)]
        /\ UNCHANGED <<phase, f>>

Used(a, t) == \E n \in 1..N(a) : t \in SeqSet(Ins(a, n))
Sealable(a) == /\ N(a) >= 1
               /\ \A t \in 0..(N(a) - 1) : Used(a, t)
               /\ SearchLayers(a) # {}
               /\ (AllowFindings \/ Supported(a))

MaxW == CHOOSE w \in Widths \cup {C0} : \A x \in Widths \cup {C0} : x <= w
AliveSets(w) == {S \in SUBSET (1..w) : w \in S}

SealAndMask ==
    /\ phase = "grow" /\ Sealable(arch)
    /\ f' \in [FreeReps(arch) -> SUBSET (1..MaxW)]
    /\ \A r \in FreeReps(arch) : f'[r] \in AliveSets(WidthOfRep(arch, r))
    /\ phase' = "masked"
    /\ UNCHANGED arch

Next == Grow \/ SealAndMask

Spec == Init /\ [][Next]_vars

Masked == phase = "masked"

(* ---- C09 ---- *)
InvToldIsActual  == Masked => ToldIsActual(arch, f)
InvAddAligned    == Masked => AddAligned(arch, f)
InvEveryMasked   == Masked => EveryLayerMasked(arch)
InvFixedSeesFull == Masked => FixedSeesFull(arch, f)
(* ---- C01 / C08: exported shapes compose, nothing is searched out of existence ---- *)
InvShapeConsistent == Masked => ShapeConsistent(arch, f)
InvAtLeastOne      == Masked => \A n \in SearchLayers(arch) : ExpOut(arch, f, n) >= 1 /\ ExpIn(arch, f, n) >= 1
InvFrozenFull      == Masked => \A n \in SearchLayers(arch) :
                          Frozen(arch, MaskerSite(arch, n)) => ExpOut(arch, f, n) = Ch(arch, n)
\* C01: pruned channels reach every consumer as exact zeros
InvZeroPreserved   == Masked => ZeroPreservedM(arch, MOf(arch, f))
\* C08: the network output keeps its original width
InvOutputFull      == Masked => Count(Act(arch, f, N(arch))) = Ch(arch, N(arch))
(* ---- C04: what PIT charges (told inputs, own alive outputs) = cost of the exported layers ---- *)
NasParams(a, ff) ==
    LET S == {Owner(a, n) : n \in SearchLayers(a)} IN
    [n \in S |-> ParamsOf(a, n, Count(Told(a, ff, n)), Count(Act(a, ff, n)), Nd(a, n).k, Nd(a, n).bias)]
ExpParams(a, ff) ==
    LET S == {Owner(a, n) : n \in SearchLayers(a)} IN
    [n \in S |-> ParamsOf(a, n, ExpIn(a, ff, n), ExpOut(a, ff, n), Nd(a, n).k, Nd(a, n).bias)]
InvCostMatchesExport == Masked => NasParams(arch, f) = ExpParams(arch, f)
(* ---- C12: monotone on the mask lattice ---- *)
InvMonotone == Masked => \A r \in DOMAIN f : \A c \in 1..WidthOfRep(arch, r) :
                   LET g == [f EXCEPT ![r] = @ \cup {c}] IN
                   \A n \in DOMAIN NasParams(arch, f) : NasParams(arch, f)[n] <= NasParams(arch, g)[n]
=============================================================================
