SPECIFICATION Spec
CONSTANTS
  Dim = 2
  MaxNodes = 3
  MinNodes = 1
  Widths = {3}
  LinWidths = {2}
  Ks = {1, 3}
  BNs = {FALSE, TRUE}
  C0 = 3
  Sp0 = 4
  AllowRelu = TRUE
  AllowPool = TRUE
  AllowAdd = TRUE
  AllowDw = TRUE
  AllowReuse = FALSE
  PMs = {"zeros"}
  Ds = {1}
  Ss = {1}
  Biases = {TRUE}
  Batches = {1, 4}
  Alphabet = "classic"
  FwdImpl = "plain"
  ForkImpl = "own"
  ExpImpl = "fresh"
  TupMode = "few"
  WType = "pl"
  SelMode = "rot"
  MaxHist = 0
  Walk = "fixed"
  Lin = "fixed"
  GuardF40 = FALSE
  GuardF05 = TRUE
  GuardReuse = TRUE
INVARIANT InvRepIsRep
INVARIANT InvPlumb
INVARIANT InvPlumbGroups
INVARIANT InvAddSameGrid
INVARIANT InvOutputFloat
INVARIANT InvCostExact
INVARIANT InvSpecKeys
INVARIANT InvPerInvocation
INVARIANT InvExportGeom
INVARIANT InvBatchIndependent
