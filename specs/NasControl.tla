----------------------------- MODULE NasControl -----------------------------
(***************************************************************************)
(* Trainability controls of a PLiNIO model (property C11).                 *)
(*                                                                         *)
(* Variable-free operator library: NasControlMC (exhaustive state machine) *)
(* and NasControlTrace (validation of executions recorded on the real      *)
(* PIT / MPS / SuperNet objects) use the SAME next-state operators.        *)
(*                                                                         *)
(* Abstract state of a model                                               *)
(*   rg    : requires_grad of every parameter (MC: one representative per  *)
(*           parameter class; trace: every parameter object)              *)
(*   flags : PIT's  train_features / train_rf / train_dilation /           *)
(*           discrete_cost  switches (what the getters answer)             *)
(*   opt   : sampling options of a quantiser / combiner                    *)
(*           [temp, hard, gumbel, disable, sampler]                        *)
(*           gumbel/disable = the options as the USER set them (intended), *)
(*           sampler = which sampling routine the object really runs       *)
(*                                                                         *)
(* The control state is PER OBJECT: every parameter object has its own     *)
(* requires_grad, every layer its own discrete_cost switch, every          *)
(* quantiser / combiner its own options; model-level calls are POINTWISE   *)
(* updates (the named thing is written everywhere, everything else keeps   *)
(* the value it had in that layer), per-layer calls ("lflag", "lupd",      *)
(* "lsel") touch one layer / quantiser only.                               *)
(*                                                                         *)
(* Impl = "fixed"  : intended behaviour (= the code after the fix: commits *)
(*                   for F07/F08): frozen masks ignore every write,        *)
(*                   unspecified sampling options are kept.                *)
(* Impl = "pinned" : literal model of the pinned code: DNAS.train_* write  *)
(*                   requires_grad on every reported NAS parameter         *)
(*                   directly (F07); update_softmax_options re-chooses the *)
(*                   sampler from the ARGUMENTS of the current call (F08). *)
(* Impl = "idcache": sanity variant (expected to fail): the unnamed        *)
(*                   net_parameters() computes the set of NAS parameters   *)
(*                   ONCE, keeps it by object identity, and a copy of the  *)
(*                   model (deepcopy / pickle) inherits the identities of  *)
(*                   the ORIGINAL's parameters: on the copy every          *)
(*                   parameter counts as a network parameter.              *)
(* Impl = "bcast1" : sanity variant (expected to fail): a model-level      *)
(*                   option update resolves the unspecified options ONCE   *)
(*                   from the first block and writes all of them to every  *)
(*                   block.                                                *)
(***************************************************************************)
EXTENDS Naturals, Sequences, FiniteSets

Range(s) == {s[i] : i \in DOMAIN s}
NoDup(s) == \A i, j \in DOMAIN s : i # j => s[i] # s[j]

(***************************************************************************)
(* Parameter classes                                                       *)
(***************************************************************************)
\* PIT
PitNetCls    == {"w", "bn", "bnfold"}                \* weights/biases, affine of a fused BatchNorm (bnfold: of a
                                                     \* BatchNorm folded into the weights, no longer read)
PitFreeCls   == {"alpha", "alphaS", "beta", "gamma"} \* free masks; alphaS = ONE mask object owned by several layers
PitFrozenCls == {"alphaF", "betaF", "gammaF"}        \* masks frozen by construction
PitAuxCls    == {"dc"}                               \* pseudo-object: the discrete_cost switch of ONE layer
PitCls       == PitNetCls \cup PitFreeCls \cup PitFrozenCls \cup PitAuxCls
\* MPS
MpsNetCls    == {"w"}
MpsAlphaCls  == {"qalpha", "qalphaS"}                \* selection parameters (qalphaS: quantiser shared by several layers)
MpsAuxCls    == {"qclip", "qdummy"}                  \* quantiser-internal parameters / alpha of dummy quantisers
MpsCls       == MpsNetCls \cup MpsAlphaCls \cup MpsAuxCls
\* SuperNet
SnNetCls     == {"w"}
SnAlphaCls   == {"snalpha"}
SnCls        == SnNetCls \cup SnAlphaCls

ClsOf(kind) == IF kind = "pit" THEN PitCls ELSE IF kind = "mps" THEN MpsCls ELSE SnCls

Frozen(c)   == c \in PitFrozenCls
\* classes that MUST be reported as architectural resp. network parameters
MustBeNas(c) == c \in PitFreeCls \cup PitFrozenCls \cup MpsAlphaCls \cup SnAlphaCls
MustBeNet(c) == c \in PitNetCls \cup MpsNetCls \cup SnNetCls
\* group under which the code reports a class (as implemented: quantiser internals are NAS parameters)
Group(c) == IF MustBeNet(c) THEN "net" ELSE "nas"

\* which PIT switch addresses a mask class
FlagOf(c) == IF c \in {"alpha", "alphaS", "alphaF"} THEN "features"
             ELSE IF c \in {"beta", "betaF"} THEN "rf"
             ELSE IF c \in {"gamma", "gammaF"} THEN "dilation"
             ELSE "-"
DimOf(c) == IF c = "dc" THEN "dc" ELSE FlagOf(c)

TrainGroups == {"nas", "net", "both"}          \* train_nas_only / train_net_only / train_net_and_nas
PitFlags    == {"features", "rf", "dilation", "dc"}

(***************************************************************************)
(* requires_grad of ONE parameter object (value of one discrete_cost       *)
(* switch) after a call.                                                   *)
(*   c = class, grp = group it is reported in ("nas"/"net"/"none" = not a  *)
(*   parameter at all, e.g. a frozen mask kept in a buffer), own = set of  *)
(*   layers owning the object, qi = quantiser/combiner owning it (0: none),*)
(*   rg = value before the call, a = the call.                             *)
(***************************************************************************)
Want(g, grp) == (g = "both" /\ grp \in {"nas", "net"}) \/ g = grp

NextRg(impl, c, grp, own, qi, rg, a) ==
    IF c = "dc" THEN
         IF a.a = "flag" /\ a.f = "dc" THEN a.v                        \* PIT.discrete_cost := v reaches every layer
         ELSE IF a.a = "lflag" /\ a.f = "dc" /\ a.l \in own THEN a.v   \* layer.discrete_cost := v
         ELSE rg
    ELSE IF a.a = "train" THEN
         IF Frozen(c) THEN (IF impl = "pinned" /\ grp # "none" THEN Want(a.g, grp) ELSE rg)
         ELSE Want(a.g, grp)
    ELSE IF a.a = "flag" THEN                       \* PIT.train_<f> := v
         IF a.f # "dc" /\ FlagOf(c) = a.f /\ ~Frozen(c) THEN a.v ELSE rg
    ELSE IF a.a = "lflag" THEN                      \* layer.train_<f> := v on ONE layer
         IF a.f # "dc" /\ FlagOf(c) = a.f /\ ~Frozen(c) /\ a.l \in own THEN a.v ELSE rg
    ELSE IF a.a = "sel" THEN                        \* SuperNet.train_selection := v
         IF c = "snalpha" THEN a.v ELSE rg
    ELSE IF a.a = "lsel" THEN                       \* combiner.train_selection := v on ONE block
         IF c = "snalpha" /\ qi = a.b THEN a.v ELSE rg
    ELSE rg                                          \* upd, lupd, fwdbwd

\* train_* on an object whose unnamed net_parameters() yields ALL parameters (stale identity cache):
\* the loop over the "network" parameters runs last and overwrites the architectural ones
StaleTrainRg(c, rg, a) == IF Frozen(c) \/ c = "dc" THEN rg ELSE a.g # "nas"

NextFlags(flags, a) == IF a.a = "flag" THEN [flags EXCEPT ![a.f] = a.v] ELSE flags

(***************************************************************************)
(* Sampling options.  An update call carries four optional arguments:      *)
(*   a.temp    : 0 = not specified, else temperature x 1000                *)
(*   a.hard, a.gumbel, a.disable : 2 = not specified, 0 = False, 1 = True  *)
(***************************************************************************)
NoT == 0
NoB == 2
B(x) == x = 1
Sampler(gumbel, disable) == IF disable THEN "none" ELSE IF gumbel THEN "gs" ELSE "sm"

\* MPSBaseQtz.update_softmax_options of the pinned commit, statement by statement
PinnedSampler(a) == IF a.disable # NoB /\ B(a.disable) THEN "none"
                    ELSE IF a.gumbel # NoB /\ B(a.gumbel) THEN "gs"
                    ELSE "sm"

NextOpt(impl, kind, o, a) ==
    IF a.a # "upd" THEN o
    ELSE LET t == IF a.temp # NoT THEN a.temp ELSE o.temp
             h == IF a.hard # NoB THEN B(a.hard) ELSE o.hard
             \* SuperNet.update_softmax_options has no gumbel / disable argument
             g == IF kind = "mps" /\ a.gumbel # NoB THEN B(a.gumbel) ELSE o.gumbel
             d == IF kind = "mps" /\ a.disable # NoB THEN B(a.disable) ELSE o.disable
             s == IF kind # "mps" THEN o.sampler        \* a combiner never re-chooses its sampler
                  ELSE IF impl = "pinned" THEN PinnedSampler(a)
                  ELSE Sampler(g, d)
         IN  [temp |-> t, hard |-> h, gumbel |-> g, disable |-> d, sampler |-> s]

\* the option arguments that reach block k with call a ("lupd" = the same update addressed to ONE block:
\* quantiser.update_softmax_options(..) / combiner.softmax_temperature := t / combiner.hard_softmax := h)
NoUpd == [a |-> "upd", temp |-> NoT, hard |-> NoB, gumbel |-> NoB, disable |-> NoB]
AsUpd(a) == [a |-> "upd", temp |-> a.temp, hard |-> a.hard, gumbel |-> a.gumbel, disable |-> a.disable]
ArgFor(a, k) == IF a.a = "upd" THEN a
                ELSE IF a.a = "lupd" /\ a.b = k THEN AsUpd(a)
                ELSE NoUpd

\* options of block k after call a; opts = sequence block -> option record.  POINTWISE.
NextOptOf(impl, kind, opts, k, a) ==
    IF impl = "bcast1" /\ a.a = "upd"
    THEN LET n == NextOpt("fixed", kind, opts[k], a)
         IN  [n EXCEPT !.temp = IF a.temp # NoT THEN a.temp ELSE opts[1].temp,
                       !.hard = IF a.hard # NoB THEN B(a.hard) ELSE opts[1].hard]
    ELSE IF a.a = "upd" \/ (a.a = "lupd" /\ a.b = k) THEN NextOpt(impl, kind, opts[k], ArgFor(a, k))
    ELSE opts[k]

\* "changing one sampling option leaves the unspecified ones as they were" on the
\* OBSERVABLE options of one quantiser (before: o, after: n) for the arguments a that reached it
SpecifiedSet(kind, o, n, a) ==
    /\ a.temp # NoT => n.temp = a.temp
    /\ a.hard # NoB => n.hard = B(a.hard)
UnspecifiedKept(kind, o, n, a) ==
    /\ a.temp = NoT => n.temp = o.temp
    /\ a.hard = NoB => n.hard = o.hard
    /\ (kind # "mps" \/ (a.gumbel = NoB /\ a.disable = NoB)) => n.sampler = o.sampler

(***************************************************************************)
(* Which parameters are expected to receive a gradient from loss + cost    *)
(* (model of the data flow, used for FrozenNeverGrad at design level and   *)
(* as a PREDICTION in traces): a trainable parameter that the forward pass *)
(* or the cost reads.  A frozen feature mask is never read (the layer uses *)
(* the constant buffer), a frozen time mask IS read.  A quantiser whose    *)
(* sampling is disabled reads the stale theta, not alpha.  Dummy           *)
(* quantisers are never executed.  A SuperNet combiner with hard plain     *)
(* soft-max selects by one_hot(argmax), which cuts the graph to alpha.     *)
(***************************************************************************)
Reads(c, sampler, hard) ==
    /\ c # "alphaF"
    /\ c # "dc"
    /\ c # "qdummy"
    /\ c # "bnfold"
    /\ (c \in MpsAlphaCls => sampler # "none")
    /\ (c \in SnAlphaCls => ~(hard /\ sampler = "sm"))
GradExpected(c, rg, sampler, hard) == rg /\ Reads(c, sampler, hard)

(***************************************************************************)
(* Reporting structure (Partition at design level).  A model is a sequence *)
(* of layers, each owning a set of parameter objects; a shared object is   *)
(* owned by several layers.  named_nas_parameters walks the layers and     *)
(* drops objects already yielded; named_net_parameters = all others.       *)
(***************************************************************************)
RECURSIVE DedupConcat(_, _, _)
DedupConcat(lists, i, acc) ==
    IF i > Len(lists) THEN acc
    ELSE DedupConcat(lists, i + 1,
                     acc \o SelectSeq(lists[i], LAMBDA x : x \notin Range(acc)))
Report(lists) == DedupConcat(lists, 1, <<>>)
IsPartition(all, nas, net) ==
    /\ NoDup(nas) /\ NoDup(net) /\ NoDup(all)
    /\ Range(nas) \cap Range(net) = {}
    /\ Range(nas) \cup Range(net) = Range(all)
=============================================================================
