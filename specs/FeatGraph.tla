------------------------------ MODULE FeatGraph ------------------------------
(***************************************************************************)
(* Dataflow model of a network and of what PLiNIO's graph passes do to it  *)
(* (properties C09, C01, C04, C07, C08).                                    *)
(*                                                                         *)
(* An architecture  a = [dim, c0, sp, nodes]  is a sequence of node        *)
(* records; tensor 0 is the network input, tensor n the output of node n,  *)
(* the network output is the last tensor.  Node fields:                    *)
(*   op   : "conv" | "lin" | "relu" | "pool" | "flat" | "add" | "cat" |    *)
(*          "catt" | "id" | "gsq" (global pooling + squeeze, 1-D)          *)
(*   ins  : sequence of producer tensors (all < n)                         *)
(*   out, k, d, s, bias, bn, dw, excl, causal, reuse                       *)
(* (out = output channels; dw = depthwise; excl = excluded from the search *)
(* by name; reuse = m > 0: the node calls the layer object of node m).     *)
(*                                                                         *)
(* Two semantics live side by side:                                        *)
(*   Act  - REFERENCE dataflow: which channels of every tensor of the      *)
(*          masked network can be non-zero, given the alive set of every   *)
(*          searchable layer;                                              *)
(*   Calc/Told - AS IMPLEMENTED by plinio/graph/annotation.py,             *)
(*          features_calculation.py and pit/graph.py: what the features    *)
(*          calculators tell a consumer about its input.                   *)
(* Variable-free operator library.                                         *)
(***************************************************************************)
EXTENDS Naturals, Integers, Sequences, FiniteSets

N(a)        == Len(a.nodes)
Nd(a, n)    == a.nodes[n]
Ins(a, n)   == IF n = 0 THEN <<>> ELSE Nd(a, n).ins
In1(a, n)   == Ins(a, n)[1]
Op(a, n)    == IF n = 0 THEN "in" ELSE Nd(a, n).op
SeqSet(s)   == {s[i] : i \in DOMAIN s}

IsLayer(a, n)      == Op(a, n) \in {"conv", "lin"}
IsDw(a, n)         == Op(a, n) = "conv" /\ Nd(a, n).dw
Owner(a, n)        == IF IsLayer(a, n) /\ Nd(a, n).reuse > 0 THEN Nd(a, n).reuse ELSE n
Excluded(a, n)     == IsLayer(a, n) /\ Nd(a, Owner(a, n)).excl
Searchable(a, n)   == IsLayer(a, n) /\ ~Excluded(a, n)
\* "features defining" in plinio's terms: placeholder, non-depthwise conv, linear
Defining(a, n)     == n = 0 \/ (IsLayer(a, n) /\ ~IsDw(a, n))
Layers(a)          == {n \in 1..N(a) : IsLayer(a, n)}
SearchLayers(a)    == {n \in 1..N(a) : Searchable(a, n)}
CallSites(a, m)    == {n \in 1..N(a) : IsLayer(a, n) /\ Owner(a, n) = m}

(* ----------------------------- static shapes --------------------------- *)
\* Sp = length (1-D) / height (2-D); SpW = width (2-D; 1 for 1-D nets).  "catt" concatenates over the
\* time axis (1-D) or the height axis (2-D), so 2-D tensors may be rectangular.
\* an un-padded ("valid") convolution shrinks its output by d*(k-1); otherwise convolutions are padded so
\* that only the stride changes the size (causal left padding in 1-D, "same"-style padding elsewhere)
IsValidConv(nd) == "valid" \in DOMAIN nd /\ nd.valid
RECURSIVE Ch(_, _), Sp(_, _), SpW(_, _), SumCh(_, _, _), SumSp(_, _, _)
Ch(a, n) ==
    IF n = 0 THEN a.c0
    ELSE LET nd == Nd(a, n) IN
         CASE nd.op = "conv" -> IF nd.dw THEN Ch(a, nd.ins[1]) ELSE nd.out
           [] nd.op = "lin"  -> nd.out
           [] nd.op = "flat" -> Ch(a, nd.ins[1]) * Sp(a, nd.ins[1]) * SpW(a, nd.ins[1])
           [] nd.op = "cat"  -> SumCh(a, nd.ins, 1)
           [] OTHER          -> Ch(a, nd.ins[1])
Sp(a, n) ==
    IF n = 0 THEN a.sp
    ELSE LET nd == Nd(a, n) IN
         CASE nd.op = "conv" -> IF IsValidConv(nd) THEN ((Sp(a, nd.ins[1]) - nd.d * (nd.k - 1) - 1) \div nd.s) + 1
                                ELSE ((Sp(a, nd.ins[1]) - 1) \div nd.s) + 1
           [] nd.op = "lin"  -> 1
           [] nd.op = "flat" -> 1
           [] nd.op = "gsq"  -> 1
           [] nd.op = "pool" -> Sp(a, nd.ins[1]) \div 2
           [] nd.op = "catt" -> SumSp(a, nd.ins, 1)
           [] OTHER          -> Sp(a, nd.ins[1])
SpW(a, n) ==
    IF a.dim = 1 THEN 1
    ELSE IF n = 0 THEN a.sp
    ELSE LET nd == Nd(a, n) IN
         CASE nd.op = "conv" -> IF IsValidConv(nd) THEN ((SpW(a, nd.ins[1]) - nd.d * (nd.k - 1) - 1) \div nd.s) + 1
                                ELSE ((SpW(a, nd.ins[1]) - 1) \div nd.s) + 1
           [] nd.op \in {"lin", "flat", "gsq"} -> 1
           [] nd.op = "pool" -> SpW(a, nd.ins[1]) \div 2
           [] OTHER          -> SpW(a, nd.ins[1])
SumCh(a, ins, i) == IF i > Len(ins) THEN 0 ELSE Ch(a, ins[i]) + SumCh(a, ins, i + 1)
SumSp(a, ins, i) == IF i > Len(ins) THEN 0 ELSE Sp(a, ins[i]) + SumSp(a, ins, i + 1)
RECURSIVE IsFlat(_, _)
IsFlat(a, n) == IF n = 0 THEN FALSE
                ELSE CASE Op(a, n) \in {"flat", "lin", "gsq"} -> TRUE
                       [] Op(a, n) = "conv" -> FALSE
                       [] OTHER -> IsFlat(a, In1(a, n))
\* number of spatial positions of a (non-flat) tensor
Positions(a, n) == Sp(a, n) * SpW(a, n)

(* ------------------- sharing components (build_shared_features_map) ---- *)
\* edges of the sharing graph: dataflow edges except those entering a defining or concat node
KeptEdge(a, p, n) == p \in SeqSet(Ins(a, n)) /\ ~Defining(a, n) /\ Op(a, n) # "cat"
\* the fx `output` node is a propagating successor of the last tensor: node N+1
AllNodes(a) == 0..(N(a) + 1)
Adj(a, x, y) == \/ (y <= N(a) /\ KeptEdge(a, x, y)) \/ (x <= N(a) /\ KeptEdge(a, y, x))
                \/ (x = N(a) /\ y = N(a) + 1) \/ (y = N(a) /\ x = N(a) + 1)
RECURSIVE Reach(_, _)
Reach(a, S) == LET T == S \cup {y \in AllNodes(a) : \E x \in S : Adj(a, x, y)}
               IN IF T = S THEN S ELSE Reach(a, T)
Comp(a, n)      == Reach(a, {n})
CompDefining(a, n) == {m \in Comp(a, n) : m <= N(a) /\ Defining(a, m)}
HasMasker(a, n) == CompDefining(a, n) # {}
Frozen(a, n)    == 0 \in Comp(a, n) \/ (N(a) + 1) \in Comp(a, n)
Rep(a, n)       == CHOOSE m \in Comp(a, n) : \A x \in Comp(a, n) : m <= x      \* smallest node of the component
\* the width a masker is created with (taken from a defining node of the component)
MaskWidth(a, n) == Ch(a, CHOOSE m \in CompDefining(a, n) : \A x \in CompDefining(a, n) : m <= x)
\* the masker actually used by the layer object of node n: the one of the call site visited first by
\* convert_layers' reverse BFS, i.e. (for the grammar: single path reuse) the LAST call site
MaskerSite(a, n) == LET cs == CallSites(a, Owner(a, n)) IN CHOOSE m \in cs : \A x \in cs : x <= m
MaskRep(a, n)    == Rep(a, MaskerSite(a, n))
\* representatives of the non-frozen maskers that some searchable layer uses
FreeReps(a) == {MaskRep(a, n) : n \in {m \in SearchLayers(a) : HasMasker(a, MaskerSite(a, m))
                                                                /\ ~Frozen(a, MaskerSite(a, m))}}
WidthOfRep(a, r) == MaskWidth(a, r)

(* an alive assignment f maps every free representative to a non-empty subset of 1..width that *)
(* contains the keep-alive (last) channel                                                      *)
AliveOf(a, f, n) ==      \* alive channel set of searchable call site n
    IF ~HasMasker(a, MaskerSite(a, n)) THEN 1..Ch(a, n)
    ELSE IF Frozen(a, MaskerSite(a, n)) THEN 1..MaskWidth(a, MaskerSite(a, n))
    ELSE f[MaskRep(a, n)]

(* ------------------------------ patterns ------------------------------- *)
\* a pattern is a sequence of BOOLEAN, one per channel
AllTrue(w)   == [c \in 1..w |-> TRUE]
OrPat(p, q)  == [c \in 1..Len(p) |-> p[c] \/ (c <= Len(q) /\ q[c])]
Repeat(p, m) == [c \in 1..(Len(p) * m) |-> p[((c - 1) \div m) + 1]]
Count(p)     == Cardinality({c \in DOMAIN p : p[c]})
Positions1(p) == {c \in DOMAIN p : p[c]}
RECURSIVE ConcatPats(_, _)
ConcatPats(ps, i) == IF i > Len(ps) THEN <<>> ELSE ps[i] \o ConcatPats(ps, i + 1)

(* Reference dataflow: which channels of tensor n can be non-zero.  m maps every searchable call *)
(* site to the pattern of its own output mask (model: from the alive assignment; traces: observed) *)
RECURSIVE ActM(_, _, _)
ActM(a, m, n) ==
    IF n = 0 THEN AllTrue(a.c0)
    ELSE LET nd == Nd(a, n) IN
         CASE nd.op \in {"conv", "lin"} ->
                  IF Searchable(a, n) THEN m[n] ELSE AllTrue(Ch(a, n))
           [] nd.op = "add"  -> OrPat(ActM(a, m, nd.ins[1]), ActM(a, m, nd.ins[2]))
           [] nd.op = "catt" -> OrPat(ActM(a, m, nd.ins[1]), ActM(a, m, nd.ins[2]))
           [] nd.op = "cat"  -> ConcatPats([i \in 1..Len(nd.ins) |-> ActM(a, m, nd.ins[i])], 1)
           [] nd.op = "flat" -> Repeat(ActM(a, m, nd.ins[1]), Positions(a, nd.ins[1]))
           [] OTHER          -> ActM(a, m, nd.ins[1])

(* As implemented: the features calculator attached to node n (add_features_calculator) *)
RECURSIVE CalcM(_, _, _)
CalcM(a, m, n) ==
    IF n = 0 THEN AllTrue(a.c0)
    ELSE LET nd == Nd(a, n) IN
         CASE nd.op \in {"conv", "lin"} ->
                  IF Searchable(a, n) THEN m[n]                              \* ModAttr(features_mask)
                  ELSE IF IsDw(a, n) THEN CalcM(a, m, nd.ins[1])             \* excluded dw: propagating
                  ELSE AllTrue(Ch(a, n))                                     \* Const(shape[1])
           [] nd.op \in {"add", "catt"} -> CalcM(a, m, nd.ins[1])            \* "take any predecessor"
           [] nd.op = "cat"  -> ConcatPats([i \in 1..Len(nd.ins) |-> CalcM(a, m, nd.ins[i])], 1)
           [] nd.op = "flat" -> Repeat(CalcM(a, m, nd.ins[1]), Positions(a, nd.ins[1]))
           [] OTHER          -> CalcM(a, m, nd.ins[1])

(* Value classes (zero preservation, C01): what a channel of tensor n carries in the MASKED network.       *)
(* "live" = data, "zero" = identically zero, "const" = a non-zero constant.  A pruned channel leaves a       *)
(* searchable layer as "zero" (the mask is applied after bias / BatchNorm); element-wise ops with g(0) = 0,  *)
(* pooling, flatten and concat preserve it; sigmoid (g(0) = 1/2) turns it into a constant that a consumer   *)
(* still reads in the masked network although export() removes the channel.                                  *)
\* "bns" = a standalone BatchNorm (features-propagating; the PIT version keeps the channels pruned upstream at zero after
\* the normalisation, which would otherwise turn an exact zero into the constant beta - mean*gamma/sqrt(var))
ZeroPreservingOps == {"relu", "relu6", "tanh", "silu", "drop", "id", "pool", "flat", "gsq", "bns"}
JoinCls(x, y) == IF x = "live" \/ y = "live" THEN "live" ELSE IF x = "const" \/ y = "const" THEN "const" ELSE "zero"
RECURSIVE Cls(_, _, _)
Cls(a, m, n) ==
    IF n = 0 THEN [c \in 1..a.c0 |-> "live"]
    ELSE LET nd == Nd(a, n) IN
         CASE nd.op \in {"conv", "lin"} ->
                  IF Searchable(a, n) THEN [c \in 1..Ch(a, n) |-> IF m[n][c] THEN "live" ELSE "zero"]
                  ELSE [c \in 1..Ch(a, n) |-> "live"]
           [] nd.op \in {"add", "catt"} ->
                  LET p == Cls(a, m, nd.ins[1])  q == Cls(a, m, nd.ins[2]) IN
                  [c \in 1..Len(p) |-> IF c <= Len(q) THEN JoinCls(p[c], q[c]) ELSE p[c]]
           [] nd.op = "cat"  -> ConcatPats([i \in 1..Len(nd.ins) |-> Cls(a, m, nd.ins[i])], 1)
           [] nd.op = "flat" -> Repeat(Cls(a, m, nd.ins[1]), Positions(a, nd.ins[1]))
           [] nd.op = "sig"  -> LET p == Cls(a, m, nd.ins[1]) IN [c \in 1..Len(p) |-> IF p[c] = "zero" THEN "const" ELSE p[c]]
           \* log_softmax over the features couples all channels: a pruned channel leaves it data dependent
           [] nd.op = "lsm"  -> LET p == Cls(a, m, nd.ins[1]) IN
                                [c \in 1..Len(p) |-> IF \E x \in 1..Len(p) : p[x] = "live" THEN "live" ELSE "const"]
           [] OTHER          -> Cls(a, m, nd.ins[1])
\* every channel that the reference dataflow says is dead must reach its consumers as "zero"
ZeroPreservedM(a, m) ==
    \A n \in Layers(a) : LET r == ActM(a, m, In1(a, n))  k == Cls(a, m, In1(a, n)) IN
        \A c \in DOMAIN r : ~r[c] => k[c] = "zero"

\* the per-layer patterns induced by an alive assignment f of the maskers
MOf(a, f) == [n \in SearchLayers(a) |-> [c \in 1..Ch(a, n) |-> c \in AliveOf(a, f, n)]]
Act(a, f, n)  == ActM(a, MOf(a, f), n)
Calc(a, f, n) == CalcM(a, MOf(a, f), n)

\* associate_input_features: the node whose calculator a consumer of tensor p is given
RECURSIVE SetByOf(_, _)
SetByOf(a, p) ==      \* p = first input of the consumer
    IF p = 0 THEN 0
    ELSE IF Op(a, p) \in {"flat", "cat"} \/ Defining(a, p) THEN p
    ELSE SetByOf(a, In1(a, p))
\* one calculator slot per layer OBJECT: the last call site (graph order) wins
LastSite(a, n) == LET cs == CallSites(a, Owner(a, n)) IN CHOOSE m \in cs : \A x \in cs : x <= m
ToldM(a, m, n) == CalcM(a, m, SetByOf(a, In1(a, LastSite(a, n))))
Told(a, f, n)  == ToldM(a, MOf(a, f), n)
\* what actually reaches call site n
Reaches(a, f, n) == Act(a, f, In1(a, n))

(* ------------------------- unsupported topologies ---------------------- *)
(* Scenario predicates of the known findings of C09 (DESIGN.md section 5)  *)
\* A searchable layer object with several call sites has ONE output mask and ONE input calculator.  That is
\* consistent iff all its call sites write into the same sharing component and read tensors whose alive
\* pattern is governed by the same masker (e.g. a weight-shared residual block h' = relu(B(h)) + h).
\* It is also consistent when nothing can be pruned on either side: the masker the object ends up with (the one of
\* the call site convert_layers meets first, MaskerSite) is frozen and no other searchable layer writes into the
\* components of the call sites (h = relu(conv(x)); return conv(h)), and every tensor read is never pruned.
\* (MaskerSite = the LAST call site is only certain when every path from the other sites to the output runs through it)
RECURSIVE OutAvoiding(_, _, _)
OutAvoiding(a, n, x) == n # x /\ (n = N(a) \/ \E c \in (n + 1)..N(a) : n \in SeqSet(Ins(a, c)) /\ OutAvoiding(a, c, x))
LastSiteDominates(a, s) == LET l == MaskerSite(a, s) IN \A t \in CallSites(a, Owner(a, s)) \ {l} : ~OutAvoiding(a, t, l)
OnlyOwnSites(a, s) == \A m \in SearchLayers(a) : m \in Comp(a, s) => Owner(a, m) = Owner(a, s)
NeverPrunedSrc(a, b) == b = 0 \/ (IsLayer(a, b) /\ ~IsDw(a, b) /\
                                   (~Searchable(a, b) \/ (HasMasker(a, MaskerSite(a, b)) /\ Frozen(a, MaskerSite(a, b)))))
ConsistentReuse(a, s1, s2) ==
    /\ \/ Rep(a, s1) = Rep(a, s2)
       \/ (HasMasker(a, MaskerSite(a, s1)) /\ Frozen(a, MaskerSite(a, s1)) /\ LastSiteDominates(a, s1)
              /\ OnlyOwnSites(a, s1) /\ OnlyOwnSites(a, s2))
    /\ LET b1 == SetByOf(a, In1(a, s1))  b2 == SetByOf(a, In1(a, s2)) IN
           \/ b1 = b2
           \/ (b1 # 0 /\ b2 # 0 /\ Searchable(a, b1) /\ Searchable(a, b2) /\ ~IsDw(a, b1) /\ ~IsDw(a, b2)
                  /\ Rep(a, MaskerSite(a, b1)) = Rep(a, MaskerSite(a, b2)))
           \/ (NeverPrunedSrc(a, b1) /\ NeverPrunedSrc(a, b2))
KF_Reuse(a) == \E n \in Layers(a) : Searchable(a, n) /\
                   \E s1, s2 \in CallSites(a, Owner(a, n)) : s1 # s2 /\ ~ConsistentReuse(a, s1, s2)
KF_DwOrphan(a) == \E n \in SearchLayers(a) : ~HasMasker(a, MaskerSite(a, n))
\* an excluded layer sits in a non-frozen component together with a searchable layer
KF_FixedInMaskedGroup(a) ==
    \E n \in Layers(a) : Excluded(a, n) /\ ~Frozen(a, n) /\
        \E m \in SearchLayers(a) : m # n /\ Comp(a, m) = Comp(a, n)
\* an excluded layer consumes a tensor that a non-frozen masker can prune
RECURSIVE Prunable(_, _)
Prunable(a, p) ==     \* can some channel of tensor p be masked?
    IF p = 0 THEN FALSE
    ELSE CASE IsLayer(a, p) -> Searchable(a, p) /\ HasMasker(a, MaskerSite(a, p)) /\ ~Frozen(a, MaskerSite(a, p))
           [] Op(a, p) \in {"add", "catt", "cat"} -> \E i \in DOMAIN Ins(a, p) : Prunable(a, Ins(a, p)[i])
           [] OTHER -> Prunable(a, In1(a, p))
KF_FixedAfterSearch(a) == \E n \in Layers(a) : Excluded(a, n) /\ Prunable(a, In1(a, n))
\* a channel-concat output reaches a residual add (or time concat) without a defining layer in between
RECURSIVE CarriesCat(_, _)
CarriesCat(a, p) ==
    IF p = 0 THEN FALSE
    ELSE CASE Op(a, p) = "cat" -> TRUE
           [] Defining(a, p) -> FALSE
           [] Op(a, p) \in {"add", "catt"} -> CarriesCat(a, Ins(a, p)[1]) \/ CarriesCat(a, Ins(a, p)[2])
           [] OTHER -> CarriesCat(a, In1(a, p))
KF_CatIntoAdd(a) ==
    \E n \in 1..N(a) : Op(a, n) \in {"add", "catt"} /\
        (CarriesCat(a, Ins(a, n)[1]) \/ CarriesCat(a, Ins(a, n)[2])) /\
        (Prunable(a, Ins(a, n)[1]) \/ Prunable(a, Ins(a, n)[2]))
\* two producers of different rank layout share one masker (conv -> flatten added to a linear output)
KF_MixedWidthGroup(a) ==
    \E n \in SearchLayers(a) : HasMasker(a, n) /\ \E m \in CompDefining(a, n) : Ch(a, m) # MaskWidth(a, n)

\* an element-wise op that does not map 0 to 0 (sigmoid) sits on a prunable tensor
KF_NonZeroOp(a) == \E n \in 1..N(a) : Op(a, n) = "sig" /\ Prunable(a, In1(a, n))
\* an op that couples the channels (log_softmax over the features axis, also in plinio's propagating list) on a prunable tensor
KF_CoupledOp(a) == \E n \in 1..N(a) : Op(a, n) = "lsm" /\ Prunable(a, In1(a, n))

\* a channel concat feeds the network output directly: its prunable parts are not recognised as output-connected
KF_CatIntoOutput(a) ==
    \E n \in 1..N(a) : Op(a, n) = "cat" /\ n \in Comp(a, N(a) + 1) /\
        \E i \in DOMAIN Ins(a, n) : Prunable(a, Ins(a, n)[i])

\* A BatchNorm that directly follows a searchable layer is fused into it by the conversion; plinio REJECTS the model
\* (ValueError "The first layer of the pair to be fused has multiple users") when that layer's output is also read by
\* another node - a documented rejection, not a finding.  (A layer object with several call sites followed by a
\* BatchNorm is the fusion-per-call-site topology of finding F51 and is not generated here.)
RECURSIVE BnFused(_, _)
\* the BatchNorm of node n ends up inside a searchable layer (directly, or behind a BatchNorm that was fused before it)
BnFused(a, n) == Op(a, n) = "bns" /\ In1(a, n) # 0 /\
                 ((IsLayer(a, In1(a, n)) /\ Searchable(a, In1(a, n))) \/ BnFused(a, In1(a, n)))
RejectedFusion(a) ==
    \E n \in 1..N(a) : BnFused(a, n) /\
        \/ \E m \in 1..N(a) : m # n /\ In1(a, n) \in SeqSet(Ins(a, m))
        \/ (IsLayer(a, In1(a, n)) /\ Cardinality(CallSites(a, Owner(a, In1(a, n)))) > 1)
\* two BatchNorms in a row behind a searchable layer: the second fusion overwrites the first one (finding F73, a C07
\* matter: the converted model no longer computes the original function); not generated for the PIT family
DoubleFusion(a) == \E n \in 1..N(a) : BnFused(a, n) /\ Op(a, In1(a, n)) = "bns"

Supported(a) == ~RejectedFusion(a) /\ ~DoubleFusion(a) /\ ~KF_NonZeroOp(a) /\ ~KF_CoupledOp(a) /\ ~KF_CatIntoOutput(a) /\ ~KF_Reuse(a) /\ ~KF_DwOrphan(a) /\ ~KF_FixedInMaskedGroup(a)
                /\ ~KF_FixedAfterSearch(a) /\ ~KF_CatIntoAdd(a) /\ ~KF_MixedWidthGroup(a)

(* ------------------------------ C09 invariants ------------------------- *)
ToldIsActual(a, f)  == \A n \in SearchLayers(a) : Told(a, f, n) = Reaches(a, f, n)
AddAligned(a, f)    == \A n \in 1..N(a) : Op(a, n) \in {"add", "catt"} =>
                           Act(a, f, Ins(a, n)[1]) = Act(a, f, Ins(a, n)[2])
EveryLayerMasked(a) == \A n \in SearchLayers(a) : HasMasker(a, MaskerSite(a, n))
FixedSeesFull(a, f) == \A n \in Layers(a) : Excluded(a, n) => Reaches(a, f, n) = AllTrue(Ch(a, In1(a, n)))

(* ------------------------------ export geometry ------------------------ *)
(* What the exported layer of searchable node n must look like (reference): *)
ExpOut(a, f, n) == Count(Act(a, f, n))
ExpIn(a, f, n)  == Count(Reaches(a, f, n))
ExpOutIdx(a, f, n) == Positions1(Act(a, f, n))          \* original index of each exported output channel
ExpInIdx(a, f, n)  == Positions1(Reaches(a, f, n))      \* position (in the tensor that reaches n) of each exported input
\* exported shapes compose: every consumer's exported input width equals what its producers deliver
ShapeConsistent(a, f) ==
    /\ \A n \in SearchLayers(a) : IsDw(a, n) => ExpIn(a, f, n) = ExpOut(a, f, n)
    /\ \A n \in 1..N(a) : Op(a, n) \in {"add", "catt"} =>
           Count(Act(a, f, Ins(a, n)[1])) = Count(Act(a, f, Ins(a, n)[2]))
    /\ \A n \in Layers(a) : Excluded(a, n) => Count(Reaches(a, f, n)) = Ch(a, In1(a, n))

(* ------------------------------ cost (C04) ------------------------------ *)
(* params / ops of one call site given effective in/out/kernel; kk = product of kernel dims *)
KK(a, n, keff) == IF Op(a, n) = "lin" THEN 1 ELSE IF a.dim = 1 THEN keff ELSE Nd(a, n).k * Nd(a, n).k
ParamsOf(a, n, cin, cout, keff, bias) ==
    IF IsDw(a, n) THEN cout * KK(a, n, keff) + (IF bias THEN cout ELSE 0)
    ELSE cin * cout * KK(a, n, keff) + (IF bias THEN cout ELSE 0)
OutPositions(a, n) == IF Op(a, n) = "lin" THEN 1 ELSE Positions(a, n)
OpsOf(a, n, cin, cout, keff, bias) ==
    (IF IsDw(a, n) THEN cout * KK(a, n, keff) ELSE cin * cout * KK(a, n, keff)) * OutPositions(a, n)
        + (IF bias THEN cout * OutPositions(a, n) ELSE 0)
=============================================================================
