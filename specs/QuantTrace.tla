------------------------------ MODULE QuantTrace ------------------------------
(***************************************************************************)
(* Trace validation for C13.  One trace = what ONE call pair               *)
(* (dequantize = False / True) of a real plinio quantiser did on ONE       *)
(* tensor, reduced by the harness to integers and booleans:                *)
(*                                                                         *)
(*  [k |-> "w", p, ch |-> << [szero, spos, e |-> <<elem ...>>] ... >>]     *)
(*        MinMaxWeight, one entry per output channel                       *)
(*  [k |-> "a", p, clipN, e |-> <<elem ...>>]            PACTAct           *)
(*  [k |-> "b", e |-> <<elem ...>>]                      QuantizerBias     *)
(*  [k |-> "d", same, s1, e |-> <<elem ...>>]            DummyQuantizer    *)
(*  [k |-> "life", q, precs, init, ev |-> <<event ...>>] one quantiser      *)
(*        OBJECT driven through a history (see QuantLife): events          *)
(*        [a |-> "SetMode"|"SetGrad"|"SetDeq"|"SetPrec", v] and            *)
(*        [a |-> "Call", rel, obs |-> [mode, grad, deq, p (read back from  *)
(*         the object), hist, hs, tr |-> one of the records above]]        *)
(*                                                                         *)
(* Elements are sorted by the exact value of the input (bias: by scale id, *)
(* then input).  Integer fields (logged as observed):                      *)
(*   lev  integer output (dequantize=False) when it is a finite integer    *)
(*   n    grid coordinate of the input (see QuantArith) when cmp           *)
(*   nb, ns, sid   bias grid coordinates and scale id                      *)
(* Boolean fields = numeric facts decided by the harness with exact        *)
(* rational arithmetic on the float32 values (TLC has no reals):           *)
(*   ii   integer output is finite and integral     fin  fake output finite*)
(*   fk   fake = lev * reported scale (stated tolerance)                   *)
(*   el   |in - lev*scale| < one step               tr   out <= in*(1+2^-22)*)
(*        (weights, bias: ALSO decided by TLC from the integer bracket      *)
(*         nlo = floor(8*in/scale), nhi = ceil(8*in/scale); activations:    *)
(*         lev * reported scale <= in decided by TLC from nr =              *)
(*         floor(8*in*(1+2^-22)/reported scale))                            *)
(*   neg  in <= 0    top  in >= clip    inr  0 <= in <= clip   fz fake = 0 *)
(*   sz   scale = 0  tiny 0 < scale <= 1e-8   big |in/scale| >= 2^22       *)
(*   sc   reported bias scale = s_a*s_w                                    *)
(*   cmp  the level is comparable with the integer model: the exact        *)
(*        quotient is the grid point itself or at least 2^-10 away from    *)
(*        every rounding boundary                                          *)
(*   ex   the input is EXACTLY the grid point (power-of-two scale)         *)
(*                                                                         *)
(* Verdict (total): first failing PROPERTY clause ("C13...."), else        *)
(* "known:F11:..." when the only failures carry the signature of F11       *)
(* (scenario predicate tiny-scale AND bug-compatibility with the           *)
(* "isclose" transcription), else "drift:..." when only a prediction       *)
(* (level = model level) fails, else "ok".                                 *)
(***************************************************************************)
EXTENDS QuantArith, QuantLife, FiniteSets, Json, IOUtils, TLC

Traces == JsonDeserialize(IOEnv.TRACE_FILE)

VARIABLES tid, verdict

MinOf(S) == CHOOSE x \in S : \A y \in S : x <= y
Has(r, f) == f \in DOMAIN r

\* first index of `e` violating Ok(_), 0 if none
FirstBad(e, Ok(_)) ==
    LET bad == {i \in DOMAIN e : ~Ok(i)} IN IF bad = {} THEN 0 ELSE MinOf(bad)

\* run the named clauses in order; a clause is <<name, first bad index>>
RECURSIVE FirstFail(_, _)
FirstFail(cl, j) ==
    IF j > Len(cl) THEN <<"", 0>>
    ELSE IF cl[j][2] # 0 THEN cl[j] ELSE FirstFail(cl, j + 1)

Msg(pre, c, e) ==
    pre \o c[1] \o " at sorted element " \o ToString(c[2]) \o ": " \o ToString(e[c[2]])

(***************************************************************************)
(* weights: one channel                                                    *)
(***************************************************************************)
WClauses(p, c) ==
    LET e == c.e IN
    << <<"integer: output is not a finite integer",
         FirstBad(e, LAMBDA i : e[i].ii /\ e[i].fin)>>,
       <<"range: level outside the signed range of the bit-width",
         FirstBad(e, LAMBDA i : WInRange(p, e[i].lev))>>,
       <<"zero-bits: 0-bit output or scale is not zero",
         FirstBad(e, LAMBDA i : p = 0 => (e[i].lev = 0 /\ e[i].fz /\ c.szero))>>,
       <<"scale: reported scale is not positive and finite",
         FirstBad(e, LAMBDA i : p # 0 => c.spos)>>,
       <<"monotone: level decreases while the input increases",
         FirstBad(e, LAMBDA i : i < Len(e) => e[i].lev <= e[i + 1].lev)>>,
       <<"fake: fake-quantised output differs from integer output x reported scale",
         FirstBad(e, LAMBDA i : e[i].fk)>>,
       <<"error: quantisation error is not below one step",
         FirstBad(e, LAMBDA i : p # 0 => (e[i].el /\ ErrLtStepBracket(e[i].nlo, e[i].nhi, e[i].lev)
                                                  /\ (e[i].ex => WErrLtStep(e[i].n, e[i].lev))))>> >>

WDrift(p, c) ==
    LET e == c.e IN FirstBad(e, LAMBDA i : e[i].cmp => e[i].lev = WQ("ref", p, e[i].n))

\* Verdicts are pairs <<class, message>>, class in {"ok", "viol", "known", "drift"}; Flat makes the string.
Ok == <<"ok", "ok">>
Flat(v) == IF v[1] = "ok" THEN "ok" ELSE IF v[1] = "viol" THEN v[2] ELSE v[1] \o ":" \o v[2]

RECURSIVE WWalk(_, _, _)
WWalk(t, j, drift) ==
    IF j > Len(t.ch) THEN drift
    ELSE LET c == t.ch[j]
             f == FirstFail(WClauses(t.p, c), 1)
         IN  IF f[2] # 0
             THEN <<"viol", Msg("C13.weight channel " \o ToString(j) \o " p=" \o ToString(t.p) \o " ", f, c.e)>>
             ELSE LET d == WDrift(t.p, c) IN
                  WWalk(t, j + 1,
                        IF drift = Ok /\ d # 0
                        THEN <<"drift", "C13.weight.level channel " \o ToString(j) \o " p=" \o ToString(t.p)
                             \o " model " \o ToString(WQ("ref", t.p, c.e[d].n)) \o " observed " \o ToString(c.e[d])>>
                        ELSE drift)

CheckW(t) == WWalk(t, 1, Ok)

(***************************************************************************)
(* activations                                                             *)
(***************************************************************************)
TopLevels(e) == {e[i].lev : i \in {j \in DOMAIN e : e[j].top}}

AClauses(t) ==
    LET e  == t.e
        p  == t.p
        tl == TopLevels(e)
    IN
    << <<"integer: output is not a finite integer",
         FirstBad(e, LAMBDA i : e[i].ii /\ e[i].fin)>>,
       <<"range: level outside [0, 2^bits - 1]",
         FirstBad(e, LAMBDA i : AInRange(p, e[i].lev))>>,
       <<"zero: input at or below zero not mapped to zero",
         FirstBad(e, LAMBDA i : e[i].neg => (e[i].lev = 0 /\ e[i].fz))>>,
       <<"top: inputs at or above the clipping value do not share one top level",
         FirstBad(e, LAMBDA i : e[i].top => Cardinality(tl) = 1)>>,
       <<"top: level above the level of the clipping value",
         FirstBad(e, LAMBDA i : \A l \in tl : e[i].lev <= l)>>,
       <<"monotone: level decreases while the input increases",
         FirstBad(e, LAMBDA i : i < Len(e) => e[i].lev <= e[i + 1].lev)>>,
       <<"fake: fake-quantised output differs from integer output x reported scale",
         FirstBad(e, LAMBDA i : e[i].fk)>>,
       <<"scale: reported scale is not positive and finite",
         FirstBad(e, LAMBDA i : t.spos)>>,
       <<"truncation: output exceeds input",
         FirstBad(e, LAMBDA i : e[i].inr => e[i].tr)>>,
       <<"truncation: integer output x reported scale exceeds input",
         FirstBad(e, LAMBDA i : e[i].inr => ATruncRepOK(e[i].nr, e[i].lev))>>,
       <<"error: quantisation error is not below one step",
         FirstBad(e, LAMBDA i : e[i].inr => e[i].el)>> >>

CheckA(t) ==
    LET f == FirstFail(AClauses(t), 1) IN
    IF f[2] # 0 THEN <<"viol", Msg("C13.act p=" \o ToString(t.p) \o " ", f, t.e)>>
    ELSE LET e == t.e
             d == FirstBad(e, LAMBDA i : e[i].cmp => e[i].lev = AQ("ref", t.p, e[i].n, t.clipN, 8 * L(t.p)))
         IN  IF d = 0 THEN Ok
             ELSE <<"drift", "C13.act.level p=" \o ToString(t.p) \o " model "
                  \o ToString(AQ("ref", t.p, e[d].n, t.clipN, 8 * L(t.p))) \o " observed " \o ToString(e[d])>>

(***************************************************************************)
(* bias                                                                    *)
(***************************************************************************)
\* signature of F11, decided here: scale positive but <= 1e-8 (scenario predicate) and the
\* observed level is what the "isclose" transcription yields (bug compatibility)
IsF11(x) == x.tiny /\ ~x.sz /\ x.lev = BQ("isclose", 1, 1, 1) /\ x.fz

BErrOk(x) == (~x.sz /\ ~x.big) => (x.el /\ ErrLtStepBracket(x.nlo, x.nhi, x.lev))

BClauses(t) ==
    LET e == t.e IN
    << <<"finite: output is NaN or infinite or not an integer",
         FirstBad(e, LAMBDA i : e[i].ii /\ e[i].fin)>>,
       <<"scale: reported scale is not input scale x weight scale",
         FirstBad(e, LAMBDA i : e[i].sc)>>,
       <<"zero-scale: output not zero where the scale is zero",
         FirstBad(e, LAMBDA i : e[i].sz => (e[i].lev = 0 /\ e[i].fz))>>,
       <<"monotone: level decreases while the input increases",
         FirstBad(e, LAMBDA i : (i < Len(e) /\ e[i].sid = e[i + 1].sid) => e[i].lev <= e[i + 1].lev)>>,
       <<"fake: fake-quantised output differs from integer output x reported scale",
         FirstBad(e, LAMBDA i : e[i].fk)>>,
       <<"error: quantisation error is not below one step",
         FirstBad(e, LAMBDA i : BErrOk(e[i]) \/ IsF11(e[i]))>> >>

CheckB(t) ==
    LET e == t.e
        f == FirstFail(BClauses(t), 1)
    IN
    IF f[2] # 0 THEN <<"viol", Msg("C13.bias ", f, e)>>
    ELSE LET k == FirstBad(e, LAMBDA i : BErrOk(e[i])) IN
         IF k # 0
         THEN <<"known", "F11:a bias of one step or more is returned as 0 because the scale 0 < s_a*s_w <= 1e-8 is treated as zero (isclose test); sorted element "
              \o ToString(k) \o " of " \o ToString(Len(e)) \o ", grid nb=" \o ToString(e[k].nb) \o " ns=" \o ToString(e[k].ns)>>
         ELSE LET d == FirstBad(e, LAMBDA i : (e[i].cmp /\ ~e[i].tiny) => e[i].lev = BQ("ref", e[i].nb, e[i].ns, 0))
              IN  IF d = 0 THEN Ok
                  ELSE <<"drift", "C13.bias.level model " \o ToString(BQ("ref", e[d].nb, e[d].ns, 0))
                       \o " observed " \o ToString(e[d])>>

(***************************************************************************)
(* dummy                                                                   *)
(***************************************************************************)
CheckD(t) ==
    IF ~t.same THEN <<"viol", "C13.dummy identity: output is not the input">>
    ELSE IF ~t.s1 THEN <<"viol", "C13.dummy scale: reported scale is not 1">>
    ELSE LET e == t.e
             d == FirstBad(e, LAMBDA i : e[i].ii /\ e[i].lev = DQ(e[i].n))
         IN  IF d = 0 THEN Ok
             ELSE <<"viol", "C13.dummy identity: element " \o ToString(e[d])>>

(***************************************************************************)
(* life cycle of one quantiser object (QuantLife).  The abstract state is  *)
(* advanced with the operators of QuantLife; at every Call                 *)
(*  (i)   the configuration read back from the real object must be the     *)
(*        model's (the setters took effect),                               *)
(*  (ii)  the returned tensor must satisfy ALL per-call clauses above for   *)
(*        the CURRENT precision and dequantize flag of the model state     *)
(*        (the harness reduced the single returned tensor under that flag: *)
(*        integer mode -> it is the integer output; fake mode -> it must   *)
(*        be integer x reported scale),                                    *)
(*  (iii) it must be bit-identical to what a freshly constructed           *)
(*        quantiser of the same configuration returns on the same data     *)
(*        (hist), and so must the reported scale (hs).                     *)
(***************************************************************************)
CheckSub(q, tr, p) ==
    IF q = "w" THEN CheckW([tr EXCEPT !.p = p])
    ELSE IF q = "a" THEN CheckA([tr EXCEPT !.p = p])
    ELSE CheckB(tr)

StepDesc(i, s, rel) ==
    "step " \o ToString(i) \o " Call(" \o rel \o ") in " \o ToString([mode |-> s.mode, grad |-> s.grad, deq |-> s.deq, pi |-> s.pi])
    \o " previous call " \o (IF s.last.valid THEN ToString([mode |-> s.last.mode, grad |-> s.last.grad, deq |-> s.last.deq, pi |-> s.last.pi]) ELSE "none")

(***************************************************************************)
(* The abstract state before event i is written down WITHOUT recursion     *)
(* (TLC evaluates recursive walks on the Java stack; histories are long):  *)
(* every component is a register whose value is the argument of the last   *)
(* Set event before i.  That this candidate sequence of states really is a *)
(* behaviour of QuantLife is then checked step by step with the action     *)
(* operators of QuantLife (StepOk).                                        *)
(***************************************************************************)
MaxOf(S) == CHOOSE x \in S : \A y \in S : y <= x

LastIdx(ev, i, a) ==
    LET S == {j \in 1..(i - 1) : ev[j].a = a} IN IF S = {} THEN 0 ELSE MaxOf(S)

RegAt(t, i, a, dflt) ==
    LET j == LastIdx(t.ev, i, a) IN IF j = 0 THEN dflt ELSE t.ev[j].v

RegsAt(t, i) ==
    [mode |-> RegAt(t, i, "SetMode", "train"), grad |-> RegAt(t, i, "SetGrad", TRUE),
     deq  |-> RegAt(t, i, "SetDeq", t.init.deq), pi |-> RegAt(t, i, "SetPrec", t.init.pi)]

\* state before event i, i in 1..Len(ev)+1
StateAt(t, i) ==
    LET r == RegsAt(t, i)
        c == LastIdx(t.ev, i, "Call")
    IN  [mode |-> r.mode, grad |-> r.grad, deq |-> r.deq, pi |-> r.pi, has |-> c # 0,
         last |-> IF c = 0 THEN NoLast ELSE CfgOf(RegsAt(t, c))]

StepOk(t, i) ==
    LET e  == t.ev[i]
        s  == StateAt(t, i)
        s2 == StateAt(t, i + 1)
        np == Len(t.precs)
    IN  IF e.a = "SetMode" THEN CanSetMode(s, e.v) /\ s2 = DoSetMode(s, e.v)
        ELSE IF e.a = "SetGrad" THEN CanSetGrad(s, e.v) /\ s2 = DoSetGrad(s, e.v)
        ELSE IF e.a = "SetDeq" THEN CanSetDeq(s, e.v) /\ s2 = DoSetDeq(s, e.v)
        ELSE IF e.a = "SetPrec" THEN CanSetPrec(s, e.v, np) /\ s2 = DoSetPrec(s, e.v)
        ELSE IF e.a = "Call" THEN CanCall(s, e.rel) /\ s2 = DoCall(s, e.rel)
        ELSE FALSE

\* verdict of the Call at event i
CallV(t, i) ==
    LET e == t.ev[i]
        s == StateAt(t, i)
        o == e.obs
        p == t.precs[s.pi]
    IN
    IF <<o.mode, o.grad, o.deq, o.p>> # <<s.mode, s.grad, s.deq, p>>
    THEN <<"viol", "C13.life config: the object reports " \o ToString(<<o.mode, o.grad, o.deq, o.p>>)
                   \o " but was set to " \o ToString(<<s.mode, s.grad, s.deq, p>>) \o " at " \o StepDesc(i, s, e.rel)>>
    ELSE LET sub == CheckSub(t.q, o.tr, p) IN
         IF sub[1] = "viol"
         THEN <<"viol", "C13.life " \o StepDesc(i, s, e.rel) \o " :: " \o sub[2]>>
         ELSE IF sub[1] = "known" THEN sub
         ELSE IF ~o.hist
         THEN <<"viol", "C13.life history: the result differs from what a freshly constructed quantiser of the same configuration returns on the same data, "
                        \o StepDesc(i, s, e.rel)>>
         ELSE IF ~o.hs
         THEN <<"viol", "C13.life history: the reported scale differs from that of a freshly constructed quantiser, "
                        \o StepDesc(i, s, e.rel)>>
         ELSE sub

CheckLife(t) ==
    LET ev  == t.ev
        s0  == StateAt(t, 1)
    IN
    IF s0 \notin LifeInit(Len(t.precs)) THEN <<"viol", "trace.life: not an initial state">>
    ELSE LET nostep == {i \in DOMAIN ev : ~StepOk(t, i)} IN
         IF nostep # {} THEN <<"viol", "trace.life: event " \o ToString(MinOf(nostep)) \o " is not a step of QuantLife: "
                                        \o ToString([a |-> ev[MinOf(nostep)].a])>>
         ELSE LET cv    == [i \in DOMAIN ev |-> IF ev[i].a = "Call" THEN CallV(t, i) ELSE Ok]
                  viol  == {i \in DOMAIN ev : cv[i][1] = "viol"}
                  known == {i \in DOMAIN ev : cv[i][1] = "known"}
                  drift == {i \in DOMAIN ev : cv[i][1] = "drift"}
              IN  IF viol # {} THEN cv[MinOf(viol)]
                  ELSE IF known # {} THEN cv[MinOf(known)]
                  ELSE IF drift # {} THEN cv[MinOf(drift)]
                  ELSE Ok

Check(t) ==
    IF ~Has(t, "k") THEN "trace: no kind"
    ELSE IF t.k = "w" THEN Flat(CheckW(t))
    ELSE IF t.k = "a" THEN Flat(CheckA(t))
    ELSE IF t.k = "b" THEN Flat(CheckB(t))
    ELSE IF t.k = "d" THEN Flat(CheckD(t))
    ELSE IF t.k = "life" THEN Flat(CheckLife(t))
    ELSE "trace: unknown kind"

Init == tid \in 1..Len(Traces) /\ verdict = Check(Traces[tid])
Next == UNCHANGED <<tid, verdict>>
Spec == Init /\ [][Next]_<<tid, verdict>>
VerdictOk == verdict = "ok"
=============================================================================
