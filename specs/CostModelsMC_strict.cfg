SPECIFICATION Spec
CONSTANTS
  Models = {"gap8_latency"}
  CinLo = 4
  CinHi = 4
  CinStep = 1
  CinExtra = {5, 8}
  CoutLo = 4
  CoutHi = 4
  CoutStep = 1
  CoutExtra = {5, 8}
  KSet = {1, 3}
  OSet = {1, 2}
  WSet = {8}
  ASet = {8}
PROPERTY StrictlyMonotone
