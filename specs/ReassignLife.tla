---------------------------- MODULE ReassignLife ----------------------------
(***************************************************************************)
(* C20, history independence of optimize_prec_assignment: whatever the     *)
(* user did to the model before (train / eval, forward passes, each single *)
(* sampling option of update_softmax_options, writes to alpha), the        *)
(* refinement must read the plain arg-max of the current alpha - then its  *)
(* outcome (chosen counts, assignment, cost) is the one of a fresh model   *)
(* with the same alpha.                                                    *)
(*                                                                         *)
(* KeepHist = TRUE : the pre-history is part of the state; TLC enumerates  *)
(*                   every history of at most MaxHist calls (the harness   *)
(*                   replays each one on a real model).                    *)
(* KeepHist = FALSE: no bound - the closure of all reachable option /      *)
(*                   sample states (histories of any length).              *)
(* Impl = "explicit" is the current tree and must satisfy the invariants;  *)
(* "hardOnly" (unspecified options kept, only hard requested) and          *)
(* "evalMode" (eval() instead of an explicit request) must violate them.   *)
(***************************************************************************)
EXTENDS Reassign, TLC

CONSTANTS Impl, MaxHist, KeepHist

VARIABLES st, hist

Init == st = LifeInit /\ hist = <<>>

Do(a) == /\ (KeepHist => Len(hist) < MaxHist)
         /\ st' = LifeStep(st, a)
         /\ hist' = IF KeepHist THEN Append(hist, a) ELSE hist

Next == \E a \in LifeActions : Do(a)
Spec == Init /\ [][Next]_<<st, hist>>

\* the refinement started in this state reads the arg-max of the current alpha
RefineSeesArgmax == SeesArgmax(RefinePrepared(Impl, st))
\* the history variable is what the model says it is
HistOk == KeepHist => st = LifeRun(LifeInit, hist, 1)
\* non-vacuity: without any preparation the refinement would NOT always see the arg-max
NeverNeeded == SeesArgmax(st)
=============================================================================
