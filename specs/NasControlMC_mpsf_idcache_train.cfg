SPECIFICATION Spec
CONSTANTS
  Impl = "idcache"
  Kind = "mps"
  Temps = {1000}
  Hetero = FALSE
  Part = "all"
  Dims = {"features", "rf", "dilation", "dc"}
  HOpts = {"gumbel"}
  Forking = TRUE
PROPERTY TrainExact
