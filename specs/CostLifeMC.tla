----------------------------- MODULE CostLifeMC -----------------------------
(***************************************************************************)
(* Histories on ONE shared layer description (C16, purity):                *)
(*   Eval(fn)     ask a registered cost function about the description     *)
(*   Set(f, v)    the owner of the description changes one field           *)
(* The first action is an Eval, no two Sets follow each other and the last *)
(* action is an Eval, so the maximal histories are exactly the interesting *)
(* ones:  E E .. E  (idempotence, interleaving of different cost           *)
(* functions) and E .. S E (sweep re-using the description, including      *)
(* moves into / out of the rejected region).  Every maximal history is     *)
(* replayed by the harness on one real dict.                               *)
(***************************************************************************)
EXTENDS CostLife, TLC

CONSTANTS Impl,        \* "pure" (reference) | "setdefault" | "memo_id" | "pop"
          MaxLen,      \* length of a history
          Layers,      \* layer types to enumerate
          NInit        \* how many initial descriptions (1 or 2)

VARIABLES l, i0, p, h, log, res
vars == <<l, i0, p, h, log, res>>

Ev(a, m, pat, f, v) == [a |-> a, m |-> m, pat |-> pat, f |-> f, v |-> v]

Init == /\ l \in Layers
        /\ i0 \in 1..NInit
        /\ \E g \in (IF l = "linear" THEN {1} ELSE {0, 1}) : p = InitDesc(l, g, i0)
        /\ h = H0
        /\ log = <<>>
        /\ res = <<"none">>

Eval(fn) ==
    /\ Len(log) < MaxLen
    /\ LET r == ImplEval(Impl, fn, p, h) IN res' = r.res /\ h' = r.h
    /\ log' = Append(log, Ev("eval", fn.m, fn.pat, "", 0))
    /\ UNCHANGED <<l, i0, p>>

Set(f, v) ==
    /\ Len(log) >= 1 /\ Len(log) < MaxLen - 1 /\ log[Len(log)].a = "eval"
    /\ FieldApplies(l, p.g, f) /\ v # FieldOf(p, f)
    /\ p' = SetFieldOf(l, p, f, v)
    /\ h' = ImplSet(h, f)
    /\ log' = Append(log, Ev("set", "", "", f, v))
    /\ UNCHANGED <<l, i0, res>>

Next == \/ \E fn \in FnsFor(l, p.g) : Eval(fn)
        \/ \E f \in LifeFields : \E v \in FieldDomain(f) : Set(f, v)

Spec == Init /\ [][Next]_vars

\* C16 (purity): what an evaluation returns is the value of the function on the CURRENT description,
\* whatever was evaluated or written before
EvalIsFunctionOfDescription ==
    (log # <<>> /\ log[Len(log)].a = "eval") =>
        res = RefEval([m |-> log[Len(log)].m, l |-> l, pat |-> log[Len(log)].pat], p)

\* C16 (frame): an evaluation adds, removes and changes nothing in the description
FrameUnchanged == h.akey = -1 /\ h.gone = {}

\* the enumeration really contains evaluations in the rejected region and returns from it
SomeRejected == res # <<"raise">>        \* expected to FAIL (non-vacuity)
=============================================================================
