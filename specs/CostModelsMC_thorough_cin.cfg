SPECIFICATION Spec
CONSTANTS
  Models = {"gap8_latency", "ne16_latency", "diana_latency"}
  CinLo = 4
  CinHi = 520
  CinStep = 1
  CinExtra = {}
  CoutLo = 4
  CoutHi = 4
  CoutStep = 1
  CoutExtra = {17, 129, 132, 520}
  KSet = {1, 3, 7}
  OSet = {4, 17}
  WSet = {0, 2, 8}
  ASet = {8}
INVARIANT AllDefined
INVARIANT NonNegative
INVARIANT PositiveNonEmpty
INVARIANT DwIsGenericPerGroup
INVARIANT HelpersExact
INVARIANT RejectsUnsupported
INVARIANT BigSound
PROPERTY Monotone
PROPERTY HelpersMonotone
