----------------------------- MODULE SNLifeTrace -----------------------------
(***************************************************************************)
(* Trace validation for C03 / C06.  One trace = one execution of a real     *)
(* plinio SuperNet built by harness/sn_gen.py from an abstract network:     *)
(*   [prop   |-> "C03" | "C06",          \* which property's clauses apply   *)
(*    net    |-> network record with MEASURED cost tables (see SNLife),      *)
(*    alpha0 |-> coefficients after construction (x 10^4),                   *)
(*    ev     |-> << events >>]                                               *)
(* net.names = qualified names of the blocks, net.fixedl = every layer outside *)
(* the blocks with its name and its hook-measured cost (names are sequences    *)
(* of characters).                                                            *)
(* Events (arguments + observations made on the real object):               *)
(*   [a |-> "construct", ok, err]        SuperNet(model, ...) itself           *)
(*   [a |-> "alpha", b, vals, how]       coefficients of block b (0-based),  *)
(*                                       written by copy_ / .data = / load_state_dict / optimizer step *)
(*   [a |-> "fork"] [a |-> "oalpha" | "ohard" | "ofwd" | "omode", ...]  deep copy; calls on the original *)
(*   [a |-> "hard", v] [a |-> "temp", t100] [a |-> "mode", training]         *)
(*   [a |-> "fwd" | "summary", training, theta, exact, ...]                  *)
(*   [a |-> "cost", metric, full, training, theta, exact, finite, cost10,    *)
(*          integral]                                                        *)
(*   [a |-> "export", ok, err, kept, comb, extra, fixed_kept,                *)
(*          fixed_untouched, runs, out_equal_hard, exp]                      *)
(* theta is logged x 10^4 (D = 10000), cost10 = round(10 * cost).  The spec  *)
(* carries the abstract state (coefficients, hard flag, freshness of the    *)
(* stored sample, last export) through the events and evaluates the SAME    *)
(* operators as the design-level machine on the logged values.              *)
(* Verdict: "ok" | failing clause | "known:Fxx:..." | "drift:...".          *)
(***************************************************************************)
EXTENDS SNLife, Json, IOUtils, TLC

CONSTANT ExportImpl      \* "pinned" (export_graph before 3afbd30) | "ref": used for predictions only

Traces == JsonDeserialize(IOEnv.TRACE_FILE)

VARIABLES tid, verdict

DD == 10000

Abs(x) == IF x < 0 THEN -x ELSE x

\* tolerance of the mix clause in units of 10^-4 (see harness/checks/c06.py, "tolerances"):
\*   exact one-hot sample: every term is an integer below 2^24, float32 arithmetic is exact -> 0
\*   otherwise: 500 (cost10 is rounded to 0.1) + half a unit of theta per branch cost
\*              + float32 accumulation (max cost / 20 in these units  ~ 5e-6 relative)
Tol(impl, metric, net, exact) ==
    IF \A b \in 1..Len(exact) : exact[b] THEN 0
    ELSE 500 + (SumBranchCosts(impl, metric, net) \div 2) + (MaxCostOf(impl, metric, net) \div 20) + 1

IsProb(th) == \A b \in 1..Len(th) :
                 /\ \A i \in 1..Len(th[b]) : th[b][i] >= 0
                 /\ Abs(SumSeq(th[b]) - DD) <= Len(th[b])

WinSets(alpha) == [b \in 1..Len(alpha) |-> ArgMaxSet(alpha[b])]
AsisWin(alpha) == [b \in 1..Len(alpha) |-> FirstArgMax(alpha[b])]
NoTie(alpha)   == \A b \in 1..Len(alpha) : Cardinality(ArgMaxSet(alpha[b])) = 1
\* every tie at the logged resolution is a bit-exact tie of the float parameters (logged by the harness at export)
ExactTies(alpha, e) ==
    /\ "exactmax" \in DOMAIN e
    /\ Len(e.exactmax) = Len(alpha)
    /\ \A b \in 1..Len(alpha) : ArgMaxSet(alpha[b]) = {e.exactmax[b][j] : j \in 1..Len(e.exactmax[b])}

----------------------------------------------------------------------------
\* verdict of one event: ok / violated property clause / signature of a listed finding
OK       == [k |-> "ok", m |-> "ok"]
Viol(m)  == [k |-> "viol", m |-> m]
Known(m) == [k |-> "known", m |-> m]

F03Raise == "known:F03:export() raises when the winning branch is a user block whose last operation is functional"
F03Wrong(a, w) == "known:F03:export() silently exports branch " \o ToString(a) \o " instead of " \o ToString(w)
                     \o " (decimal-prefix name match; the winner has a functional tail)"
F23Text  == "known:F23:per-invocation cost charges each branch layer once per block call with the shape of its first call site"

\* C03 clauses on an export event; st.alpha = coefficients at the time of the call
ExportVerdict(net, st, e, i) ==
    LET W    == WinSets(st.alpha)
        aw   == AsisWin(st.alpha)
        sig  == F03Sig(net, aw)
        asis == Export("pinned", net, aw)
        at   == "C03 event " \o ToString(i) \o ": "
    IN
    IF ~e.ok THEN
        \* scenario predicate + failure mode of the root cause (no combiner input is recognised by name)
        IF sig /\ e.err = "erase-with-users"
        THEN Known(F03Raise)
        ELSE Viol(at \o "ExportSucceeds: export() raised " \o e.err \o " winners " \o ToString(aw))
    ELSE IF ~(\A b \in 1..NB(net) : \E w \in W[b] : e.kept[b] = KeptRow(net.blocks[b], w)) THEN
        IF sig /\ ~ExportFails(asis) /\ e.kept = KeptCounts(net, asis)
        THEN Known(F03Wrong(asis, aw))
        ELSE Viol(at \o "KeptModules: leaf modules kept per branch " \o ToString(e.kept) \o " winners " \o ToString(aw))
    ELSE IF e.comb # 0 THEN Viol(at \o "NoCombinerLeft: " \o ToString(e.comb) \o " combiner(s) left")
    ELSE IF e.extra # 0 THEN Viol(at \o "KeptModules: unexpected modules under a choice block")
    ELSE IF ~e.fixed_kept THEN Viol(at \o "FixedUntouched: set of layers outside choice blocks changed")
    ELSE IF ~e.fixed_untouched THEN Viol(at \o "FixedUntouched: state of a layer outside choice blocks changed")
    ELSE IF ~e.runs THEN Viol(at \o "OutEqualHard: exported network does not run")
    \* coefficients that tie at the logged resolution (1e-4) leave the hard selection ambiguous (the one-hot
    \* is the arg-max of softmax(alpha / T) in float32, export takes the arg-max of alpha): any arg-max
    \* branch is accepted above and output equality is only required without such a tie
    ELSE IF NoTie(st.alpha) /\ ~e.out_equal_hard
        THEN Viol(at \o "OutEqualHard: output differs from the SuperNet under hard selection, winners " \o ToString(aw))
    \* an EXACT tie (the tied floats are bit-equal: the logged arg-max set is the bit-exact one) is not ambiguous:
    \* "the branch with the largest coefficient" that export keeps must be the one the hard selection evaluates
    ELSE IF ExactTies(st.alpha, e) /\ ~e.out_equal_hard
        THEN Viol(at \o "OutEqualHard: output differs from the SuperNet under hard selection although the coefficients"
                  \o " tie exactly (arg-max sets " \o ToString(e.exactmax) \o ")")
    ELSE OK

\* the export succeeded but kept another branch in exactly the way finding F03 does (reported under C03;
\* for C06 such an export is not "the exported network" and is not compared with the cost)
F03WrongBranch(net, st, e) ==
    LET aw == AsisWin(st.alpha)
        asis == Export("pinned", net, aw)
    IN  e.ok /\ F03Sig(net, aw) /\ ~ExportFails(asis) /\ asis # aw /\ e.kept = KeptCounts(net, asis)

\* prediction (never an alarm): the as-implemented export model predicts success / failure
ExportDrift(net, st, e) ==
    LET pred == Export(ExportImpl, net, AsisWin(st.alpha)) IN
    IF e.ok = ExportFails(pred) THEN "drift:export outcome differs from the as-implemented model" ELSE "ok"

----------------------------------------------------------------------------
\* diagnostic appended to a failed mix clause: does a NAME-based rule for "inside a choice block" explain
\* the observed full cost?  (the verdict stays a violation)
NameDiag(m, net, e, obs, tol) ==
    LET base == Mix("ref", m, net, e.theta, FALSE, DD)
        fits(impl) == Abs(obs - (base + DD * FixedChargedCost(impl, m, net, {}))) <= tol
    IN  IF ~e.full THEN ""
        ELSE IF PrefixCollision(net.names, FixedNames(net)) /\ fits("prefix")
             THEN " [consistent with: fixed layers whose name STARTS LIKE a block's name are not charged]"
        ELSE IF fits("sn") THEN " [consistent with: fixed layers with 'sn_' in their name are not charged]"
        ELSE IF Abs(obs - base) <= tol THEN " [consistent with: no fixed layer is charged]"
        ELSE ""

\* C06 clauses on a cost event
CostVerdict(net, st, e, i) ==
    LET m    == e.metric
        obs  == 1000 * e.cost10                       \* 10^4 * cost
        ref  == Mix("ref", m, net, e.theta, e.full, DD)
        asis == Mix("asis", m, net, e.theta, e.full, DD)
        tol  == Tol("ref", m, net, e.exact)
        at   == "C06 event " \o ToString(i) \o " " \o m \o (IF e.full THEN " full" ELSE "") \o ": "
        hardsel == st.hard /\ st.fresh /\ ~(net.gumbel /\ st.strain)
        aw   == AsisWin(st.alpha)
        hot  == HotTheta(net, aw, DD)
        f23  == F23Sig(m, net, e.theta) /\ Abs(obs - asis) <= Tol("asis", m, net, e.exact)
        f23h == F23Sig(m, net, hot) /\ obs = Mix("asis", m, net, hot, e.full, DD)
        expc == IF Shared(m) THEN (IF e.full THEN st.exp.par ELSE st.exp.par - st.exp.fpar)
                ELSE (IF e.full THEN st.exp.ops ELSE st.exp.ops - st.exp.fops)
    IN
    IF ~e.finite THEN Viol(at \o "cost is not finite (or out of range)")
    ELSE IF Abs(obs - ref) > tol THEN
        IF f23 THEN Known(F23Text)
        ELSE Viol(at \o "Mix: observed 10^4*cost " \o ToString(obs) \o " expected " \o ToString(ref)
                     \o " +- " \o ToString(tol) \o " theta " \o ToString(e.theta) \o NameDiag(m, net, e, obs, tol))
    \* unconditional: SuperNet.__init__ already samples once, so whatever is stored must weight the branches
    \* like a selection (a one-branch block costs its branch whatever its coefficient)
    ELSE IF ~(/\ DD * MinCost(m, net, e.full) - tol <= obs
              /\ obs <= DD * MaxCost(m, net, e.full) + tol)
        THEN Viol(at \o "Bounds: 10^4*cost " \o ToString(obs) \o " outside [cheapest, most expensive] selection ["
                     \o ToString(DD * MinCost(m, net, e.full)) \o ", " \o ToString(DD * MaxCost(m, net, e.full))
                     \o "] theta " \o ToString(e.theta))
    ELSE IF hardsel /\ NoTie(st.alpha) /\ obs # DD * ExportCost(m, net, aw, e.full) THEN
        IF f23h THEN Known(F23Text)
        ELSE Viol(at \o "HardIsArgmax: hard selection but 10^4*cost " \o ToString(obs)
                     \o " is not the cost of the arg-max branches " \o ToString(DD * ExportCost(m, net, aw, e.full)))
    ELSE IF hardsel /\ NoTie(st.alpha) /\ st.expvalid /\ (~e.integral \/ e.cost10 # 10 * expc) THEN
        IF f23h THEN Known(F23Text)
        ELSE Viol(at \o "HardIsExport: hard selection but 10*cost " \o ToString(e.cost10)
                     \o " differs from the metric measured on the exported network " \o ToString(10 * expc))
    ELSE OK

\* prediction (never an alarm): class of the stored sample after a sampling event
SampleDrift(net, st, e) ==
    LET aw == AsisWin(st.alpha) IN
    IF ~IsProb(e.theta) THEN "drift:sampled coefficients are not a probability vector"
    ELSE IF st.hard /\ ~(net.gumbel /\ e.training) /\ NoTie(st.alpha) /\ e.theta # HotTheta(net, aw, DD)
    THEN "drift:hard sample is not the one-hot of the arg-max"
    ELSE "ok"

----------------------------------------------------------------------------
Keep(old, new) == IF old = "" /\ new # "ok" THEN new ELSE old

\* Every event is consumed.  A violated property clause ends the walk (first failing clause); a known-finding
\* signature or a drift is remembered and the walk goes on, so that a listed finding never hides a
\* different violation later in the same execution.
RECURSIVE Walk(_, _, _, _, _)
Walk(prop, net, ev, i, st) ==
    IF i > Len(ev) THEN (IF st.known # "" THEN st.known ELSE IF st.drift # "" THEN st.drift ELSE "ok")
    ELSE LET e == ev[i] IN
    CASE e.a = "alpha" ->
            IF e.b + 1 \notin 1..NB(net) \/ Len(e.vals) # NBr(net.blocks[e.b + 1])
            THEN "trace: malformed alpha event"
            ELSE Walk(prop, net, ev, i + 1,
                      [st EXCEPT !.alpha[e.b + 1] = e.vals, !.fresh = FALSE, !.expvalid = FALSE])
      [] e.a = "hard" -> Walk(prop, net, ev, i + 1, [st EXCEPT !.hard = e.v, !.fresh = FALSE])
      [] e.a = "temp" -> Walk(prop, net, ev, i + 1, [st EXCEPT !.fresh = FALSE])
      [] e.a = "mode" -> Walk(prop, net, ev, i + 1, [st EXCEPT !.fresh = FALSE])
      [] e.a = "fwd" ->
            Walk(prop, net, ev, i + 1,
                 [st EXCEPT !.fresh = TRUE, !.strain = e.training,
                            !.drift = Keep(st.drift, SampleDrift(net, st, e))])
      [] e.a = "construct" ->
            \* a model whose fixed layers use the reserved attribute name is rejected by SuperNet(...):
            \* counted as unsupported, anything else must be accepted
            IF e.ok THEN Walk(prop, net, ev, i + 1, st)
            ELSE IF ReservedClash(FixedNames(net)) THEN "ok"
            ELSE prop \o " event " \o ToString(i) \o ": SuperNet(...) raised " \o e.err
      \* two objects: "fork" = the driver deep-copied the SuperNet and goes on with the COPY; o* events were
      \* applied to the ORIGINAL.  The reference model keeps the copy's state: none of them changes it.
      [] e.a \in {"fork", "oalpha", "ohard", "ofwd", "omode"} -> Walk(prop, net, ev, i + 1, st)
      [] e.a = "summary" ->      \* an observer since plinio commit ba220ec: it neither samples nor stores coefficients
            Walk(prop, net, ev, i + 1, st)
      [] e.a = "cost" ->
            LET v == IF prop = "C06" THEN CostVerdict(net, st, e, i) ELSE OK IN
            IF v.k = "viol" THEN v.m
            ELSE Walk(prop, net, ev, i + 1, [st EXCEPT !.known = Keep(st.known, v.m)])
      [] e.a = "export" ->
            LET v == IF prop = "C03" THEN ExportVerdict(net, st, e, i) ELSE OK IN
            IF v.k = "viol" THEN v.m
            ELSE Walk(prop, net, ev, i + 1,
                      [st EXCEPT !.expvalid = e.ok /\ ~F03WrongBranch(net, st, e), !.exp = e.exp,
                                 !.known = Keep(st.known, v.m),
                                 !.drift = Keep(st.drift, ExportDrift(net, st, e))])
      [] OTHER -> "trace: unknown event"

WellFormed(t) ==
    /\ t.prop \in {"C03", "C06"}
    /\ Len(t.alpha0) = NB(t.net)
    /\ Len(t.net.names) = NB(t.net)
    \* the per-layer list of fixed layers adds up to the totals the harness measured
    /\ FixedCost("params", t.net) = t.net.fixed.par /\ FixedCost("ops", t.net) = t.net.fixed.ops
    /\ \A b \in 1..NB(t.net) :
          /\ Len(t.alpha0[b]) = NBr(t.net.blocks[b])
          /\ Len(t.net.blocks[b].ct) = NBr(t.net.blocks[b])
          /\ \A i \in 1..NBr(t.net.blocks[b]) :
                /\ t.net.blocks[b].kinds[i] \in Kinds
                /\ Len(t.net.blocks[b].ct[i].ops) = t.net.blocks[b].uses
                /\ Len(t.net.blocks[b].ct[i].uops) = t.net.blocks[b].uses

Check(t) ==
    IF ~WellFormed(t) THEN "trace: malformed"
    ELSE Walk(t.prop, t.net, t.ev, 1,
              [alpha |-> t.alpha0, hard |-> t.net.hard0,
               fresh |-> TRUE, strain |-> FALSE,       \* construction samples once, in eval mode
               expvalid |-> FALSE, exp |-> [par |-> 0, ops |-> 0, fpar |-> 0, fops |-> 0],
               known |-> "", drift |-> ""])

Init == tid \in 1..Len(Traces) /\ verdict = Check(Traces[tid])
Next == UNCHANGED <<tid, verdict>>
Spec == Init /\ [][Next]_<<tid, verdict>>
VerdictOk == verdict = "ok"
=============================================================================
