SPECIFICATION Spec
CONSTANTS
  Method = "pit"
  Impl = "dropsfrozen"
  MaxLen = 2
INVARIANT KeyOk
INVARIANT Coherent
PROPERTY ObserversNeutral
