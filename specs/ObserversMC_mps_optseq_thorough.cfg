SPECIFICATION Spec
CONSTANTS
    Impl = "ref"
    Kind = "mps"
    Half = "options"
    Temps = {1000, 500}
    MaxBn = 0
    TrackHist = TRUE
    MaxLen = 5
INVARIANT TypeOK
INVARIANT Erasure
