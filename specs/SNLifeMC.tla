------------------------------ MODULE SNLifeMC ------------------------------
(***************************************************************************)
(* Design-level state machine for C03 / C06.                                *)
(*                                                                         *)
(* Init chooses a network skeleton from an explicitly enumerated family     *)
(* (1..MaxBlocks choice blocks, every sequence of branch kinds over KindSet *)
(* with a length in NBrSet, invoked once or twice, with or without a        *)
(* resolution change between the two invocations; plus, when BigN > 0, one  *)
(* block of BigN branches in which two positions carry arbitrary kinds -    *)
(* the decimal-prefix case of the name matching).                           *)
(* Actions are the public calls that change what export / cost see:         *)
(*   SetAlpha(b, w)  the coefficients of block b change, branch w now wins  *)
(*   SetHard(h)      update_softmax_options(hard = h)                       *)
(*   SetMode(t)      train() / eval()                                       *)
(*   Forward re-samples theta_alpha from the coefficients; Summary is an    *)
(*   observer since plinio commit ba220ec (it used to re-sample as well)   *)
(*   Fork            obj := copy.deepcopy(obj); the history goes on with the *)
(*                   copy while OSetAlpha / OSetHard / OForward perturb the  *)
(*                   original (two objects that must be independent)        *)
(* export() and cost are observers: they are derived operators evaluated in *)
(* EVERY reachable state by the invariants below (and executed on the real  *)
(* library in every reachable state by the harness).                        *)
(*                                                                         *)
(* Impl = "ref"  : intended behaviour.   Impl = "asis" : transcription of   *)
(* the pinned code.  ExcludeKF = TRUE restricts the invariants to scenarios *)
(* outside the signatures of the listed findings (F03, F23); the config     *)
(* with Impl = "asis", ExcludeKF = FALSE is EXPECTED to fail (sanity).      *)
(***************************************************************************)
EXTENDS SNLife, TLC

CONSTANTS Impl, ExcludeKF,
          KindSet, NBrSet, MaxBlocks, UseSet, PoolSet, GumbelSet, HardSet,
          BigN,        \* 0, or the size of the big single block
          NameFamily,  \* "plain" | "collide": block names drawn from BlockNamePool, fixed layers named so
                       \* that they extend / are extended by / share leaf names with the block names
          NameImpl,    \* naming rule of the top-level cost loop that is checked (see SNLife!Inside)
          SampleImpl,  \* "ref" | "nosample1" (defective: one-branch blocks never sample; expected to fail)
          ForkImpl,    \* "ref": a deep copy is independent of the original | "shared" (defective: the copy's
                       \* sampler is still bound to the original; expected to fail)
          Acts,        \* enabled actions
          D            \* theta is explored in units of 1/D

VARIABLES net, win, hard, training, cls,
          orig         \* [on |-> FALSE] until Fork; then the state [win, hard, cls] of the ORIGINAL object, while
                       \* win / hard / training / cls go on describing the deep copy
vars == <<net, win, hard, training, cls, orig>>
copyvars == <<net, win, hard, training, cls>>

KindSeqs   == UNION {[1..n -> KindSet] : n \in NBrSet}
BlockSkels == {s \in {[kinds |-> ks, uses |-> u, pool |-> p] : ks \in KindSeqs, u \in UseSet, p \in PoolSet} :
                  s.pool => s.uses = 2}
BigBlocks  == IF BigN = 0 THEN {}
              ELSE {[kinds |-> [i \in 1..BigN |-> IF i = pq[1] THEN kk[1] ELSE IF i = pq[2] THEN kk[2] ELSE "layer"],
                     uses |-> 1, pool |-> FALSE] :
                        pq \in {x \in (1..BigN) \X (1..BigN) : x[1] < x[2]}, kk \in KindSet \X KindSet}
BlockSeqs  == UNION {[1..k -> BlockSkels] : k \in 1..MaxBlocks} \cup {<<bb>> : bb \in BigBlocks}
Namings(k)  == IF NameFamily = "plain" THEN {<<>>}
               ELSE {nm \in [1..k -> BlockNamePool] : \A a, b \in 1..k : a # b => nm[a] # nm[b]}
NetSkels   == {[gumbel |-> g, hard0 |-> h, blocks |-> bs, naming |-> nm] :
                  g \in GumbelSet, h \in HardSet, bs \in BlockSeqs, nm \in UNION {Namings(k) : k \in 1..MaxBlocks}}
NetSkelsOK == {s \in NetSkels : s.naming = <<>> \/ Len(s.naming) = Len(s.blocks)}

MaxW == MaxOf(NBrSet \cup {BigN}) - 1
N == WithCT(net)                       \* the network with its (abstract) cost tables

NBranches(b) == Len(net.blocks[b].kinds)
Sample(h, t, w) == [b \in 1..Len(net.blocks) |-> SampleClassI(SampleImpl, NBranches(b), net.gumbel, h, t, w[b])]

Init ==
    /\ net \in NetSkelsOK
    /\ win = [b \in 1..Len(net.blocks) |-> 0]          \* uniform coefficients: torch.argmax gives 0
    /\ hard = net.hard0
    /\ training = TRUE                                 \* the harness calls train() after construction
    \* SuperNet.__init__ runs one forward pass in eval mode (shape propagation)
    /\ cls = Sample(net.hard0, FALSE, win)
    /\ orig = [on |-> FALSE]

SetAlpha(b, w) ==
    /\ "SetAlpha" \in Acts
    /\ b <= Len(net.blocks)
    /\ w \in Br(net.blocks[b])
    /\ w # win[b]
    /\ win' = [win EXCEPT ![b] = w]
    /\ UNCHANGED <<net, hard, training, cls, orig>>

SetHard(h) ==
    /\ "SetHard" \in Acts
    /\ h # hard
    /\ hard' = h
    /\ UNCHANGED <<net, win, training, cls, orig>>

SetMode(t) ==
    /\ "SetMode" \in Acts
    /\ t # training
    /\ training' = t
    /\ UNCHANGED <<net, win, hard, cls, orig>>

\* forward of the object the history follows (the copy after a Fork).  ForkImpl = "shared": the copy's
\* sampler is a closure over the ORIGINAL combiner - it re-samples the original's theta from the original's
\* coefficients / options / mode and leaves the copy's stored sample as it was.
Forward ==
    /\ "Forward" \in Acts
    /\ IF ForkImpl = "shared" /\ orig.on
       THEN cls' = cls /\ orig' = [orig EXCEPT !.cls = Sample(orig.hard, TRUE, orig.win)]
       ELSE cls' = Sample(hard, training, win) /\ orig' = orig
    /\ UNCHANGED <<net, win, hard, training>>
Summary == "Summary" \in Acts /\ UNCHANGED vars

\* obj := deepcopy(obj): the copy starts in the state of the original
Fork ==
    /\ "Fork" \in Acts
    /\ ~orig.on
    /\ orig' = [on |-> TRUE, win |-> win, hard |-> hard, cls |-> cls]
    /\ UNCHANGED copyvars

\* perturbations of the ORIGINAL after the fork (it stays in training mode)
OSetAlpha(b, w) ==
    /\ "Fork" \in Acts /\ orig.on
    /\ b <= Len(net.blocks) /\ w \in Br(net.blocks[b]) /\ w # orig.win[b]
    /\ orig' = [orig EXCEPT !.win[b] = w]
    /\ UNCHANGED copyvars
OSetHard(h) ==
    /\ "Fork" \in Acts /\ orig.on /\ h # orig.hard
    /\ orig' = [orig EXCEPT !.hard = h]
    /\ UNCHANGED copyvars
OForward ==
    /\ "Fork" \in Acts /\ orig.on
    /\ orig' = [orig EXCEPT !.cls = Sample(orig.hard, TRUE, orig.win)]
    /\ UNCHANGED copyvars

Next ==
    \/ \E b \in 1..MaxBlocks, w \in 0..MaxW : SetAlpha(b, w)    \* constant bounds: one labelled action per (b, w)
    \/ \E h \in BOOLEAN : SetHard(h)
    \/ \E t \in BOOLEAN : SetMode(t)
    \/ Forward
    \/ Summary
    \/ Fork
    \/ \E b \in 1..MaxBlocks, w \in 0..MaxW : OSetAlpha(b, w)
    \/ \E h \in BOOLEAN : OSetHard(h)
    \/ OForward

Spec == Init /\ [][Next]_vars

----------------------------------------------------------------------------
\* Invariant bodies take the network with its cost tables (n), the as-implemented / reference export
\* (e) and the set of theta vectors compatible with the stored sample classes (ths) as arguments, so
\* that TLC evaluates WithCT(net) once per invariant and state (LET definitions are cached).
GuardExp(n)  == ~(ExcludeKF /\ Impl = "pinned" /\ F03Sig(n, win))
GuardCost(n) == ~(ExcludeKF /\ F23Net(n))

\* every theta vector compatible with what the combiners currently store
CurThetas(n) == Prod([b \in 1..NB(n) |-> ThetaSet(cls[b], NBr(n.blocks[b]), D)], NB(n))

TypeOK ==
    LET n == N IN
    /\ hard \in BOOLEAN /\ training \in BOOLEAN
    /\ \A b \in 1..NB(n) : win[b] \in Br(n.blocks[b]) /\ cls[b].c \in {"hot", "hotany", "soft", "prob", "raw"}
    /\ orig.on => \A b \in 1..NB(n) : orig.win[b] \in Br(n.blocks[b])

\* ---- C03
C03_ExportSucceeds == LET n == N IN GuardExp(n) => ~ExportFails(Export(Impl, n, win))
C03_ExportIsWinner == LET n == N IN GuardExp(n) => Export(Impl, n, win) = Export("ref", n, win)
C03_KeptModules    == LET n == N IN GuardExp(n) => KeptCounts(n, Export(Impl, n, win)) = KeptCounts(n, win)
\* the signature of F03 (repaired by 3afbd30) is exact: the PINNED export deviates iff a winner has a functional tail
F03SigExact == LET n == N IN F03Sig(n, win) <=> (Export("pinned", n, win) # Export("ref", n, win))

\* ---- C06
C06_Bounds ==
    LET n == N  ths == CurThetas(n) IN
    GuardCost(n) => \A m \in Metrics, f \in BOOLEAN :
        LET lo == D * MinCost(m, n, f)  hi == D * MaxCost(m, n, f) IN
        \A th \in ths : LET c == Mix(Impl, m, n, th, f, D) IN lo <= c /\ c <= hi

C06_AsisIsRef ==
    LET n == N  ths == CurThetas(n) IN
    GuardCost(n) => \A m \in Metrics, f \in BOOLEAN : \A th \in ths :
        Mix("asis", m, n, th, f, D) = Mix("ref", m, n, th, f, D)

\* under hard selection the cost is the cost of the exported network
C06_HardIsExport ==
    LET n == N  e == Export(Impl, n, win) IN
    (HardSelection(net.gumbel, hard, training) /\ GuardExp(n) /\ GuardCost(n) /\ ~ExportFails(e)) =>
        \A m \in Metrics, f \in BOOLEAN :
            Mix(Impl, m, n, HotTheta(n, win, D), f, D) = D * ExportCost(m, n, e, f)

\* whenever the stored vectors are one-hot the cost is that of the network made of those branches
C06_StoredHot ==
    LET n == N  ths == CurThetas(n) IN
    (GuardCost(n) /\ \A b \in 1..NB(n) : cls[b].c = "hot") =>
        \A m \in Metrics, f \in BOOLEAN : \A th \in ths :
            Mix(Impl, m, n, th, f, D) = D * ExportCost(m, n, [b \in 1..NB(n) |-> cls[b].at], f)

\* ---- names: what is charged at top level under full_cost is decided by the structure, not by the names
\* (the family "collide" makes fixed-layer names extend block names, be numeric siblings f.1 / f.10 of a
\* long Sequential, and repeat leaf names of block-internal layers in other containers)
C06_FullCostAllFixed ==
    LET n == N  int == InternalNames(n) IN
    ~ReservedClash(FixedNames(n)) =>
        /\ \A k \in 1..Len(n.fixedl) : ~Inside(NameImpl, n.names, int, n.fixedl[k].name)
        /\ \A x \in int : Inside(NameImpl, n.names, int, x)
        /\ \A m \in Metrics : FixedChargedCost(NameImpl, m, n, int) = FixedCost(m, n)
\* non-vacuity of the family: it does contain prefix collisions
NamesCollide == LET n == N IN NameFamily = "collide" => PrefixCollision(n.names, FixedNames(n))

\* the signature of F23 is exact
F23SigExact ==
    LET n == N  ths == CurThetas(n) IN
    /\ F23Net(n) <=> \E b \in 1..NB(n) : \E i \in 1..NBr(n.blocks[b]) :
                        BranchCost("asis", "ops", n.blocks[b], i) # BranchCost("ref", "ops", n.blocks[b], i)
    /\ \A m \in Metrics : \A th \in ths :
          Mix("asis", m, n, th, FALSE, D) # Mix("ref", m, n, th, FALSE, D) => F23Sig(m, n, th)

\* ---- two objects: a deep copy is independent of the original (action properties)
\* a forward pass of the followed object stores a sample of ITS OWN coefficients / options / mode
ForwardSamplesOwnState == [][Forward => cls' = Sample(hard, training, win)]_vars
\* nothing done to the original changes what the copy stores
ForkIsolation ==
    [][(orig.on /\ orig' # orig /\ ~Forward) => UNCHANGED copyvars]_vars
=============================================================================
