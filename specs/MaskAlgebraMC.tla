---------------------------- MODULE MaskAlgebraMC ----------------------------
(***************************************************************************)
(* Exhaustive design check of the time-mask algebra (C01 time axis, C08).  *)
(* Mode "values":   every assignment of the abstract value domain V to     *)
(*                  every |beta_i|, |gamma_i| for K in 1..KMaxV            *)
(* Mode "gamma":    K in {5,7,9} (<= KMaxV), every assignment of the gamma_i *)
(* Mode "patterns": every (K in 1..KMaxP, d0 in 1..3, cut, lev)            *)
(* One-step enumeration: every state is one mask assignment of one layer.  *)
(***************************************************************************)
EXTENDS MaskAlgebra, TLC

CONSTANTS Anchor,      \* "last" (repaired code) | "tap0" (pinned code, finding F01)
          Mode, KMaxV, KMaxP

VARIABLES K, d0, b, g, phase

vars == <<K, d0, b, g, phase>>

Init ==
    /\ phase = "set"
    /\ IF Mode = "values"
       THEN /\ K \in 1..KMaxV /\ d0 = 1
            /\ b \in [0..K-1 -> V] /\ b[K-1] = One          \* the keep-alive elements are overridden anyway
            /\ g \in [0..GLen(K)-1 -> V] /\ g[GLen(K)-1] = One
       ELSE IF Mode = "gamma"
       \* wide kernels (three or four dilation levels): every value assignment of the dilation parameters on top of an
       \* open / once-cut receptive field (the sums of sub-threshold magnitudes over shared taps are what matters here)
       THEN /\ K \in {5, 7, 9} /\ K <= KMaxV /\ d0 = 1
            /\ \E cut \in 0..1 : b = BetaOfCut(K, cut)
            /\ g \in [0..GLen(K)-1 -> V] /\ g[GLen(K)-1] = One
       ELSE /\ K \in 1..KMaxP /\ d0 \in 1..3
            /\ \E cut \in 0..K-1, lev \in 0..GLen(K)-1 :
                   b = BetaOfCut(K, cut) /\ g = GammaOfLev(K, lev)

\* one-step enumeration: the space is the set of initial states (neighbouring masks are compared by
\* the Monotone* invariants, so no transition fan-out is needed)
Next == UNCHANGED vars

Spec == Init /\ [][Next]_vars

\* C08: a kernel of at least one tap and a dilation of at least one, whatever the parameters
AtLeastOneTap == KOpt(Anchor, K, b, g) >= 1
DilAtLeastOne == DilOpt(Anchor, K, g, d0) >= d0
\* both keep-alive elements refer to the same tap (the one that reads the current sample)
KeepAliveSameTap == (K - 1) \in Kept(Anchor, K, b, g)
\* C01 (time axis): the exported kernel/dilation/padding compute the same function
ExportEquivalent == TermsEqual(Anchor, K, b, g, d0)
\* the same for a layer declared with padding='same': holds when no tap is pruned, FAILS as soon as one is
\* (finding F67: the exported layer re-centres a kernel whose kept taps are the trailing ones)
ExportEquivalentSame     == TermsEqualSame(Anchor, K, b, g, d0)
ExportEquivalentSameOpen == (Kept(Anchor, K, b, g) = 0..K-1) => TermsEqualSame(Anchor, K, b, g, d0)
\* the reachable binarised patterns are exactly suffix x comb
PatternShape == IsSuffixComb(K, Kept(Anchor, K, b, g))
\* C12 (monotonicity on the mask lattice): raising one magnitude never shrinks the kept set
MonotoneBeta  == \A i \in 0..K-1, v \in V : v >= b[i] =>
                     Kept(Anchor, K, b, g) \subseteq Kept(Anchor, K, [b EXCEPT ![i] = v], g)
MonotoneGamma == \A i \in 0..GLen(K)-1, v \in V : v >= g[i] =>
                     Kept(Anchor, K, b, g) \subseteq Kept(Anchor, K, b, [g EXCEPT ![i] = v])
AllOpenIsFull == ((\A i \in 0..K-1 : b[i] > Thr) /\ (\A i \in 0..GLen(K)-1 : g[i] > Thr))
                     => Kept(Anchor, K, b, g) = 0..K-1 /\ DilOpt(Anchor, K, g, d0) = d0
=============================================================================
