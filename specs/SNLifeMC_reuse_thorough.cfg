SPECIFICATION Spec
CONSTANTS
  Impl = "asis"
  ExcludeKF = TRUE
  KindSet = {"layer", "seq", "ubm", "ubf", "id", "ubr"}
  NBrSet = {1, 2, 3}
  MaxBlocks = 1
  UseSet = {2}
  PoolSet = {FALSE, TRUE}
  GumbelSet = {FALSE}
  HardSet = {TRUE}
  BigN = 0
  Acts = {"SetAlpha"}
  D = 4
  NameFamily = "plain"
  NameImpl = "asis"
  SampleImpl = "ref"
  ForkImpl = "ref"
INVARIANT TypeOK
INVARIANT C03_ExportSucceeds
INVARIANT C03_ExportIsWinner
INVARIANT C03_KeptModules
INVARIANT F03SigExact
INVARIANT C06_Bounds
INVARIANT C06_AsisIsRef
INVARIANT C06_HardIsExport
INVARIANT C06_StoredHot
INVARIANT C06_FullCostAllFixed
INVARIANT F23SigExact
