SPECIFICATION Spec
INVARIANT VerdictOk
