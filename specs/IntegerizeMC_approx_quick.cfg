SPECIFICATION Spec
CONSTANTS
  Impl = "ref"
  Mode = "approx"
  InBits = {0}
  OutBits = {0}
  WVals <- None1
  BVals <- B_approx_quick
  Targets <- T_approx_quick
  ScaleBits = {4, 12}
  ShiftPoss = {12}
  BigVals <- None1
  BigShifts = {0}
INVARIANT SelNone
INVARIANT SelSound
INVARIANT SelOptimal
INVARIANT ScalesRange
INVARIANT ErrBelowStep
INVARIANT BridgeFits
INVARIANT BridgeSelect
