SPECIFICATION Spec
INVARIANT VerdictOk
