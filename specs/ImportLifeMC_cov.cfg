SPECIFICATION Spec
CONSTANTS
  Impl = "ref"
  MaxNodes = 1
  Widths = {2}
  Dims = {1, 2}
  C0 = 2
  Sp0 = 2
  Methods = {"PIT", "SN", "MPS"}
  Twos = {"no", "add", "cat"}
  AllowPl = TRUE
  AllowExcl = TRUE
  AllowReuse = TRUE
  AllowFindings = TRUE
INVARIANT InvFnPreserved
INVARIANT InvUserParams
INVARIANT InvUserFn
INVARIANT InvModeKept
INVARIANT InvExportIso
INVARIANT InvExportLiteral
INVARIANT InvBnAccount
INVARIANT InvWellFormed
