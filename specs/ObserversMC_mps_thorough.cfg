SPECIFICATION Spec
CONSTANTS
    Impl = "ref"
    Kind = "mps"
    MaxBn = 2
    TrackHist = FALSE
    MaxLen = 0
INVARIANT TypeOK
INVARIANT ModesAgree
INVARIANT NoNewKeys
PROPERTY ObserversNeutral
PROPERTY SetterFrame
