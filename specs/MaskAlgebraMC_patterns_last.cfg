SPECIFICATION Spec
CONSTANTS
  Anchor = "last"
  Mode = "patterns"
  KMaxV = 5
  KMaxP = 12
INVARIANT AtLeastOneTap
INVARIANT DilAtLeastOne
INVARIANT KeepAliveSameTap
INVARIANT ExportEquivalent
INVARIANT PatternShape
INVARIANT MonotoneBeta
INVARIANT MonotoneGamma
INVARIANT AllOpenIsFull
INVARIANT ExportEquivalentSameOpen
