SPECIFICATION Spec
CONSTANTS
  Impl = "asis"
  ExcludeKF = TRUE
  KindSet = {"layer"}
  NBrSet = {2}
  MaxBlocks = 1
  UseSet = {1}
  PoolSet = {FALSE}
  GumbelSet = {FALSE, TRUE}
  HardSet = {FALSE, TRUE}
  BigN = 0
  Acts = {"SetAlpha", "SetHard", "SetMode", "Forward", "Fork"}
  D = 4
  NameFamily = "plain"
  NameImpl = "asis"
  SampleImpl = "ref"
  ForkImpl = "shared"
PROPERTY ForwardSamplesOwnState
