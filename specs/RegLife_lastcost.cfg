SPECIFICATION Spec
CONSTANTS
  Impl = "lastcost"
  MaxHist = 3
INVARIANT ApplyIsCurrent
INVARIANT HistOk
INVARIANT BaseLinear
INVARIANT ExactAttr
