SPECIFICATION Spec
CONSTANTS
  Impl = "pop"
  MaxLen = 3
  Layers = {"conv1d"}
  NInit = 1
INVARIANT EvalIsFunctionOfDescription
INVARIANT FrameUnchanged
