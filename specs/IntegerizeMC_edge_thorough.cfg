SPECIFICATION Spec
CONSTANTS
  Impl = "ref"
  Mode = "edge"
  InBits = {8}
  OutBits = {2, 4, 8}
  WVals <- W_edge
  BVals <- B_edge_thorough
  Targets <- T_edge_thorough
  ScaleBits = {1, 8, 16, 24, 32}
  ShiftPoss = {0, 1, 16, 32}
  BigVals <- None1
  BigShifts = {0}
INVARIANT EdgeSel
INVARIANT EdgeEveryShift
INVARIANT EdgeLevel
INVARIANT EdgeMaupiti
INVARIANT EdgeRange
