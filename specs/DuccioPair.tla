----------------------------- MODULE DuccioPair -----------------------------
(***************************************************************************)
(* C19, pairing of positional strengths with named targets: every targets  *)
(* dict of 2 or 3 metrics in EVERY insertion order (rank = alphabetical    *)
(* ranks of the names in insertion order), pairwise distinct strengths     *)
(* (2, 3, 5 x 10^4 units, in every positional arrangement), exactly one or *)
(* two metrics above target, a few schedule positions.  Invariant: the     *)
(* value is sum_i strength[i] (annealed) * excess_i with i the position in *)
(* the CALLER's dict.  Impl = "position" must pass; Impl = "sorted"        *)
(* (metrics re-ordered alphabetically, strengths left positional) must     *)
(* fail; so must Impl = "dropinf" (metrics with an infinite target dropped, *)
(* strengths left positional).  One-step enumeration: every initial state is a scenario that the *)
(* harness executes on the real DUCCIO.                                    *)
(***************************************************************************)
EXTENDS Duccio, TLC

CONSTANTS Impl

VARIABLES sc

Perms(k) == {r \in [1..k -> 1..k] : IsPermutation(r)}
Primes  == <<20000, 30000, 50000>>
Scheds  == {<<1, 1>>, <<0, 4>>, <<1, 4>>, <<4, 4>>}
Target  == 10

\* unc: at most one metric is left unconstrained by an INFINITE target (a legal way of "reporting only" a metric); it
\* contributes nothing whatever its cost, and must not disturb the pairing of the others
Init == \E k \in {2, 3} : \E rank \in Perms(k), sp \in Perms(k), above \in (SUBSET (1..k)), x \in {1, 3}, sch \in Scheds,
                          unc \in {u \in SUBSET (1..k) : Cardinality(u) <= 1} :
           /\ above # {} /\ Cardinality(above) <= 2 /\ above \cap unc = {}
           /\ sc = [rank |-> rank, s |-> [i \in 1..k |-> Primes[sp[i]]],
                    t |-> [i \in 1..k |-> IF i \in unc THEN INF ELSE Target],
                    c |-> [i \in 1..k |-> IF i \in above \cup unc THEN Target + x + i - 1 ELSE Target - i],
                    e |-> sch[1], n |-> sch[2]]
Next == UNCHANGED sc
Spec == Init /\ [][Next]_sc

Value(impl) == PairedPen(impl, sc.rank, sc.s, sc.c, sc.t, sc.e, sc.n)

PairedByPosition == Value(Impl) = Value("position")
ExactPair == \A i \in DOMAIN sc.s : EffExact(sc.s[i], sc.e, sc.n)
\* non-vacuity: the two pairings do differ somewhere
PairingIrrelevant == Value("sorted") = Value("position")
=============================================================================
