SPECIFICATION Spec
CONSTANTS
  Impl = "fixed"
  MaxLen = 3
  TypesId = {"A", "D", "B"}
  AllowDf = TRUE
INVARIANT ImplMatchesRefId
INVARIANT OrderIndependentId
