SPECIFICATION Spec
INVARIANT VerdictOk
