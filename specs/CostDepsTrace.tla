---------------------------- MODULE CostDepsTrace ----------------------------
(***************************************************************************)
(* Trace validation for C12 (format produced by harness/checks/c12.py).    *)
(*                                                                         *)
(* kind "filter"  [arch]                                                   *)
(*     domain pre-pass: is the architecture one the property quantifies    *)
(*     over (FeatGraph!Supported, at least one searchable layer)?          *)
(*     verdict "ok" | "skip:...".  Never counted as evidence.              *)
(*                                                                         *)
(* kind "lat"  [arch, L, obs, orig, succ]                                  *)
(*     one state of the mask lattice enumerated by CostDepsMC, written     *)
(*     into a real PIT model: L[i] = [n, al, b, g] abstract magnitudes     *)
(*     (units of 0.1) per searchable call site; obs[i] = [m, d, u, c, ok]  *)
(*     cost of metric m (d: discrete) observed on the real model, as the   *)
(*     integer round(cost * u); orig[i] = [m, c, ok] the metric computed   *)
(*     from scratch on the ORIGINAL network; succ[j] = [e, v, obs] the     *)
(*     same observations after writing magnitude v into element e;         *)
(*     els[j] = [k, n, i, tr, v] the trainable-parameter entries of the    *)
(*     real model (v = magnitude at this state) and obs[i].nz[j] /         *)
(*     obs[i].gfin the gradient bits of metric i at this state.            *)
(*                                                                         *)
(* kind "probe"  [method, metric, arch, flags, ev, c, fin, ng, pert, inp,  *)
(*                E, pairs, open]                                          *)
(*     the full protocol on one real model (PIT / SuperNet / MPS /         *)
(*     ODiMO_MPS) with real-valued parameters.  All costs of one trace are *)
(*     integers in ONE harness-chosen decimal scale (full scale 5e7..5e8). *)
(*                                                                         *)
(* kind "hist"  [method, ev]                                               *)
(*     one call history enumerated by CostDepsHistMC replayed on a real    *)
(*     model: ev[1] is the initial state (all switches on, training mode,  *)
(*     one training forward), ev[i] = [a, b, ok, reads] a call and the     *)
(*     costs read after it ([d, c, ok]; PIT: continuous and discrete).     *)
(*     TLC folds CostDeps!RefStep over the calls and requires: two reads   *)
(*     with the same RefKey (parameter version + discrete flag for PIT;    *)
(*     version + last forward for MPS / SuperNet) return the same cost.    *)
(*                                                                         *)
(* probes with dep = TRUE are "producer -> consumer" networks: TLC         *)
(* evaluates CostDeps!Dep for every channel-mask element (the dependency   *)
(* matrix) and requires a non-zero gradient for every TRUE entry.          *)
(*                                                                         *)
(* PROPERTY clauses (C12.xyz) are evaluated on observed values only.       *)
(* PREDICTION clauses compare the observation with the model of CostDeps   *)
(* (cost value, gradient support); a failed prediction alone is "drift:".  *)
(*                                                                         *)
(* Tolerances (stated).  plinio evaluates costs in float32.  "lat": two    *)
(* costs are equal / ordered up to 1e-5 relative + 2 units (LatTol).       *)
(* "probe": up to 5000 units = 1e-4 .. 1e-5 of the full scale (Tol); an    *)
(* increase "raises the metric" only if it does so by more than Tol.       *)
(*                                                                         *)
(* GRADIENT CLAUSE.  Continuous cost: pointwise - an element whose finite  *)
(* increase (probe: |x| + 0.6; lattice: the Raise successor) raises the    *)
(* cost must have a non-zero gradient.  DISCRETE cost (a step function):   *)
(* on the lattice - every trainable element that is RELEVANT               *)
(* (CostDeps!DiscRelevant: lifting it across the threshold changes         *)
(* MaskAlgebra!Kept / the alive set, hence the discrete cost, in one of    *)
(* the corner contexts of the other elements) must have a non-zero         *)
(* gradient at EVERY observed parameter value.  Elements whose magnitude   *)
(* is exactly 0 are exempt in lattice states (d|x|/dx = 0 at 0 in torch).  *)
(***************************************************************************)
EXTENDS CostDeps, Json, IOUtils

Traces == JsonDeserialize(IOEnv.TRACE_FILE)

VARIABLES tid, verdict

Tol == 5000
LatTol(x) == (IF x < 0 THEN -x ELSE x) \div 100000 + 2

MinOf(T) == CHOOSE i \in T : \A j \in T : i <= j
\* first failing index of a table judged point by point
First(n, Bad(_)) == LET B == {i \in 1..n : Bad(i)} IN IF B = {} THEN 0 ELSE MinOf(B)
Chain(vs) == IF \A i \in DOMAIN vs : vs[i] = "ok" THEN "ok"
             ELSE vs[CHOOSE i \in DOMAIN vs : vs[i] # "ok" /\ \A j \in 1..(i - 1) : vs[j] = "ok"]

(* ------------------------------ filter ---------------------------------- *)
InDomain(a) == SearchLayers(a) # {} /\ Supported(a)
CheckFilter(t) == IF InDomain(t.arch) THEN "ok" ELSE "skip:architecture outside the supported grammar"

MaskKinds == {"a", "b", "g"}

(* ------------------------------ lattice states -------------------------- *)
HasL(t, n) == \E i \in DOMAIN t.L : t.L[i].n = n
LRec(t, n) == t.L[CHOOSE i \in DOMAIN t.L : t.L[i].n = n]
StateOf(t) ==
    LET a == t.arch IN
    [th |-> [n \in SearchLayers(a) |-> LRec(t, n).al],
     tb |-> [n \in TimeLayers(a)   |-> LRec(t, n).b],
     tg |-> [n \in TimeLayers(a)   |-> LRec(t, n).g]]
LatWellFormed(t) ==
    LET a == t.arch IN
    /\ InDomain(a)
    /\ \A n \in SearchLayers(a) : HasL(t, n)
    /\ WellFormedState(a, StateOf(t))
    /\ \A i \in DOMAIN t.obs : Applicable(t.obs[i].m, a)
    /\ \A j \in DOMAIN t.succ : Len(t.succ[j].obs) = Len(t.obs) /\ Len(t.succ[j].e) = 3
    /\ \A i \in DOMAIN t.obs : Len(t.obs[i].nz) = Len(t.els)
OrigIdx(t, m) == CHOOSE i \in DOMAIN t.orig : t.orig[i].m = m
HasOrig(t, m) == \E i \in DOMAIN t.orig : t.orig[i].m = m
El(s) == <<s.e[1], s.e[2], s.e[3]>>
FullyOpen(a, X) ==
    /\ \A n \in DOMAIN X.th : \A c \in 1..Len(X.th[n]) : X.th[n][c] = MA!One
    /\ \A n \in DOMAIN X.tb : (\A i \in 1..Len(X.tb[n]) : X.tb[n][i] = MA!One) /\ (\A i \in 1..Len(X.tg[n]) : X.tg[n][i] = MA!One)

ObsStr(o) == o.m \o (IF o.d THEN " (discrete)" ELSE " (continuous)")

CheckLat(t) ==
    IF ~LatWellFormed(t) THEN "trace: malformed lattice record"
    ELSE
    LET a == t.arch
        X == StateOf(t)
        nO == Len(t.obs)
        badUnit == First(nO, LAMBDA i : t.obs[i].u # Unit(t.obs[i].m, a))
        badFin  == First(nO, LAMBDA i : ~t.obs[i].ok \/ t.obs[i].c < 0)
        \* successors: (j, i) flattened
        Pairs == {<<j, i>> : j \in DOMAIN t.succ, i \in 1..nO}
        Raised(j) == Trainable(a, El(t.succ[j])) /\ t.succ[j].v >= Get(X, El(t.succ[j]))
        badSuccFin == {p \in Pairs : ~t.succ[p[1]].obs[p[2]].ok}
        badMono == {p \in Pairs : Raised(p[1]) /\ t.succ[p[1]].obs[p[2]].ok /\ t.obs[p[2]].ok /\
                        t.obs[p[2]].c > t.succ[p[1]].obs[p[2]].c + LatTol(t.obs[p[2]].c)}
        badOpen == First(nO, LAMBDA i : FullyOpen(a, X) /\ HasOrig(t, t.obs[i].m) /\ t.orig[OrigIdx(t, t.obs[i].m)].ok /\
                        ~Within(t.obs[i].c, t.obs[i].u * t.orig[OrigIdx(t, t.obs[i].m)].c, LatTol(t.obs[i].c)))
        \* gradients at this lattice state
        nL == Len(t.els)
        ElOf(j) == <<t.els[j].k, t.els[j].n, t.els[j].i>>
        Live(j) == t.els[j].tr /\ t.els[j].v # 0 /\ t.els[j].k \in MaskKinds
        sh == ShareMap(a)
        RelSmooth == [j \in 1..nL |-> DiscRelevant("ops", a, sh, ElOf(j))]
        RelGap8   == [j \in 1..nL |-> DiscRelevant("gap8_latency", a, sh, ElOf(j))]
        Rel(i, j) == IF Smooth(t.obs[i].m) THEN RelSmooth[j] ELSE RelGap8[j]
        GPairs == {<<i, j>> : i \in 1..nO, j \in 1..nL}
        badGFin == First(nO, LAMBDA i : t.obs[i].ok /\ ~t.obs[i].gfin)
        badGradD == {p \in GPairs : t.obs[p[1]].d /\ t.obs[p[1]].ok /\ Live(p[2]) /\ ~t.obs[p[1]].nz[p[2]] /\ Rel(p[1], p[2])}
        RaisedBy(i, j) == \E s \in DOMAIN t.succ : El(t.succ[s]) = ElOf(j) /\ Raised(s) /\ t.succ[s].obs[i].ok /\
                              t.succ[s].obs[i].c > t.obs[i].c + LatTol(t.obs[i].c)
        badGradC == {p \in GPairs : ~t.obs[p[1]].d /\ t.obs[p[1]].ok /\ Live(p[2]) /\ ~t.obs[p[1]].nz[p[2]] /\ RaisedBy(p[1], p[2])}
        driftGrad == {p \in GPairs : t.obs[p[1]].ok /\ Live(p[2]) /\ Smooth(t.obs[p[1]].m) /\
                        t.obs[p[1]].nz[p[2]] # (IF t.obs[p[1]].d THEN PredDiscNonZero("identity", a, X, ElOf(p[2]))
                                                               ELSE PredNonZero(a, ElOf(p[2])))}
        \* predictions
        driftCost == First(nO, LAMBDA i : ContExact(a) /\
                        ~Within(t.obs[i].c, Cost(t.obs[i].m, a, X, t.obs[i].d), LatTol(t.obs[i].c)))
        driftOrig == First(Len(t.orig), LAMBDA i : t.orig[i].ok /\ t.orig[i].c # OrigCost(t.orig[i].m, a))
    IN
    IF badUnit # 0 THEN "trace: unit of " \o t.obs[badUnit].m \o " differs from CostDeps!Unit"
    ELSE IF badFin # 0
         THEN "C12.finite " \o ObsStr(t.obs[badFin]) \o ": cost is not a finite non-negative number"
    ELSE IF badSuccFin # {}
         THEN "C12.finite: cost is not finite after raising element " \o ToString(t.succ[(CHOOSE p \in badSuccFin : TRUE)[1]].e)
    ELSE IF badMono # {}
         THEN LET p == CHOOSE p \in badMono : TRUE IN
              "C12.monotone " \o ObsStr(t.obs[p[2]]) \o ": raising element " \o ToString(t.succ[p[1]].e) \o " from "
                  \o ToString(Get(X, El(t.succ[p[1]]))) \o " to " \o ToString(t.succ[p[1]].v) \o " lowers the cost from "
                  \o ToString(t.obs[p[2]].c) \o " to " \o ToString(t.succ[p[1]].obs[p[2]].c) \o " (units 1/" \o ToString(t.obs[p[2]].u) \o ")"
    ELSE IF badOpen # 0
         THEN "C12.open " \o ObsStr(t.obs[badOpen]) \o ": all masks fully open cost " \o ToString(t.obs[badOpen].c)
                  \o "/" \o ToString(t.obs[badOpen].u) \o ", the original network costs "
                  \o ToString(t.orig[OrigIdx(t, t.obs[badOpen].m)].c)
    ELSE IF badGFin # 0 THEN "C12.gradfinite " \o ObsStr(t.obs[badGFin]) \o ": non-finite gradient at a lattice state"
    ELSE IF badGradD # {}
         THEN LET p == CHOOSE p \in badGradD : TRUE IN
              "C12.gradient " \o ObsStr(t.obs[p[1]]) \o ": element " \o ToString(ElOf(p[2])) \o " (magnitude " \o ToString(t.els[p[2]].v)
                  \o "/10) gets a zero gradient although lifting it across the threshold changes the kept set / the discrete cost in a corner context"
    ELSE IF badGradC # {}
         THEN LET p == CHOOSE p \in badGradC : TRUE IN
              "C12.gradient " \o ObsStr(t.obs[p[1]]) \o ": raising element " \o ToString(ElOf(p[2])) \o " raises the cost but its gradient is zero"
    ELSE IF driftCost # 0
         THEN "drift:cost " \o ObsStr(t.obs[driftCost]) \o ": observed " \o ToString(t.obs[driftCost].c) \o ", model "
                  \o ToString(Cost(t.obs[driftCost].m, a, X, t.obs[driftCost].d)) \o " (units 1/" \o ToString(t.obs[driftCost].u) \o ")"
    ELSE IF driftOrig # 0
         THEN "drift:orig " \o t.orig[driftOrig].m \o ": from-scratch cost of the original network " \o ToString(t.orig[driftOrig].c)
                  \o ", model " \o ToString(OrigCost(t.orig[driftOrig].m, a))
    ELSE IF driftGrad # {}
         THEN LET p == CHOOSE p \in driftGrad : TRUE IN
              "drift:support " \o ObsStr(t.obs[p[1]]) \o ": gradient of element " \o ToString(ElOf(p[2])) \o " non-zero = "
                  \o ToString(t.obs[p[1]].nz[p[2]]) \o ", the straight-through model predicts the opposite"
    ELSE "ok"

(* ------------------------------ probes ---------------------------------- *)
\* kinds the property's gradient clause speaks about: mask elements and weight-precision coefficients
ClauseKinds == MaskKinds \cup {"w"}

\* signature of finding F10 (evaluated here): ODiMO_MPS with its default reduction / DIANA model cannot be evaluated
F10Sig(t) == t.method = "odimo" /\ ~t.ev.ok /\ t.ev.errk \in {"dot", "a_precision"}

\* signature of finding F45: SuperNet + gap8_latency - the rounding helper is applied to a plain Python number
F45Sig(t) == t.method = "sn" /\ t.metric = "gap8_latency" /\ ~t.ev.ok /\ t.ev.errk = "floor"

\* signature of finding F46: NE16 latency of a 1x1 convolution / linear layer does not depend on the weight bit-width, the
\* relaxed cost still moves by whole cycles when probability mass moves between precisions (one rounded group of
\* channels per precision) while the straight-through gradients of the candidates cancel exactly
F46Sig(t, e) == t.method = "mps" /\ t.metric = "ne16_latency" /\ e.k = "w" /\ e.lk \in {"lin", "1x1"}

\* signature of finding F47: an MPS layer is told that its INPUT activation has precision -1 (the producer sits in an
\* output-connected sharing component, whose output quantiser is the float placeholder): bit-cost metrics turn negative
\* or trip the precision assertion of the cost model
F47Sig(t) == t.method \in {"mps", "odimo"} /\ t.minprec < 0 /\
             ((t.ev.ok /\ t.fin /\ t.c < 0) \/ (~t.ev.ok /\ t.ev.errk = "assert_prec"))

ElemStr(e) == e.k \o "[" \o ToString(e.n) \o "," \o ToString(e.i) \o "]"
Raises(t, e) == e.cu >= 0 /\ e.cu > t.c + Tol

FlagOf(t, k) == IF k = "a" THEN t.flags.features ELSE IF k = "b" THEN t.flags.rf ELSE t.flags.dilation

CheckProbe(t) ==
    IF ~t.ev.ok
    THEN IF F10Sig(t)
         THEN "known:F10:ODiMO_MPS cost cannot be evaluated (" \o t.ev.errk \o ": " \o t.ev.err \o ")"
         ELSE IF F47Sig(t)
         THEN "known:F47:MPS layer with input precision -1 (producer in an output-connected component): " \o t.metric \o " cannot be evaluated (" \o t.ev.err \o ")"
         ELSE IF F45Sig(t)
         THEN "known:F45:SuperNet cost with gap8_latency cannot be evaluated (" \o t.ev.err \o ")"
         ELSE "C12.eval " \o t.method \o "/" \o t.metric \o ": cost cannot be evaluated: " \o t.ev.err
    ELSE
    LET nE == Len(t.E)
        badPert == First(Len(t.pert), LAMBDA i : ~Within(t.pert[i], t.c, Tol))
        badInp  == First(Len(t.inp), LAMBDA i : ~Within(t.inp[i], t.c, Tol))
        badGFin == First(nE, LAMBDA i : t.E[i].hg /\ ~t.E[i].fin)
        GradFails(i) == t.E[i].tr /\ t.E[i].k \in ClauseKinds /\ Raises(t, t.E[i]) /\ ~(t.E[i].hg /\ t.E[i].nz)
        badGrad == First(nE, LAMBDA i : GradFails(i) /\ ~F46Sig(t, t.E[i]))
        \* discrete cost: every RELEVANT trainable mask element (decided on the lattice by CostDeps!DiscRelevant) must have a
        \* non-zero gradient at this parameter value
        shp == ShareMap(t.arch)
        \* dependency matrix (producer -> consumer networks): every TRUE entry must receive a non-zero gradient
        IsDepEl(i) == t.method = "pit" /\ t.dep /\ t.E[i].k = "a" /\ t.E[i].tr
        DepAt == [i \in 1..nE |-> IsDepEl(i) /\ Dep(t.metric, t.arch, shp, <<"a", t.E[i].n, t.E[i].i>>)]
        badDep == First(nE, LAMBDA i : IsDepEl(i) /\ DepAt[i] /\ ~(t.E[i].hg /\ t.E[i].nz))
        driftDep == First(nE, LAMBDA i : IsDepEl(i) /\ ~DepAt[i] /\ t.E[i].nz)
        badGradDisc == First(nE, LAMBDA i : t.method = "pit" /\ t.disc /\ t.E[i].tr /\ t.E[i].k \in MaskKinds /\
                             ~(t.E[i].hg /\ t.E[i].nz) /\ DiscRelevant(t.metric, t.arch, shp, <<t.E[i].k, t.E[i].n, t.E[i].i>>))
        knownGrad == First(nE, LAMBDA i : GradFails(i) /\ F46Sig(t, t.E[i]))
        \* SuperNet branch coefficients are architectural parameters too: a gradient must at least REACH them
        badReach == First(nE, LAMBDA i : t.E[i].tr /\ t.E[i].k = "sn" /\ Raises(t, t.E[i]) /\ ~t.E[i].hg)
        badOrd  == First(Len(t.pairs), LAMBDA i : ~SeqLeq(t.pairs[i].lo, t.pairs[i].hi))
        badPair == First(Len(t.pairs), LAMBDA i : t.pairs[i].clo > t.pairs[i].chi + Tol \/ t.pairs[i].clo < 0)
        a == t.arch
        isPit == t.method = "pit"
        \* predictions (PIT): trainability and gradient support from the architecture alone
        driftTr == First(nE, LAMBDA i : isPit /\ t.E[i].k \in MaskKinds /\
                        t.E[i].tr # (Trainable(a, <<t.E[i].k, t.E[i].n, t.E[i].i>>) /\ FlagOf(t, t.E[i].k)))
        driftNz == First(nE, LAMBDA i : isPit /\ (Smooth(t.metric) \/ a.dim = 2) /\ t.E[i].k \in MaskKinds /\
                        t.E[i].nz # (PredNonZero(a, <<t.E[i].k, t.E[i].n, t.E[i].i>>) /\ FlagOf(t, t.E[i].k)))
        Logged  == {<<t.E[i].k, t.E[i].n, t.E[i].i>> : i \in 1..nE}
        Missing == IF isPit THEN {e \in Elements(a) : FlagOf(t, e[1]) /\ e \notin Logged} ELSE {}
        \* predictions (MPS / SuperNet decision points whose cost is affine in theta)
        \* (decidable at the logged resolution in one direction only: a candidate clearly off the mean => non-zero gradient)
        driftMix == First(nE, LAMBDA i : t.E[i].aff /\ t.E[i].ck >= 0 /\ t.E[i].tr /\
                        ~Within(t.E[i].ck, t.c, Tol) /\ ~t.E[i].nz)
        driftUp  == First(nE, LAMBDA i : t.E[i].aff /\ t.E[i].ck >= 0 /\ t.E[i].cu >= 0 /\
                        (Raises(t, t.E[i]) /\ t.E[i].ck + Tol < t.c))
    IN
    IF F47Sig(t) THEN "known:F47:MPS layer with input precision -1 (producer in an output-connected component): " \o t.metric \o " = " \o ToString(t.c) \o " is negative"
    ELSE IF ~t.fin \/ t.c < 0 THEN "C12.finite " \o t.method \o "/" \o t.metric \o ": cost is not a finite non-negative number"
    ELSE IF t.ng.nonfinite # 0 \/ t.ng.nonzero # 0
         THEN "C12.netgrad " \o t.method \o "/" \o t.metric \o ": " \o ToString(t.ng.nonzero + t.ng.nonfinite)
                  \o " network parameter tensor(s) receive a non-zero gradient from the cost"
    ELSE IF badPert # 0
         THEN "C12.weights " \o t.method \o "/" \o t.metric \o ": cost changes from " \o ToString(t.c) \o " to "
                  \o ToString(t.pert[badPert]) \o " when only network weights are perturbed"
    ELSE IF badInp # 0
         THEN "C12.input " \o t.method \o "/" \o t.metric \o ": cost changes from " \o ToString(t.c) \o " to "
                  \o ToString(t.inp[badInp]) \o " when the model is run on another input"
    ELSE IF badGFin # 0
         THEN "C12.gradfinite " \o t.method \o "/" \o t.metric \o ": non-finite gradient at " \o ElemStr(t.E[badGFin])
    ELSE IF badGrad # 0
         THEN "C12.gradient " \o t.method \o "/" \o t.metric \o ": increasing " \o ElemStr(t.E[badGrad]) \o " raises the cost from "
                  \o ToString(t.c) \o " to " \o ToString(t.E[badGrad].cu) \o " but its gradient is "
                  \o (IF t.E[badGrad].hg THEN "zero" ELSE "missing")
    ELSE IF badGradDisc # 0
         THEN "C12.gradient " \o t.method \o "/" \o t.metric \o " (discrete): " \o ElemStr(t.E[badGradDisc]) \o " gets a "
                  \o (IF t.E[badGradDisc].hg THEN "zero" ELSE "missing") \o " gradient although lifting it across the threshold changes the kept set / the discrete cost in a corner context"
    ELSE IF badDep # 0
         THEN "C12.dependency " \o t.metric \o (IF t.disc THEN " (discrete)" ELSE " (continuous)") \o ": the metric depends on the alive count governed by "
                  \o ElemStr(t.E[badDep]) \o " (reference formula, CostDeps!Dep) but its gradient is "
                  \o (IF t.E[badDep].hg THEN "zero" ELSE "missing")
    ELSE IF badReach # 0
         THEN "C12.gradient " \o t.method \o "/" \o t.metric \o ": increasing " \o ElemStr(t.E[badReach]) \o " raises the cost from "
                  \o ToString(t.c) \o " to " \o ToString(t.E[badReach].cu) \o " but no gradient reaches it"
    ELSE IF knownGrad # 0
         THEN "known:F46:ne16_latency, " \o t.E[knownGrad].lk \o " layer: increasing " \o ElemStr(t.E[knownGrad]) \o " raises the cost from "
                  \o ToString(t.c) \o " to " \o ToString(t.E[knownGrad].cu) \o " but its gradient is "
                  \o (IF t.E[knownGrad].hg THEN "zero" ELSE "missing")
    ELSE IF badOrd # 0 THEN "trace: parameter pair " \o ToString(badOrd) \o " is not ordered component-wise"
    ELSE IF badPair # 0
         THEN "C12.monotone " \o t.method \o "/" \o t.metric \o ": magnitudes raised component-wise, cost drops from "
                  \o ToString(t.pairs[badPair].clo) \o " to " \o ToString(t.pairs[badPair].chi)
    ELSE IF t.open.chk /\ ~Within(t.open.c, t.open.orig, Tol)
         THEN "C12.open " \o t.method \o "/" \o t.metric \o ": all masks fully open cost " \o ToString(t.open.c)
                  \o ", the original network costs " \o ToString(t.open.orig)
    ELSE IF isPit /\ ~InDomain(a) THEN "trace: architecture outside the domain"
    ELSE IF driftTr # 0 THEN "drift:trainable " \o ElemStr(t.E[driftTr]) \o ": requires_grad differs from the model"
    ELSE IF driftNz # 0
         THEN "drift:support " \o t.metric \o " " \o ElemStr(t.E[driftNz]) \o ": gradient is "
                  \o (IF t.E[driftNz].nz THEN "non-zero" ELSE "zero") \o ", the model predicts the opposite"
    ELSE IF Missing # {} THEN "drift:support: model element " \o ToString(CHOOSE e \in Missing : TRUE) \o " has no parameter entry"
    ELSE IF driftDep # 0 THEN "drift:dependency " \o t.metric \o " " \o ElemStr(t.E[driftDep]) \o ": non-zero gradient where the reference formula shows no dependency"
    ELSE IF driftMix # 0
         THEN "drift:mix " \o t.method \o "/" \o t.metric \o " " \o ElemStr(t.E[driftMix]) \o ": gradient non-zero = "
                  \o ToString(t.E[driftMix].nz) \o " but candidate cost " \o ToString(t.E[driftMix].ck) \o " vs mean " \o ToString(t.c)
    ELSE IF driftUp # 0
         THEN "drift:mix " \o t.method \o "/" \o t.metric \o " " \o ElemStr(t.E[driftUp]) \o ": raising the coefficient raises the cost although its candidate is cheaper than the mean"
    ELSE "ok"

(* ------------------------------ histories ------------------------------- *)
RECURSIVE RefAt(_, _)
ActOf(t, i) == <<t.ev[i].a, t.ev[i].b>>
RefAt(t, i) == IF i <= 1 THEN RefInit(t.method) ELSE RefStep(t.method, RefAt(t, i - 1), ActOf(t, i))
RECURSIVE CallsStr(_, _)
CallsStr(t, i) == IF i <= 1 THEN "init" ELSE CallsStr(t, i - 1) \o "; " \o t.ev[i].a \o (IF t.ev[i].b = "" THEN "" ELSE "(" \o t.ev[i].b \o ")")
CheckHist(t) ==
    LET n == Len(t.ev)
        Reads == {<<i, q>> : i \in 1..n, q \in 1..2} \cap {p \in (1..n) \X (1..2) : p[2] <= Len(t.ev[p[1]].reads)}
        Rd(p) == t.ev[p[1]].reads[p[2]]
        badFin == {p \in Reads : ~Rd(p).ok \/ Rd(p).c < 0}
        bad == {pq \in Reads \X Reads :
                   /\ pq[1][1] < pq[2][1] /\ Rd(pq[1]).d = Rd(pq[2]).d /\ Rd(pq[1]).ok /\ Rd(pq[2]).ok
                   /\ RefKey(t.method, RefAt(t, pq[1][1]), Rd(pq[1]).d) = RefKey(t.method, RefAt(t, pq[2][1]), Rd(pq[2]).d)
                   /\ ~Within(Rd(pq[1]).c, Rd(pq[2]).c, Tol)}
    IN
    IF n = 0 \/ t.ev[1].a # "init" THEN "trace: malformed history"
    ELSE IF badFin # {} THEN "C12.finite " \o t.method \o ": cost is not a finite non-negative number after  " \o CallsStr(t, (CHOOSE p \in badFin : TRUE)[1])
    ELSE IF bad # {}
         THEN LET pq == CHOOSE pq \in bad : \A o \in bad : pq[2][1] <= o[2][1] IN
              "C12.history " \o t.method \o "/" \o t.metric \o (IF Rd(pq[1]).d THEN " (discrete)" ELSE " (continuous)") \o ": cost "
                  \o ToString(Rd(pq[2]).c) \o " after  " \o CallsStr(t, pq[2][1]) \o "  but " \o ToString(Rd(pq[1]).c) \o " after  "
                  \o CallsStr(t, pq[1][1]) \o "  - same parameter values" \o (IF t.method = "pit" THEN "" ELSE " and same last forward pass")
    ELSE "ok"

Check(t) == CASE t.kind = "filter" -> CheckFilter(t)
              [] t.kind = "hist"   -> CheckHist(t)
              [] t.kind = "lat"    -> CheckLat(t)
              [] t.kind = "probe"  -> CheckProbe(t)
              [] OTHER             -> "trace: unknown kind"

Init == tid \in 1..Len(Traces) /\ verdict = Check(Traces[tid])
Next == UNCHANGED <<tid, verdict>>
Spec == Init /\ [][Next]_<<tid, verdict>>
VerdictOk == verdict = "ok"
=============================================================================
