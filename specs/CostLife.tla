------------------------------ MODULE CostLife ------------------------------
(***************************************************************************)
(* Life cycle of ONE layer description (the dictionary `spec` handed to    *)
(* the cost functions) that is re-used for many evaluations, as a sweep or *)
(* a NAS layer does (property C16: a built-in cost function is a FUNCTION  *)
(* of the layer description it is given - whatever was evaluated before -  *)
(* and only READS the description).                                        *)
(*                                                                         *)
(* The dictionary is abstracted to                                         *)
(*    p      the fields the cost models read (record of CostFormulas)      *)
(*    akey   an ADDED entry 'a_precision' holding a resolved activation    *)
(*           precision (-1 = no such entry was added)                      *)
(*    gone   the fields whose keys were REMOVED from the dictionary        *)
(* plus, outside the dictionary, `memo`: results a function remembered for *)
(* this dictionary object.  The reference behaviour ("pure") never touches *)
(* akey / gone / memo.  Three as-implemented VARIANTS model realistic ways *)
(* of getting this wrong; they exist so that TLC demonstrates that the     *)
(* invariants of CostLifeMC detect them (sanity configs, expected to fail).*)
(* Variable-free operator library.                                         *)
(***************************************************************************)
EXTENDS CostFormulas

LifeS == 4           \* quarter channels, as everywhere in C16

\* value domains of the fields a history may write (quarter channels for cin/cout/c)
FieldDomain(f) ==
    CASE f = "cin"  -> {12, 68}
      [] f = "cout" -> {20, 132}
      [] f = "c"    -> {12, 68}
      [] f = "k"    -> {1, 3, 5}
      [] f = "o"    -> {4, 9}
      [] f = "w"    -> {2, 3, 8}
      [] f = "a"    -> {3, 4, 8}
      [] f = "b"    -> {0, 1}
      [] OTHER      -> {}
LifeFields == {"cin", "cout", "c", "k", "o", "w", "a", "b"}

\* which fields a description of layer type l / groups mode g has
FieldApplies(l, g, f) ==
    IF l = "linear" THEN f \in {"cin", "cout", "w", "a", "b"}
    ELSE IF g = 0 THEN f \in {"c", "k", "o", "w", "a", "b"}
    ELSE f \in {"cin", "cout", "k", "o", "w", "a", "b"}

FieldOf(p, f) ==
    CASE f = "cin" -> p.cin [] f = "cout" -> p.cout [] f = "c" -> p.cout [] f = "k" -> p.kx
      [] f = "o" -> p.ox [] f = "w" -> p.w [] f = "a" -> p.a [] f = "b" -> p.b

SetFieldOf(l, p, f, v) ==
    CASE f = "cin"  -> [p EXCEPT !.cin = v]
      [] f = "cout" -> [p EXCEPT !.cout = v]
      [] f = "c"    -> [p EXCEPT !.cin = v, !.cout = v]
      [] f = "k"    -> [p EXCEPT !.kx = v, !.ky = IF l = "conv2d" THEN v ELSE 1]
      [] f = "o"    -> [p EXCEPT !.ox = v, !.oy = IF l = "conv2d" THEN v ELSE 1]
      [] f = "w"    -> [p EXCEPT !.w = v]
      [] f = "a"    -> [p EXCEPT !.a = v]
      [] f = "b"    -> [p EXCEPT !.b = v]

\* initial descriptions: 1 = accepted by every model, 2 = rejected by NE16 / DIANA (a = 4), 1x1 kernel
InitDesc(l, g, i) ==
    LET conv == l # "linear"
        two  == l = "conv2d"
    IN  IF i = 1
        THEN [cin |-> IF g = 0 THEN 12 ELSE 12, cout |-> IF g = 0 THEN 12 ELSE 20,
              kx |-> IF conv THEN 3 ELSE 1, ky |-> IF two THEN 3 ELSE 1,
              ox |-> IF conv THEN 4 ELSE 1, oy |-> IF two THEN 4 ELSE 1,
              w |-> 8, a |-> 8, b |-> 1, g |-> g, td |-> 1]
        ELSE [cin |-> IF g = 0 THEN 68 ELSE 68, cout |-> IF g = 0 THEN 68 ELSE 132,
              kx |-> 1, ky |-> 1,
              ox |-> IF conv THEN 9 ELSE 1, oy |-> IF two THEN 9 ELSE 1,
              w |-> 2, a |-> 4, b |-> 0, g |-> g, td |-> IF i = 2 THEN 2 ELSE 1]

\* the registered functions that can be asked about a description of type l / mode g
FnsFor(l, g) ==
    {f \in Registered : f.l = l /\ (IF g = 0 THEN f.pat = "dw" \/ f.m = "diana_latency" ELSE f.pat = "U")}

\* reference: the value of fn on description p
RefEval(fn, p) ==
    LET core == CostCore(fn, p, LifeS) IN
    IF core = Reject THEN <<"raise">>
    ELSE <<"v", BigMulSmall(BigProd(core, CostMult(fn, p)), CostNum(fn, p)), CostDen(fn, p)>>

H0 == [akey |-> -1, gone |-> {}, memo |-> <<>>]

Variants == {"pure", "setdefault", "memo_id", "pop"}
PopModel == "params_bit"       \* variant "pop": this model consumes the weight-precision key

\* one evaluation under variant impl: [res, h]
ImplEval(impl, fn, p, h) ==
    IF impl = "setdefault" /\ fn.m = "diana_latency"
    THEN \* a_precision = spec.setdefault('a_precision', spec.get('in_precision'))
         LET ak == IF h.akey = -1 THEN p.a ELSE h.akey IN
         [res |-> RefEval(fn, [p EXCEPT !.a = ak]), h |-> [h EXCEPT !.akey = ak]]
    ELSE IF impl = "memo_id"
    THEN \* _cache[id(spec)] per function
         IF \E i \in DOMAIN h.memo : h.memo[i][1] = fn
         THEN [res |-> h.memo[CHOOSE i \in DOMAIN h.memo : h.memo[i][1] = fn][2], h |-> h]
         ELSE [res |-> RefEval(fn, p), h |-> [h EXCEPT !.memo = Append(@, <<fn, RefEval(fn, p)>>)]]
    ELSE IF impl = "pop" /\ UsesW(fn.m) /\ "w" \in h.gone
    THEN [res |-> <<"raise">>, h |-> h]                                   \* KeyError
    ELSE IF impl = "pop" /\ fn.m = PopModel
    THEN [res |-> RefEval(fn, p), h |-> [h EXCEPT !.gone = @ \cup {"w"}]]   \* spec.pop('w_precision')
    ELSE [res |-> RefEval(fn, p), h |-> h]

\* writing a field (re)creates its key; it does not touch entries the functions added
ImplSet(h, f) == [h EXCEPT !.gone = @ \ {f}]
=============================================================================
