SPECIFICATION Spec
VIEW View
CONSTANTS
    Impl = "asis"
    Kind = "pit"
    MaxV = 2
    Temps = {1, 2, 3}
INVARIANT Resume
INVARIANT Keys
INVARIANT ClassTotal
INVARIANT HistOk
INVARIANT NoHidden
