--------------------------- MODULE CheckpointTrace ---------------------------
(***************************************************************************)
(* Trace validation for C17.  One trace = one history of a search executed *)
(* on a real PIT / MPS / SuperNet object, with checkpoint experiments:     *)
(*   [kind, variant, init |-> [train, hard, disable, gumbel, dc], hasbn,   *)
(*    g0 |-> GROUPS right after construction,                              *)
(*    ev |-> << [act, replayed, err, g |-> GROUPS, ck |-> CK] >> ]         *)
(* act      call record of specs/Checkpoint.tla with all of a, g, o, v     *)
(*          present ("-" / 0 when unused; booleans as 0 / 1), or           *)
(*          [a |-> "ckpt"] for a checkpoint experiment                     *)
(* replayed the harness re-applies this call on the fresh wrapper          *)
(* GROUPS   ids of the bytes of the state_dict entries by group:           *)
(*          pnet, pnas (parameters), bbn, bth, btemp, bother (buffers)     *)
(* CK       (meaningful for ckpt events) the experiment                    *)
(*            state_dict -> torch.save -> torch.load;                      *)
(*            fresh wrapper from the same factory and constructor args     *)
(*            (optionally "warm": already used for one batch);             *)
(*            configuration calls of the history re-applied before         *)
(*            (cfg_first) or after load_state_dict(strict=False)           *)
(*          copy     the original was a deep copy (intermediate checkpoint)*)
(*          pre_built, child   the wrapper resumed into was built in the   *)
(*                   process of the original after pre_built wrappers of   *)
(*                   other architectures / in a fresh python process       *)
(*          strict_ok   load_state_dict(strict=True) into another fresh    *)
(*                   wrapper does not raise                                *)
(*          err      exception of load_state_dict / a re-applied call      *)
(*          missing, unexpected   as reported by load_state_dict           *)
(*          pre      per group: fresh wrapper = checkpoint BEFORE loading  *)
(*          sd_equal restored state_dict = checkpoint (values, shapes,     *)
(*                   dtypes); sd_diff = first differing keys               *)
(*          obs      << for the current mode, then the other mode:         *)
(*                   [mode, err_o, err_r, o, r |-> [out, outx, fin, cost,  *)
(*                   sum]] >> after the usual forward pass on the same     *)
(*                   batch (same RNG seed): output (round-off cluster id / *)
(*                   exact id), all cost values, summary of original /     *)
(*                   restored                                              *)
(*          exp      [err_o, err_r, o, r |-> [struct, sd, out]] exported   *)
(*                   networks of both                                      *)
(*          final_sd_equal  state_dicts still equal after all of this      *)
(*                                                                         *)
(* Property clauses (VIOLATION): load, keys, state, output, cost, summary, *)
(* export.  Predictions (drift): the configuration calls are exactly the   *)
(* Checkpoint!IsConfigCall ones; which state_dict groups differ from a     *)
(* fresh wrapper, as the abstract state reached by Checkpoint!Next says;   *)
(* configuration calls change no state_dict entry.                         *)
(***************************************************************************)
EXTENDS Checkpoint, Json, IOUtils, TLC

Traces == JsonDeserialize(IOEnv.TRACE_FILE)

VARIABLES tid, verdict

Idx(q) == DOMAIN q

OK == <<0, "ok">>
Lvl(v) == v[1]
Worse(a, b) == IF Lvl(b) > Lvl(a) THEN b ELSE a
Viol(msg)  == <<3, msg>>
Drift(msg) == <<1, msg>>

ModeStr(m) == IF m THEN "train" ELSE "eval"

(***************************************************************************)
(* the checkpoint experiment                                               *)
(***************************************************************************)
ObsVerdict(ob, where) ==
    LET w == where \o ", " \o ModeStr(ob.mode) \o " mode"
    IN  IF ob.err_o # "" /\ ob.err_r # "" THEN Drift("drift:both the original and the restored model raise at " \o w \o ": " \o ob.err_o)
        ELSE IF ob.err_r # "" THEN Viol("C17.output at " \o w \o ": the restored model raises " \o ob.err_r)
        ELSE IF ob.err_o # "" THEN Viol("C17.output at " \o w \o ": the original raises " \o ob.err_o \o " but the restored model does not")
        ELSE IF ob.o.out # ob.r.out
        THEN Viol("C17.output at " \o w \o ": outputs of the original and of the restored model differ"
                  \o (IF ~ob.r.fin THEN " (restored output not finite)" ELSE ""))
        ELSE IF ob.o.cost # ob.r.cost THEN Viol("C17.cost at " \o w \o ": cost values differ")
        ELSE IF ob.o.sum # ob.r.sum THEN Viol("C17.summary at " \o w \o ": summaries differ")
        ELSE IF ob.o.outx # ob.r.outx THEN Drift("drift:outputs equal only to round-off at " \o w)
        ELSE OK

RECURSIVE ObsAll(_, _, _, _)
ObsAll(obs, k, where, acc) ==
    IF k > Len(obs) THEN acc
    ELSE LET v == ObsVerdict(obs[k], where)
         IN IF Lvl(v) = 3 THEN v ELSE ObsAll(obs, k + 1, where, Worse(acc, v))

ExpVerdict(x, where) ==
    IF x.err_o # "" /\ x.err_r # "" THEN Drift("drift:export() raises on both models at " \o where \o ": " \o x.err_o)
    ELSE IF x.err_r # "" THEN Viol("C17.export at " \o where \o ": export() of the restored model raises " \o x.err_r)
    ELSE IF x.err_o # "" THEN Viol("C17.export at " \o where \o ": export() of the original raises " \o x.err_o)
    ELSE IF x.o.struct # x.r.struct THEN Viol("C17.export at " \o where \o ": exported networks differ in structure")
    ELSE IF x.o.sd # x.r.sd THEN Viol("C17.export at " \o where \o ": exported networks differ in their weights")
    ELSE IF x.o.out # x.r.out THEN Viol("C17.export at " \o where \o ": exported networks compute different outputs")
    ELSE OK

\* which groups must equal those of a fresh wrapper, from the abstract state (prediction)
PreVerdict(kind, st, ck, where) ==
    IF ck.warm THEN OK        \* a used fresh wrapper has its own BatchNorm statistics / stored coefficients
    ELSE IF ck.pre.pnet # (st.net = 0) THEN Drift("drift:network parameters vs fresh wrapper at " \o where \o ": equal = "
                                                    \o ToString(ck.pre.pnet) \o ", abstract version " \o ToString(st.net))
    ELSE IF ck.pre.pnas # (st.nas = 0) THEN Drift("drift:architectural parameters vs fresh wrapper at " \o where \o ": equal = "
                                                    \o ToString(ck.pre.pnas) \o ", abstract version " \o ToString(st.nas))
    ELSE IF ck.pre.bbn # (st.bn = 0) THEN Drift("drift:BatchNorm statistics vs fresh wrapper at " \o where)
    ELSE IF kind = "mps" /\ ck.pre.btemp # (st.temp = 1) THEN Drift("drift:temperature buffer vs fresh wrapper at " \o where)
    ELSE OK

CkVerdict(kind, st, relax, ck, where) ==
    IF ck.err # "" THEN Viol("C17.load at " \o where \o ": " \o ck.err)
    ELSE IF ck.missing # <<>> \/ ck.unexpected # <<>>
    THEN Viol("C17.keys at " \o where \o ": missing " \o ToString(ck.missing) \o " unexpected " \o ToString(ck.unexpected))
    ELSE IF ~ck.strict_ok
    THEN Viol("C17.keys at " \o where \o ": load_state_dict(strict=True) into a fresh wrapper of the same seed network raises")
    ELSE IF ~ck.sd_equal
    THEN Viol("C17.state at " \o where \o ": the state_dict of the restored wrapper differs from the checkpoint in " \o ToString(ck.sd_diff))
    ELSE LET v1 == ObsAll(ck.obs, 1, where, OK) IN IF Lvl(v1) = 3 THEN v1
    ELSE LET v2 == ExpVerdict(ck.exp, where) IN IF Lvl(v2) = 3 THEN v2
    ELSE LET v3 == IF relax THEN OK ELSE PreVerdict(kind, st, ck, where)
             v4 == IF ~ck.final_sd_equal THEN Drift("drift:state_dicts differ after the comparison at " \o where) ELSE OK
         IN Worse(Worse(Worse(v1, v2), v3), v4)

(***************************************************************************)
(* the history                                                             *)
(***************************************************************************)
SdGroups == {"pnet", "pnas", "bbn", "bth", "btemp", "bother"}

HistVerdict(kind, e, pg, where) ==
    IF e.replayed # IsConfigCall("asis", kind, e.act)
    THEN Viol("trace: harness and specification disagree on whether " \o ToString(e.act) \o " is a configuration call (" \o where \o ")")
    ELSE IF e.err # "" THEN OK     \* a history call that raised (counted in the evidence): later predictions are relaxed
    ELSE IF e.replayed /\ \E f \in SdGroups : e.g[f] # pg[f]
    THEN Drift("drift:configuration call changed state_dict entries at " \o where \o ": "
               \o ToString({f \in SdGroups : e.g[f] # pg[f]}))
    ELSE IF e.act.a = "opt" /\ ~e.replayed /\ \E f \in SdGroups \ {"btemp"} : e.g[f] # pg[f]
    THEN Drift("drift:persisted option call changed more than its own buffer at " \o where)
    ELSE OK

RECURSIVE Walk(_, _, _, _, _, _, _)
Walk(t, P, i, st, pg, relax, acc) ==
    IF i > Len(t.ev) THEN acc
    ELSE LET e == t.ev[i]
             where == "event " \o ToString(i)
         IN  IF e.act.a = "ckpt"
             THEN LET v == CkVerdict(t.kind, st, relax, e.ck, where \o " (checkpoint after " \o ToString(i - 1) \o " events"
                                     \o (IF e.ck.copy THEN ", on a copy" ELSE "") \o (IF e.ck.warm THEN ", used fresh wrapper" ELSE "")
                                     \o (IF e.ck.child THEN ", resumed in a fresh process"
                                         ELSE ", resumed after " \o ToString(e.ck.pre_built) \o " other wrapper(s) built in the same process")
                                     \o (IF e.ck.cfg_first THEN ", configuration before load)" ELSE ", configuration after load)"))
                  IN IF Lvl(v) = 3 THEN v ELSE Walk(t, P, i + 1, st, pg, relax, Worse(acc, v))
             ELSE LET v == HistVerdict(t.kind, e, pg, where \o " " \o ToString(e.act))
                  IN IF Lvl(v) = 3 THEN v
                     ELSE Walk(t, P, i + 1, Next(t.kind, P, st, e.act), e.g,
                               \* the abstract versions are not predicted any more after a call that raised or after a
                               \* PIT mask switch (it changes which coefficients an optimizer step can move)
                               relax \/ e.err # "" \/ (e.act.a = "opt" /\ e.act.o \in {"train_features", "train_rf", "train_dilation", "gumbel"}),
                               Worse(acc, v))

Check(t) ==
    LET I == [train |-> t.init.train, hard |-> t.init.hard, gumbel |-> t.init.gumbel, disable |-> t.init.disable, dc |-> t.init.dc]
        P == [hasbn |-> t.hasbn, maxv |-> 1, priv |-> FALSE]
    IN  Walk(t, P, 1, Fresh(t.kind, I), t.g0, t.init.gumbel, OK)[2]

Init == tid \in 1..Len(Traces) /\ verdict = Check(Traces[tid])
Next0 == UNCHANGED <<tid, verdict>>
Spec == Init /\ [][Next0]_<<tid, verdict>>
VerdictOk == verdict = "ok"
=============================================================================
