SPECIFICATION Spec
CONSTANTS
  MaxNodes = 4
  Widths = {2}
  Dim = 1
  C0 = 2
  Sp0 = 2
  AllowExcl = TRUE
  AllowCat3 = FALSE
  AllowReuse = FALSE
  Extras = "no"
  AllowFindings = FALSE
INVARIANT InvToldIsActual
INVARIANT InvAddAligned
INVARIANT InvEveryMasked
INVARIANT InvFixedSeesFull
INVARIANT InvShapeConsistent
INVARIANT InvAtLeastOne
INVARIANT InvFrozenFull
INVARIANT InvOutputFull
INVARIANT InvZeroPreserved
INVARIANT InvCostMatchesExport
INVARIANT InvMonotone
