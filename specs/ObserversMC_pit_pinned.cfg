SPECIFICATION Spec
CONSTANTS
    Impl = "pinned"
    Kind = "pit"
    MaxBn = 1
    TrackHist = FALSE
    MaxLen = 0
INVARIANT TypeOK
INVARIANT ModesAgree
