------------------------------ MODULE Selection ------------------------------
(***************************************************************************)
(* Decision points of MPS (MPSPerLayerQtz / MPSPerChannelQtz) and SuperNet *)
(* (SuperNetCombiner): what is evaluated (theta_alpha after a forward      *)
(* pass), what summary() reports and what export() materialises            *)
(* (property C10).                                                         *)
(*                                                                         *)
(* A decision point has N candidates and, per channel (1 channel for the   *)
(* per-layer form and for SuperNet), a raw coefficient vector alpha.  In   *)
(* the design model alpha is abstracted to a RANKING (a permutation of     *)
(* 1..N, larger = larger coefficient); in traces alpha is the logged       *)
(* vector of integers (alpha x 10^4).  ArgMax works on both.               *)
(*                                                                         *)
(* The sampled vector theta_alpha is abstracted to a CLASS                 *)
(*   unsampled      never produced by a sampling step                      *)
(*   onehot(i)      exact one-hot at candidate i                           *)
(*   soft(i)        probability vector whose largest entry is i            *)
(*   prob(h)        probability vector (Gumbel noise), one-hot at an       *)
(*                  arbitrary index iff h                                  *)
(*   stale          a probability vector sampled earlier for other         *)
(*                  coefficients / options (whole models right after       *)
(*                  conversion); nothing else is known                     *)
(* and in traces it is the logged vector of integers (theta x 10^6); the   *)
(* operator Satisfies links the two.                                       *)
(*                                                                         *)
(* Variable-free operator library; SelectionMC / SelectionTrace use it.    *)
(***************************************************************************)
EXTENDS Naturals, Integers, Sequences, FiniteSets

Range(s) == {s[i] : i \in DOMAIN s}

RECURSIVE SumFrom(_, _)
SumFrom(s, i) == IF i > Len(s) THEN 0 ELSE s[i] + SumFrom(s, i + 1)
Sum(s)   == SumFrom(s, 1)
RECURSIVE MaxFrom(_, _, _)
MaxFrom(s, i, m) == IF i > Len(s) THEN m ELSE MaxFrom(s, i + 1, IF s[i] > m THEN s[i] ELSE m)
MaxOf(s) == MaxFrom(s, 2, s[1])
Abs(x)   == IF x < 0 THEN -x ELSE x

\* indices of the largest entries; the property quantifies over tie-free vectors
ArgMaxSet(s) == LET m == MaxOf(s) IN {i \in DOMAIN s : s[i] = m}
TieFree(s)   == Cardinality(ArgMaxSet(s)) = 1
ArgMax(s)    == CHOOSE i \in ArgMaxSet(s) : TRUE
\* pairwise gaps of a logged coefficient vector (x 10^4) are at least g
GapsAtLeast(s, g) == \A i, j \in DOMAIN s : i # j => Abs(s[i] - s[j]) >= g

\* all permutations of 1..n as sequences (rankings)
RECURSIVE PermsOf(_)
PermsOf(S) == IF S = {} THEN {<<>>}
              ELSE UNION {{<<x>> \o t : t \in PermsOf(S \ {x})} : x \in S}
Rankings(n) == PermsOf(1..n)

(***************************************************************************)
(* Observed theta vectors (integers, theta x 10^6).                        *)
(* Tolerances (stated): each entry within EPS = 2 units (2e-6) of 0 / 1    *)
(* for "one-hot" (hard Gumbel computes 1 - y + y in float32); the sum      *)
(* within TOL = 16 units (1.6e-5) of 1 (<= 8 entries rounded to integers   *)
(* plus float32 round-off of the soft-max).                                *)
(***************************************************************************)
One == 1000000
EPS == 2
TOL == 16

IsProb(th)        == /\ Len(th) >= 1
                     /\ \A i \in DOMAIN th : th[i] >= 0 /\ th[i] <= One + EPS
                     /\ Abs(Sum(th) - One) <= TOL
IsOneHotAt(th, i) == /\ i \in DOMAIN th
                     /\ Abs(th[i] - One) <= EPS
                     /\ \A j \in DOMAIN th : j # i => Abs(th[j]) <= EPS
IsOneHot(th)      == \E i \in DOMAIN th : IsOneHotAt(th, i)

(***************************************************************************)
(* theta classes                                                           *)
(***************************************************************************)
Unsampled  == [c |-> "unsampled", at |-> 0, oh |-> FALSE]
OneHot(i)  == [c |-> "onehot",    at |-> i, oh |-> TRUE]
Soft(i)    == [c |-> "soft",      at |-> i, oh |-> FALSE]
Prob(h)    == [c |-> "prob",      at |-> 0, oh |-> h]
Stale      == [c |-> "stale",     at |-> 0, oh |-> FALSE]
Classes(n) == {Unsampled, Stale} \cup {OneHot(i) : i \in 1..n} \cup {Soft(i) : i \in 1..n}
                \cup {Prob(h) : h \in BOOLEAN}

\* does an observed vector belong to a class
Satisfies(th, cls) ==
    CASE cls.c = "unsampled" -> TRUE
      [] cls.c = "onehot"    -> IsOneHotAt(th, cls.at)
      [] cls.c = "soft"      -> IsProb(th) /\ ArgMaxSet(th) = {cls.at}
      [] cls.c = "prob"      -> IsProb(th) /\ (cls.oh => IsOneHot(th))
      [] cls.c = "stale"     -> IsProb(th)
      [] OTHER               -> FALSE

\* which candidates can be the largest entry of a vector of this class
MaxCandidates(cls, n) ==
    IF cls.c \in {"onehot", "soft"} THEN {cls.at} ELSE 1..n

(***************************************************************************)
(* Samplers.                                                               *)
(* kind  "mps" : MPSBaseQtz.sample_alpha_{sm,gs,none}                      *)
(*       "sn"  : SuperNetCombiner.sample_alpha_{sm,gs}                     *)
(* im    the implementation variant, a record                              *)
(*   smp "asis": transcription of the code;  "ref": what the property      *)
(*       states.  The only difference: SuperNetCombiner.sample_alpha_sm    *)
(*       tests `if self.hard_softmax` where MPS tests `if hard or not      *)
(*       training` (finding KF_SNEvalSoft below).                          *)
(*       "skipflag" / "skipver": two DEFECTIVE variants kept as sanity     *)
(*       models (they must violate the invariants): an inference-time      *)
(*       short cut that returns early from a sampling step made in eval    *)
(*       mode under torch.no_grad() when an earlier such step has cached   *)
(*       theta_alpha - the cache being invalidated by option updates and   *)
(*       by training / grad-enabled sampling only ("skipflag"), or by a    *)
(*       change of alpha._version only ("skipver"; an assignment to        *)
(*       alpha.data does not change it).                                   *)
(*       "trainonly": a third DEFECTIVE sanity variant: the forward pass   *)
(*       re-samples only while alpha is trainable ("avoid useless sampling *)
(*       while the architectural parameters are frozen").                  *)
(*   sum TRUE : SuperNetCombiner.summary() re-samples before reporting     *)
(*       (the pinned code, finding KF_SNSummaryResamples; repaired since)  *)
(*   exp TRUE : export() of a whole model leaves the eval-mode sample of   *)
(*       its shape-propagation pass in theta_alpha (pinned code; repaired) *)
(* r = ranking (or logged alpha) of ONE channel, old = previous class.     *)
(***************************************************************************)
Impl(smp, sum, exp) == [smp |-> smp, sum |-> sum, exp |-> exp]
Skips == {"skipflag", "skipver"}
EvalIsHard(kind, im) == kind = "mps" \/ im.smp # "asis"

SampleSM(kind, im, hard, training, r) ==
    IF hard \/ (EvalIsHard(kind, im) /\ ~training) THEN OneHot(ArgMax(r)) ELSE Soft(ArgMax(r))

Sample(kind, im, sampler, hard, training, r, old) ==
    CASE sampler = "none"            -> old                         \* sample_alpha_none: return
      [] sampler = "gs" /\ training  -> Prob(hard)                  \* F.gumbel_softmax(alpha, tau, hard)
      [] OTHER                       -> SampleSM(kind, im, hard, training, r)

(***************************************************************************)
(* Sampler in force after update_softmax_options(<one option>) of MPS.     *)
(* optimpl "pinned": the code of the pinned commit                         *)
(*     if disable_sampling is not None and disable_sampling: none          *)
(*     elif gumbel is not None and gumbel: gs                              *)
(*     else: sm                      (an update that does not name them    *)
(*                                    resets gumbel/disable: finding F08,  *)
(*                                    owned by C11; repaired since)        *)
(* optimpl "fixed": the two flags are stored.                              *)
(* C10 conditions its claims on the sampler actually in force, so it must  *)
(* hold under both.  gum/dis = last explicitly given values.               *)
(***************************************************************************)
FromFlags(gum, dis) == IF dis THEN "none" ELSE IF gum THEN "gs" ELSE "sm"

SamplerAfter(optimpl, opt, v, gum, dis) ==
    LET g == IF opt = "gumbel"  THEN v ELSE gum
        d == IF opt = "disable" THEN v ELSE dis
    IN  IF optimpl = "fixed" THEN FromFlags(g, d)
        ELSE IF opt = "disable" /\ v THEN "none"
        ELSE IF opt = "gumbel" /\ v THEN "gs"
        ELSE "sm"

(***************************************************************************)
(* State of one decision point and its steps.                              *)
(*  rank    : sequence (one entry per channel) of rankings                 *)
(*  theta   : sequence (one entry per channel) of classes                  *)
(*  fresh   : theta was produced by the last step from the current         *)
(*            coefficients, options and mode ("after a forward pass")      *)
(*  sampled : some sampling step has produced theta                        *)
(*  lastinf : GRAD MODE / mode of the most recent sampling step: it was an *)
(*            inference step (eval mode under torch.no_grad()).  A history *)
(*            variable: it does not influence the correct variants, but    *)
(*            it keeps "an inference pass, then writes to alpha, then      *)
(*            another inference pass" apart from the same calls after a    *)
(*            training pass, so that the covering walk executes both.      *)
(*  skip    : (defective variants only) the inference cache is valid       *)
(*  sel     : TRAINABILITY of the coefficients (alpha.requires_grad):      *)
(*            SuperNetCombiner.train_selection, DNAS.train_net_only() /    *)
(*            train_nas_only() / train_net_and_nas().  Freezing alpha      *)
(*            (warm-up, fine-tuning) must not change what a forward pass   *)
(*            samples: no step below reads it, except the optimizer step   *)
(*            (which only moves trainable tensors) - and "trainonly".      *)
(***************************************************************************)
Chan(s) == DOMAIN s.rank

SampleAll(kind, im, s) ==
    [c \in Chan(s) |-> Sample(kind, im, s.sampler, s.hard, s.training, s.rank[c], s.theta[c])]

DoSample(kind, im, s) ==
    [s EXCEPT !.theta = SampleAll(kind, im, s),
              !.fresh = TRUE,
              !.sampled = (s.sampled \/ s.sampler # "none")]

\* Under "pinned" no flag is stored: gum/dis are kept canonical (derived from the sampler in force).
Canon(optimpl, s) ==
    IF optimpl = "fixed" THEN s
    ELSE [s EXCEPT !.gum = (s.sampler = "gs"), !.dis = (s.sampler = "none")]

\* update_softmax_options(opt = v), opt in {"temp","hard","gumbel","disable"}
DoOption(kind, im, optimpl, s, opt, v) ==
    LET s1 == [s EXCEPT !.fresh = FALSE, !.skip = IF im.smp = "skipflag" THEN FALSE ELSE s.skip] IN
    IF kind = "sn"
    THEN \* SuperNet.update_softmax_options: temperature and hard only; sampler fixed at construction
         CASE opt = "temp" -> [s1 EXCEPT !.temp = v]
           [] opt = "hard" -> [s1 EXCEPT !.hard = v]
           [] OTHER        -> s1
    ELSE LET s2 == CASE opt = "temp"    -> [s1 EXCEPT !.temp = v]
                     [] opt = "hard"    -> [s1 EXCEPT !.hard = v]
                     [] opt = "gumbel"  -> [s1 EXCEPT !.gum = v]
                     [] opt = "disable" -> [s1 EXCEPT !.dis = v]
                     [] OTHER           -> s1
         IN  Canon(optimpl, [s2 EXCEPT !.sampler = SamplerAfter(optimpl, opt, v, s.gum, s.dis)])

DoMode(s, training) == [s EXCEPT !.training = training, !.fresh = FALSE]

\* freeze / unfreeze the coefficients.  how = the call that does it:
\*   "freeze_attr" / "unfreeze_attr" : combiner.train_selection = v, SuperNet.train_selection = v,
\*                                     alpha.requires_grad = v on a bare quantiser
\*   "net_only" / "nas_only" / "net_and_nas" : DNAS.train_net_only() / train_nas_only() / train_net_and_nas()
\* theta_alpha, the options and the mode are not touched.
SelHowsAll == {"freeze_attr", "unfreeze_attr", "net_only", "nas_only", "net_and_nas"}
SelAfter(how) == how \notin {"freeze_attr", "net_only"}
DoSetSel(s, how) == [s EXCEPT !.sel = SelAfter(how)]

(***************************************************************************)
(* Writes to the coefficients.  wk = how alpha is written:                 *)
(*   "copy"  with torch.no_grad(): alpha.copy_(new)       (in place)       *)
(*   "data"  alpha.data = new                 (alpha._version unchanged)   *)
(*   "optim" optimizer.step() with a gradient that moves alpha to new      *)
(*   "load"  load_state_dict(checkpoint): see DoLoad                       *)
(* All of them only replace the coefficients (the correct variants do not  *)
(* distinguish them); theta_alpha keeps its value until the next sampling. *)
(***************************************************************************)
WriteKinds == {"copy", "data", "optim"}
BumpsVersion(wk) == wk # "data"

DoSetAlpha(im, s, rk, wk) ==
    [s EXCEPT !.rank = rk, !.fresh = FALSE,
              !.skip = IF im.smp = "skipver" /\ BumpsVersion(wk) THEN FALSE ELSE s.skip]

\* class of the theta_alpha buffer stored in a checkpoint that was taken after a sampling step of kind ck
\* with the checkpoint's coefficients r
CkptKinds == {"onehot", "soft", "probF", "probT"}
CkptClass(ck, r) == CASE ck = "onehot" -> OneHot(ArgMax(r))
                      [] ck = "soft"   -> Soft(ArgMax(r))
                      [] ck = "probF"  -> Prob(FALSE)
                      [] OTHER         -> Prob(TRUE)

\* load_state_dict(checkpoint of an object of the same type in ANOTHER state: coefficients rk, theta_alpha of
\* classes cls, temperature t).  An MPS quantiser registers alpha (parameter), theta_alpha and temperature
\* (buffers): all three are loaded.  A SuperNetCombiner registers alpha only.  The sampling options (hard,
\* gumbel, disable) and the mode are plain attributes and stay.
DoLoad(kind, im, s, rk, cls, t) ==
    LET s1 == DoSetAlpha(im, s, rk, "load") IN
    IF kind = "sn" THEN s1
    ELSE [s1 EXCEPT !.theta = cls, !.temp = t, !.sampled = TRUE]

\* a forward pass; g = grad mode (TRUE: enabled, FALSE: under torch.no_grad())
DoForward(kind, im, s, g) ==
    LET inference == ~s.training /\ ~g IN
    IF s.sampler = "none" THEN DoSample(kind, im, s)                       \* nothing is sampled
    ELSE IF im.smp = "trainonly" /\ ~s.sel THEN [s EXCEPT !.fresh = TRUE]  \* defective: frozen alpha is not re-sampled
    ELSE IF im.smp \in Skips /\ s.skip /\ inference
    THEN [s EXCEPT !.fresh = TRUE]                                          \* defective: early return
    ELSE [DoSample(kind, im, s) EXCEPT !.lastinf = inference,
                                       !.skip = (im.smp \in Skips /\ inference)]

\* summary(): MPS reads alpha; the pinned SuperNetCombiner.summary() called sample_alpha() first
DoSummary(kind, im, s) == IF kind = "sn" /\ im.sum THEN DoSample(kind, im, s) ELSE s
\* export() reads alpha only.  The pinned export() of a whole model re-traced the network in eval mode and
\* propagated the example input through it (ShapeProp), leaving one eval-mode sample in theta_alpha
\* (side effects of observers are property C18; repaired since: theta_alpha is put back).
DoExport(kind, im, ctor, s) ==
    IF ctor = "model" /\ im.exp
    THEN LET e == DoSample(kind, im, [s EXCEPT !.training = FALSE])
         IN  [e EXCEPT !.training = s.training, !.fresh = ~s.training]
    ELSE s

(***************************************************************************)
(* The object right after construction.                                    *)
(*  ctor "bare" : a quantiser / combiner built directly.  MPS quantisers   *)
(*                call update_softmax_options(all four) and then sample    *)
(*                once (alpha = precision / max precision, rk0).  A        *)
(*                SuperNetCombiner starts with TIED coefficients, which    *)
(*                the property excludes: its initial state includes the    *)
(*                first assignment of tie-free coefficients rk0; theta     *)
(*                aliases alpha and has not been sampled.                  *)
(*  ctor "model": a decision point inside MPS(...) / SuperNet(...): the    *)
(*                conversion runs a dummy inference with other options     *)
(*                (MPS: in eval mode under no_grad), so theta is a stale   *)
(*                sample.                                                  *)
(***************************************************************************)
InitState(kind, im, optimpl, ctor, rk0, hard, gum, dis, t, sel) ==
    LET g  == gum
        d  == IF kind = "sn" THEN FALSE ELSE dis       \* a combiner has no disable option
        s0 == Canon(optimpl,
                    [rank |-> rk0, hard |-> hard, gum |-> g, dis |-> d, sampler |-> FromFlags(g, d),
                     training |-> TRUE, temp |-> t,
                     theta |-> [c \in DOMAIN rk0 |-> Unsampled], fresh |-> FALSE, sampled |-> FALSE,
                     lastinf |-> FALSE, skip |-> FALSE, sel |-> sel])
    IN  CASE ctor = "model" -> [s0 EXCEPT !.theta = [c \in DOMAIN rk0 |-> Stale], !.sampled = TRUE,
                                          !.lastinf = (kind = "mps")]
          [] kind = "sn"    -> s0
          [] OTHER          -> DoSample(kind, im, s0)

(***************************************************************************)
(* What summary() can designate and what export() keeps.                   *)
(* MPS: selected_*_precision = precision[argmax(alpha)].                   *)
(* SuperNet: summary() reports normalised coefficients; the designated     *)
(* branch is the largest reported one (pinned code: of a fresh sample).    *)
(* export() keeps best_layer_index() = argmax(alpha).                      *)
(***************************************************************************)
ReportSet(kind, im, s, c) ==
    IF kind = "sn" /\ im.sum
    THEN MaxCandidates(DoSample(kind, im, s).theta[c], Len(s.rank[c]))
    ELSE {ArgMax(s.rank[c])}
ExportChoice(s, c) == ArgMax(s.rank[c])

(***************************************************************************)
(* Named deviations of the pinned tree from the property (known-finding    *)
(* signatures; evaluated on model states here and on observed flags in     *)
(* SelectionTrace).                                                        *)
(*  KF_SNEvalSoft        : SuperNet, eval mode, hard_softmax = False:      *)
(*                         theta is the soft-max, not a one-hot            *)
(*  KF_SNSummaryResamples: SuperNet, training mode, Gumbel sampler:        *)
(*                         summary() reports a fresh noisy sample whose    *)
(*                         largest entry need not be argmax(alpha)         *)
(*                         (repaired in the tree; the signature stays so   *)
(*                         that a regression is recognised and, not being  *)
(*                         listed as open, reported as a violation)        *)
(***************************************************************************)
KF_SNEvalSoft(kind, training, hard)            == kind = "sn" /\ ~training /\ ~hard
KF_SNSummaryResamples(kind, training, sampler) == kind = "sn" /\ training /\ sampler = "gs"

(***************************************************************************)
(* The property, on one channel of a state (design level).                 *)
(***************************************************************************)
\* deterministic regime: eval mode, or training with hard non-Gumbel sampling
Deterministic(sampler, hard, training) ==
    sampler # "none" /\ (~training \/ (hard /\ sampler = "sm"))

ProbOK(s, c)   == s.sampled => s.theta[c].c \in {"onehot", "soft", "prob", "stale"}
OneHotOK(kind, s, c, allowKF) ==
    (s.fresh /\ Deterministic(s.sampler, s.hard, s.training)) =>
        \/ s.theta[c] = OneHot(ArgMax(s.rank[c]))
        \/ allowKF /\ KF_SNEvalSoft(kind, s.training, s.hard) /\ s.theta[c] = Soft(ArgMax(s.rank[c]))
GumbelOK(s, c) ==
    (s.fresh /\ s.sampler = "gs" /\ s.training) => s.theta[c] = Prob(s.hard)
SoftOK(s, c)   ==
    (s.fresh /\ s.sampler = "sm" /\ s.training /\ ~s.hard) => s.theta[c] = Soft(ArgMax(s.rank[c]))
ReportOK(kind, im, s, c, allowKF) ==
    \/ ReportSet(kind, im, s, c) = {ArgMax(s.rank[c])}
    \/ allowKF /\ KF_SNSummaryResamples(kind, s.training, s.sampler)
ExportOK(s, c) == ExportChoice(s, c) = ArgMax(s.rank[c])
\* after a forward pass theta is what the sampler in force gives for the current coefficients, options and mode -
\* whatever the trainability of alpha, the grad mode and the history (im0 = the variant without its defects)
SampleOK(kind, im, s, c) ==
    LET im0 == [im EXCEPT !.smp = IF im.smp = "ref" THEN "ref" ELSE "asis"] IN
    (s.fresh /\ s.sampler # "none") =>
        s.theta[c] = Sample(kind, im0, s.sampler, s.hard, s.training, s.rank[c], s.theta[c])
=============================================================================
