------------------------------ MODULE Selection ------------------------------
(***************************************************************************)
(* Decision points of MPS (MPSPerLayerQtz / MPSPerChannelQtz) and SuperNet *)
(* (SuperNetCombiner): what is evaluated (theta_alpha after a forward      *)
(* pass), what summary() reports and what export() materialises            *)
(* (property C10).                                                         *)
(*                                                                         *)
(* A decision point has N candidates and, per channel (1 channel for the   *)
(* per-layer form and for SuperNet), a raw coefficient vector alpha.  In   *)
(* the design model alpha is abstracted to a RANKING (a permutation of     *)
(* 1..N, larger = larger coefficient); in traces alpha is the logged       *)
(* vector of integers (alpha x 10^4).  ArgMax works on both.               *)
(*                                                                         *)
(* The sampled vector theta_alpha is abstracted to a CLASS                 *)
(*   unsampled      never produced by a sampling step                      *)
(*   onehot(i)      exact one-hot at candidate i                           *)
(*   soft(i)        probability vector whose largest entry is i            *)
(*   prob(h)        probability vector (Gumbel noise), one-hot at an       *)
(*                  arbitrary index iff h                                  *)
(*   stale          a probability vector sampled earlier for other         *)
(*                  coefficients / options (whole models right after       *)
(*                  conversion); nothing else is known                     *)
(* and in traces it is the logged vector of integers (theta x 10^6); the   *)
(* operator Satisfies links the two.                                       *)
(*                                                                         *)
(* Variable-free operator library; SelectionMC / SelectionTrace use it.    *)
(***************************************************************************)
EXTENDS Naturals, Integers, Sequences, FiniteSets

Range(s) == {s[i] : i \in DOMAIN s}

RECURSIVE SumFrom(_, _)
SumFrom(s, i) == IF i > Len(s) THEN 0 ELSE s[i] + SumFrom(s, i + 1)
Sum(s)   == SumFrom(s, 1)
RECURSIVE MaxFrom(_, _, _)
MaxFrom(s, i, m) == IF i > Len(s) THEN m ELSE MaxFrom(s, i + 1, IF s[i] > m THEN s[i] ELSE m)
MaxOf(s) == MaxFrom(s, 2, s[1])
Abs(x)   == IF x < 0 THEN -x ELSE x

\* indices of the largest entries; the property quantifies over tie-free vectors
ArgMaxSet(s) == LET m == MaxOf(s) IN {i \in DOMAIN s : s[i] = m}
TieFree(s)   == Cardinality(ArgMaxSet(s)) = 1
ArgMax(s)    == CHOOSE i \in ArgMaxSet(s) : TRUE
\* pairwise gaps of a logged coefficient vector (x 10^4) are at least g
GapsAtLeast(s, g) == \A i, j \in DOMAIN s : i # j => Abs(s[i] - s[j]) >= g

\* all permutations of 1..n as sequences (rankings)
RECURSIVE PermsOf(_)
PermsOf(S) == IF S = {} THEN {<<>>}
              ELSE UNION {{<<x>> \o t : t \in PermsOf(S \ {x})} : x \in S}
Rankings(n) == PermsOf(1..n)

(***************************************************************************)
(* Observed theta vectors (integers, theta x 10^6).                        *)
(* Tolerances (stated): each entry within EPS = 2 units (2e-6) of 0 / 1    *)
(* for "one-hot" (hard Gumbel computes 1 - y + y in float32); the sum      *)
(* within TOL = 16 units (1.6e-5) of 1 (<= 8 entries rounded to integers   *)
(* plus float32 round-off of the soft-max).                                *)
(***************************************************************************)
One == 1000000
EPS == 2
TOL == 16

IsProb(th)        == /\ Len(th) >= 1
                     /\ \A i \in DOMAIN th : th[i] >= 0 /\ th[i] <= One + EPS
                     /\ Abs(Sum(th) - One) <= TOL
IsOneHotAt(th, i) == /\ i \in DOMAIN th
                     /\ Abs(th[i] - One) <= EPS
                     /\ \A j \in DOMAIN th : j # i => Abs(th[j]) <= EPS
IsOneHot(th)      == \E i \in DOMAIN th : IsOneHotAt(th, i)

(***************************************************************************)
(* theta classes                                                           *)
(***************************************************************************)
Unsampled  == [c |-> "unsampled", at |-> 0, oh |-> FALSE]
OneHot(i)  == [c |-> "onehot",    at |-> i, oh |-> TRUE]
Soft(i)    == [c |-> "soft",      at |-> i, oh |-> FALSE]
Prob(h)    == [c |-> "prob",      at |-> 0, oh |-> h]
Stale      == [c |-> "stale",     at |-> 0, oh |-> FALSE]
Classes(n) == {Unsampled, Stale} \cup {OneHot(i) : i \in 1..n} \cup {Soft(i) : i \in 1..n}
                \cup {Prob(h) : h \in BOOLEAN}

\* does an observed vector belong to a class
Satisfies(th, cls) ==
    CASE cls.c = "unsampled" -> TRUE
      [] cls.c = "onehot"    -> IsOneHotAt(th, cls.at)
      [] cls.c = "soft"      -> IsProb(th) /\ ArgMaxSet(th) = {cls.at}
      [] cls.c = "prob"      -> IsProb(th) /\ (cls.oh => IsOneHot(th))
      [] cls.c = "stale"     -> IsProb(th)
      [] OTHER               -> FALSE

\* which candidates can be the largest entry of a vector of this class
MaxCandidates(cls, n) ==
    IF cls.c \in {"onehot", "soft"} THEN {cls.at} ELSE 1..n

(***************************************************************************)
(* Samplers.                                                               *)
(* kind  "mps" : MPSBaseQtz.sample_alpha_{sm,gs,none}                      *)
(*       "sn"  : SuperNetCombiner.sample_alpha_{sm,gs}                     *)
(* impl  "asis": transcription of the code;  "ref": what the property      *)
(*       states.  The only difference: SuperNetCombiner.sample_alpha_sm    *)
(*       tests `if self.hard_softmax` where MPS tests `if hard or not      *)
(*       training` (finding KF_SNEvalSoft below).                          *)
(* r = ranking (or logged alpha) of ONE channel, old = previous class.     *)
(***************************************************************************)
EvalIsHard(kind, impl) == kind = "mps" \/ impl = "ref"

SampleSM(kind, impl, hard, training, r) ==
    IF hard \/ (EvalIsHard(kind, impl) /\ ~training) THEN OneHot(ArgMax(r)) ELSE Soft(ArgMax(r))

Sample(kind, impl, sampler, hard, training, r, old) ==
    CASE sampler = "none"            -> old                         \* sample_alpha_none: return
      [] sampler = "gs" /\ training  -> Prob(hard)                  \* F.gumbel_softmax(alpha, tau, hard)
      [] OTHER                       -> SampleSM(kind, impl, hard, training, r)

(***************************************************************************)
(* Sampler in force after update_softmax_options(<one option>) of MPS.     *)
(* optimpl "pinned": the code of the pinned commit                         *)
(*     if disable_sampling is not None and disable_sampling: none          *)
(*     elif gumbel is not None and gumbel: gs                              *)
(*     else: sm                      (an update that does not name them    *)
(*                                    resets gumbel/disable: finding F08,  *)
(*                                    owned by C11)                        *)
(* optimpl "fixed": the two flags are stored (candidate repair of F08).    *)
(* C10 conditions its claims on the sampler actually in force, so it must  *)
(* hold under both.  gum/dis = last explicitly given values.               *)
(***************************************************************************)
FromFlags(gum, dis) == IF dis THEN "none" ELSE IF gum THEN "gs" ELSE "sm"

SamplerAfter(optimpl, opt, v, gum, dis) ==
    LET g == IF opt = "gumbel"  THEN v ELSE gum
        d == IF opt = "disable" THEN v ELSE dis
    IN  IF optimpl = "fixed" THEN FromFlags(g, d)
        ELSE IF opt = "disable" /\ v THEN "none"
        ELSE IF opt = "gumbel" /\ v THEN "gs"
        ELSE "sm"

(***************************************************************************)
(* State of one decision point and its steps.                              *)
(*  rank    : sequence (one entry per channel) of rankings                 *)
(*  theta   : sequence (one entry per channel) of classes                  *)
(*  fresh   : theta was produced by the last step from the current         *)
(*            coefficients, options and mode ("after a forward pass")      *)
(*  sampled : some sampling step has produced theta                        *)
(***************************************************************************)
Chan(s) == DOMAIN s.rank

SampleAll(kind, impl, s) ==
    [c \in Chan(s) |-> Sample(kind, impl, s.sampler, s.hard, s.training, s.rank[c], s.theta[c])]

DoSample(kind, impl, s) ==
    [s EXCEPT !.theta = SampleAll(kind, impl, s),
              !.fresh = TRUE,
              !.sampled = (s.sampled \/ s.sampler # "none")]

\* Under "pinned" no flag is stored: gum/dis are kept canonical (derived from the sampler in force).
Canon(optimpl, s) ==
    IF optimpl = "fixed" THEN s
    ELSE [s EXCEPT !.gum = (s.sampler = "gs"), !.dis = (s.sampler = "none")]

\* update_softmax_options(opt = v), opt in {"temp","hard","gumbel","disable"}
DoOption(kind, optimpl, s, opt, v) ==
    LET s1 == [s EXCEPT !.fresh = FALSE] IN
    IF kind = "sn"
    THEN \* SuperNet.update_softmax_options: temperature and hard only; sampler fixed at construction
         CASE opt = "temp" -> [s1 EXCEPT !.temp = v]
           [] opt = "hard" -> [s1 EXCEPT !.hard = v]
           [] OTHER        -> s1
    ELSE LET s2 == CASE opt = "temp"    -> [s1 EXCEPT !.temp = v]
                     [] opt = "hard"    -> [s1 EXCEPT !.hard = v]
                     [] opt = "gumbel"  -> [s1 EXCEPT !.gum = v]
                     [] opt = "disable" -> [s1 EXCEPT !.dis = v]
                     [] OTHER           -> s1
         IN  Canon(optimpl, [s2 EXCEPT !.sampler = SamplerAfter(optimpl, opt, v, s.gum, s.dis)])

DoMode(s, training)    == [s EXCEPT !.training = training, !.fresh = FALSE]
DoSetAlpha(s, rk)      == [s EXCEPT !.rank = rk, !.fresh = FALSE]
DoForward(kind, impl, s) == DoSample(kind, impl, s)
\* summary(): MPS reads alpha; SuperNetCombiner.summary() as implemented calls sample_alpha() first
DoSummary(kind, impl, s) == IF kind = "sn" /\ impl = "asis" THEN DoSample(kind, impl, s) ELSE s
\* export() reads alpha only.  As implemented, export() of a whole model re-traces the network in eval mode
\* and propagates the example input through it (ShapeProp): one eval-mode sampling step as a side effect
\* (side effects of observers are property C18); the harness restores the training flag afterwards.
DoExport(kind, impl, ctor, s) ==
    IF ctor = "model" /\ impl = "asis"
    THEN LET e == DoSample(kind, impl, [s EXCEPT !.training = FALSE])
         IN  [e EXCEPT !.training = s.training, !.fresh = ~s.training]
    ELSE s

(***************************************************************************)
(* The object right after construction.                                    *)
(*  ctor "bare" : a quantiser / combiner built directly.  MPS quantisers   *)
(*                call update_softmax_options(all four) and then sample    *)
(*                once (alpha = precision / max precision, rk0).  A        *)
(*                SuperNetCombiner starts with TIED coefficients, which    *)
(*                the property excludes: its initial state includes the    *)
(*                first assignment of tie-free coefficients rk0; theta     *)
(*                aliases alpha and has not been sampled.                  *)
(*  ctor "model": a decision point inside MPS(...) / SuperNet(...): the    *)
(*                conversion runs a dummy inference with other options,    *)
(*                so theta is a stale sample.                              *)
(***************************************************************************)
InitState(kind, impl, optimpl, ctor, rk0, hard, gum, dis, t) ==
    LET g  == gum
        d  == IF kind = "sn" THEN FALSE ELSE dis       \* a combiner has no disable option
        s0 == Canon(optimpl,
                    [rank |-> rk0, hard |-> hard, gum |-> g, dis |-> d, sampler |-> FromFlags(g, d),
                     training |-> TRUE, temp |-> t,
                     theta |-> [c \in DOMAIN rk0 |-> Unsampled], fresh |-> FALSE, sampled |-> FALSE])
    IN  CASE ctor = "model" -> [s0 EXCEPT !.theta = [c \in DOMAIN rk0 |-> Stale], !.sampled = TRUE]
          [] kind = "sn"    -> s0
          [] OTHER          -> DoSample(kind, impl, s0)

(***************************************************************************)
(* What summary() can designate and what export() keeps.                   *)
(* MPS: selected_*_precision = precision[argmax(alpha)].                   *)
(* SuperNet: summary() reports the coefficients it has just re-sampled;    *)
(* the designated branch is the largest reported one.  export() keeps      *)
(* best_layer_index() = argmax(alpha).                                     *)
(***************************************************************************)
ReportSet(kind, impl, s, c) ==
    IF kind = "sn" /\ impl = "asis"
    THEN MaxCandidates(DoSample(kind, impl, s).theta[c], Len(s.rank[c]))
    ELSE {ArgMax(s.rank[c])}
ExportChoice(s, c) == ArgMax(s.rank[c])

(***************************************************************************)
(* Named deviations of the pinned tree from the property (known-finding    *)
(* signatures; evaluated on model states here and on observed flags in     *)
(* SelectionTrace).                                                        *)
(*  KF_SNEvalSoft        : SuperNet, eval mode, hard_softmax = False:      *)
(*                         theta is the soft-max, not a one-hot            *)
(*  KF_SNSummaryResamples: SuperNet, training mode, Gumbel sampler:        *)
(*                         summary() reports a fresh noisy sample whose    *)
(*                         largest entry need not be argmax(alpha)         *)
(***************************************************************************)
KF_SNEvalSoft(kind, training, hard)            == kind = "sn" /\ ~training /\ ~hard
KF_SNSummaryResamples(kind, training, sampler) == kind = "sn" /\ training /\ sampler = "gs"

(***************************************************************************)
(* The property, on one channel of a state (design level).                 *)
(***************************************************************************)
\* deterministic regime: eval mode, or training with hard non-Gumbel sampling
Deterministic(sampler, hard, training) ==
    sampler # "none" /\ (~training \/ (hard /\ sampler = "sm"))

ProbOK(s, c)   == s.sampled => s.theta[c].c \in {"onehot", "soft", "prob", "stale"}
OneHotOK(kind, s, c, allowKF) ==
    (s.fresh /\ Deterministic(s.sampler, s.hard, s.training)) =>
        \/ s.theta[c] = OneHot(ArgMax(s.rank[c]))
        \/ allowKF /\ KF_SNEvalSoft(kind, s.training, s.hard) /\ s.theta[c] = Soft(ArgMax(s.rank[c]))
GumbelOK(s, c) ==
    (s.fresh /\ s.sampler = "gs" /\ s.training) => s.theta[c] = Prob(s.hard)
SoftOK(s, c)   ==
    (s.fresh /\ s.sampler = "sm" /\ s.training /\ ~s.hard) => s.theta[c] = Soft(ArgMax(s.rank[c]))
ReportOK(kind, impl, s, c, allowKF) ==
    \/ ReportSet(kind, impl, s, c) = {ArgMax(s.rank[c])}
    \/ allowKF /\ KF_SNSummaryResamples(kind, s.training, s.sampler)
ExportOK(s, c) == ExportChoice(s, c) = ArgMax(s.rank[c])
=============================================================================
