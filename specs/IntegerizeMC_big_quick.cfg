SPECIFICATION Spec
CONSTANTS
  Impl = "ref"
  Mode = "big"
  InBits = {0}
  OutBits = {0}
  WVals <- None1
  BVals <- None1
  Targets <- T_none
  ScaleBits = {0}
  ShiftPoss = {0}
  BigVals <- Big_quick
  BigShifts = {0, 14, 15, 29}
INVARIANT BigRoundTrip
INVARIANT BigAddOK
INVARIANT BigCmpOK
INVARIANT BigMulOK
INVARIANT BigShiftOK
